import SslModel.Lemmas.Mono
import SslModel.Thm.C11
/-!
# C11 — a mapped iterator yields `f(x₁) … f(xₙ)`, pulling lazily and exactly once

`Thm/C11.lean` proves that creating `it @ g` pulls nothing and that the consumers (`$]`, the reducers, `for`)
are the folds of the documentation over whatever their source yields (`Pulls`).  This file closes the gap between
the two for `@`: the closure text of `bin_op/map.rs` (`mapBody`), run by the reference evaluator, makes ONE call of
the source per pull and - only when the source yielded an element - ONE call of the mapper on it, in that order
(`map_pull_some`, `map_pull_none`); therefore for every run `MapRun` (any length, any effects of source and mapper
on the store, threaded in order) the mapped iterator `Pulls` exactly the mapper's results (`map_pulls`), and
`(it @ g) $]` is the array of them (`map_collect`).  Fuel: the hypotheses are stated at any fuel `f` at which
the source and mapper calls complete; monotonicity (`Lemmas/Mono.lean`) lifts them to the fuel the closure body
leaves them.
-/
namespace Ssl.C11
open Ssl Ssl.Spec

theorem callFn_lift {fv : Val} {args : List Val} {σ σ' : St} {v : Val} {f : Nat} (g : Nat)
    (h : callFn f fv args σ = (.ok v, σ')) (hle : f ≤ g) : callFn g fv args σ = (.ok v, σ') := by
  have := (((monoAt_le f g hle).callFn fv args).apply σ).eq_of_not_fuel (by intro σ1 h1; rw [h] at h1; cases h1)
  rw [this, h]

theorem eval_var (f : Nat) (env : Env) (x : String) : eval (f + 1) env (.var x) =
    (match env.lookup x with
     | some v => pure v
     | none => wrong (toString "unbound variable " ++ toString x)) := by first | (simp only [eval]; done) | (simp only [eval]; rfl)
theorem eval_call (f : Nat) (env : Env) (g : Expr) (args : List Expr) : eval (f + 1) env (.call g args) =
    (do let fv ← eval f env g
        let vs ← evalList f env args
        callFn f fv vs) := by first | (simp only [eval]; done) | (simp only [eval]; rfl)
theorem eval_tuple (f : Nat) (env : Env) (es : List Expr) : eval (f + 1) env (.tuple es) =
    (do let vs ← evalList f env es
        pure (Val.tup vs)) := by first | (simp only [eval]; done) | (simp only [eval]; rfl)
theorem eval_ret (f : Nat) (env : Env) (e : Expr) : eval (f + 1) env (.ret (some e)) =
    (do let v ← eval f env e
        throwS (Sig.ret v)) := by first | (simp only [eval]; done) | (simp only [eval]; rfl)
theorem eval_if (f : Nat) (env : Env) (c t : Expr) : eval (f + 1) env (.ifElse c t none) =
    (do let c ← eval f env c
        let c ← liftE (asBool c)
        if c = true then eval f env t else pure Val.unit) := by first | (simp only [eval]; done) | (simp only [eval]; rfl)
theorem eval_not (f : Nat) (env : Env) (c : Expr) : eval (f + 1) env (.pre .not c) =
    (do let v ← eval f env c
        liftE (preScalar PreOp.not v)) := by first | (simp only [eval]; done) | (simp only [eval]; rfl)
theorem eval_litBool (f : Nat) (env : Env) (b : Bool) : eval (f + 1) env (.litBool b) = pure (.bool b) := by
  simp only [eval]

theorem pure_def {α} (a : α) (σ : St) : (pure a : M α) σ = (.ok a, σ) := rfl

def mapped (id : Nat) (r : Ty) (it g dflt : Val) : Val :=
  .fn id [] (.tup [.bool, r]) mapBody [("func", it), ("mapper", g), ("default", dflt)] none

def retHandler (s : Sig) : M Val :=
  match s with
  | Sig.ret v => pure v
  | Sig.brk => wrong "break outside of loop"
  | Sig.cont => wrong "continue outside of loop"
  | s => throwS s

theorem callFn_mapped (f id : Nat) (r : Ty) (it g dflt : Val) :
    callFn (f + 1) (mapped id r it g dflt) [] =
      tryCatchS (do let _ ← evalSeq f [[], [("func", it), ("mapper", g), ("default", dflt)]] mapBody; pure Val.unit)
        retHandler := by
  simp only [callFn, mapped, mapBody, calleeEnv]; rfl

theorem pull_lift {it : Val} {σ σ' : St} {v : Option Val} {f : Nat} (g : Nat)
    (h : pull f it σ = (.ok v, σ')) (hle : f ≤ g) : pull g it σ = (.ok v, σ') := by
  have := (((monoAt_le f g hle).pull it).apply σ).eq_of_not_fuel (by intro σ1 h1; rw [h] at h1; cases h1)
  rw [this, h]

/-- one call of `it @ g` when the source yields `x`: ONE call of the source, then ONE call of the mapper on `x`,
    in that order (the store threads σ → σ1 → σ2); the call returns `(true, g(x))`.  Stated for the CALL (not only
    the pull) so that the mapped iterator can itself be the source of the next operator of a chain -/
theorem map_call_some (f id : Nat) (r : Ty) (it g dflt x y : Val) (σ σ1 σ2 : St)
    (hs : callFn f it [] σ = (.ok (.tup [.bool true, x]), σ1))
    (hg : callFn f g [x] σ1 = (.ok y, σ2)) :
    callFn (f + 19) (mapped id r it g dflt) [] σ = (.ok (.tup [.bool true, y]), σ2) := by
  simp only [callFn_mapped, bind_def]
  simp only [mapBody, bind_def, evalSeq, evalStmt, evalStmtValue, eval_var, eval_call, evalList, tryCatchS]
  have h1 := callFn_lift (f + 14) hs (by omega)
  simp only [pure_def, Env.insert]
  simp [Env.lookup, frameLookup]
  simp only [pure_def, List.zip, eval_if, eval_not, eval_var, eval_ret, eval_tuple, eval_litBool,
    E_true, E_false, bind_def, evalList, eval_call]
  have h2 := callFn_lift (f + 8) hg (by omega)
  simp only [h1]
  simp [Env.lookup, frameLookup, pure_def, liftE, preScalar, asBool, throwS, retHandler, h2]

/-- one call of `it @ g` when the source is exhausted: ONE call of the source, NO call of the mapper -/
theorem map_call_none (f id : Nat) (r : Ty) (it g dflt : Val) (rest : List Val) (σ σ1 : St)
    (hs : callFn f it [] σ = (.ok (.tup (.bool false :: rest)), σ1)) :
    callFn (f + 19) (mapped id r it g dflt) [] σ = (.ok (.tup [.bool false, dflt]), σ1) := by
  simp only [callFn_mapped, bind_def]
  simp only [mapBody, bind_def, evalSeq, evalStmt, evalStmtValue, eval_var, eval_call, evalList, tryCatchS]
  have h1 := callFn_lift (f + 14) hs (by omega)
  simp only [pure_def, Env.insert]
  simp [Env.lookup, frameLookup]
  simp only [pure_def, List.zip, eval_if, eval_not, eval_var, eval_ret, eval_tuple, eval_litBool,
    E_true, E_false, bind_def, evalList, eval_call]
  simp only [h1]
  cases rest <;>
  simp [Env.lookup, frameLookup, pure_def, bind_def, liftE, preScalar, asBool, throwS, retHandler]

theorem map_pull_some (f id : Nat) (r : Ty) (it g dflt x y : Val) (σ σ1 σ2 : St)
    (hs : callFn f it [] σ = (.ok (.tup [.bool true, x]), σ1))
    (hg : callFn f g [x] σ1 = (.ok y, σ2)) :
    pull (f + 20) (mapped id r it g dflt) σ = (.ok (some y), σ2) := by
  simp only [pull, bind_def, map_call_some f id r it g dflt x y σ σ1 σ2 hs hg]; rfl

theorem map_pull_none (f id : Nat) (r : Ty) (it g dflt : Val) (rest : List Val) (σ σ1 : St)
    (hs : callFn f it [] σ = (.ok (.tup (.bool false :: rest)), σ1)) :
    pull (f + 20) (mapped id r it g dflt) σ = (.ok none, σ1) := by
  simp only [pull, bind_def, map_call_none f id r it g dflt rest σ σ1 hs]; rfl

/-- more fuel does not change what an iterator yields -/
theorem Pulls.lift {it : Val} {f g : Nat} {σ σ' : St} {xs : List Val} (h : Pulls it f σ xs σ') (hle : f ≤ g) :
    Pulls it g σ xs σ' := by
  induction h generalizing g with
  | @done f σ σ' hp =>
    obtain ⟨g', rfl⟩ : ∃ g', g = g' + 1 := ⟨g - 1, by omega⟩
    exact Pulls.done (pull_lift g' hp (by omega))
  | @more f σ σ1 σ' x xs hp _ ih =>
    obtain ⟨g', rfl⟩ : ∃ g', g = g' + 1 := ⟨g - 1, by omega⟩
    exact Pulls.more (pull_lift g' hp (by omega)) (ih (by omega))

/-- the run of a mapped iterator, element by element: the source is called, and only if it yielded an element
    the mapper is called on it, before the source is called again; `ys` are the mapper's results in order -/
inductive MapRun (it g : Val) (f : Nat) : St → List Val → St → Prop where
  | done {σ σ' : St} {rest : List Val} :
      callFn f it [] σ = (.ok (.tup (.bool false :: rest)), σ') → MapRun it g f σ [] σ'
  | more {σ σ1 σ2 σ' : St} {x y : Val} {ys : List Val} :
      callFn f it [] σ = (.ok (.tup [.bool true, x]), σ1) → callFn f g [x] σ1 = (.ok y, σ2) →
      MapRun it g f σ2 ys σ' → MapRun it g f σ (y :: ys) σ'

/-- `it @ g` yields `g(x₁) … g(xₙ)`: every pull sequence of the mapped iterator is the run above -/
theorem map_pulls (id : Nat) (r : Ty) (it g dflt : Val) (f : Nat) (σ σ' : St) (ys : List Val)
    (h : MapRun it g f σ ys σ') : Pulls (mapped id r it g dflt) (f + 21 + ys.length) σ ys σ' := by
  induction h with
  | done hs => exact Pulls.done (map_pull_none f id r it g dflt _ _ _ hs)
  | @more _ _ _ _ x y ys hs hg _ ih =>
    have hp := pull_lift (f + 21 + ys.length) (map_pull_some f id r it g dflt x y _ _ _ hs hg) (by omega)
    exact Pulls.more hp ih

/-- `(it @ g) $]` is `[g(x₁), …, g(xₙ)]` -/
theorem map_collect (id : Nat) (r : Ty) (it g dflt : Val) (f : Nat) (σ σ' : St) (ys acc : List Val)
    (h : MapRun it g f σ ys σ') :
    collectGo (f + 21 + ys.length) (mapped id r it g dflt) acc σ = (.ok (acc.reverse ++ ys), σ') :=
  collectGo_spec _ _ _ _ _ _ (map_pulls id r it g dflt f σ σ' ys h)

/-! ## `it ? p` yields the `xᵢ` with `p(xᵢ)`, in order -/

theorem eval_loop (f : Nat) (env : Env) (b : Expr) : eval (f + 1) env (.loop b) = loopGo f env b := by
  simp only [eval]
theorem eval_block (f : Nat) (env : Env) (b : List Expr) : eval (f + 1) env (.block b) =
    (do let __x ← evalSeq f ([] :: env) b
        pure __x.fst) := by first | (simp only [eval]; done) | (simp only [eval]; rfl)
theorem eval_or (f : Nat) (env : Env) (a b : Expr) : eval (f + 1) env (.or a b) =
    (do let x ← eval f env a
        let x ← liftE (asBool x)
        if x = true then pure (Val.bool true) else eval f env b) := by
  first | (simp only [eval]; done) | (simp only [eval]; rfl)

theorem lift_eq {α} {m m' : M α} (h : LeM m m') {σ : St} {r : Except Sig α × St} (hr : m σ = r)
    (hne : ∀ σ', r ≠ (.error .fuel, σ')) : m' σ = r := by
  have := (h.apply σ).eq_of_not_fuel (by intro σ1 h1; rw [hr] at h1; exact hne σ1 h1)
  rw [this, hr]

def filtered (id : Nat) (r : Ty) (it p : Val) : Val :=
  .fn id [] r filterBody [("func", it), ("predicate", p)] none

def fenv (it p : Val) : Env := [[], [("func", it), ("predicate", p)]]
def fbody : Expr := .block
      [ .set "res" (.call (.var "func") []),
        .destruct ["con", "value"] (.var "res"),
        .ifElse (.or (.pre .not (.var "con")) (.call (.var "predicate") [.var "value"]))
          (.ret (some (.var "res"))) none ]

theorem filter_body_done (f : Nat) (it p : Val) (rest : List Val) (σ σ1 : St)
    (hs : callFn f it [] σ = (.ok (.tup (.bool false :: rest)), σ1)) :
    bodyOnce (f + 20) (fenv it p) fbody σ = (.error (.ret (.tup (.bool false :: rest))), σ1) := by
  simp only [bodyOnce, fbody, fenv, eval_block, bind_def, tryCatchS]
  simp only [bind_def, evalSeq, evalStmt, evalStmtValue, eval_var, eval_call, evalList]
  have h1 := callFn_lift (f + 14) hs (by omega)
  simp only [pure_def, Env.insert]
  simp [Env.lookup, frameLookup]
  simp only [pure_def, List.zip, eval_if, eval_or, eval_not, eval_var, eval_ret,
    bind_def, evalList, eval_call]
  simp only [h1]
  cases rest <;>
  simp [Env.lookup, frameLookup, pure_def, bind_def, liftE, preScalar, asBool, throwS]

theorem filter_body_keep (f : Nat) (it p x : Val) (σ σ1 σ2 : St)
    (hs : callFn f it [] σ = (.ok (.tup [.bool true, x]), σ1))
    (hp : callFn f p [x] σ1 = (.ok (.bool true), σ2)) :
    bodyOnce (f + 20) (fenv it p) fbody σ = (.error (.ret (.tup [.bool true, x])), σ2) := by
  simp only [bodyOnce, fbody, fenv, eval_block, bind_def, tryCatchS]
  simp only [bind_def, evalSeq, evalStmt, evalStmtValue, eval_var, eval_call, evalList]
  have h1 := callFn_lift (f + 14) hs (by omega)
  simp only [pure_def, Env.insert]
  simp [Env.lookup, frameLookup]
  simp only [pure_def, List.zip, eval_if, eval_or, eval_not, eval_var, eval_ret,
    bind_def, evalList, eval_call]
  simp only [h1]
  have h2 := callFn_lift (f + 11) hp (by omega)
  simp [Env.lookup, frameLookup, pure_def, bind_def, liftE, preScalar, asBool, throwS, h2]

theorem filter_body_skip (f : Nat) (it p x : Val) (σ σ1 σ2 : St)
    (hs : callFn f it [] σ = (.ok (.tup [.bool true, x]), σ1))
    (hp : callFn f p [x] σ1 = (.ok (.bool false), σ2)) :
    bodyOnce (f + 20) (fenv it p) fbody σ = (.ok true, σ2) := by
  simp only [bodyOnce, fbody, fenv, eval_block, bind_def, tryCatchS]
  simp only [bind_def, evalSeq, evalStmt, evalStmtValue, eval_var, eval_call, evalList]
  have h1 := callFn_lift (f + 14) hs (by omega)
  simp only [pure_def, Env.insert]
  simp [Env.lookup, frameLookup]
  simp only [pure_def, List.zip, eval_if, eval_or, eval_not, eval_var, eval_ret,
    bind_def, evalList, eval_call]
  simp only [h1]
  have h2 := callFn_lift (f + 11) hp (by omega)
  simp [Env.lookup, frameLookup, pure_def, bind_def, liftE, preScalar, asBool, throwS, h2]

/-- one pull of `it ? p`, as a run: the source is called, then - only if it yielded an element - the predicate
    on it; elements the predicate rejects are skipped (`n` of them) before the tuple `t` that the source
    returned last (`(false, …)`, or `(true, x)` with `p(x)`) is passed on unchanged -/
inductive FilterLoop (it p : Val) (f : Nat) : St → Val → St → Nat → Prop where
  | done {σ σ' : St} {rest : List Val} :
      callFn f it [] σ = (.ok (.tup (.bool false :: rest)), σ') →
      FilterLoop it p f σ (.tup (.bool false :: rest)) σ' 0
  | keep {σ σ1 σ2 : St} {x : Val} :
      callFn f it [] σ = (.ok (.tup [.bool true, x]), σ1) → callFn f p [x] σ1 = (.ok (.bool true), σ2) →
      FilterLoop it p f σ (.tup [.bool true, x]) σ2 0
  | skip {σ σ1 σ2 σ' : St} {x t : Val} {n : Nat} :
      callFn f it [] σ = (.ok (.tup [.bool true, x]), σ1) → callFn f p [x] σ1 = (.ok (.bool false), σ2) →
      FilterLoop it p f σ2 t σ' n → FilterLoop it p f σ t σ' (n + 1)

theorem filter_loop (it p : Val) (f : Nat) (σ σ' : St) (t : Val) (n : Nat) (h : FilterLoop it p f σ t σ' n) :
    loopGo (f + 21 + n) (fenv it p) fbody σ = (.error (.ret t), σ') := by
  induction h with
  | done hs => simp only [loopGo, bind_def, filter_body_done f it p _ _ _ hs]
  | keep hs hp => simp only [loopGo, bind_def, filter_body_keep f it p _ _ _ _ hs hp]
  | @skip σ σ1 σ2 σ' x t n hs hp _ ih =>
    have hb := lift_eq ((monoAt_le (f + 20) (f + 21 + n) (by omega)).bodyOnce (fenv it p) fbody)
      (filter_body_skip f it p x σ σ1 σ2 hs hp) (by intro σ0 h0; cases h0)
    have : f + 21 + (n + 1) = (f + 21 + n) + 1 := by omega
    rw [this]
    simp only [loopGo, bind_def, hb]
    simpa using ih

theorem FilterLoop.shape {it p : Val} {f : Nat} {σ σ' : St} {t : Val} {n : Nat} (h : FilterLoop it p f σ t σ' n) :
    (∃ rest, t = .tup (.bool false :: rest)) ∨ (∃ x, t = .tup [.bool true, x]) := by
  induction h with
  | done _ => exact Or.inl ⟨_, rfl⟩
  | keep _ _ => exact Or.inr ⟨_, rfl⟩
  | skip _ _ _ ih => exact ih

def pullResult : Val → Option (Option Val)
  | .tup [.bool true, x] => some (some x)
  | .tup (.bool false :: _) => some none
  | _ => none

/-- one CALL of `it ? p` returns the source's last tuple (composable: the filtered iterator as a source) -/
theorem filter_call (id : Nat) (r : Ty) (it p : Val) (f : Nat) (σ σ' : St) (t : Val) (n : Nat)
    (h : FilterLoop it p f σ t σ' n) :
    callFn (f + 25 + n) (filtered id r it p) [] σ = (.ok t, σ') := by
  have hl := filter_loop it p f σ σ' t n h
  have e1 : f + 25 + n = (f + 21 + n) + 4 := by omega
  rw [e1]
  simp only [filtered, callFn, filterBody, calleeEnv, bind_def, tryCatchS, evalSeq, evalStmt, eval_loop]
  have hl' : loopGo (f + 21 + n) [[] ++ [], [("func", it), ("predicate", p)]] fbody σ = (.error (.ret t), σ') := hl
  simp only [fbody] at hl'
  simp only [List.map, List.zip, List.zipWith, List.reverse_nil, hl']
  rfl

theorem filter_pull (id : Nat) (r : Ty) (it p : Val) (f : Nat) (σ σ' : St) (t : Val) (n : Nat)
    (h : FilterLoop it p f σ t σ' n) (o : Option Val) (ho : pullResult t = some o) :
    pull (f + 26 + n) (filtered id r it p) σ = (.ok o, σ') := by
  have e1 : f + 26 + n = (f + 25 + n) + 1 := by omega
  rw [e1]
  simp only [pull, bind_def, filter_call id r it p f σ σ' t n h]
  rcases h.shape with ⟨rest, rfl⟩ | ⟨x, rfl⟩ <;> simp [pullResult] at ho <;> subst ho <;> rfl

/-- the run of a filtered iterator until exhaustion: `xs` are the elements that reached the consumer, each
    preceded by at most `N` rejected ones -/
inductive FilterRun (it p : Val) (f N : Nat) : St → List Val → St → Prop where
  | done {σ σ' : St} {rest : List Val} {n : Nat} :
      FilterLoop it p f σ (.tup (.bool false :: rest)) σ' n → n ≤ N → FilterRun it p f N σ [] σ'
  | more {σ σ1 σ' : St} {x : Val} {xs : List Val} {n : Nat} :
      FilterLoop it p f σ (.tup [.bool true, x]) σ1 n → n ≤ N →
      FilterRun it p f N σ1 xs σ' → FilterRun it p f N σ (x :: xs) σ'

/-- `it ? p` yields exactly the accepted elements, in order -/
theorem filter_pulls (id : Nat) (r : Ty) (it p : Val) (f N : Nat) (σ σ' : St) (xs : List Val)
    (h : FilterRun it p f N σ xs σ') : Pulls (filtered id r it p) (f + 27 + N + xs.length) σ xs σ' := by
  induction h with
  | @done σ σ' rest n hl hn =>
    have hp := filter_pull id r it p f σ σ' _ n hl none rfl
    have e : f + 27 + N + ([] : List Val).length = (f + 26 + N) + 1 := by simp; omega
    rw [e]
    exact Pulls.done (lift_eq ((monoAt_le _ (f + 26 + N) (by omega)).pull _) hp (by intro σ0 h0; cases h0))
  | @more σ σ1 σ' x xs n hl hn _ ih =>
    have hp := filter_pull id r it p f σ σ1 _ n hl (some x) rfl
    have e : f + 27 + N + (x :: xs).length = (f + 27 + N + xs.length) + 1 := by simp; omega
    rw [e]
    exact Pulls.more (lift_eq ((monoAt_le _ (f + 27 + N + xs.length) (by omega)).pull _) hp (by intro σ0 h0; cases h0)) ih

/-- `(it ? p) $]` is the array of the accepted elements -/
theorem filter_collect (id : Nat) (r : Ty) (it p : Val) (f N : Nat) (σ σ' : St) (xs acc : List Val)
    (h : FilterRun it p f N σ xs σ') :
    collectGo (f + 27 + N + xs.length) (filtered id r it p) acc σ = (.ok (acc.reverse ++ xs), σ') :=
  collectGo_spec _ _ _ _ _ _ (filter_pulls id r it p f N σ σ' xs h)

/-- what the source yielded during one pull of the filter and what the predicate said of each element:
    the element passed on is the LAST one, it is the only accepted one -/
theorem FilterLoop.last_only {it p : Val} {f : Nat} {σ σ' : St} {t : Val} {n : Nat}
    (h : FilterLoop it p f σ t σ' n) : n = 0 ∨ ∃ σ1 σ2 x, callFn f it [] σ = (.ok (.tup [.bool true, x]), σ1) ∧
      callFn f p [x] σ1 = (.ok (.bool false), σ2) := by
  cases h with
  | done _ => exact Or.inl rfl
  | keep _ _ => exact Or.inl rfl
  | skip hs hp _ => exact Or.inr ⟨_, _, _, hs, hp⟩

/-! ## `it $ init g` is the left fold and `it \ p` the ordered split, for sources of any length -/

/-- `it $ init g` with a callback that behaves as the function `h` (at every fuel from `f0` on, leaving the store
    alone): the result is `foldl h init [x₁ … xₙ]`, the source being pulled exactly as `Pulls` says -/
theorem reduce_fn_spec (it g : Val) (h : Val → Val → Val) (f0 : Nat)
    (hg : ∀ k acc x σ, f0 ≤ k → callFn k g [acc, x] σ = (.ok (h acc x), σ)) :
    ∀ (F : Nat) (σ σ' : St) (xs : List Val) (acc : Val), Pulls it F σ xs σ' → f0 + xs.length + 1 ≤ F →
      reduceGo F it acc (.inr g) σ = (.ok (xs.foldl h acc), σ') := by
  intro F σ σ' xs acc hp
  induction hp generalizing acc with
  | done hp => intro _; simp only [reduceGo, bind_def, hp]; rfl
  | @more f σ σ1 σ' x xs hp _ ih =>
    intro hF
    simp only [List.length_cons] at hF
    simp only [reduceGo, bind_def, hp, hg f acc x σ1 (by omega), List.foldl_cons]
    exact ih (h acc x) (by omega)

/-- the effectful version: the run of `it $ init g` - pull, then the callback on (accumulator, element), then the
    next pull - ends in the last accumulator -/
inductive FoldRun (it g : Val) : Nat → St → Val → Val → St → Prop where
  | done {f : Nat} {σ σ' : St} {acc : Val} : pull f it σ = (.ok none, σ') → FoldRun it g (f + 1) σ acc acc σ'
  | step {f : Nat} {σ σ1 σ2 σ' : St} {acc acc' r x : Val} :
      pull f it σ = (.ok (some x), σ1) → callFn f g [acc, x] σ1 = (.ok acc', σ2) →
      FoldRun it g f σ2 acc' r σ' → FoldRun it g (f + 1) σ acc r σ'

theorem reduce_run (it g : Val) (F : Nat) (σ σ' : St) (acc r : Val) (h : FoldRun it g F σ acc r σ') :
    reduceGo F it acc (.inr g) σ = (.ok r, σ') := by
  induction h with
  | done hp => simp only [reduceGo, bind_def, hp]; rfl
  | step hp hc _ ih => simp only [reduceGo, bind_def, hp, hc]; exact ih

/-- `it \ p` with a predicate that behaves as the test `q`: (those with `q`, those without), each in source order -/
theorem partition_spec (it p : Val) (q : Val → Bool) (f0 : Nat)
    (hq : ∀ k x σ, f0 ≤ k → callFn k p [x] σ = (.ok (.bool (q x)), σ)) :
    ∀ (F : Nat) (σ σ' : St) (xs l r : List Val), Pulls it F σ xs σ' → f0 + xs.length + 1 ≤ F →
      partitionGo F it p l r σ =
        (.ok (l.reverse ++ xs.filter q, r.reverse ++ xs.filter (fun x => !q x)), σ') := by
  intro F σ σ' xs l r hp
  induction hp generalizing l r with
  | done hp => intro _; simp only [partitionGo, bind_def, hp]; simp [pure_def]
  | @more f σ σ1 σ' x xs hp _ ih =>
    intro hF
    simp only [List.length_cons] at hF
    simp only [partitionGo, bind_def, hp, hq f x σ1 (by omega)]
    cases hx : q x
    · simp only [hx]
      rw [ih l (x :: r) (by omega)]
      simp [List.filter, hx]
    · simp only [hx]
      rw [ih (x :: l) r (by omega)]
      simp [List.filter, hx]

/-! ## `it ? T` yields the `xᵢ` whose run-time type matches `T`, in order -/

theorem eval_ifSet (f : Nat) (env : Env) (x : String) (t : Ty) (e b : Expr) :
    eval (f + 1) env (.ifSet x t e b none) =
    (do let v ← eval f env e
        if v.asType.sub t = true then eval f ([(x, v)] :: env) b else pure Val.unit) := by
  first | (simp only [eval]; done) | (simp only [eval]; rfl)

def typeFiltered (id : Nat) (t : Ty) (it dflt : Val) : Val :=
  .fn id [] (.tup [.bool, t]) (typeFilterBody t) [("iterator", it), ("default", dflt)] none

def tfenv (it dflt : Val) : Env := [[], [("iterator", it), ("default", dflt)]]
def tfbody (t : Ty) : Expr := .block
      [ .set "res" (.call (.var "iterator") []),
        .destruct ["con", "value"] (.var "res"),
        .ifElse (.pre .not (.var "con")) (.ret (some (.tuple [E_false, .var "default"]))) none,
        .ifSet "value" t (.var "value") (.ret (some (.tuple [E_true, .var "value"]))) none ]

theorem tfilter_body_done (f : Nat) (t : Ty) (it dflt : Val) (rest : List Val) (σ σ1 : St)
    (hs : callFn f it [] σ = (.ok (.tup (.bool false :: rest)), σ1)) :
    bodyOnce (f + 20) (tfenv it dflt) (tfbody t) σ = (.error (.ret (.tup [.bool false, dflt])), σ1) := by
  simp only [bodyOnce, tfbody, tfenv, eval_block, bind_def, tryCatchS]
  simp only [bind_def, evalSeq, evalStmt, evalStmtValue, eval_var, eval_call, evalList]
  have h1 := callFn_lift (f + 14) hs (by omega)
  simp only [pure_def, Env.insert]
  simp [Env.lookup, frameLookup]
  simp only [pure_def, List.zip, eval_if, eval_ifSet, eval_not, eval_var, eval_ret, eval_tuple, eval_litBool,
    E_true, E_false, bind_def, evalList]
  simp only [h1]
  cases rest <;>
  simp [Env.lookup, frameLookup, pure_def, bind_def, liftE, preScalar, asBool, throwS]

theorem tfilter_body_keep (f : Nat) (t : Ty) (it dflt x : Val) (σ σ1 : St)
    (hs : callFn f it [] σ = (.ok (.tup [.bool true, x]), σ1)) (ht : x.asType.sub t = true) :
    bodyOnce (f + 20) (tfenv it dflt) (tfbody t) σ = (.error (.ret (.tup [.bool true, x])), σ1) := by
  simp only [bodyOnce, tfbody, tfenv, eval_block, bind_def, tryCatchS]
  simp only [bind_def, evalSeq, evalStmt, evalStmtValue, eval_var, eval_call, evalList]
  have h1 := callFn_lift (f + 14) hs (by omega)
  simp only [pure_def, Env.insert]
  simp [Env.lookup, frameLookup]
  simp only [pure_def, List.zip, eval_if, eval_ifSet, eval_not, eval_var, eval_ret, eval_tuple, eval_litBool,
    E_true, E_false, bind_def, evalList]
  simp only [h1]
  simp [Env.lookup, frameLookup, pure_def, bind_def, liftE, preScalar, asBool, throwS, ht]

theorem tfilter_body_skip (f : Nat) (t : Ty) (it dflt x : Val) (σ σ1 : St)
    (hs : callFn f it [] σ = (.ok (.tup [.bool true, x]), σ1)) (ht : x.asType.sub t = false) :
    bodyOnce (f + 20) (tfenv it dflt) (tfbody t) σ = (.ok true, σ1) := by
  simp only [bodyOnce, tfbody, tfenv, eval_block, bind_def, tryCatchS]
  simp only [bind_def, evalSeq, evalStmt, evalStmtValue, eval_var, eval_call, evalList]
  have h1 := callFn_lift (f + 14) hs (by omega)
  simp only [pure_def, Env.insert]
  simp [Env.lookup, frameLookup]
  simp only [pure_def, List.zip, eval_if, eval_ifSet, eval_not, eval_var, eval_ret, eval_tuple, eval_litBool,
    E_true, E_false, bind_def, evalList]
  simp only [h1]
  simp [Env.lookup, frameLookup, pure_def, bind_def, liftE, preScalar, asBool, throwS, ht]

/-- one pull of `it ? T`: elements whose run-time type does not match are skipped (`n` of them); `o` is what the
    pull yields - the first matching element, unchanged, or exhaustion -/
inductive TFLoop (it : Val) (t : Ty) (f : Nat) : St → Option Val → St → Nat → Prop where
  | done {σ σ' : St} {rest : List Val} :
      callFn f it [] σ = (.ok (.tup (.bool false :: rest)), σ') → TFLoop it t f σ none σ' 0
  | keep {σ σ1 : St} {x : Val} :
      callFn f it [] σ = (.ok (.tup [.bool true, x]), σ1) → x.asType.sub t = true → TFLoop it t f σ (some x) σ1 0
  | skip {σ σ1 σ' : St} {x : Val} {o : Option Val} {n : Nat} :
      callFn f it [] σ = (.ok (.tup [.bool true, x]), σ1) → x.asType.sub t = false →
      TFLoop it t f σ1 o σ' n → TFLoop it t f σ o σ' (n + 1)

def tfTuple (dflt : Val) : Option Val → Val
  | none => .tup [.bool false, dflt]
  | some x => .tup [.bool true, x]

theorem tfilter_loop (it dflt : Val) (t : Ty) (f : Nat) (σ σ' : St) (o : Option Val) (n : Nat)
    (h : TFLoop it t f σ o σ' n) :
    loopGo (f + 21 + n) (tfenv it dflt) (tfbody t) σ = (.error (.ret (tfTuple dflt o)), σ') := by
  induction h with
  | done hs => simp only [loopGo, bind_def, tfilter_body_done f t it dflt _ _ _ hs, tfTuple]
  | keep hs ht => simp only [loopGo, bind_def, tfilter_body_keep f t it dflt _ _ _ hs ht, tfTuple]
  | @skip σ σ1 σ' x o n hs ht _ ih =>
    have hb := lift_eq ((monoAt_le (f + 20) (f + 21 + n) (by omega)).bodyOnce (tfenv it dflt) (tfbody t))
      (tfilter_body_skip f t it dflt x σ σ1 hs ht) (by intro σ0 h0; cases h0)
    have : f + 21 + (n + 1) = (f + 21 + n) + 1 := by omega
    rw [this]
    simp only [loopGo, bind_def, hb]
    simpa using ih

theorem tfilter_call (id : Nat) (it dflt : Val) (t : Ty) (f : Nat) (σ σ' : St) (o : Option Val) (n : Nat)
    (h : TFLoop it t f σ o σ' n) :
    callFn (f + 25 + n) (typeFiltered id t it dflt) [] σ = (.ok (tfTuple dflt o), σ') := by
  have hl := tfilter_loop it dflt t f σ σ' o n h
  have e1 : f + 25 + n = (f + 21 + n) + 4 := by omega
  rw [e1]
  simp only [typeFiltered, callFn, typeFilterBody, calleeEnv, bind_def, tryCatchS, evalSeq, evalStmt, eval_loop]
  have hl' : loopGo (f + 21 + n) [[] ++ [], [("iterator", it), ("default", dflt)]] (tfbody t) σ =
      (.error (.ret (tfTuple dflt o)), σ') := hl
  simp only [tfbody] at hl'
  simp only [List.map, List.zip, List.zipWith, List.reverse_nil, hl']
  rfl

theorem tfilter_pull (id : Nat) (it dflt : Val) (t : Ty) (f : Nat) (σ σ' : St) (o : Option Val) (n : Nat)
    (h : TFLoop it t f σ o σ' n) :
    pull (f + 26 + n) (typeFiltered id t it dflt) σ = (.ok o, σ') := by
  have e1 : f + 26 + n = (f + 25 + n) + 1 := by omega
  rw [e1]
  simp only [pull, bind_def, tfilter_call id it dflt t f σ σ' o n h]
  cases o <;> rfl

/-- the run of `it ? T` until exhaustion -/
inductive TFRun (it : Val) (t : Ty) (f N : Nat) : St → List Val → St → Prop where
  | done {σ σ' : St} {n : Nat} : TFLoop it t f σ none σ' n → n ≤ N → TFRun it t f N σ [] σ'
  | more {σ σ1 σ' : St} {x : Val} {xs : List Val} {n : Nat} :
      TFLoop it t f σ (some x) σ1 n → n ≤ N → TFRun it t f N σ1 xs σ' → TFRun it t f N σ (x :: xs) σ'

/-- `it ? T` yields exactly the elements whose run-time type matches `T`, in order -/
theorem tfilter_pulls (id : Nat) (it dflt : Val) (t : Ty) (f N : Nat) (σ σ' : St) (xs : List Val)
    (h : TFRun it t f N σ xs σ') : Pulls (typeFiltered id t it dflt) (f + 27 + N + xs.length) σ xs σ' := by
  induction h with
  | @done σ σ' n hl hn =>
    have hp := tfilter_pull id it dflt t f σ σ' none n hl
    have e : f + 27 + N + ([] : List Val).length = (f + 26 + N) + 1 := by simp; omega
    rw [e]
    exact Pulls.done (lift_eq ((monoAt_le _ (f + 26 + N) (by omega)).pull _) hp (by intro σ0 h0; cases h0))
  | @more σ σ1 σ' x xs n hl hn _ ih =>
    have hp := tfilter_pull id it dflt t f σ σ1 (some x) n hl
    have e : f + 27 + N + (x :: xs).length = (f + 27 + N + xs.length) + 1 := by simp; omega
    rw [e]
    exact Pulls.more (lift_eq ((monoAt_le _ (f + 27 + N + xs.length) (by omega)).pull _) hp (by intro σ0 h0; cases h0)) ih

/-- every element a `? T` iterator yields has a run-time type below `T` -/
theorem TFLoop.matches {it : Val} {t : Ty} {f : Nat} {σ σ' : St} {x : Val} {n : Nat}
    (h : TFLoop it t f σ (some x) σ' n) : x.asType.sub t = true := by
  generalize ho : some x = o at h
  induction h with
  | done _ => cases ho
  | keep _ ht => cases ho; exact ht
  | skip _ _ _ ih => exact ih ho

/-! ## chains: the conclusions above are call results, i.e. the hypotheses of the next operator -/

/-- `(it @ g) ? p`, an element that passes: source, mapper, predicate - each once, in that order - and the pull yields
    the MAPPED element -/
theorem filter_of_map_keep (f id id2 : Nat) (r r2 : Ty) (it g dflt p x y : Val) (σ σ1 σ2 σ3 : St)
    (hs : callFn f it [] σ = (.ok (.tup [.bool true, x]), σ1))
    (hg : callFn f g [x] σ1 = (.ok y, σ2))
    (hp : callFn (f + 19) p [y] σ2 = (.ok (.bool true), σ3)) :
    pull (f + 19 + 26 + 0) (filtered id2 r2 (mapped id r it g dflt) p) σ = (.ok (some y), σ3) :=
  filter_pull id2 r2 _ p (f + 19) σ σ3 _ 0 (.keep (map_call_some f id r it g dflt x y σ σ1 σ2 hs hg) hp) (some y) rfl

/-- `(it ? p) @ g`, after `n` rejected elements: the mapper is called ONCE, on the accepted element only -/
theorem map_of_filter_some (f id id2 : Nat) (r r2 : Ty) (it p g dflt x y : Val) (n : Nat) (σ σ1 σ2 : St)
    (hl : FilterLoop it p f σ (.tup [.bool true, x]) σ1 n)
    (hg : callFn (f + 25 + n) g [x] σ1 = (.ok y, σ2)) :
    pull (f + 25 + n + 20) (mapped id2 r2 (filtered id r it p) g dflt) σ = (.ok (some y), σ2) :=
  map_pull_some (f + 25 + n) id2 r2 _ g dflt x y σ σ1 σ2 (filter_call id r it p f σ σ1 _ n hl) hg

/-! ## `for x in it body` visits `x₁ … xₙ` -/

/-- the run of a `for` loop: one pull, then the body once with `x` bound to the element (in a frame of its own),
    then the next call of the source; it ends when the source is exhausted or the body breaks.  `vs` are the elements the body
    ran on, in order.  (`for` calls the iterator directly: one call per element, as `pull` would.) -/
inductive ForRun (env : Env) (x : String) (it : Val) (body : Expr) : Nat → St → List Val → St → Prop where
  | done {f : Nat} {σ σ' : St} {w : Val} :
      callFn f it [] σ = (.ok (.tup [.bool false, w]), σ') → ForRun env x it body (f + 1) σ [] σ'
  | step {f : Nat} {σ σ1 σ2 σ' : St} {v : Val} {vs : List Val} :
      callFn f it [] σ = (.ok (.tup [.bool true, v]), σ1) →
      bodyOnce f ([(x, v), ("$con", .bool true)] :: env) body σ1 = (.ok true, σ2) →
      ForRun env x it body f σ2 vs σ' → ForRun env x it body (f + 1) σ (v :: vs) σ'
  | brk {f : Nat} {σ σ1 σ2 : St} {v : Val} :
      callFn f it [] σ = (.ok (.tup [.bool true, v]), σ1) →
      bodyOnce f ([(x, v), ("$con", .bool true)] :: env) body σ1 = (.ok false, σ2) →
      ForRun env x it body (f + 1) σ [v] σ2

/-- a `for` loop is its run and evaluates to `()` -/
theorem for_run (env : Env) (x : String) (it : Val) (body : Expr) (F : Nat) (σ σ' : St) (vs : List Val)
    (h : ForRun env x it body F σ vs σ') : forGo F env x it body σ = (.ok .unit, σ') := by
  induction h with
  | done hp => simp only [for_step, bind_def, hp]; rfl
  | step hp hb _ ih => simp only [for_step, bind_def, hp, if_true, hb]; exact ih
  | brk hp hb => simp only [for_step, bind_def, hp, if_true, hb]; rfl

/-- without `break`, the elements the body runs on are exactly the elements the source yields, in order -/
theorem ForRun.visits_all {env : Env} {x : String} {it : Val} {body : Expr} {F : Nat} {σ σ' : St} {vs : List Val}
    (h : ForRun env x it body F σ vs σ')
    (hnb : ∀ f v σ1 σ2, bodyOnce f ([(x, v), ("$con", .bool true)] :: env) body σ1 ≠ (.ok false, σ2)) :
    ∀ v ∈ vs, ∃ f σ0 σ1, callFn f it [] σ0 = (.ok (.tup [.bool true, v]), σ1) := by
  induction h with
  | done _ => intro v hv; cases hv
  | step hp _ _ ih =>
    intro v hv
    cases hv with
    | head => exact ⟨_, _, _, hp⟩
    | tail _ hv => exact ih v hv
  | brk hp hb => exact absurd hb (hnb _ _ _ _)

/-! ## non-vacuity: a source that yields `7` (constant closure) and the identity mapper make one `more` step;
    an exhausted source makes a `done` run -/
def srcSeven : Val := .fn 0 [] (.tup [.bool, .int]) [.ret (some (.tuple [E_true, .litInt 7]))] [] none
def srcEmpty : Val := .fn 1 [] (.tup [.bool, .int]) [.ret (some (.tuple [E_false, .litInt 0]))] [] none
def idFn : Val := .fn 2 [("v", .int)] .int [.ret (some (.var "v"))] [] none

example : pull 30 (mapped 3 .int srcSeven idFn (.int 0)) {} = (.ok (some (.int (BitVec.ofInt 64 7))), {}) :=
  map_pull_some 10 3 .int srcSeven idFn (.int 0) (.int (BitVec.ofInt 64 7)) (.int (BitVec.ofInt 64 7)) {} {} {}
    (by simp [callFn, srcSeven, calleeEnv, evalSeq, evalStmt, eval, evalList, E_true, tryCatchS, bind_def, pure_def, throwS])
    (by simp [callFn, idFn, calleeEnv, evalSeq, evalStmt, eval, Env.lookup, frameLookup, tryCatchS, bind_def, pure_def, throwS])

example : MapRun srcEmpty idFn 10 {} [] {} :=
  .done (rest := [.int (BitVec.ofInt 64 0)])
    (by simp [callFn, srcEmpty, calleeEnv, evalSeq, evalStmt, eval, evalList, E_false, tryCatchS, bind_def, pure_def, throwS])

end Ssl.C11
