import SslModel.Lemmas.FoldSim
import SslModel.Lemmas.NoCtl
import SslModel.Thm.C04
/-!
# C04 — the folding pass as a whole preserves the reference semantics

`Model/Fold.lean` models the constant folding / constant propagation pass of the implementation
(tied to it by the `fold-model` stream of C04: the implementation's folded instruction trees against
the model's answer).  This file proves that whenever the model answers a folded program, the folded
program behaves exactly like the original one under the reference semantics `Spec`: in every
environment that agrees with the constants the pass has recorded, for every store and every amount
of fuel, an evaluation of the original that does not run out of fuel ends — same value, same store,
same error or signal — exactly as the folded program does with enough fuel (`Sim`).
-/
set_option linter.unusedSimpArgs false
set_option linter.unusedVariables false
namespace Ssl.Fold
open Ssl Ssl.Spec

/-- the environment agrees with what the pass has recorded: a name recorded as the constant `c` is
    bound to the value of `c` -/
def EnvOk (g : CEnv) (env : Env) : Prop :=
  ∀ x c cr, g.lookup x = some (some c, cr) → isConst c = true ∧ env.lookup x = some (valOf c)

theorem bind_ok {α β} {x : R α} {k : α → R β} {b : β} (h : (x >>= k) = .ok b) :
    ∃ a, x = .ok a ∧ k a = .ok b := by
  cases x with
  | error e => simp [bind, Except.bind] at h
  | ok a => exact ⟨a, rfl, h⟩

theorem evalMono (f : Nat) (env : Env) (e : Expr) : Sim (eval f env e) (fun f' => eval f' env e) :=
  Sim.of_mono (fun a b h => (monoAt_le a b h).eval env e) f

/-! ### constants and values -/

mutual
theorem exprOfVal_sound : ∀ (v : Val) (r : Expr), exprOfVal v = some r → isConst r = true ∧ valOf r = v
  | .bool b, r, h => by simp only [exprOfVal, Option.some.injEq] at h; subst h; simp [isConst, valOf]
  | .int i, r, h => by
    simp only [exprOfVal, Option.some.injEq] at h; subst h
    simp only [isConst, valOf, BitVec.ofInt_toInt, and_self]
  | .float x, r, h => by simp only [exprOfVal, Option.some.injEq] at h; subst h; simp [isConst, valOf]
  | .str s, r, h => by simp only [exprOfVal, Option.some.injEq] at h; subst h; simp [isConst, valOf]
  | .unit, r, h => by simp only [exprOfVal, Option.some.injEq] at h; subst h; simp [isConst, valOf]
  | .tup vs, r, h => by
    simp only [exprOfVal, Option.map_eq_some_iff] at h
    obtain ⟨es, hes, rfl⟩ := h
    have := exprOfValL_sound vs es hes
    simp only [isConst, valOf, this.1, this.2, and_self]
  | .arr _ _, r, h => by simp [exprOfVal] at h
  | .struct _, r, h => by simp [exprOfVal] at h
  | .cell _ _, r, h => by simp [exprOfVal] at h
  | .fn .., r, h => by simp [exprOfVal] at h
theorem exprOfValL_sound : ∀ (vs : List Val) (es : List Expr), exprOfValL vs = some es →
    isConstL es = true ∧ valOfL es = vs
  | [], es, h => by simp only [exprOfValL, Option.some.injEq] at h; subst h; simp [isConstL, valOfL]
  | v :: vs, es, h => by
    simp only [exprOfValL] at h
    split at h
    · next e es' he hes =>
      simp only [Option.some.injEq] at h; subst h
      have h1 := exprOfVal_sound v e he
      have h2 := exprOfValL_sound vs es' hes
      simp only [isConstL, valOfL, h1.1, h1.2, h2.1, h2.2, Bool.and_self, and_self]
    · simp at h
end

/-- the eventual evaluation of a constant, as the premise `Sim.of_pure` / `Pure.of_sim` want it -/
theorem const_eventually (c : Expr) (hc : isConst c = true) (env : Env) :
    ∀ σ, ∃ f0, ∀ f, f0 ≤ f → eval f env c σ = (.ok (valOf c), σ) := fun σ => eval_const c hc env σ

/-- `ofExec`: the folded constant denotes the value the operator's own `exec` yields -/
theorem ofExec_ok {r : Except Sig Val} {e : Expr} (h : ofExec r = .ok e) :
    ∃ v, r = .ok v ∧ isConst e = true ∧ valOf e = v := by
  unfold ofExec at h
  split at h
  · next v =>
    split at h
    · next e' he =>
      simp only [Except.ok.injEq] at h; subst h
      exact ⟨v, rfl, exprOfVal_sound v _ he⟩
    · simp [unsup] at h
  · simp at h
  · simp [unsup] at h

theorem valOfL_length : ∀ (es : List Expr), (valOfL es).length = es.length
  | [] => by simp only [valOfL, List.length_nil]
  | e :: es => by simp only [valOfL, List.length_cons, valOfL_length es]

theorem valOfL_get : ∀ (es : List Expr) (j : Nat), (valOfL es)[j]? = (es[j]?).map valOf
  | [], j => by simp [valOfL]
  | e :: es, 0 => by simp [valOfL]
  | e :: es, j + 1 => by simp [valOfL, valOfL_get es j]

theorem isConstL_get : ∀ (es : List Expr) (j : Nat) (c : Expr), isConstL es = true → es[j]? = some c →
    isConst c = true
  | [], j, c, _, h => by simp at h
  | e :: es, 0, c, hc, h => by
    simp only [isConstL, Bool.and_eq_true] at hc
    simp only [List.getElem?_cons_zero, Option.some.injEq] at h; subst h; exact hc.1
  | e :: es, j + 1, c, hc, h => by
    simp only [isConstL, Bool.and_eq_true] at hc
    simp only [List.getElem?_cons_succ] at h
    exact isConstL_get es j c hc.2 h

/-! ### the folded form of an expression is never a declaration -/

def isDecl : Expr → Bool
  | .set .. | .destruct .. | .fndecl .. => true
  | _ => false

theorem evalStmt_notDecl (f : Nat) (env : Env) (s : Expr) (h : isDecl s = false) :
    evalStmt (f + 1) env s = (do let v ← eval f env s; pure (v, env)) := by
  cases s <;> simp [isDecl] at h <;> simp only [evalStmt]

theorem isDecl_of_const (c : Expr) (h : isConst c = true) : isDecl c = false := by
  cases c <;> simp [isConst] at h <;> rfl

theorem isDecl_ofExec {r : Except Sig Val} {e : Expr} (h : ofExec r = .ok e) : isDecl e = false := by
  obtain ⟨_, _, hc, _⟩ := ofExec_ok h
  exact isDecl_of_const _ hc

/-- every constant the pass has recorded is a constant -/
def GConst (g : CEnv) : Prop := ∀ x c cr, g.lookup x = some (some c, cr) → isConst c = true

syntax "nd_finish" : tactic
set_option hygiene false in
macro_rules
  | `(tactic| nd_finish) => `(tactic| first
      | (simp only [Except.ok.injEq] at h; subst h; rfl)
      | (simp [unsup] at h; done)
      | exact isDecl_ofExec h)

syntax "nd_auto" : tactic
set_option hygiene false in
macro_rules
  | `(tactic| nd_auto) => `(tactic| (
      repeat (obtain ⟨_, _, h⟩ := bind_ok h)
      repeat' (first | nd_finish | split at h)))

theorem fold_notDecl : ∀ (e : Expr) (g : CEnv) (e' : Expr), GConst g → fold g e = .ok e' → isDecl e' = false
  | .litBool _, g, e', hg, h => by simp only [fold] at h; nd_auto
  | .litInt _, g, e', hg, h => by simp only [fold] at h; nd_auto
  | .litFloat _, g, e', hg, h => by simp only [fold] at h; nd_auto
  | .litStr _, g, e', hg, h => by simp only [fold] at h; nd_auto
  | .litUnit, g, e', hg, h => by simp only [fold] at h; nd_auto
  | .brk, g, e', hg, h => by simp only [fold] at h; nd_auto
  | .cont, g, e', hg, h => by simp only [fold] at h; nd_auto
  | .var x, g, e', hg, h => by
    simp only [fold] at h
    split at h
    · next c cr hl => simp only [Except.ok.injEq] at h; subst h; exact isDecl_of_const _ (hg x _ cr hl)
    · nd_finish
  | .array _, g, e', hg, h => by simp only [fold] at h; nd_auto
  | .tuple _, g, e', hg, h => by simp only [fold] at h; nd_auto
  | .arrayRepeat _ _, g, e', hg, h => by simp only [fold] at h; nd_auto
  | .struct _, g, e', hg, h => by simp only [fold] at h; nd_auto
  | .mutE _ _, g, e', hg, h => by simp only [fold] at h; nd_auto
  | .pre op _, g, e', hg, h => by
    simp only [fold] at h
    obtain ⟨_, _, h⟩ := bind_ok h
    cases op <;> simp only [foldPre] at h <;> repeat' (first | nd_finish | split at h)
  | .and a b, g, e', hg, h => by
    simp only [fold] at h
    obtain ⟨a', ha, h⟩ := bind_ok h
    split at h
    · exact fold_notDecl b g e' hg h
    · nd_finish
    · split at h
      · nd_finish
      · nd_auto
  | .or a b, g, e', hg, h => by
    simp only [fold] at h
    obtain ⟨a', ha, h⟩ := bind_ok h
    split at h
    · nd_finish
    · exact fold_notDecl b g e' hg h
    · split at h
      · nd_finish
      · nd_auto
  | .bin op _ _, g, e', hg, h => by
    simp only [fold] at h
    obtain ⟨_, _, h⟩ := bind_ok h
    obtain ⟨_, _, h⟩ := bind_ok h
    unfold foldBin at h
    repeat' (first | nd_finish | split at h)
  | .assign _ _ _, g, e', hg, h => by simp only [fold] at h; nd_auto
  | .at _ _, g, e', hg, h => by
    simp only [fold] at h
    obtain ⟨_, _, h⟩ := bind_ok h
    obtain ⟨_, _, h⟩ := bind_ok h
    unfold foldAt at h
    split at h
    · split at h
      · next hcl =>
        split at h
        · split at h
          · next c hcj => simp only [Except.ok.injEq] at h; subst h; exact isDecl_of_const _ (isConstL_get _ _ _ hcl hcj)
          · nd_finish
        · nd_finish
      · repeat' (first | nd_finish | split at h)
    · nd_finish
    · nd_finish
  | .slice a none none none, g, e', hg, h => by
    simp only [fold] at h; exact fold_notDecl a g e' hg h
  | .slice _ (some _) _ _, g, e', hg, h => by simp only [fold] at h; nd_auto
  | .slice _ none (some _) _, g, e', hg, h => by simp only [fold] at h; nd_auto
  | .slice _ none none (some _), g, e', hg, h => by simp only [fold] at h; nd_auto
  | .call _ _, g, e', hg, h => by simp only [fold] at h; nd_auto
  | .tacc _ _, g, e', hg, h => by simp only [fold] at h; nd_auto
  | .facc _ _, g, e', hg, h => by simp only [fold] at h; nd_auto
  | .tfilter _ _, g, e', hg, h => by simp only [fold] at h; nd_auto
  | .post _ _, g, e', hg, h => by simp only [fold] at h; nd_auto
  | .reduce _ _ _, g, e', hg, h => by simp only [fold] at h; nd_auto
  | .block _, g, e', hg, h => by
    simp only [fold] at h
    obtain ⟨⟨_, _⟩, _, h⟩ := bind_ok h
    nd_finish
  | .ifElse c t (some e), g, e', hg, h => by
    simp only [fold] at h
    obtain ⟨c', hc, h⟩ := bind_ok h
    split at h
    · exact fold_notDecl t g e' hg h
    · exact fold_notDecl e g e' hg h
    · nd_auto
  | .ifElse c t none, g, e', hg, h => by
    simp only [fold] at h
    obtain ⟨c', hc, h⟩ := bind_ok h
    split at h
    · exact fold_notDecl t g e' hg h
    · nd_finish
    · nd_auto
  | .ifSet _ _ _ _ _, g, e', hg, h => by simp only [fold] at h; nd_auto
  | .matchE _ _, g, e', hg, h => by simp only [fold] at h; nd_auto
  | .ret _, g, e', hg, h => by simp only [fold] at h; nd_auto
  | .loop _, g, e', hg, h => by simp only [fold] at h; nd_auto
  | .while _ _, g, e', hg, h => by
    simp only [fold] at h
    split at h <;> (obtain ⟨_, _, h⟩ := bind_ok h; split at h <;> nd_auto)
  | .fn _ _ _, g, e', hg, h => by
    simp only [fold] at h
    obtain ⟨⟨_, _⟩, _, h⟩ := bind_ok h
    nd_finish
  | .modE .., g, e', hg, h => by simp [fold, unsup] at h
  | .whileSet _ _ _ _, g, e', hg, h => by simp only [fold] at h; nd_auto
  | .forE _ _ _, g, e', hg, h => by simp only [fold] at h; nd_auto
  | .set .., g, e', hg, h => by simp [fold, unsup] at h
  | .destruct .., g, e', hg, h => by simp [fold, unsup] at h
  | .fndecl .., g, e', hg, h => by simp [fold, unsup] at h
  | .native _, g, e', hg, h => by simp [fold, unsup] at h

/-! ### environments -/

theorem lookup_insert (env : Env) (x y : String) (v : Val) :
    (env.insert x v).lookup y = if (x == y) = true then some v else env.lookup y := by
  cases env with
  | nil =>
    simp only [Env.insert, Env.lookup, frameLookup]
    by_cases h : (x == y) = true <;> simp [h]
  | cons fr rest =>
    simp only [Env.insert, Env.lookup, frameLookup]
    by_cases h : (x == y) = true <;> simp [h]

theorem lookup_push (env : Env) (y : String) : Env.lookup ([] :: env) y = env.lookup y := by
  simp only [Env.lookup, frameLookup]

theorem lookup_bind (env : Env) (x y : String) (v : Val) :
    Env.lookup ([(x, v)] :: env) y = if (x == y) = true then some v else env.lookup y := by
  simp only [Env.lookup, frameLookup]
  by_cases h : (x == y) = true <;> simp [h]

theorem envOk_push {g : CEnv} {env : Env} (h : EnvOk g env) : EnvOk g ([] :: env) := by
  intro x c cr hl
  rw [lookup_push]; exact h x c cr hl

theorem envOk_insert {g : CEnv} {env : Env} (h : EnvOk g env) (x : String) (v : Val) (co : Option Expr) (cr : Bool)
    (hco : ∀ c, co = some c → isConst c = true ∧ v = valOf c) : EnvOk ((x, co, cr) :: g) (env.insert x v) := by
  intro y c cr' hl
  simp only [CEnv.lookup] at hl
  rw [lookup_insert]
  by_cases hxy : (x == y) = true
  · simp only [hxy, if_true, Option.some.injEq, Prod.mk.injEq] at hl ⊢
    obtain ⟨h1, _⟩ := hl
    obtain ⟨hc, hv⟩ := hco c h1
    exact ⟨hc, by rw [hv]⟩
  · simp only [hxy, if_false, Bool.false_eq_true] at hl ⊢
    exact h y c cr' hl

theorem envOk_bind {g : CEnv} {env : Env} (h : EnvOk g env) (x : String) (v : Val) :
    EnvOk ((x, none, false) :: g) ([(x, v)] :: env) := by
  intro y c cr' hl
  simp only [CEnv.lookup] at hl
  rw [lookup_bind]
  by_cases hxy : (x == y) = true
  · simp [hxy] at hl
  · simp only [hxy, if_false, Bool.false_eq_true] at hl ⊢
    exact h y c cr' hl

theorem envOk_bind2 {g : CEnv} {env : Env} (h : EnvOk g env) (x y : String) (v w : Val) :
    EnvOk ((x, none, false) :: (y, none, false) :: g) ([(x, v), (y, w)] :: env) := by
  intro z c cr' hl
  simp only [CEnv.lookup] at hl
  simp only [Env.lookup, frameLookup]
  by_cases hxz : (x == z) = true
  · simp [hxz] at hl
  · simp only [hxz, if_false, Bool.false_eq_true] at hl ⊢
    by_cases hyz : (y == z) = true
    · simp [hyz] at hl
    · simp only [hyz, if_false, Bool.false_eq_true] at hl ⊢
      exact h z c cr' hl

theorem gconst_of_envOk {g : CEnv} {env : Env} (h : EnvOk g env) : GConst g :=
  fun x c cr hl => (h x c cr hl).1

/-! ### the constructs the theorem below covers -/
mutual
def covered : Expr → Bool
  | .litBool _ | .litInt _ | .litFloat _ | .litStr _ | .litUnit | .var _ | .brk | .cont => true
  | .array es => coveredL es
  | .tuple es => coveredL es
  | .arrayRepeat v n => covered v && covered n
  | .struct fs => coveredF fs
  | .mutE _ e => covered e
  | .pre _ e => covered e
  | .and a b => covered a && covered b
  | .or a b => covered a && covered b
  | .bin _ a b => covered a && covered b
  | .assign _ t v => covered t && covered v
  | .at a i => covered a && covered i
  | .slice a s e st => covered a && coveredO s && coveredO e && coveredO st && !(s.isNone && e.isNone && st.isNone)
  | .call f args => covered f && coveredL args
  | .tacc e _ => covered e
  | .facc e _ => covered e
  | .tfilter e _ => covered e
  | .post _ e => covered e
  | .reduce it init f => covered it && covered init && covered f
  | .ifElse c t e => covered c && covered t && coveredO e
  | .ret e => coveredO e
  | .block body => coveredS body
  | .ifSet _ _ e body els => covered e && covered body && coveredO els
  | .matchE e arms => covered e && coveredA arms
  | .loop body => covered body
  | .while c body => condForm c && covered c && covered body
  | .whileSet _ _ e body => covered e && covered body
  | .forE _ it body => covered it && covered body
  | _ => false
def coveredA : List Arm → Bool
  | [] => true
  | .ty _ _ body :: rest => covered body && coveredA rest
  | .val cands body :: rest => coveredL cands && covered body && coveredA rest
  | .other body :: rest => covered body && coveredA rest
/-- statement lists: `x := e` and plain statements -/
def coveredS : List Expr → Bool
  | [] => true
  | .set _ e :: rest => covered e && coveredS rest
  | .destruct _ e :: rest => covered e && coveredS rest
  | s :: rest => covered s && coveredS rest
def coveredO : Option Expr → Bool
  | none => true
  | some e => covered e
def coveredL : List Expr → Bool
  | [] => true
  | e :: es => covered e && coveredL es
def coveredF : List (String × Expr) → Bool
  | [] => true
  | (_, e) :: es => covered e && coveredF es
end

/-- the statements proved together, for one amount of fuel of the original program -/
structure FoldAt (f : Nat) : Prop where
  eval : ∀ g env e e', covered e = true → EnvOk g env → fold g e = .ok e' →
    Sim (eval f env e) (fun f' => eval f' env e')
  evalOpt : ∀ g env e e', coveredO e = true → EnvOk g env → foldOpt g e = .ok e' →
    Sim (evalOpt f env e) (fun f' => evalOpt f' env e')
  evalList : ∀ g env es es', coveredL es = true → EnvOk g env → foldList g es = .ok es' →
    Sim (evalList f env es) (fun f' => evalList f' env es')
  evalFields : ∀ g env fs fs', coveredF fs = true → EnvOk g env → foldFields g fs = .ok fs' →
    Sim (evalFields f env fs) (fun f' => evalFields f' env fs')
  evalStmtValue : ∀ g env e e', covered e = true → EnvOk g env → fold g e = .ok e' →
    Sim (evalStmtValue f env e) (fun f' => evalStmtValue f' env e')
  evalSeq : ∀ blk g env ss ss' g', coveredS ss = true → EnvOk g env → foldSeq blk g ss = .ok (ss', g') →
    Sim (evalSeq f env ss) (fun f' => evalSeq f' env ss')
  evalArms : ∀ g env v arms arms', coveredA arms = true → EnvOk g env → foldArms g arms = .ok arms' →
    Sim (evalArms f env v arms) (fun f' => evalArms f' env v arms')
  candGo : ∀ g env v cs cs', coveredL cs = true → EnvOk g env → foldList g cs = .ok cs' →
    Sim (candGo f env v cs) (fun f' => candGo f' env v cs')
  bodyOnce : ∀ g env b b', covered b = true → EnvOk g env → fold g b = .ok b' →
    Sim (bodyOnce f env b) (fun f' => bodyOnce f' env b')
  loopGo : ∀ g env b b', covered b = true → EnvOk g env → fold g b = .ok b' →
    Sim (loopGo f env b) (fun f' => loopGo f' env b')
  whileSetGo : ∀ g env x ty e e' b b', covered e = true → covered b = true → EnvOk g env → fold g e = .ok e' →
    fold ((x, none, false) :: g) b = .ok b' →
    Sim (whileSetGo f env x ty e b) (fun f' => whileSetGo f' env x ty e' b')
  forGo : ∀ g env x itv b b', covered b = true → EnvOk g env →
    fold ((x, none, false) :: ("$con", none, false) :: g) b = .ok b' →
    Sim (forGo f env x itv b) (fun f' => forGo f' env x itv b')

theorem foldAt_zero : FoldAt 0 := by
  constructor <;> intros <;>
    simp only [eval, evalOpt, evalList, evalFields, evalStmtValue, evalSeq, evalArms, candGo, bodyOnce, loopGo,
      whileSetGo, forGo] <;>
    exact Sim.fuel _

/-- a side condition of an induction hypothesis: in the context, or a conjunct of `hc` -/
syntax "side_cond" : tactic
set_option hygiene false in
macro_rules
  | `(tactic| side_cond) => `(tactic| first | assumption | (simp only [hc]; done) | exact envOk_bind henv _ _)

syntax "sim_step" ident : tactic
macro_rules
  | `(tactic| sim_step $ih:ident) => `(tactic| first
      | with_reducible exact Sim.const _
      | with_reducible exact Sim.fuel _
      | (with_reducible apply ($ih).eval <;> side_cond)
      | (with_reducible apply ($ih).evalOpt <;> side_cond)
      | (with_reducible apply ($ih).evalList <;> side_cond)
      | (with_reducible apply ($ih).evalFields <;> side_cond)
      | (with_reducible apply ($ih).evalStmtValue <;> side_cond)
      | (with_reducible apply ($ih).evalArms <;> side_cond)
      | (with_reducible apply ($ih).candGo <;> side_cond)
      | (with_reducible apply ($ih).bodyOnce <;> side_cond)
      | (with_reducible apply ($ih).loopGo <;> side_cond)
      | (refine Sim.tryCatch ?_ (fun _ => Sim.const _) (by rfl))
      | with_reducible exact Sim.of_mono (fun a b h => (monoAt_le a b h).callFn _ _) _
      | with_reducible exact Sim.of_mono (fun a b h => (monoAt_le a b h).partitionGo _ _ _ _) _
      | with_reducible exact Sim.of_mono (fun a b h => (monoAt_le a b h).collectGo _ _) _
      | with_reducible exact Sim.of_mono (fun a b h => (monoAt_le a b h).reduceGo _ _ _) _
      | with_reducible exact Sim.of_mono (fun a b h => (monoAt_le a b h).boolGo _ _) _
      | with_reducible apply Sim.bind
      | intro _
      | (split <;> try simp only [])
      )

syntax "sim_auto" ident : tactic
macro_rules
  | `(tactic| sim_auto $ih:ident) => `(tactic| repeat (any_goals (sim_step $ih)))

attribute [local irreducible] Sim

theorem Pure.bind_le {α β} {m : M α} {k : α → M β} {a : α} (h : Pure m a) : LeM (m >>= k) (k a) := by
  apply LeM.intro
  intro σ
  rw [bindM_def]
  rcases h σ with ⟨σ1, h1⟩ | h1
  · left; exact ⟨σ1, by rw [h1]⟩
  · rw [h1]; exact Or.inr rfl

theorem pure_of_sim {f : Nat} {env : Env} {a a' : Expr}
    (h : Sim (eval f env a) (fun f' => eval f' env a')) (hc : isConst a' = true) :
    Pure (eval f env a) (valOf a') := Pure.of_sim h (const_eventually a' hc env)

theorem sim_const {m : M Val} {env : Env} {c : Expr} (hc : isConst c = true) (h : Pure m (valOf c)) :
    Sim m (fun f' => eval f' env c) := Sim.of_pure h (const_eventually c hc env)

theorem pure_liftE {v : Val} {r : Except Sig Val} (h : r = .ok v) : Pure (liftE r) v := by
  subst h; exact fun σ => Or.inr rfl

/-- every case in which the folded expression is rebuilt from the folded operands; the hypotheses
    are called `hf` (the equation of `fold`) and `hc` (the operands are covered) -/
syntax "structural" ident : tactic
set_option hygiene false in
macro_rules
  | `(tactic| structural $ih:ident) => `(tactic| (
      repeat (obtain ⟨_, _, hf⟩ := bind_ok hf)
      simp only [Except.ok.injEq] at hf
      subst hf
      simp only [covered, coveredO, Bool.and_eq_true] at hc
      apply Sim.shift
      simp only [eval]
      sim_auto $ih))

theorem fold_var (f : Nat) (g : CEnv) (env : Env) (x : String) (e' : Expr)
    (henv : EnvOk g env) (hf : fold g (.var x) = .ok e') :
    Sim (eval (f + 1) env (.var x)) (fun f' => eval f' env e') := by
  simp only [fold] at hf
  split at hf
  · next c cr hl =>
    simp only [Except.ok.injEq] at hf; subst hf
    obtain ⟨hc, hv⟩ := henv x c cr hl
    apply sim_const hc
    simp only [eval, hv]
    exact Pure.pure _
  · simp only [Except.ok.injEq] at hf; subst hf
    exact evalMono _ _ _

theorem fold_pre (f : Nat) (ih : FoldAt f) (g : CEnv) (env : Env) (op : PreOp) (a e' : Expr)
    (hc : covered (.pre op a) = true) (henv : EnvOk g env) (hf : fold g (.pre op a) = .ok e') :
    Sim (eval (f + 1) env (.pre op a)) (fun f' => eval f' env e') := by
  simp only [fold] at hf
  obtain ⟨a', ha, hf⟩ := bind_ok hf
  simp only [covered] at hc
  have hs := ih.eval g env a a' hc henv ha
  cases op <;> simp only [foldPre] at hf
  case deref =>
    simp only [Except.ok.injEq] at hf; subst hf
    apply Sim.shift; simp only [eval]; sim_auto ih
  all_goals
    split at hf
    · next hca =>
      obtain ⟨v, hv, hce, hve⟩ := ofExec_ok hf
      subst hve
      apply sim_const hce
      simp only [eval]
      exact Pure.bind (pure_of_sim hs hca) (pure_liftE hv)
    · simp only [Except.ok.injEq] at hf; subst hf
      apply Sim.shift; simp only [eval]; sim_auto ih

theorem leM_of_eq {α} {m m' : M α} (h : ∀ σ, m σ = m' σ) : LeM m m' :=
  LeM.intro fun σ => Or.inr (h σ)

theorem valOf_bool (b : Bool) : valOf (.litBool b) = .bool b := by simp only [valOf]

theorem fold_and (f : Nat) (ih : FoldAt f) (g : CEnv) (env : Env) (a b e' : Expr)
    (hc : covered (.and a b) = true) (henv : EnvOk g env) (hf : fold g (.and a b) = .ok e') :
    Sim (eval (f + 1) env (.and a b)) (fun f' => eval f' env e') := by
  simp only [fold] at hf
  obtain ⟨a', ha, hf⟩ := bind_ok hf
  simp only [covered, Bool.and_eq_true] at hc
  have hs := ih.eval g env a a' hc.1 henv ha
  split at hf
  · have hp : Pure (eval f env a) (.bool true) := valOf_bool true ▸ pure_of_sim hs (by simp only [isConst])
    refine Sim.trans_le ?_ (ih.eval g env b e' hc.2 henv hf)
    simp only [eval]
    refine (Pure.bind_le hp).trans (leM_of_eq fun σ => ?_)
    simp only [bindM_def, liftE, asBool]; rfl
  · have hp : Pure (eval f env a) (.bool false) := valOf_bool false ▸ pure_of_sim hs (by simp only [isConst])
    simp only [Except.ok.injEq] at hf; subst hf
    apply sim_const (by simp only [isConst])
    simp only [eval, valOf]
    refine Pure.bind hp ?_
    intro σ; exact Or.inr rfl
  · split at hf
    · simp [unsup] at hf
    · obtain ⟨b', hb, hf⟩ := bind_ok hf
      simp only [Except.ok.injEq] at hf; subst hf
      have hc1 := hc.1
      have hc2 := hc.2
      apply Sim.shift; simp only [eval]; sim_auto ih

theorem fold_or (f : Nat) (ih : FoldAt f) (g : CEnv) (env : Env) (a b e' : Expr)
    (hc : covered (.or a b) = true) (henv : EnvOk g env) (hf : fold g (.or a b) = .ok e') :
    Sim (eval (f + 1) env (.or a b)) (fun f' => eval f' env e') := by
  simp only [fold] at hf
  obtain ⟨a', ha, hf⟩ := bind_ok hf
  simp only [covered, Bool.and_eq_true] at hc
  have hs := ih.eval g env a a' hc.1 henv ha
  split at hf
  · have hp : Pure (eval f env a) (.bool true) := valOf_bool true ▸ pure_of_sim hs (by simp only [isConst])
    simp only [Except.ok.injEq] at hf; subst hf
    apply sim_const (by simp only [isConst])
    simp only [eval, valOf]
    refine Pure.bind hp ?_
    intro σ; exact Or.inr rfl
  · have hp : Pure (eval f env a) (.bool false) := valOf_bool false ▸ pure_of_sim hs (by simp only [isConst])
    refine Sim.trans_le ?_ (ih.eval g env b e' hc.2 henv hf)
    simp only [eval]
    refine (Pure.bind_le hp).trans (leM_of_eq fun σ => ?_)
    simp only [bindM_def, liftE, asBool]; rfl
  · split at hf
    · simp [unsup] at hf
    · obtain ⟨b', hb, hf⟩ := bind_ok hf
      simp only [Except.ok.injEq] at hf; subst hf
      have hc1 := hc.1
      have hc2 := hc.2
      apply Sim.shift; simp only [eval]; sim_auto ih

theorem eval_bin_scalar (f : Nat) (env : Env) (op : BinOp) (a b : Expr) (h : foldsConst op = true) :
    eval (f + 1) env (.bin op a b) =
      (do let x ← eval f env a; let y ← eval f env b; liftE (binScalar op x y)) := by
  cases op <;> simp [foldsConst] at h <;> simp only [eval]

theorem fold_bin (f : Nat) (ih : FoldAt f) (g : CEnv) (env : Env) (op : BinOp) (a b e' : Expr)
    (hc : covered (.bin op a b) = true) (henv : EnvOk g env) (hf : fold g (.bin op a b) = .ok e') :
    Sim (eval (f + 1) env (.bin op a b)) (fun f' => eval f' env e') := by
  simp only [fold] at hf
  obtain ⟨a', ha, hf⟩ := bind_ok hf
  obtain ⟨b', hb, hf⟩ := bind_ok hf
  simp only [covered, Bool.and_eq_true] at hc
  have hc1 := hc.1
  have hc2 := hc.2
  have hsa := ih.eval g env a a' hc.1 henv ha
  have hsb := ih.eval g env b b' hc.2 henv hb
  have hstruct : Sim (eval (f + 1) env (.bin op a b)) (fun f' => eval f' env (.bin op a' b')) := by
    apply Sim.shift
    cases op <;> simp only [eval] <;> sim_auto ih
  unfold foldBin at hf
  split at hf
  · next hcc =>
    simp only [Bool.and_eq_true] at hcc
    obtain ⟨v, hv, hce, hve⟩ := ofExec_ok hf
    subst hve
    apply sim_const hce
    rw [eval_bin_scalar _ _ _ _ _ hcc.1.1]
    exact Pure.bind (pure_of_sim hsa hcc.1.2) (Pure.bind (pure_of_sim hsb hcc.2) (pure_liftE hv))
  · split at hf <;> (try split at hf) <;>
      first
      | (simp at hf; done)
      | (simp only [Except.ok.injEq] at hf; subst hf; exact hstruct)

theorem fold_at (f : Nat) (ih : FoldAt f) (g : CEnv) (env : Env) (a i e' : Expr)
    (hc : covered (.at a i) = true) (henv : EnvOk g env) (hf : fold g (.at a i) = .ok e') :
    Sim (eval (f + 1) env (.at a i)) (fun f' => eval f' env e') := by
  simp only [fold] at hf
  obtain ⟨a', ha, hf1⟩ := bind_ok hf
  obtain ⟨i', hi, hf2⟩ := bind_ok hf1
  clear hf hf1
  have hf := hf2
  clear hf2
  simp only [covered, Bool.and_eq_true] at hc
  have hc1 := hc.1
  have hc2 := hc.2
  have hsa := ih.eval g env a a' hc.1 henv ha
  have hsi := ih.eval g env i i' hc.2 henv hi
  have hstruct : Sim (eval (f + 1) env (.at a i)) (fun f' => eval f' env (.at a' i')) := by
    apply Sim.shift
    simp only [eval]
    sim_auto ih
  unfold foldAt at hf
  split at hf
  · next es k =>
    split at hf
    · next hcl =>
      split at hf
      · next j hj =>
        split at hf
        · next c hcj =>
          simp only [Except.ok.injEq] at hf; subst hf
          have hca : isConst (.array es) = true := by simp only [isConst, hcl]
          apply sim_const (isConstL_get es j _ hcl hcj)
          simp only [eval]
          refine Pure.bind (pure_of_sim hsa hca) (Pure.bind (pure_of_sim hsi (by simp only [isConst])) (pure_liftE ?_))
          simp only [valOf, Val.mkArray, atVal, valOfL_length]
          simp only [i64] at hj
          rw [hj]
          simp only [valOfL_get, hcj, Option.map_some]
        · simp at hf
      · simp at hf
    · split at hf
      · simp only [Except.ok.injEq] at hf; subst hf; exact hstruct
      · simp at hf
  · next s k =>
    obtain ⟨v, hv, hce, hve⟩ := ofExec_ok hf
    subst hve
    apply sim_const hce
    simp only [eval]
    refine Pure.bind (pure_of_sim hsa (by simp only [isConst])) (Pure.bind (pure_of_sim hsi (by simp only [isConst])) (pure_liftE ?_))
    simp only [valOf]; exact hv
  · simp only [Except.ok.injEq] at hf; subst hf; exact hstruct

theorem fold_ifElse (f : Nat) (ih : FoldAt f) (g : CEnv) (env : Env) (c t : Expr) (e : Option Expr) (e' : Expr)
    (hc : covered (.ifElse c t e) = true) (henv : EnvOk g env) (hf : fold g (.ifElse c t e) = .ok e') :
    Sim (eval (f + 1) env (.ifElse c t e)) (fun f' => eval f' env e') := by
  simp only [covered, Bool.and_eq_true] at hc
  obtain ⟨⟨hc1, hc2⟩, hc3⟩ := hc
  cases e with
  | some e =>
    simp only [fold] at hf
    obtain ⟨c', hcc, hf1⟩ := bind_ok hf
    clear hf
    have hs := ih.eval g env c c' hc1 henv hcc
    simp only [coveredO] at hc3
    split at hf1
    · have hp : Pure (eval f env c) (.bool true) := valOf_bool true ▸ pure_of_sim hs (by simp only [isConst])
      refine Sim.trans_le ?_ (ih.eval g env t e' hc2 henv hf1)
      simp only [eval]
      refine (Pure.bind_le hp).trans (leM_of_eq fun σ => ?_)
      simp only [bindM_def, liftE, asBool]; rfl
    · have hp : Pure (eval f env c) (.bool false) := valOf_bool false ▸ pure_of_sim hs (by simp only [isConst])
      refine Sim.trans_le ?_ (ih.eval g env e e' hc3 henv hf1)
      simp only [eval]
      refine (Pure.bind_le hp).trans (leM_of_eq fun σ => ?_)
      simp only [bindM_def, liftE, asBool]; rfl
    · obtain ⟨t', ht, hf2⟩ := bind_ok hf1
      obtain ⟨eo', he, hf3⟩ := bind_ok hf2
      simp only [Except.ok.injEq] at hf3; subst hf3
      simp only [foldOpt] at he
      obtain ⟨e2, he2, he3⟩ := bind_ok he
      simp only [Except.ok.injEq] at he3; subst he3
      apply Sim.shift
      simp only [eval]
      sim_auto ih
  | none =>
    simp only [fold] at hf
    obtain ⟨c', hcc, hf1⟩ := bind_ok hf
    clear hf
    have hs := ih.eval g env c c' hc1 henv hcc
    split at hf1
    · have hp : Pure (eval f env c) (.bool true) := valOf_bool true ▸ pure_of_sim hs (by simp only [isConst])
      refine Sim.trans_le ?_ (ih.eval g env t e' hc2 henv hf1)
      simp only [eval]
      refine (Pure.bind_le hp).trans (leM_of_eq fun σ => ?_)
      simp only [bindM_def, liftE, asBool]; rfl
    · have hp : Pure (eval f env c) (.bool false) := valOf_bool false ▸ pure_of_sim hs (by simp only [isConst])
      simp only [Except.ok.injEq] at hf1; subst hf1
      apply sim_const (by simp only [isConst])
      simp only [eval, valOf]
      refine Pure.bind hp ?_
      intro σ; exact Or.inr rfl
    · obtain ⟨t', ht, hf2⟩ := bind_ok hf1
      obtain ⟨eo', he, hf3⟩ := bind_ok hf2
      simp only [Except.ok.injEq] at hf3; subst hf3
      simp only [foldOpt, Except.ok.injEq] at he; subst he
      apply Sim.shift
      simp only [eval]
      sim_auto ih

theorem fold_arrayRepeat (f : Nat) (ih : FoldAt f) (g : CEnv) (env : Env) (v n e' : Expr)
    (hc : covered (.arrayRepeat v n) = true) (henv : EnvOk g env) (hf : fold g (.arrayRepeat v n) = .ok e') :
    Sim (eval (f + 1) env (.arrayRepeat v n)) (fun f' => eval f' env e') := by
  simp only [fold] at hf
  obtain ⟨v', hv, hf1⟩ := bind_ok hf
  obtain ⟨n', hn, hf2⟩ := bind_ok hf1
  clear hf hf1
  simp only [covered, Bool.and_eq_true] at hc
  obtain ⟨hc1, hc2⟩ := hc
  have hstruct : Sim (eval (f + 1) env (.arrayRepeat v n)) (fun f' => eval f' env (.arrayRepeat v' n')) := by
    apply Sim.shift
    simp only [eval]
    sim_auto ih
  split at hf2
  · split at hf2
    · simp at hf2
    · split at hf2
      · simp [unsup] at hf2
      · simp only [Except.ok.injEq] at hf2; subst hf2; exact hstruct
  · simp only [Except.ok.injEq] at hf2; subst hf2; exact hstruct

theorem fold_block (f : Nat) (ih : FoldAt f) (g : CEnv) (env : Env) (body : List Expr) (e' : Expr)
    (hc : covered (.block body) = true) (henv : EnvOk g env) (hf : fold g (.block body) = .ok e') :
    Sim (eval (f + 1) env (.block body)) (fun f' => eval f' env e') := by
  simp only [fold] at hf
  obtain ⟨⟨body', g'⟩, hb, hf2⟩ := bind_ok hf
  simp only [Except.ok.injEq] at hf2; subst hf2
  simp only [covered] at hc
  apply Sim.shift
  simp only [eval]
  refine Sim.bind (ih.evalSeq true g ([] :: env) body body' g' hc (envOk_push henv) hb) (fun a => Sim.const _)

/-- a statement that was a constant when the tree was first built evaluates to a value without
    touching the store, whatever the fuel (or runs out of it) -/
theorem crConst_pure (g : CEnv) (env : Env) (s : Expr) (henv : EnvOk g env) (h : crConst g s = true) :
    isDecl s = false ∧ ∃ v, ∀ k, Pure (eval k env s) v := by
  unfold crConst crVal at h
  split at h
  · next y =>
    refine ⟨rfl, ?_⟩
    split at h
    · next c hl =>
      obtain ⟨hc, hv⟩ := henv y c true hl
      refine ⟨valOf c, fun k => ?_⟩
      cases k with
      | zero => simp only [eval]; exact Pure.fuel _
      | succ k => simp only [eval, hv]; exact Pure.pure _
    · simp at h
  · next c body =>
    refine ⟨rfl, .unit, fun k => ?_⟩
    have hcf : ∀ k, Pure (eval k env c) (.bool false) := by
      intro k
      split at h
      · cases k with
        | zero => simp only [eval]; exact Pure.fuel _
        | succ k => simp only [eval]; exact Pure.pure _
      · next y =>
        split at h
        · next hl =>
          obtain ⟨hc, hv⟩ := henv y _ true hl
          cases k with
          | zero => simp only [eval]; exact Pure.fuel _
          | succ k => simp only [eval, hv, valOf]; exact Pure.pure _
        · simp at h
      · simp at h
    cases k with
    | zero => simp only [eval]; exact Pure.fuel _
    | succ k =>
      simp only [eval]
      cases k with
      | zero => simp only [whileGo]; exact Pure.fuel _
      | succ k =>
        simp only [whileGo]
        refine Pure.bind (hcf k) ?_
        intro σ; exact Or.inr rfl
  · split at h
    · next hl =>
      refine ⟨?_, valOf s, fun k => ?_⟩
      · cases s <;> simp [isCreationLit] at hl <;> rfl
      · cases s <;> simp [isCreationLit] at hl <;>
          (cases k <;> simp only [eval, valOf] <;> first | exact Pure.fuel _ | exact Pure.pure _)
    · simp at h

/-- the folded list of a non-empty statement list is not empty (the last statement is never dropped) -/
theorem foldSeq_ne_nil : ∀ (ss : List Expr) (blk : Bool) (g : CEnv) (ss' : List Expr) (g' : CEnv),
    ss ≠ [] → foldSeq blk g ss = .ok (ss', g') → ss' ≠ []
  | [], _, _, _, _, h, _ => absurd rfl h
  | s :: rest, blk, g, ss', g', _, hf => by
    cases s
    case set x e =>
      simp only [foldSeq] at hf
      obtain ⟨e2, _, hf⟩ := bind_ok hf
      obtain ⟨⟨r2, g2⟩, _, hf⟩ := bind_ok hf
      simp only [Except.ok.injEq, Prod.mk.injEq] at hf
      rw [← hf.1]; exact List.cons_ne_nil _ _
    case destruct xs e =>
      simp only [foldSeq] at hf
      obtain ⟨e2, _, hf⟩ := bind_ok hf
      obtain ⟨⟨r2, g2⟩, _, hf⟩ := bind_ok hf
      simp only [Except.ok.injEq, Prod.mk.injEq] at hf
      rw [← hf.1]; exact List.cons_ne_nil _ _
    case fndecl x ps r body =>
      simp only [foldSeq] at hf
      obtain ⟨⟨b2, g1⟩, _, hf⟩ := bind_ok hf
      obtain ⟨⟨r2, g2⟩, _, hf⟩ := bind_ok hf
      simp only [Except.ok.injEq, Prod.mk.injEq] at hf
      rw [← hf.1]; exact List.cons_ne_nil _ _
    all_goals
      simp only [foldSeq] at hf
      split at hf
      · next hd =>
        simp only [Bool.and_eq_true, Bool.not_eq_true', List.isEmpty_eq_false_iff] at hd
        exact foldSeq_ne_nil rest blk g ss' g' hd.1.2 hf
      · obtain ⟨e2, _, hf⟩ := bind_ok hf
        obtain ⟨⟨r2, g2⟩, _, hf⟩ := bind_ok hf
        simp only [Except.ok.injEq, Prod.mk.injEq] at hf
        rw [← hf.1]; exact List.cons_ne_nil _ _

theorem evalSeq_cons2 (f : Nat) (env : Env) (s r : Expr) (rest : List Expr) :
    evalSeq (f + 1) env (s :: r :: rest) = (do let (_, env') ← evalStmt f env s; evalSeq f env' (r :: rest)) := by
  simp only [evalSeq]

theorem evalSeq_cons_ne (f : Nat) (env : Env) (s : Expr) (rest : List Expr) (h : rest ≠ []) :
    evalSeq (f + 1) env (s :: rest) = (do let (_, env') ← evalStmt f env s; evalSeq f env' rest) := by
  cases rest with
  | nil => exact absurd rfl h
  | cons r rest => exact evalSeq_cons2 f env s r rest

/-- a plain (non-declaring) covered statement -/
theorem sim_stmt_plain (f : Nat) (ih : FoldAt f) (g : CEnv) (env : Env) (s s' : Expr)
    (hd : isDecl s = false) (hc : covered s = true) (henv : EnvOk g env) (hf : fold g s = .ok s') :
    Sim (evalStmt (f + 1) env s) (fun f' => evalStmt f' env s') ∧
      Post (evalStmt (f + 1) env s) (fun r => r.2 = env) := by
  have hd' := fold_notDecl s g s' (gconst_of_envOk henv) hf
  constructor
  · apply Sim.shift
    simp only [evalStmt_notDecl _ _ _ hd, evalStmt_notDecl _ _ _ hd']
    exact Sim.bind (ih.eval g env s s' hc henv hf) (fun a => Sim.const _)
  · rw [evalStmt_notDecl _ _ _ hd]
    exact Post.bind (fun a => Post.pure rfl)

theorem sim_stmt_set (f : Nat) (ih : FoldAt f) (g : CEnv) (env : Env) (x : String) (e e' : Expr) (cr : Bool)
    (hc : covered e = true) (henv : EnvOk g env) (hf : fold g e = .ok e') :
    Sim (evalStmt (f + 1) env (.set x e)) (fun f' => evalStmt f' env (.set x e')) ∧
      Post (evalStmt (f + 1) env (.set x e)) (fun r => EnvOk ((x, constOf e', cr) :: g) r.2) := by
  have hs := ih.evalStmtValue g env e e' hc henv hf
  constructor
  · apply Sim.shift
    simp only [evalStmt]
    exact Sim.bind hs (fun a => Sim.const _)
  · simp only [evalStmt]
    by_cases hce : isConst e' = true
    · have hp : Pure (evalStmtValue f env e) (valOf e') := by
        refine Pure.of_sim hs (fun σ => ?_)
        obtain ⟨f0, h0⟩ := eval_const e' hce env σ
        refine ⟨f0 + 1, fun k hk => ?_⟩
        obtain ⟨k', rfl⟩ : ∃ k', k = k' + 1 := ⟨k - 1, by omega⟩
        simp only [evalStmtValue]; exact h0 k' (by omega)
      refine Post.bind2 (Q := fun v => v = valOf e') (Post.of_pure hp rfl) (fun v hv => Post.pure ?_)
      exact envOk_insert henv x v _ cr (fun c hcc => by
        simp only [constOf, hce, if_true, Option.some.injEq] at hcc; subst hcc; exact ⟨hce, hv⟩)
    · refine Post.bind (fun v => Post.pure ?_)
      exact envOk_insert henv x v _ cr (fun c hcc => by simp [constOf, hce] at hcc)

/-! ### tuple destructuring -/

theorem eval_const_at (c : Expr) (hc : isConst c = true) (k : Nat) (env : Env) (σ σ' : St) (w : Val)
    (h : eval k env c σ = (.ok w, σ')) : w = valOf c ∧ σ' = σ := by
  obtain ⟨f0, h0⟩ := eval_const c hc env σ
  have hm := ((monoAt_le k (max k f0) (by omega)).eval env c).apply σ
  rw [h, h0 _ (by omega)] at hm
  rcases hm with ⟨σ1, h1⟩ | h1
  · cases h1
  · cases h1; exact ⟨rfl, rfl⟩

theorem evalList_consts : ∀ (es : List Expr) (k : Nat) (env : Env) (σ σ' : St) (ws : List Val),
    evalList k env es σ = (.ok ws, σ') →
    ws.length = es.length ∧ ∀ (i : Nat) (c : Expr), es[i]? = some c → isConst c = true → ws[i]? = some (valOf c)
  | [], k, env, σ, σ', ws, h => by
    cases k with
    | zero => simp [evalList, throwS] at h
    | succ k =>
      simp only [evalList] at h
      cases h
      exact ⟨rfl, fun i c hi => by simp at hi⟩
  | e :: es, k, env, σ, σ', ws, h => by
    cases k with
    | zero => simp [evalList, throwS] at h
    | succ k =>
      simp only [evalList, bindM_def] at h
      cases he : eval k env e σ with
      | mk r σ1 =>
        rw [he] at h
        cases r with
        | error x => cases h
        | ok v =>
          simp only [] at h
          cases hl : evalList k env es σ1 with
          | mk r2 σ2 =>
            rw [hl] at h
            cases r2 with
            | error x => cases h
            | ok vs =>
              cases h
              obtain ⟨hlen, hget⟩ := evalList_consts es k env σ1 _ vs hl
              refine ⟨by simp [hlen], fun i c hi hc => ?_⟩
              cases i with
              | zero =>
                simp only [List.getElem?_cons_zero, Option.some.injEq] at hi ⊢
                subst hi
                exact (eval_const_at e hc k env σ σ1 v he).1
              | succ i =>
                simp only [List.getElem?_cons_succ] at hi ⊢
                exact hget i c hi hc

/-- what the pass records for the names agrees with the values bound to them, position by position;
    names left over (the value had fewer components) are recorded as unknown -/
inductive Agree : List (String × Option Expr × Bool) → List (String × Val) → Prop where
  | rest (bs : List (String × Option Expr × Bool)) (h : ∀ b, b ∈ bs → b.2.1 = none) : Agree bs []
  | cons (x : String) (co : Option Expr) (cr : Bool) (v : Val) (bs : List (String × Option Expr × Bool))
      (xvs : List (String × Val)) (h : ∀ c, co = some c → isConst c = true ∧ v = valOf c) (ht : Agree bs xvs) :
      Agree ((x, co, cr) :: bs) ((x, v) :: xvs)

theorem envOk_unknown {g : CEnv} {env : Env} (h : EnvOk g env) (x : String) (cr : Bool) :
    EnvOk ((x, none, cr) :: g) env := by
  intro y c cr' hl
  simp only [CEnv.lookup] at hl
  by_cases hxy : (x == y) = true
  · simp [hxy] at hl
  · simp only [hxy, if_false, Bool.false_eq_true] at hl
    exact h y c cr' hl

theorem envOk_binds : ∀ (bs : List (String × Option Expr × Bool)) (xvs : List (String × Val)) (g : CEnv) (env : Env),
    EnvOk g env → Agree bs xvs →
    EnvOk (bindAll bs g) (xvs.foldl (fun en (x, w) => en.insert x w) env) := by
  intro bs xvs g env henv ha
  induction ha generalizing g env with
  | rest bs hn =>
    simp only [List.foldl_nil]
    induction bs generalizing g with
    | nil => exact henv
    | cons b bs ihb =>
      obtain ⟨x, co, cr⟩ := b
      have : co = none := hn (x, co, cr) (by simp)
      subst this
      simp only [bindAll, List.foldl_cons]
      exact ihb (fun b hb => hn b (by simp [hb])) ((x, none, cr) :: g) (envOk_unknown henv x cr)
  | cons x co cr v bs xvs h ht ih =>
    simp only [bindAll, List.foldl_cons]
    exact ih (g := (x, co, cr) :: g) (env := env.insert x v) (envOk_insert henv x v co cr h)

theorem agree_unknown : ∀ (xs : List String) (vs : List Val),
    Agree (xs.map fun x => (x, none, false)) (List.zip xs vs)
  | [], vs => by simp only [List.map_nil, List.zip_nil_left]; exact Agree.rest [] (fun b hb => by simp at hb)
  | x :: xs, [] => by
    simp only [List.zip_nil_right]
    exact Agree.rest _ (fun b hb => by
      simp only [List.mem_map] at hb
      obtain ⟨y, _, rfl⟩ := hb; rfl)
  | x :: xs, v :: vs => by
    simp only [List.map_cons, List.zip_cons_cons]
    exact Agree.cons x none false v _ _ (fun c hc => by simp at hc) (agree_unknown xs vs)

theorem agree_tuple : ∀ (xs : List String) (es : List Expr) (crs : List Bool) (vs : List Val),
    vs.length = es.length → es.length ≤ crs.length →
    (∀ (i : Nat) (c : Expr), es[i]? = some c → isConst c = true → vs[i]? = some (valOf c)) →
    Agree ((List.zip xs (List.zip es crs)).map fun (x, c, cr) => (x, constOf c, cr && isConst c)) (List.zip xs vs)
  | [], es, crs, vs, _, _, _ => by
    simp only [List.zip_nil_left, List.map_nil]; exact Agree.rest [] (fun b hb => by simp at hb)
  | x :: xs, [], crs, vs, hl, _, _ => by
    have : vs = [] := by cases vs <;> simp_all
    subst this
    simp only [List.zip_nil_left, List.zip_nil_right, List.map_nil]
    exact Agree.rest [] (fun b hb => by simp at hb)
  | x :: xs, e :: es, [], vs, _, hc, _ => by simp at hc
  | x :: xs, e :: es, cr :: crs, [], hl, _, _ => by simp at hl
  | x :: xs, e :: es, cr :: crs, v :: vs, hl, hc, hg => by
    simp only [List.zip_cons_cons, List.map_cons]
    refine Agree.cons x (constOf e) (cr && isConst e) v _ _ (fun c hcc => ?_) ?_
    · simp only [constOf] at hcc
      split at hcc
      · next hce =>
        simp only [Option.some.injEq] at hcc; subst hcc
        have := hg 0 e (by simp) hce
        simp only [List.getElem?_cons_zero, Option.some.injEq] at this
        exact ⟨hce, this⟩
      · simp at hcc
    · refine agree_tuple xs es crs vs (by simpa using hl) (by simpa using hc) (fun i c hi hcc => ?_)
      have := hg (i + 1) c (by simpa using hi) hcc
      simpa using this

def crsOf (g : CEnv) (e0 : Expr) : List Bool :=
  match e0 with
  | .tuple es0 => es0.map (crConst g)
  | _ => []

theorem destructBinds_tuple (g : CEnv) (xs : List String) (e0 : Expr) (es : List Expr) :
    destructBinds g xs e0 (.tuple es) =
      (List.zip xs (List.zip es (crsOf g e0 ++ List.replicate es.length false))).map
        fun (x, c, cr) => (x, constOf c, cr && isConst c) := by
  cases e0 <;> simp only [destructBinds, crsOf]

theorem sim_stmt_destruct (f : Nat) (ih : FoldAt f) (g : CEnv) (env : Env) (xs : List String) (e e' : Expr)
    (hc : covered e = true) (henv : EnvOk g env) (hf : fold g e = .ok e') :
    Sim (evalStmt (f + 1) env (.destruct xs e)) (fun f' => evalStmt f' env (.destruct xs e')) ∧
      Post (evalStmt (f + 1) env (.destruct xs e)) (fun r => EnvOk (bindAll (destructBinds g xs e e') g) r.2) := by
  have hs := ih.evalStmtValue g env e e' hc henv hf
  constructor
  · apply Sim.shift
    simp only [evalStmt]
    exact Sim.bind hs (fun a => Sim.const _)
  · simp only [evalStmt]
    refine Post.bind2 (Post.of_sim hs) (fun v hv => ?_)
    obtain ⟨f', σ, σ', hev⟩ := hv
    cases v with
    | tup vs =>
      refine Post.pure ?_
      apply envOk_binds _ _ g env henv
      cases e'
      case tuple es =>
        -- the folded right side is a tuple literal: its constant components are the values bound
        have hd := destructBinds_tuple g xs e es
        have hcl : es.length ≤ (crsOf g e ++ List.replicate es.length false).length := by simp
        rw [hd]
        cases f' with
        | zero => simp [evalStmtValue, throwS] at hev
        | succ k =>
          simp only [evalStmtValue] at hev
          cases k with
          | zero => simp [eval, throwS] at hev
          | succ j =>
            simp only [eval, bindM_def] at hev
            cases hl : evalList j env es σ with
            | mk r σ1 =>
              rw [hl] at hev
              cases r with
              | error x => cases hev
              | ok ws =>
                cases hev
                obtain ⟨hlen, hget⟩ := evalList_consts es j env σ _ _ hl
                exact agree_tuple xs es _ _ hlen hcl hget
      all_goals
        simp only [destructBinds]
        exact agree_unknown xs vs
    | _ => exact fun σ a σ' h => by simp [wrong, throwS] at h

theorem coveredS_cons (s : Expr) (rest : List Expr) (hd : isDecl s = false) :
    coveredS (s :: rest) = (covered s && coveredS rest) := by
  cases s <;> simp [isDecl] at hd <;> simp only [coveredS]

theorem fold_seq (f : Nat) (ihs : ∀ k, k ≤ f → FoldAt k) : ∀ (blk : Bool) (g : CEnv) (env : Env) (ss ss' : List Expr) (g' : CEnv),
    coveredS ss = true → EnvOk g env → foldSeq blk g ss = .ok (ss', g') →
    Sim (evalSeq (f + 1) env ss) (fun f' => evalSeq f' env ss') := by
  intro blk g env ss ss' g' hc henv hf
  have ih := ihs f (Nat.le_refl f)
  cases ss with
  | nil =>
    simp only [foldSeq, Except.ok.injEq, Prod.mk.injEq] at hf
    rw [← hf.1]
    exact Sim.of_mono (fun a b h => (monoAt_le a b h).evalSeq env []) _
  | cons s rest =>
    -- the generic shape: statement folded to `s'`, rest folded to `rest'` under `g1`
    have generic : ∀ (s' : Expr) (rest' : List Expr) (g1 : CEnv),
        Sim (evalStmt f env s) (fun f' => evalStmt f' env s') →
        Post (evalStmt f env s) (fun r => EnvOk g1 r.2) →
        coveredS rest = true → foldSeq blk g1 rest = .ok (rest', g') →
        Sim (evalSeq (f + 1) env (s :: rest)) (fun f' => evalSeq f' env (s' :: rest')) := by
      intro s' rest' g1 hs hp hcr hfr
      cases rest with
      | nil =>
        simp only [foldSeq, Except.ok.injEq, Prod.mk.injEq] at hfr
        rw [← hfr.1]
        apply Sim.shift
        simp only [evalSeq]
        exact hs
      | cons r rest2 =>
        have hne := foldSeq_ne_nil (r :: rest2) blk g1 rest' g' (List.cons_ne_nil _ _) hfr
        apply Sim.shift
        simp only [evalSeq_cons2, evalSeq_cons_ne _ _ _ _ hne]
        refine Sim.bindP hs hp (fun a ha => ?_)
        exact ih.evalSeq blk g1 a.2 (r :: rest2) rest' g' hcr ha hfr
    cases f with
    | zero =>
      -- no fuel for the statement: the original runs out of fuel
      refine Sim.trans_le (LeM.intro fun σ => Or.inl ⟨σ, ?_⟩) (Sim.fuel _)
      cases rest <;> simp only [evalSeq, evalStmt, bindM_def, throwS]
    | succ k =>
      have ihk := ihs k (Nat.le_succ k)
      cases s
      case set x e =>
        simp only [coveredS, Bool.and_eq_true] at hc
        simp only [foldSeq] at hf
        obtain ⟨e2, he2, hf2⟩ := bind_ok hf
        obtain ⟨⟨r2, g2⟩, hr2, hf3⟩ := bind_ok hf2
        simp only [Except.ok.injEq, Prod.mk.injEq] at hf3
        obtain ⟨h1, h2⟩ := hf3
        subst h1; subst h2
        obtain ⟨hs, hp⟩ := sim_stmt_set k ihk g env x e e2 (crConst g e && isConst e2) hc.1 henv he2
        exact generic _ _ _ hs hp hc.2 hr2
      case destruct xs e =>
        simp only [coveredS, Bool.and_eq_true] at hc
        simp only [foldSeq] at hf
        obtain ⟨e2, he2, hf2⟩ := bind_ok hf
        obtain ⟨⟨r2, g2⟩, hr2, hf3⟩ := bind_ok hf2
        simp only [Except.ok.injEq, Prod.mk.injEq] at hf3
        obtain ⟨h1, h2⟩ := hf3
        subst h1; subst h2
        obtain ⟨hs, hp⟩ := sim_stmt_destruct k ihk g env xs e e2 hc.1 henv he2
        exact generic _ _ _ hs hp hc.2 hr2
      case fndecl => simp [coveredS, covered] at hc
      all_goals
        rw [coveredS_cons _ _ rfl] at hc
        simp only [Bool.and_eq_true] at hc
        simp only [foldSeq] at hf
        split at hf
        · next hd =>
          simp only [Bool.and_eq_true, Bool.not_eq_true', List.isEmpty_eq_false_iff] at hd
          obtain ⟨hnd, v, hv⟩ := crConst_pure g env _ henv hd.2
          refine Sim.trans_le ?_ (ih.evalSeq blk g env rest ss' g' hc.2 henv hf)
          rw [evalSeq_cons_ne _ _ _ _ hd.1.2, evalStmt_notDecl _ _ _ hnd]
          have hp : Pure (do let v ← eval k env _; pure (v, env) : M (Val × Env)) (v, env) :=
            Pure.bind (hv k) (Pure.pure _)
          exact Pure.bind_le hp
        · obtain ⟨s2, hs2, hf2⟩ := bind_ok hf
          obtain ⟨⟨r2, g2⟩, hr2, hf3⟩ := bind_ok hf2
          simp only [Except.ok.injEq, Prod.mk.injEq] at hf3
          obtain ⟨h1, h2⟩ := hf3
          subst h1; subst h2
          obtain ⟨hs, hp⟩ := sim_stmt_plain k ihk g env _ s2 rfl hc.1 henv hs2
          refine generic _ _ g hs ?_ hc.2 hr2
          intro σ a σ' ha
          rw [hp σ a σ' ha]; exact henv

/-! ### `while c body` becomes `loop { if c' body' else break }` -/

def loopForm (c' body' : Expr) : Expr := .ifElse c' body' (some .brk)

theorem eval_loopForm (n : Nat) (env : Env) (c' body' : Expr) :
    eval (n + 1) env (loopForm c' body') = (do
      let c ← eval n env c'
      let c ← liftE (asBool c)
      if c then eval n env body' else eval n env .brk) := by
  simp only [loopForm, eval]

theorem eval_brk (n : Nat) (env : Env) : eval (n + 1) env .brk = throwS .brk := by simp only [eval]

theorem loopForm_err (f' : Nat) (env : Env) (c' body' : Expr) (σ σ1 : St) (s : Sig)
    (hc : eval f' env c' σ = (.error s, σ1)) (hs : isCtl s = false) :
    loopGo (f' + 3) env (loopForm c' body') σ = (.error s, σ1) := by
  simp only [loopGo, bodyOnce, eval_loopForm, bindM_def, tryCatchS, hc]
  cases s <;> simp [isCtl] at hs <;> rfl

theorem loopForm_notBool (f' : Nat) (env : Env) (c' body' : Expr) (σ σ1 : St) (cv : Val) (s : Sig)
    (hc : eval f' env c' σ = (.ok cv, σ1)) (hb : asBool cv = .error s) :
    loopGo (f' + 3) env (loopForm c' body') σ = (.error s, σ1) := by
  have hs : isCtl s = false := asBool_noCtl cv s hb
  simp only [loopGo, bodyOnce, eval_loopForm, bindM_def, tryCatchS, hc, liftE, hb]
  cases s <;> simp [isCtl] at hs <;> rfl

theorem loopForm_false (f' : Nat) (env : Env) (c' body' : Expr) (σ σ1 : St)
    (hc : eval f' env c' σ = (.ok (.bool false), σ1)) :
    loopGo (f' + 3) env (loopForm c' body') σ = (.ok .unit, σ1) := by
  cases f' with
  | zero => simp [eval, throwS] at hc
  | succ k =>
    simp only [loopGo, bodyOnce, eval_loopForm, eval_brk, bindM_def, tryCatchS, hc, liftE, asBool]
    rfl

theorem loopForm_true (f' : Nat) (env : Env) (c' body' : Expr) (σ σ1 : St)
    (hc : eval f' env c' σ = (.ok (.bool true), σ1)) :
    loopGo (f' + 3) env (loopForm c' body') σ =
      (do let go ← bodyOnce (f' + 1) env body'
          if go then loopGo (f' + 2) env (loopForm c' body') else pure .unit) σ1 := by
  rw [loopGo]
  simp only [bindM_def]
  have hb : bodyOnce (f' + 2) env (loopForm c' body') σ = bodyOnce (f' + 1) env body' σ1 := by
    simp only [bodyOnce, eval_loopForm, bindM_def, tryCatchS, hc, liftE, asBool]
    rfl
  rw [hb]

theorem whileGo_unfold (f : Nat) (env : Env) (c body : Expr) (σ : St) :
    whileGo (f + 1) env c body σ = (match eval f env c σ with
      | (.error s, σ1) => (.error s, σ1)
      | (.ok cv, σ1) => match asBool cv with
        | .error s => (.error s, σ1)
        | .ok false => (.ok .unit, σ1)
        | .ok true => (do let go ← bodyOnce f env body
                           if go then whileGo f env c body else pure .unit) σ1) := by
  simp only [whileGo, bindM_def, liftE]
  cases eval f env c σ with
  | mk r σ1 =>
    cases r with
    | error s => rfl
    | ok cv =>
      simp only []
      cases asBool cv with
      | error s => rfl
      | ok b => cases b <;> rfl

theorem asBool_ok (cv : Val) (b : Bool) (h : asBool cv = .ok b) : cv = .bool b := by
  unfold asBool at h
  split at h
  · cases h; rfl
  · cases h

/-- the loop the pass builds for a `while` whose condition is not a constant -/
theorem sim_while (env : Env) (c body c' body' : Expr) (hcf : condForm c = true) :
    ∀ (f : Nat),
      (∀ k, k ≤ f → Sim (eval k env c) (fun f' => eval f' env c')) →
      (∀ k, k ≤ f → Sim (bodyOnce k env body) (fun f' => bodyOnce f' env body')) →
      Sim (whileGo f env c body) (fun f' => loopGo f' env (loopForm c' body')) := by
  unfold Sim
  intro f
  induction f with
  | zero => intro _ _ σ; exact ⟨0, fun _ _ => Or.inl ⟨σ, by simp only [whileGo, throwS]⟩⟩
  | succ f ihf =>
    intro hcond hbody σ
    have monoL : ∀ a b, a ≤ b → LeR (loopGo a env (loopForm c' body') σ) (loopGo b env (loopForm c' body') σ) :=
      fun a b h => ((monoAt_le a b h).loopGo env _).apply σ
    rw [whileGo_unfold]
    cases hcv : eval f env c σ with
    | mk rc σ1 =>
      -- the condition of the folded loop, with enough fuel, ends as the original condition does
      obtain ⟨f1, h1⟩ := hcond f (Nat.le_succ f) σ
      by_cases hfuel : ∃ σx, (rc, σ1) = (Except.error Sig.fuel, σx)
      · obtain ⟨σx, hx⟩ := hfuel
        cases hx
        exact ⟨0, fun _ _ => Or.inl ⟨σ1, rfl⟩⟩
      · have hc' : ∀ f', f1 ≤ f' → eval f' env c' σ = (rc, σ1) := by
          intro f' hle
          rcases h1 f' hle with ⟨σx, hx⟩ | hx
          · rw [hcv] at hx; exact absurd ⟨σx, hx⟩ hfuel
          · exact hx.symm.trans hcv
        cases rc with
        | error s =>
          have hs : isCtl s = false := (noCtl_all f).eval env c hcf σ s σ1 hcv
          refine ⟨f1 + 3, fun f' hle => Or.inr ?_⟩
          obtain ⟨k, rfl⟩ : ∃ k, f' = k + 3 := ⟨f' - 3, by omega⟩
          simp only []
          rw [loopForm_err k env c' body' σ σ1 s (hc' k (by omega)) hs]
        | ok cv =>
          simp only []
          cases hb : asBool cv with
          | error s =>
            refine ⟨f1 + 3, fun f' hle => Or.inr ?_⟩
            obtain ⟨k, rfl⟩ : ∃ k, f' = k + 3 := ⟨f' - 3, by omega⟩
            simp only []
            rw [loopForm_notBool k env c' body' σ σ1 cv s (hc' k (by omega)) hb]
          | ok b =>
            have hcvb := asBool_ok cv b hb
            subst hcvb
            cases b with
            | false =>
              refine ⟨f1 + 3, fun f' hle => Or.inr ?_⟩
              obtain ⟨k, rfl⟩ : ∃ k, f' = k + 3 := ⟨f' - 3, by omega⟩
              simp only []
              rw [loopForm_false k env c' body' σ σ1 (hc' k (by omega))]
            | true =>
              simp only []
              -- one run of the body, then the loop again
              obtain ⟨f2, h2⟩ := hbody f (Nat.le_succ f) σ1
              rw [bindM_def]
              cases hbo : bodyOnce f env body σ1 with
              | mk rb σ2 =>
                by_cases hfuel2 : ∃ σx, (rb, σ2) = (Except.error Sig.fuel, σx)
                · obtain ⟨σx, hx⟩ := hfuel2
                  cases hx
                  exact ⟨0, fun _ _ => Or.inl ⟨σ2, rfl⟩⟩
                · have hb' : ∀ f', f2 ≤ f' → bodyOnce f' env body' σ1 = (rb, σ2) := by
                    intro f' hle
                    rcases h2 f' hle with ⟨σx, hx⟩ | hx
                    · rw [hbo] at hx; exact absurd ⟨σx, hx⟩ hfuel2
                    · exact hx.symm.trans hbo
                  cases rb with
                  | error e =>
                    refine ⟨max f1 f2 + 3, fun f' hle => Or.inr ?_⟩
                    obtain ⟨k, rfl⟩ : ∃ k, f' = k + 3 := ⟨f' - 3, by omega⟩
                    simp only []
                    rw [loopForm_true k env c' body' σ σ1 (hc' k (by omega)), bindM_def, hb' (k + 1) (by omega)]
                  | ok go =>
                    cases go with
                    | false =>
                      refine ⟨max f1 f2 + 3, fun f' hle => Or.inr ?_⟩
                      obtain ⟨k, rfl⟩ : ∃ k, f' = k + 3 := ⟨f' - 3, by omega⟩
                      simp only []
                      rw [loopForm_true k env c' body' σ σ1 (hc' k (by omega)), bindM_def, hb' (k + 1) (by omega)]
                      rfl
                    | true =>
                      obtain ⟨f3, h3⟩ := ihf (fun k hk => hcond k (by omega)) (fun k hk => hbody k (by omega)) σ2
                      refine ⟨max (max f1 f2) f3 + 3, fun f' hle => ?_⟩
                      obtain ⟨k, rfl⟩ : ∃ k, f' = k + 3 := ⟨f' - 3, by omega⟩
                      simp only []
                      rw [loopForm_true k env c' body' σ σ1 (hc' k (by omega)), bindM_def, hb' (k + 1) (by omega)]
                      exact h3 (k + 2) (by omega)

theorem sim_while_true (env : Env) (c body body' : Expr) :
    ∀ (f : Nat),
      (∀ k, k ≤ f → Pure (eval k env c) (.bool true)) →
      (∀ k, k ≤ f → Sim (bodyOnce k env body) (fun f' => bodyOnce f' env body')) →
      Sim (whileGo f env c body) (fun f' => loopGo f' env body') := by
  intro f
  induction f with
  | zero => intro _ _; simp only [whileGo]; exact Sim.fuel _
  | succ f ihf =>
    intro hcond hbody
    have hle : LeM (whileGo (f + 1) env c body)
        (do let go ← bodyOnce f env body; if go then whileGo f env c body else pure .unit) := by
      simp only [whileGo]
      refine (Pure.bind_le (hcond f (Nat.le_succ f))).trans (leM_of_eq fun σ => ?_)
      simp only [bindM_def, liftE, asBool]; rfl
    refine Sim.trans_le hle ?_
    apply Sim.shift
    simp only [loopGo]
    refine Sim.bind (hbody f (Nat.le_succ f)) (fun go => ?_)
    cases go with
    | false => exact Sim.const _
    | true => exact ihf (fun k hk => hcond k (by omega)) (fun k hk => hbody k (by omega))

theorem pure_while_false (env : Env) (c body : Expr) (f : Nat)
    (hcond : ∀ k, k ≤ f → Pure (eval k env c) (.bool false)) : Pure (whileGo f env c body) .unit := by
  cases f with
  | zero => simp only [whileGo]; exact Pure.fuel _
  | succ f =>
    simp only [whileGo]
    refine Pure.bind (hcond f (Nat.le_succ f)) ?_
    intro σ; exact Or.inr rfl

theorem loop_brk_eventually (env : Env) (σ : St) :
    ∃ f0, ∀ f, f0 ≤ f → eval f env (.loop .brk) σ = (.ok .unit, σ) := by
  refine ⟨4, fun f hf => ?_⟩
  obtain ⟨k, rfl⟩ : ∃ k, f = k + 4 := ⟨f - 4, by omega⟩
  simp only [eval, loopGo, bodyOnce, bindM_def, tryCatchS, throwS]
  rfl

theorem fold_while (f : Nat) (ihs : ∀ k, k ≤ f → FoldAt k) (g : CEnv) (env : Env) (c body e' : Expr)
    (hc : covered (.while c body) = true) (henv : EnvOk g env) (hf : fold g (.while c body) = .ok e') :
    Sim (eval (f + 1) env (.while c body)) (fun f' => eval f' env e') := by
  simp only [covered, Bool.and_eq_true] at hc
  obtain ⟨⟨hcf, hcc⟩, hcb⟩ := hc
  have hbodyOnce : ∀ body', fold g body = .ok body' →
      ∀ k, k ≤ f → Sim (bodyOnce k env body) (fun f' => bodyOnce f' env body') :=
    fun body' hb k hk => (ihs k hk).bodyOnce g env body body' hcb henv hb
  have hpure : ∀ b, fold g c = .ok (.litBool b) → ∀ k, k ≤ f → Pure (eval k env c) (.bool b) :=
    fun b hcb' k hk => valOf_bool b ▸ pure_of_sim ((ihs k hk).eval g env c _ hcc henv hcb') (by simp only [isConst])
  have htrue : ∀ body', fold g c = .ok (.litBool true) → fold g body = .ok body' →
      Sim (eval (f + 1) env (.while c body)) (fun f' => eval f' env (.loop body')) := by
    intro body' hct hb
    apply Sim.shift
    simp only [eval]
    exact sim_while_true env c body body' f (hpure true hct) (hbodyOnce body' hb)
  simp only [fold] at hf
  split at hf
  · obtain ⟨c', hcfold, hf2⟩ := bind_ok hf
    split at hf2
    · obtain ⟨body', hb, hf3⟩ := bind_ok hf2
      simp only [Except.ok.injEq] at hf3; subst hf3
      exact htrue body' hcfold hb
    · simp only [Except.ok.injEq] at hf2; subst hf2
      apply sim_const (by simp only [isConst])
      simp only [eval, valOf]
      exact pure_while_false env c body f (hpure false hcfold)
    · simp [unsup] at hf2
  · obtain ⟨c', hcfold, hf2⟩ := bind_ok hf
    split at hf2
    · obtain ⟨body', hb, hf3⟩ := bind_ok hf2
      simp only [Except.ok.injEq] at hf3; subst hf3
      exact htrue body' hcfold hb
    · simp only [Except.ok.injEq] at hf2; subst hf2
      refine Sim.of_pure (v := Val.unit) ?_ (loop_brk_eventually env)
      simp only [eval]
      exact pure_while_false env c body f (hpure false hcfold)
    · obtain ⟨body', hb, hf3⟩ := bind_ok hf2
      simp only [Except.ok.injEq] at hf3; subst hf3
      apply Sim.shift
      simp only [eval]
      exact sim_while env c body c' body' hcf f
        (fun k hk => (ihs k hk).eval g env c c' hcc henv hcfold) (hbodyOnce body' hb)

theorem foldAt_succ (f : Nat) (ihs : ∀ k, k ≤ f → FoldAt k) : FoldAt (f + 1) := by
  have ih := ihs f (Nat.le_refl f)
  constructor
  · intro g env e e' hc henv hf
    cases e
    case var x => exact fold_var f g env x e' henv hf
    case pre op a => exact fold_pre f ih g env op a e' hc henv hf
    case and a b => exact fold_and f ih g env a b e' hc henv hf
    case or a b => exact fold_or f ih g env a b e' hc henv hf
    case bin op a b => exact fold_bin f ih g env op a b e' hc henv hf
    case «at» a i => exact fold_at f ih g env a i e' hc henv hf
    case ifElse c t e => exact fold_ifElse f ih g env c t e e' hc henv hf
    case arrayRepeat v n => exact fold_arrayRepeat f ih g env v n e' hc henv hf
    case litBool b => simp only [fold, Except.ok.injEq] at hf; subst hf; exact evalMono _ _ _
    case litInt b => simp only [fold, Except.ok.injEq] at hf; subst hf; exact evalMono _ _ _
    case litFloat b => simp only [fold, Except.ok.injEq] at hf; subst hf; exact evalMono _ _ _
    case litStr b => simp only [fold, Except.ok.injEq] at hf; subst hf; exact evalMono _ _ _
    case litUnit => simp only [fold, Except.ok.injEq] at hf; subst hf; exact evalMono _ _ _
    case brk => simp only [fold, Except.ok.injEq] at hf; subst hf; exact evalMono _ _ _
    case cont => simp only [fold, Except.ok.injEq] at hf; subst hf; exact evalMono _ _ _
    case array es => simp only [fold] at hf; structural ih
    case tuple es => simp only [fold] at hf; structural ih
    case struct fs => simp only [fold] at hf; structural ih
    case mutE ty a => simp only [fold] at hf; structural ih
    case assign op t v => simp only [fold] at hf; structural ih
    case call fn args => simp only [fold] at hf; structural ih
    case tacc a n => simp only [fold] at hf; structural ih
    case facc a k => simp only [fold] at hf; structural ih
    case tfilter a t => simp only [fold] at hf; structural ih
    case post op a => simp only [fold] at hf; cases op <;> structural ih
    case reduce it init fn => simp only [fold] at hf; structural ih
    case ret eo =>
      cases eo with
      | none =>
        simp only [fold, foldOpt] at hf
        obtain ⟨e2, he2, hf2⟩ := bind_ok hf
        simp only [Except.ok.injEq] at he2 hf2; subst he2; subst hf2
        exact evalMono _ _ _
      | some e =>
        simp only [fold, foldOpt] at hf
        obtain ⟨e2, he2, hf2⟩ := bind_ok hf
        obtain ⟨e3, he3, hf3⟩ := bind_ok he2
        simp only [Except.ok.injEq] at hf2 hf3; subst hf3; subst hf2
        simp only [covered, coveredO] at hc
        apply Sim.shift
        simp only [eval]
        sim_auto ih
    case slice a s e st =>
      simp only [covered, Bool.and_eq_true] at hc
      obtain ⟨⟨⟨⟨hc1, hc2⟩, hc3⟩, hc4⟩, hc5⟩ := hc
      cases s <;> cases e <;> cases st <;> (try (simp at hc5; done)) <;>
        (simp only [fold] at hf
         obtain ⟨a2, ha2, hf2⟩ := bind_ok hf
         obtain ⟨s2, hs2, hf3⟩ := bind_ok hf2
         obtain ⟨e2, he2, hf4⟩ := bind_ok hf3
         obtain ⟨st2, hst2, hf5⟩ := bind_ok hf4
         simp only [Except.ok.injEq] at hf5; subst hf5
         apply Sim.shift
         simp only [eval]
         sim_auto ih)
    case block body => exact fold_block f ih g env body e' hc henv hf
    case loop body => simp only [fold] at hf; structural ih
    case «while» c body => exact fold_while f ihs g env c body e' hc henv hf
    case whileSet x ty e body =>
      simp only [fold] at hf
      obtain ⟨e2, he2, hf2⟩ := bind_ok hf
      obtain ⟨b2, hb2, hf3⟩ := bind_ok hf2
      simp only [Except.ok.injEq] at hf3; subst hf3
      simp only [covered, Bool.and_eq_true] at hc
      apply Sim.shift
      simp only [eval]
      exact ih.whileSetGo g env x ty e e2 body b2 hc.1 hc.2 henv he2 hb2
    case forE x it body =>
      simp only [fold] at hf
      obtain ⟨it2, hit2, hf2⟩ := bind_ok hf
      obtain ⟨b2, hb2, hf3⟩ := bind_ok hf2
      simp only [Except.ok.injEq] at hf3; subst hf3
      simp only [covered, Bool.and_eq_true] at hc
      apply Sim.shift
      simp only [eval]
      refine Sim.bind (ih.eval g env it it2 hc.1 henv hit2) (fun itv => ?_)
      exact ih.forGo (("$iter", none, false) :: g) ([("$iter", itv)] :: env) x itv body b2 hc.2
        (envOk_bind henv "$iter" itv) hb2
    case matchE e arms => simp only [fold] at hf; structural ih
    case ifSet x ty e body els =>
      cases els with
      | none =>
        simp only [fold, foldOpt] at hf
        obtain ⟨e2, he2, hf2⟩ := bind_ok hf
        obtain ⟨b2, hb2, hf3⟩ := bind_ok hf2
        obtain ⟨o2, ho2, hf4⟩ := bind_ok hf3
        simp only [Except.ok.injEq] at ho2 hf4; subst ho2; subst hf4
        simp only [covered, coveredO, Bool.and_eq_true] at hc
        apply Sim.shift
        simp only [eval]
        sim_auto ih
      | some el =>
        simp only [fold, foldOpt] at hf
        obtain ⟨e2, he2, hf2⟩ := bind_ok hf
        obtain ⟨b2, hb2, hf3⟩ := bind_ok hf2
        obtain ⟨o2, ho2, hf4⟩ := bind_ok hf3
        obtain ⟨el2, hel2, ho3⟩ := bind_ok ho2
        simp only [Except.ok.injEq] at ho3 hf4; subst ho3; subst hf4
        simp only [covered, coveredO, Bool.and_eq_true] at hc
        apply Sim.shift
        simp only [eval]
        sim_auto ih
    all_goals (simp [covered] at hc)
  · intro g env e e' hc henv hf
    cases e with
    | none =>
      simp only [foldOpt, Except.ok.injEq] at hf; subst hf
      exact Sim.of_mono (fun a b h => (monoAt_le a b h).evalOpt env none) _
    | some e =>
      simp only [foldOpt] at hf
      obtain ⟨e2, he2, hf2⟩ := bind_ok hf
      simp only [Except.ok.injEq] at hf2; subst hf2
      simp only [coveredO] at hc
      apply Sim.shift
      simp only [evalOpt]
      sim_auto ih
  · intro g env es es' hc henv hf
    cases es with
    | nil =>
      simp only [foldList, Except.ok.injEq] at hf; subst hf
      exact Sim.of_mono (fun a b h => (monoAt_le a b h).evalList env []) _
    | cons e es =>
      simp only [foldList] at hf
      obtain ⟨e2, he2, hf2⟩ := bind_ok hf
      obtain ⟨es2, hes2, hf3⟩ := bind_ok hf2
      simp only [Except.ok.injEq] at hf3; subst hf3
      simp only [coveredL, Bool.and_eq_true] at hc
      apply Sim.shift
      simp only [evalList]
      sim_auto ih
  · intro g env fs fs' hc henv hf
    cases fs with
    | nil =>
      simp only [foldFields, Except.ok.injEq] at hf; subst hf
      exact Sim.of_mono (fun a b h => (monoAt_le a b h).evalFields env []) _
    | cons p fs =>
      obtain ⟨k, e⟩ := p
      simp only [foldFields] at hf
      obtain ⟨e2, he2, hf2⟩ := bind_ok hf
      obtain ⟨fs2, hfs2, hf3⟩ := bind_ok hf2
      simp only [Except.ok.injEq] at hf3; subst hf3
      simp only [coveredF, Bool.and_eq_true] at hc
      apply Sim.shift
      simp only [evalFields]
      sim_auto ih

  · intro g env e e' hc henv hf
    apply Sim.shift
    simp only [evalStmtValue]
    exact ih.eval g env e e' hc henv hf
  · intro blk g env ss ss' g' hc henv hf
    exact fold_seq f ihs blk g env ss ss' g' hc henv hf

  · intro g env v arms arms' hc henv hf
    cases arms with
    | nil =>
      simp only [foldArms, Except.ok.injEq] at hf; subst hf
      exact Sim.of_mono (fun a b h => (monoAt_le a b h).evalArms env v []) _
    | cons arm rest =>
      cases arm <;>
        (simp only [foldArms] at hf
         repeat (obtain ⟨_, _, hf⟩ := bind_ok hf)
         simp only [Except.ok.injEq] at hf
         subst hf
         simp only [coveredA, Bool.and_eq_true] at hc
         apply Sim.shift
         simp only [evalArms]
         sim_auto ih)
  · intro g env v cs cs' hc henv hf
    cases cs with
    | nil =>
      simp only [foldList, Except.ok.injEq] at hf; subst hf
      exact Sim.of_mono (fun a b h => (monoAt_le a b h).candGo env v []) _
    | cons c cs =>
      simp only [foldList] at hf
      obtain ⟨c2, hc2, hf2⟩ := bind_ok hf
      obtain ⟨cs2, hcs2, hf3⟩ := bind_ok hf2
      simp only [Except.ok.injEq] at hf3; subst hf3
      simp only [coveredL, Bool.and_eq_true] at hc
      apply Sim.shift
      simp only [candGo]
      sim_auto ih
  · intro g env b b' hc henv hf
    apply Sim.shift
    simp only [bodyOnce]
    sim_auto ih
  · intro g env b b' hc henv hf
    apply Sim.shift
    simp only [loopGo]
    sim_auto ih

  · intro g env x ty e e' b b' hce hcb henv he hb
    apply Sim.shift
    simp only [whileSetGo]
    refine Sim.bind (ih.eval g env e e' hce henv he) (fun v => ?_)
    split
    · refine Sim.bind (ih.bodyOnce _ _ b b' hcb (envOk_bind henv x v) hb) (fun go => ?_)
      cases go with
      | false => exact Sim.const _
      | true => exact ih.whileSetGo g env x ty e e' b b' hce hcb henv he hb
    · exact Sim.const _
  · intro g env x itv b b' hcb henv hb
    apply Sim.shift
    simp only [forGo]
    refine Sim.bind (Sim.of_mono (fun a c h => (monoAt_le a c h).callFn itv []) f) (fun r => ?_)
    split
    · next c v =>
      cases c with
      | false => exact Sim.const _
      | true =>
        simp only [if_true]
        refine Sim.bind (ih.bodyOnce _ _ b b' hcb (envOk_bind2 henv x "$con" v (.bool true)) hb) (fun go => ?_)
        cases go with
        | false => exact Sim.const _
        | true => exact ih.forGo g env x itv b b' hcb henv hb
    · exact Sim.const _

theorem foldAt_le : ∀ f k, k ≤ f → FoldAt k
  | 0, k, h => by
    have : k = 0 := by omega
    subst this; exact foldAt_zero
  | f + 1, k, h => by
    by_cases hk : k ≤ f
    · exact foldAt_le f k hk
    · have : k = f + 1 := by omega
      subst this; exact foldAt_succ f (foldAt_le f)

theorem foldAt_all (f : Nat) : FoldAt f := foldAt_le f f (Nat.le_refl f)

/-! ## the theorems -/

/-- folding an expression: in every environment that agrees with the recorded constants, the folded
    expression simulates the original one -/
theorem fold_correct (g : CEnv) (env : Env) (e e' : Expr) (f : Nat)
    (hc : covered e = true) (henv : EnvOk g env) (hf : fold g e = .ok e') :
    Sim (eval f env e) (fun f' => eval f' env e') :=
  (foldAt_all f).eval g env e e' hc henv hf

/-- folding a whole program (a statement list, starting with nothing recorded): whenever the original
    program, run with `f` units of fuel from the store `σ` in any environment, ends with `r` without
    running out of fuel, the folded program ends with the same `r` — same value and final
    environment or same error / signal, same store — for every sufficiently large amount of fuel -/
theorem foldProgram_correct (prog prog' : List Expr) (hc : coveredS prog = true)
    (hf : foldProgram prog = .ok prog') (f : Nat) (env : Env) (σ : St) (r : Except Sig (Val × Env) × St)
    (hr : evalSeq f env prog σ = r) (hnf : ∀ σ', r ≠ (.error .fuel, σ')) :
    ∃ f0, ∀ f', f0 ≤ f' → evalSeq f' env prog' σ = r := by
  unfold foldProgram at hf
  obtain ⟨⟨p, g'⟩, hp, hf2⟩ := bind_ok hf
  simp only [Except.ok.injEq] at hf2; subst hf2
  have henv : EnvOk [] env := by intro x c cr hl; simp [CEnv.lookup] at hl
  have hs := (foldAt_all f).evalSeq false [] env prog p g' hc henv hp
  unfold Sim at hs
  obtain ⟨f0, h0⟩ := hs σ
  refine ⟨f0, fun f' hle => ?_⟩
  rcases h0 f' hle with ⟨σ', h1⟩ | h1
  · rw [hr] at h1; exact absurd h1 (hnf σ')
  · exact h1.symm.trans hr

/-- the same for a block-structured program fragment evaluated as an expression -/
theorem fold_correct_unfolded (g : CEnv) (env : Env) (e e' : Expr) (f : Nat) (σ : St) (r : Except Sig Val × St)
    (hc : covered e = true) (henv : EnvOk g env) (hf : fold g e = .ok e')
    (hr : eval f env e σ = r) (hnf : ∀ σ', r ≠ (.error .fuel, σ')) :
    ∃ f0, ∀ f', f0 ≤ f' → eval f' env e' σ = r := by
  have hs := fold_correct g env e e' f hc henv hf
  unfold Sim at hs
  obtain ⟨f0, h0⟩ := hs σ
  refine ⟨f0, fun f' hle => ?_⟩
  rcases h0 f' hle with ⟨σ', h1⟩ | h1
  · rw [hr] at h1; exact absurd h1 (hnf σ')
  · exact h1.symm.trans hr

/-! ## the errors the pass reports at parse time are errors the operation raises whenever it is evaluated -/

theorem ofExec_err {r : Except Sig Val} {err : ExecErr} (h : ofExec r = .error (.exec err)) : r = .error (.err err) := by
  unfold ofExec at h
  split at h
  · split at h <;> simp [unsup] at h
  · next e => simp only [Except.error.injEq, FErr.exec.injEq] at h; subst h; rfl
  · simp [unsup] at h

theorem ofInt_eq_zero_of_i64 (k : Int) (h : i64 k = 0) : BitVec.ofInt 64 k = 0#64 := by
  unfold i64 at h
  apply BitVec.eq_of_toInt_eq
  rw [h]; rfl

/-- a binary operator: with two constant operands the reported error is the operator's own answer on them; with a
    constant right operand only (`x / 0`, `x % 0`, a shift outside 0..=63) it is the answer for EVERY int on the left -/
theorem foldBin_error_justified (op : BinOp) (a' b' : Expr) (err : ExecErr)
    (h : foldBin op a' b' = .error (.exec err)) :
    (isConst a' = true ∧ isConst b' = true ∧ binScalar op (valOf a') (valOf b') = .error (.err err)) ∨
    (∀ x : I64, binScalar op (.int x) (valOf b') = .error (.err err)) := by
  unfold foldBin at h
  split at h
  · next hcc =>
    simp only [Bool.and_eq_true] at hcc
    exact Or.inl ⟨hcc.1.2, hcc.2, ofExec_err h⟩
  · right
    intro x
    split at h
    · next k hncc =>
      split at h
      · next hk =>
        simp only [Except.error.injEq, FErr.exec.injEq] at h; subst h
        simp only [valOf, ofInt_eq_zero_of_i64 k hk]
        exact (C04.division_by_constant_zero x).1
      · simp at h
    · next k hncc =>
      split at h
      · next hk =>
        simp only [Except.error.injEq, FErr.exec.injEq] at h; subst h
        simp only [valOf, ofInt_eq_zero_of_i64 k hk]
        exact (C04.division_by_constant_zero x).2
      · simp at h
    · next k hncc =>
      split at h
      · next hk =>
        simp only [Except.error.injEq, FErr.exec.injEq] at h; subst h
        simp only [valOf]
        exact (C04.shift_by_constant_out_of_range x _ hk).1
      · simp at h
    · next k hncc =>
      split at h
      · next hk =>
        simp only [Except.error.injEq, FErr.exec.injEq] at h; subst h
        simp only [valOf]
        exact (C04.shift_by_constant_out_of_range x _ hk).2
      · simp at h
    · simp at h

/-- indexing: the reported error is `IndexOutOfBounds`, and indexing ANY array of that many elements (any string
    equal to the constant one) with that constant fails with it -/
theorem foldAt_error_justified (a' i' : Expr) (err : ExecErr) (h : foldAt a' i' = .error (.exec err)) :
    (∃ es k, a' = .array es ∧ i' = .litInt k ∧
      ∀ (t : Ty) (vs : List Val), vs.length = es.length →
        atVal (.arr t vs) (.int (BitVec.ofInt 64 k)) = .error (.err err)) ∨
    (∃ s k, a' = .litStr s ∧ i' = .litInt k ∧ atVal (.str s) (.int (BitVec.ofInt 64 k)) = .error (.err err)) := by
  unfold foldAt at h
  split at h
  · next es k =>
    left
    refine ⟨es, k, rfl, rfl, fun t vs hl => ?_⟩
    split at h
    · split at h
      · next j hj =>
        split at h
        · simp at h
        · next hnone =>
          simp only [Except.error.injEq, FErr.exec.injEq] at h; subst h
          simp only [atVal, hl]
          simp only [i64] at hj
          rw [hj]
          have : vs[j]? = none := by
            rw [List.getElem?_eq_none_iff] at hnone ⊢; omega
          simp only [this]
      · next hnone =>
        simp only [Except.error.injEq, FErr.exec.injEq] at h; subst h
        simp only [atVal, hl]
        simp only [i64] at hnone
        rw [hnone]
    · split at h
      · simp at h
      · next hr =>
        simp only [Except.error.injEq, FErr.exec.injEq] at h; subst h
        exact C04.index_constant_out_of_range t vs _ (by rw [hl]; simpa only [i64] using hr)
  · next s k =>
    right
    exact ⟨s, k, rfl, rfl, ofExec_err h⟩
  · simp at h

/-! ### … and these rules are the only source of parse-time errors -/

/-- the error was produced by one of the three folding rules that may fail, applied to folded operands -/
inductive RuleErr (err : ExecErr) : Prop where
  | bin (op : BinOp) (a' b' : Expr) (h : foldBin op a' b' = .error (.exec err))
  | idx (a' i' : Expr) (h : foldAt a' i' = .error (.exec err))
  | rep (k : Int) (h : i64 k < 0) (he : err = .NegativeLength)

theorem bind_err {α β} {x : R α} {k : α → R β} {e : FErr} (h : (x >>= k) = .error e) :
    x = .error e ∨ ∃ a, x = .ok a ∧ k a = .error e := by
  cases x with
  | error e' => left; simpa [bind, Except.bind] using h
  | ok a => exact Or.inr ⟨a, rfl, h⟩

theorem foldPre_no_exec_err (op : PreOp) (e' : Expr) (err : ExecErr) (h : foldPre op e' = .error (.exec err)) : False := by
  cases op <;> simp only [foldPre] at h
  · split at h
    · have := ofExec_err h
      unfold preScalar at this
      split at this <;> cases this
    · cases h
  · split at h
    · have := ofExec_err h
      unfold preScalar at this
      split at this <;> cases this
    · cases h
  · cases h

syntax "err_step" : tactic
set_option hygiene false in
macro_rules
  | `(tactic| err_step) => `(tactic| first
      | (cases h; done)
      | (simp [unsup] at h; done)
      | exact RuleErr.bin _ _ _ h
      | exact RuleErr.idx _ _ h
      | exact (foldPre_no_exec_err _ _ _ h).elim
      | exact fold_err _ _ _ h
      | exact foldOpt_err _ _ _ h
      | exact foldList_err _ _ _ h
      | exact foldFields_err _ _ _ h
      | exact foldArms_err _ _ _ h
      | exact foldSeq_err _ _ _ _ h
      | (rcases bind_err h with h | ⟨_, _, h⟩)
      | split at h)

syntax "err_auto" : tactic
macro_rules
  | `(tactic| err_auto) => `(tactic| repeat' err_step)

set_option maxHeartbeats 4000000 in
mutual
theorem fold_err : ∀ (e : Expr) (g : CEnv) (err : ExecErr), fold g e = .error (.exec err) → RuleErr err
  | .litBool _, g, err, h => by simp only [fold] at h; err_auto
  | .litInt _, g, err, h => by simp only [fold] at h; err_auto
  | .litFloat _, g, err, h => by simp only [fold] at h; err_auto
  | .litStr _, g, err, h => by simp only [fold] at h; err_auto
  | .litUnit, g, err, h => by simp only [fold] at h; err_auto
  | .brk, g, err, h => by simp only [fold] at h; err_auto
  | .cont, g, err, h => by simp only [fold] at h; err_auto
  | .var _, g, err, h => by simp only [fold] at h; err_auto
  | .array _, g, err, h => by simp only [fold] at h; err_auto
  | .tuple _, g, err, h => by simp only [fold] at h; err_auto
  | .arrayRepeat v n, g, err, h => by
    simp only [fold] at h
    rcases bind_err h with h | ⟨v', hv', h⟩
    · exact fold_err v g err h
    · rcases bind_err h with h | ⟨n', hn', h⟩
      · exact fold_err n g err h
      · split at h
        · next k =>
          split at h
          · next hk => simp only [Except.error.injEq, FErr.exec.injEq] at h; exact RuleErr.rep k hk h.symm
          · split at h <;> first | (simp [unsup] at h; done) | (cases h; done)
        · cases h
  | .struct _, g, err, h => by simp only [fold] at h; err_auto
  | .mutE _ _, g, err, h => by simp only [fold] at h; err_auto
  | .pre _ _, g, err, h => by simp only [fold] at h; err_auto
  | .and a b, g, err, h => by simp only [fold] at h; err_auto
  | .or a b, g, err, h => by simp only [fold] at h; err_auto
  | .bin _ _ _, g, err, h => by simp only [fold] at h; err_auto
  | .assign _ _ _, g, err, h => by simp only [fold] at h; err_auto
  | .at _ _, g, err, h => by simp only [fold] at h; err_auto
  | .slice a none none none, g, err, h => by simp only [fold] at h; exact fold_err a g err h
  | .slice _ (some _) _ _, g, err, h => by simp only [fold] at h; err_auto
  | .slice _ none (some _) _, g, err, h => by simp only [fold] at h; err_auto
  | .slice _ none none (some _), g, err, h => by simp only [fold] at h; err_auto
  | .call _ _, g, err, h => by simp only [fold] at h; err_auto
  | .tacc _ _, g, err, h => by simp only [fold] at h; err_auto
  | .facc _ _, g, err, h => by simp only [fold] at h; err_auto
  | .tfilter _ _, g, err, h => by simp only [fold] at h; err_auto
  | .post _ _, g, err, h => by simp only [fold] at h; err_auto
  | .reduce _ _ _, g, err, h => by simp only [fold] at h; err_auto
  | .block _, g, err, h => by simp only [fold] at h; err_auto
  | .ifElse _ _ (some _), g, err, h => by simp only [fold] at h; err_auto
  | .ifElse _ _ none, g, err, h => by simp only [fold] at h; err_auto
  | .ifSet _ _ _ _ _, g, err, h => by simp only [fold] at h; err_auto
  | .matchE _ _, g, err, h => by simp only [fold] at h; err_auto
  | .ret _, g, err, h => by simp only [fold] at h; err_auto
  | .loop _, g, err, h => by simp only [fold] at h; err_auto
  | .while _ _, g, err, h => by simp only [fold] at h; err_auto
  | .whileSet _ _ _ _, g, err, h => by simp only [fold] at h; err_auto
  | .forE _ _ _, g, err, h => by simp only [fold] at h; err_auto
  | .fn _ _ _, g, err, h => by simp only [fold] at h; err_auto
  | .modE .., g, err, h => by simp [fold, unsup] at h
  | .set .., g, err, h => by simp [fold, unsup] at h
  | .destruct .., g, err, h => by simp [fold, unsup] at h
  | .fndecl .., g, err, h => by simp [fold, unsup] at h
  | .native _, g, err, h => by simp [fold, unsup] at h
theorem foldOpt_err : ∀ (e : Option Expr) (g : CEnv) (err : ExecErr), foldOpt g e = .error (.exec err) → RuleErr err
  | none, g, err, h => by simp only [foldOpt] at h; cases h
  | some e, g, err, h => by simp only [foldOpt] at h; err_auto
theorem foldList_err : ∀ (es : List Expr) (g : CEnv) (err : ExecErr), foldList g es = .error (.exec err) → RuleErr err
  | [], g, err, h => by simp only [foldList] at h; cases h
  | e :: es, g, err, h => by simp only [foldList] at h; err_auto
theorem foldFields_err : ∀ (fs : List (String × Expr)) (g : CEnv) (err : ExecErr),
    foldFields g fs = .error (.exec err) → RuleErr err
  | [], g, err, h => by simp only [foldFields] at h; cases h
  | (k, e) :: es, g, err, h => by simp only [foldFields] at h; err_auto
theorem foldArms_err : ∀ (arms : List Arm) (g : CEnv) (err : ExecErr), foldArms g arms = .error (.exec err) → RuleErr err
  | [], g, err, h => by simp only [foldArms] at h; cases h
  | .ty _ _ _ :: rest, g, err, h => by simp only [foldArms] at h; err_auto
  | .val _ _ :: rest, g, err, h => by simp only [foldArms] at h; err_auto
  | .other _ :: rest, g, err, h => by simp only [foldArms] at h; err_auto
theorem foldSeq_err : ∀ (ss : List Expr) (blk : Bool) (g : CEnv) (err : ExecErr),
    foldSeq blk g ss = .error (.exec err) → RuleErr err
  | [], blk, g, err, h => by simp only [foldSeq] at h; cases h
  | .set _ _ :: rest, blk, g, err, h => by simp only [foldSeq] at h; err_auto
  | .destruct _ _ :: rest, blk, g, err, h => by simp only [foldSeq] at h; err_auto
  | .fndecl _ _ _ _ :: rest, blk, g, err, h => by simp only [foldSeq] at h; err_auto
  | s :: rest, blk, g, err, h => by
    cases s <;> first
      | (simp only [foldSeq] at h; err_auto; done)
end

/-- every `ExecError` the model reports for a whole program is produced by one of the three rules - and so (the
    `*_error_justified` theorems) is the answer of an operation on constant operands that fails whenever it is evaluated -/
theorem foldProgram_error_source (prog : List Expr) (err : ExecErr) (h : foldProgram prog = .error (.exec err)) :
    RuleErr err := by
  unfold foldProgram at h
  rcases bind_err h with h | ⟨_, _, h⟩
  · exact foldSeq_err prog false [] err h
  · cases h

/-! ## the open finding F07, as a witness

The pass runs a second time whenever a closure is created, with the CAPTURED VALUES recorded as constants
(`AnonymousFunction::exec` / `FunctionDeclaration::exec`).  The theorems above do not cover that use, and it
is not unobservable: folding the body of a function that is never called can report an error.  The body
`return 10 / d`, folded with the captured `d = 0` recorded, answers `ZeroDivision` - while the program that
only CREATES such a function completes under the reference semantics. -/

def f07Body : List Expr := [.ret (some (.bin .div (.litInt 10) (.var "d")))]

theorem f07_fold_at_creation_reports_an_error :
    foldSeq true [("d", some (.litInt 0), false)] f07Body = .error (.exec .ZeroDivision) := by
  simp [f07Body, foldSeq, fold, foldOpt, foldBin, CEnv.lookup, crConst, crVal, isCreationLit, isConst, foldsConst,
    ofExec, valOf, Spec.binScalar, Spec.ofScalar, bind, Except.bind]
  rw [C08.div_zero (10#64) (0#64) (by decide)]

theorem f07_program_completes (σ : St) :
    (evalSeq 10 [[("d", .int 0)]] [.set "f" (.fn [] .int f07Body), .litInt 0] σ).1 =
      .ok (.int 0, [[("f", .fn σ.nextId [] .int f07Body [("d", .int 0)] none), ("d", .int 0)]]) := by
  simp [evalSeq, evalStmt, evalStmtValue, eval, freshId, bindM_def, pure, Env.insert, Env.snapshot]

/-- the hypotheses are satisfiable by a program on which the pass does something: constants are
    propagated through a name into a block, an operator is folded, a branch is pruned, a constant
    statement is dropped -/
def demoProgram : List Expr :=
  [.set "x" (.litInt 5),
   .set "c" (.mutE (some .int) (.litInt 3)),
   .ifElse (.bin .eq (.var "x") (.litInt 5))
     (.block [.litInt 1, .bin .add (.at (.array [.litInt 1, .var "x"]) (.litInt 1)) (.pre .deref (.var "c"))])
     (some (.block [.litInt 0]))]

def demoFolded : List Expr :=
  [.set "x" (.litInt 5),
   .set "c" (.mutE (some .int) (.litInt 3)),
   .block [.bin .add (.litInt 5) (.pre .deref (.var "c"))]]

end Ssl.Fold

namespace Ssl.Fold
theorem demo_covered : coveredS demoProgram = true := by decide
theorem demo_folds : foldProgram demoProgram = .ok demoFolded := by
  simp [demoProgram, demoFolded, foldProgram, foldSeq, fold, foldList, foldOpt, foldBin, foldAt, foldPre, constOf,
    crConst, crVal, isCreationLit, isConst, isConstL, CEnv.lookup, foldsConst, ofExec, exprOfVal, valOf, valOfL,
    Spec.binScalar, Spec.veq, Seq.atIdx, i64, bind, Except.bind, pure, Except.pure]
end Ssl.Fold
