"""The implementation's folded instruction trees (hook `Code::verif_dump`: the `Debug` form of
`Code.instructions`) converted to the wire format of programs (DESIGN Appendix B), so that they can be
compared with what the Lean model of the folding pass (`SslModel/Model/Fold.lean`) answers.

Normalisations shared with `Fold.showExpr`: an absent `else` / `return` operand is `unit`, `mut` carries no
type, a constant (`Instruction::Variable`) is printed as the literal expression that denotes it (arrays without
their stored element type)."""
import re
import struct

# ------------------------------------------------------------------ Rust `Debug` text -> generic tree

_TOK = re.compile(r'\s*("(?:\\.|[^"\\])*"|[A-Za-z_$#][A-Za-z0-9_$#]*|-?[0-9][0-9A-Za-z_.+\-]*|-?inf|NaN|[{}()\[\],:])')


class DumpError(Exception):
    pass


def _balanced_end(s, i):
    """s[i] is '(' : index just after the matching ')' (string literals respected)"""
    d = 0
    n = len(s)
    while i < n:
        c = s[i]
        if c == '"':
            i += 1
            while i < n and s[i] != '"':
                i += 2 if s[i] == "\\" else 1
        elif c in "([{":
            d += 1
        elif c in ")]}":
            d -= 1
            if d == 0:
                return i + 1
        i += 1
    raise DumpError("unbalanced")


class _P:
    def __init__(self, s):
        self.s = s
        self.i = 0

    def ws(self):
        while self.i < len(self.s) and self.s[self.i] in " \n\t":
            self.i += 1

    def peek(self):
        self.ws()
        m = _TOK.match(self.s, self.i)
        return m.group(1) if m else None

    def take(self, want=None):
        self.ws()
        m = _TOK.match(self.s, self.i)
        if not m:
            raise DumpError("token expected at %r" % self.s[self.i:self.i + 30])
        t = m.group(1)
        if want is not None and t != want:
            raise DumpError("expected %r, found %r at %r" % (want, t, self.s[self.i:self.i + 30]))
        self.i = m.end()
        return t

    def seq(self, close):
        out = []
        while self.peek() != close:
            out.append(self.term())
            if self.peek() == ",":
                self.take(",")
        self.take(close)
        return out

    def term(self):
        t = self.peek()
        if t is None:
            raise DumpError("unexpected end")
        if t == "[":
            self.take("[")
            return ("list", self.seq("]"))
        if t == "(":
            self.take("(")
            return ("anon", self.seq(")"))
        if t == "{":
            self.take("{")
            items = []
            while self.peek() != "}":
                k = self.term()
                if self.peek() == ":":
                    self.take(":")
                    items.append((k, self.term()))
                else:
                    items.append((k, None))
                if self.peek() == ",":
                    self.take(",")
            self.take("}")
            return ("braces", items)
        if t.startswith('"'):
            self.take()
            return ("str", _unescape(t[1:-1]))
        if re.match(r"-?[0-9]|-?inf$|NaN$", t):
            self.take()
            return ("num", t)
        name = self.take()
        nxt = self.peek()
        if name == "Variable" and nxt == "(":
            self.ws()
            j = _balanced_end(self.s, self.i)
            raw = self.s[self.i + 1:j - 1]
            self.i = j
            return ("const", raw)
        if nxt == "(":
            self.take("(")
            return ("tuple", name, self.seq(")"))
        if nxt == "{":
            self.take("{")
            fields = {}
            while self.peek() != "}":
                k = self.take()
                self.take(":")
                fields[k] = self.term()
                if self.peek() == ",":
                    self.take(",")
            self.take("}")
            return ("struct", name, fields)
        return ("unit", name)


def _unescape(body):
    out = []
    i = 0
    while i < len(body):
        c = body[i]
        if c != "\\":
            out.append(c)
            i += 1
            continue
        n = body[i + 1]
        if n == "u":
            j = body.index("}", i)
            out.append(chr(int(body[i + 3:j], 16)))
            i = j + 1
            continue
        out.append({"n": "\n", "t": "\t", "r": "\r", "0": "\0", "\\": "\\", '"': '"', "'": "'"}.get(n, n))
        i += 2
    return "".join(out)


def parse_debug(text):
    p = _P(text)
    t = p.term()
    return t


# ------------------------------------------------------------------ value text (the REPL form) -> literal expression

def str_sexp(s):
    out = ['"']
    for c in s:
        if c == '"':
            out.append('\\"')
        elif c == "\\":
            out.append("\\\\")
        elif " " <= c <= "~":
            out.append(c)
        else:
            out.append("\\u{%x}" % ord(c))
    out.append('"')
    return "".join(out)


def fbits(x):
    if x != x:
        return "7ff8000000000000"
    return "%016x" % struct.unpack(">Q", struct.pack(">d", x))[0]


class _V:
    def __init__(self, s):
        self.s = s
        self.i = 0

    def ws(self):
        while self.i < len(self.s) and self.s[self.i] in " \n\t":
            self.i += 1

    def value(self):
        self.ws()
        s, i = self.s, self.i
        if s.startswith("true", i):
            self.i += 4
            return "true"
        if s.startswith("false", i):
            self.i += 5
            return "false"
        if s[i] == '"':
            j = i + 1
            while s[j] != '"':
                j += 2 if s[j] == "\\" else 1
            self.i = j + 1
            return ["s", str_sexp(_unescape(s[i + 1:j]))]
        if s[i] == "[":
            self.i += 1
            return ["array"] + self.items("]")
        if s[i] == "(":
            self.i += 1
            items = self.items(")")
            return "unit" if not items else ["tuple"] + items
        m = re.match(r"-?(inf|NaN|[0-9][0-9_]*(\.[0-9]+)?([eE][+-]?[0-9]+)?)", s[i:])
        if m:
            t = m.group(0)
            self.i += len(t)
            if re.fullmatch(r"-?[0-9][0-9_]*", t):
                return ["i", str(int(t))]
            return ["f", fbits(float(t.replace("NaN", "nan")))]
        raise DumpError("value text: %r" % s[i:i + 40])

    def items(self, close):
        out = []
        while True:
            self.ws()
            if self.s[self.i] == close:
                self.i += 1
                return out
            out.append(self.value())
            self.ws()
            if self.s[self.i] == ",":
                self.i += 1


def const_expr(raw):
    try:
        v = _V(raw)
        e = v.value()
        v.ws()
        if v.i != len(raw):
            raise DumpError("trailing value text")
        return e
    except (DumpError, IndexError, ValueError):
        return ["opaque-const", str_sexp(raw[:60])]


# ------------------------------------------------------------------ types (Debug form) -> canonical text

def ty(t):
    k = t[0]
    if k == "unit":
        return {"Bool": "bool", "Int": "int", "Float": "float", "String": "str", "Void": "void", "Any": "any",
                "Never": "never"}.get(t[1], "?" + t[1])
    if k == "tuple":
        name, args = t[1], t[2]
        if name == "Array":
            return "(arr %s)" % ty(args[0])
        if name == "Mut":
            return "(cell %s)" % ty(args[0])
        if name == "Tuple":
            return "(tup %s)" % " ".join(ty(x) for x in args[0][1])
        if name == "Multi":
            inner = args[0]
            while inner[0] == "tuple":          # MultiType({..})
                inner = inner[2][0]
            return "(multi %s)" % " ".join(sorted(ty(x[0]) for x in inner[1]))
        if name == "Function":
            f = _Fields("FunctionType", args[0][2])
            return "(fn (%s) %s)" % (" ".join(ty(x) for x in f["params"][1]), ty(f["return_type"]))
        if name == "Struct":
            inner = args[0]
            while inner[0] == "tuple":
                inner = inner[2][0]
            fs = sorted("(%s %s)" % (k[1], ty(v)) for k, v in inner[1])
            return "(struct %s)" % " ".join(fs) if fs else "(struct)"
    return "?type"


# ------------------------------------------------------------------ instruction trees -> wire format

BIN = {"Add": "add", "Subtract": "sub", "Multiply": "mul", "Divide": "div", "Modulo": "mod", "Pow": "pow",
       "Equal": "eq", "NotEqual": "ne", "Greater": "gt", "GreaterOrEqual": "ge", "Lower": "lt", "LowerOrEqual": "le",
       "BitwiseAnd": "band", "BitwiseOr": "bor", "Xor": "bxor", "LShift": "shl", "RShift": "shr", "Filter": "filter",
       "Map": "map", "Partition": "partition"}
ASSIGN = {"Assign": "set", "AssignAdd": "add", "AssignSubtract": "sub", "AssignMultiply": "mul", "AssignDivide": "div",
          "AssignModulo": "mod", "AssignPow": "pow", "AssignLShift": "shl", "AssignRShift": "shr",
          "AssignBitwiseAnd": "band", "AssignBitwiseOr": "bor", "AssignXor": "bxor"}
PRE = {"Not": "not", "UnaryMinus": "neg", "Indirection": "deref"}
POST = {"Sum": "sum", "Product": "product", "All": "all", "Any": "any", "BitAnd": "bitand", "BitOr": "bitor",
        "Collect": "collect", "Iter": "iter"}


FIELD_POS = {
    "InstructionWithStr": ["instruction", "str"], "Set": ["ident", "instruction"], "Mut": ["var_type", "instruction"],
    "Block": ["instructions"], "Array": ["instructions", "element_type"], "Tuple": ["elements"], "ArrayRepeat": ["value", "len"],
    "Struct": ["idents", "values"], "IfElse": ["condition", "if_true", "if_false"],
    "SetIfElse": ["ident", "var_type", "expression", "if_match", "else_instruction"], "Match": ["expression", "arms"],
    "Type": ["ident", "var_type", "instruction"], "DestructTuple": ["idents", "instruction"], "TupleAccess": ["tuple", "index"],
    "FieldAccess": ["var", "ident"], "Slicing": ["lhs", "start", "stop", "step"], "TypeFilter": ["iterator", "var_type"],
    "Reduce": ["iter", "initial_value", "function"], "UnaryOperation": ["instruction", "op"], "BinOperation": ["lhs", "rhs", "op"],
    "AnonymousFunction": ["params", "body", "return_type"], "FunctionDeclaration": ["ident", "params", "body", "return_type"],
    "Param": ["name", "var_type"], "FunctionType": ["params", "return_type"],
}


class _Fields(dict):
    """fields of a `Name { a: x, b: y }` node by name or - when a field was renamed (a harmless refactoring) - by its position
    in the declaration (the number of fields must be unchanged)"""
    def __init__(self, kind, d):
        super().__init__(d)
        self.kind = kind
        self.order = list(d.values())

    def __missing__(self, name):
        pos = FIELD_POS.get(self.kind, [])
        if name in pos and len(self.order) == len(pos):
            return self.order[pos.index(name)]
        raise DumpError("field %s of %s missing" % (name, self.kind))


def _inner(t):
    """`Kind(Kind { .. })` / `Kind(Kind(..))` -> the inner node"""
    return t[2][0]


def _opt(t):
    if t[0] == "unit" and t[1] == "None":
        return "_"
    return ins(t[2][0])


def ins(t):
    k = t[0]
    if k == "const":
        return const_expr(t[1])
    if k == "struct" and t[1] == "InstructionWithStr":
        return ins(_Fields("InstructionWithStr", t[2])["instruction"])
    if k == "unit":
        return {"Break": "break", "Continue": "continue"}.get(t[1], ["opaque", t[1]])
    if k != "tuple":
        return ["opaque", str(k)]
    name = t[1]
    if name == "LocalVariable":
        return ["id", t[2][0][1]]
    x = _inner(t)
    f = _Fields(name, x[2]) if x[0] == "struct" else None
    if name == "Set":
        return ["set", f["ident"][1], ins(f["instruction"])]
    if name == "Mut":
        return ["mut", ins(f["instruction"])]
    if name == "Block":
        return ["block"] + [ins(y) for y in f["instructions"][1]]
    if name == "Array":
        return ["array"] + [ins(y) for y in f["instructions"][1]]
    if name == "Tuple":
        return ["tuple"] + [ins(y) for y in f["elements"][1]]
    if name == "ArrayRepeat":
        return ["repeat", ins(f["value"]), ins(f["len"])]
    if name == "Struct":
        return ["struct"] + [[kk[1], ins(v)] for kk, v in zip(f["idents"][1], f["values"][1])]
    if name == "IfElse":
        return ["if", ins(f["condition"]), ins(f["if_true"]), ins(f["if_false"])]
    if name == "SetIfElse":
        return ["ifset", f["ident"][1], ty(f["var_type"]), ins(f["expression"]), ins(f["if_match"]),
                ins(f["else_instruction"])]
    if name == "Match":
        arms = []
        for a in f["arms"][1]:
            if a[0] == "struct" and a[1] == "Type":
                af = _Fields("Type", a[2])
                arms.append(["ty", af["ident"][1], ty(af["var_type"]), ins(af["instruction"])])
            elif a[0] == "tuple" and a[1] == "Value":
                arms.append(["val", [ins(c) for c in a[2][0][1]], ins(a[2][1])])
            elif a[0] == "tuple" and a[1] == "Other":
                arms.append(["other", ins(a[2][0])])
            else:
                arms.append(["opaque", "arm"])
        return ["match", ins(f["expression"])] + arms
    if name == "Loop":
        return ["loop", ins(x[2][0])]
    if name == "DestructTuple":
        return ["destruct", [y[1] for y in f["idents"][1]], ins(f["instruction"])]
    if name == "TupleAccess":
        return ["tacc", ins(f["tuple"]), f["index"][1]]
    if name == "FieldAccess":
        return ["facc", ins(f["var"]), f["ident"][1]]
    if name == "Slicing":
        return ["slice", ins(f["lhs"]), _opt(f["start"]), _opt(f["stop"]), _opt(f["step"])]
    if name == "TypeFilter":
        return ["tfilter", ins(f["iterator"]), ty(f["var_type"])]
    if name == "Reduce":
        return ["reduce", ins(f["iter"]), ins(f["initial_value"]), ins(f["function"])]
    if name == "UnaryOperation":
        op = f["op"][1]
        e = ins(f["instruction"])
        if op in PRE:
            return ["pre", PRE[op], e]
        if op in POST:
            return ["post", POST[op], e]
        if op == "Return":
            return ["return", e]
        return ["opaque", "unary-" + op]
    if name == "BinOperation":
        op = f["op"][1]
        a, b = ins(f["lhs"]), ins(f["rhs"])
        if op in BIN:
            return ["bin", BIN[op], a, b]
        if op in ASSIGN:
            return ["assign", ASSIGN[op], a, b]
        if op == "And":
            return ["and", a, b]
        if op == "Or":
            return ["or", a, b]
        if op == "At":
            return ["at", a, b]
        if op == "FunctionCall":
            if b == "unit":
                args = []
            elif isinstance(b, list) and b and b[0] == "tuple":
                args = b[1:]
            else:
                args = [["opaque", "args"]]
            return ["call", a] + args
        return ["opaque", "bin-" + op]
    if name in ("AnonymousFunction", "FunctionDeclaration"):
        ps = f["params"]
        while ps[0] == "tuple":              # Params([..])
            ps = ps[2][0]
        params = [[_Fields("Param", q[2])["name"][1], ty(_Fields("Param", q[2])["var_type"])] for q in ps[1]]
        body = [ins(y) for y in f["body"][1]]
        if name == "AnonymousFunction":
            return ["fn", params, ty(f["return_type"])] + body
        return ["fndecl", f["ident"][1], params, ty(f["return_type"])] + body
    return ["opaque", name]


def dump_to_wire(text):
    """text: the Debug form of `Arc<[InstructionWithStr]>` -> list of wire expressions"""
    t = parse_debug(text)
    if t[0] != "list":
        raise DumpError("not a list of instructions")
    return [ins(x) for x in t[1]]
