import SslModel.Thm.C01Eval
import SslModel.Thm.C12
/-!
# C02 (stage 2) — progress at the level of the evaluator, for the first-order fragment

For every expression / statement list that the checker model `Check.tyOf` types, the reference evaluator never reaches
an outcome the implementation could only answer with a panic (`Sig.wrong`): it ends in a value, one of the documented
run-time errors, or runs out of fuel (`eval_not_wrong`, `program_not_wrong`) - whatever the fuel, the store and the
(type-respecting) environment.  Uses the soundness theorem of Thm/C01Eval for the operands' kinds and, for `match`,
`C12.coverage_sound`: an accepted match has an arm whose run-time test succeeds on the scrutinee's tag.
-/
set_option linter.unusedSimpArgs false
set_option linter.unusedVariables false
namespace Ssl.C02
open Ssl Ssl.Ty Ssl.Val Ssl.Spec Ssl.Check Ssl.C01

/-- an outcome the implementation could only answer with a panic -/
def isWrong {α} : Except Sig α → Bool
  | .error (.wrong _) => true
  | _ => false

theorem bindM_err {α β} {m : M α} {k : α → M β} {σ σ' : St} {e : Sig} (h : (m >>= k) σ = (.error e, σ')) :
    m σ = (.error e, σ') ∨ ∃ a σ1, m σ = (.ok a, σ1) ∧ k a σ1 = (.error e, σ') := by
  rw [C07.bind_def] at h
  cases hm : m σ with
  | mk r σ1 =>
    rw [hm] at h
    cases r with
    | ok a => exact Or.inr ⟨a, σ1, rfl, h⟩
    | error e' => simp at h; exact Or.inl (by rw [h.1, h.2])

theorem ofScalar_not_wrong (r : Except ExecErr Scalar) : isWrong (ofScalar r) = false := by
  cases r with
  | error e => simp [ofScalar, isWrong]
  | ok s => cases s <;> simp [ofScalar, isWrong]

/-- on operands of the types the checker admits no scalar operator is `wrong` -/
theorem bin_not_wrong (op : BinOp) (l r T : Ty) (x y : Val) (hx : hasTy x l = true) (hy : hasTy y r = true)
    (fx : fo x = true) (fy : fo y = true) (ht : binTy op l r = .ok T) : isWrong (binScalar op x y) = false := by
  cases op with
  | add =>
    simp only [binTy] at ht
    split at ht
    · obtain ⟨t1, xs, rfl⟩ := arr_of_hasTy hx
      obtain ⟨t2, ys, rfl⟩ := arr_of_hasTy hy
      simp [binScalar, isWrong]
    · split at ht
      · rename_i hs
        rcases in_accAddScalar x y (pair_in x y l r accAddScalar hx hy fx fy hs) with
          ⟨a, b, rfl, rfl⟩ | ⟨a, b, rfl, rfl⟩ | ⟨a, b, rfl, rfl⟩
        · simp only [binScalar]; exact ofScalar_not_wrong _
        · simp [binScalar, isWrong]
        · simp [binScalar, isWrong]
      · split at ht <;> cases ht
  | eq => cases x <;> cases y <;> simp [binScalar, isWrong]
  | ne => cases x <;> cases y <;> simp [binScalar, isWrong]
  | filter => simp only [binTy] at ht; cases ht
  | map => simp only [binTy] at ht; cases ht
  | partition => simp only [binTy] at ht; cases ht
  | sub | mul | div | pow | lt | le | gt | ge =>
    simp only [binTy] at ht
    split at ht
    · rename_i hs
      rcases in_accNum x y (pair_in x y l r accNum hx hy fx fy hs) with ⟨a, b, rfl, rfl⟩ | ⟨a, b, rfl, rfl⟩
      · simp only [binScalar]; exact ofScalar_not_wrong _
      · simp [binScalar, isWrong]
    · cases ht
  | mod | shl | shr =>
    simp only [binTy] at ht
    split at ht
    · rename_i hs
      obtain ⟨a, b, rfl, rfl⟩ := in_accInt x y (pair_in x y l r accInt hx hy fx fy hs)
      simp only [binScalar]; exact ofScalar_not_wrong _
    · cases ht
  | band | bor | bxor =>
    simp only [binTy] at ht
    split at ht
    · rename_i hs
      rcases in_accBit x y (pair_in x y l r accBit hx hy fx fy hs) with ⟨a, b, rfl, rfl⟩ | ⟨a, b, rfl, rfl⟩
      · simp only [binScalar]; exact ofScalar_not_wrong _
      · simp [binScalar, isWrong]
    · cases ht


theorem safe_bind {α β} (m : M α) (k : α → M β) (σ : St) (h1 : isWrong (m σ).1 = false)
    (h2 : ∀ a σ1, m σ = (.ok a, σ1) → isWrong (k a σ1).1 = false) : isWrong ((m >>= k) σ).1 = false := by
  rw [C07.bind_def]
  cases hm : m σ with
  | mk r σ1 =>
    rw [hm] at h1
    cases r with
    | ok a => exact h2 a σ1 hm
    | error e => cases e <;> simp_all [isWrong]

def SafeE (f : Nat) : Prop := ∀ (g : TEnv) (env : Env) (e : Expr) (T : Ty) (σ : St),
  EnvOk env g → tyOf g e = .ok T → isWrong (eval f env e σ).1 = false
def SafeL (f : Nat) : Prop := ∀ (g : TEnv) (env : Env) (es : List Expr) (Ts : List Ty) (σ : St),
  EnvOk env g → tyOfList g es = .ok Ts → isWrong (evalList f env es σ).1 = false
def SafeS (f : Nat) : Prop := ∀ (g g' : TEnv) (env : Env) (body : List Expr) (T : Ty) (σ : St),
  EnvOk env g → tyOfSeq g body = .ok (T, g') → isWrong (evalSeq f env body σ).1 = false
def SafeSt (f : Nat) : Prop := ∀ (g g' : TEnv) (env : Env) (s : Expr) (T : Ty) (σ : St),
  EnvOk env g → tyOfStmt g s = .ok (T, g') → isWrong (evalStmt f env s σ).1 = false
def SafeO (f : Nat) : Prop := ∀ (g : TEnv) (env : Env) (o : Option Expr) (ot : Option Ty) (σ : St),
  EnvOk env g → tyOfOpt g o = .ok ot → isWrong (evalOpt f env o σ).1 = false
def SafeC (f : Nat) : Prop := ∀ (g : TEnv) (env : Env) (v : Val) (cands : List Expr) (ts : List Ty) (σ : St),
  EnvOk env g → tyOfList g cands = .ok ts → isWrong (candGo f env v cands σ).1 = false
/-- match arms: as long as some remaining arm's run-time test succeeds on the scrutinee, no `wrong` -/
def SafeA (f : Nat) : Prop := ∀ (g : TEnv) (env : Env) (v : Val) (arms : List Arm) (tys : List Ty) (σ : St),
  EnvOk env g → plain v = true → tyOfArms g arms = .ok tys →
  (∃ k ∈ armKinds arms, armCovers k v.asType = true) → isWrong (evalArms f env v arms σ).1 = false

theorem plain_tag_shape {v : Val} (h : plain v = true) : isMulti v.asType = false ∧ isNever v.asType = false := by
  cases v <;> simp [plain] at h <;> simp [asType, isMulti, isNever]

theorem armKinds_wf (g : TEnv) : ∀ (arms : List Arm) (tys : List Ty), tyOfArms g arms = .ok tys →
    ∀ a, ArmKind.ty a ∈ armKinds arms → wf a = true
  | [], _, _, a, ha => by simp [armKinds] at ha
  | .ty x t body :: rest, tys, h, a, ha => by
    simp only [tyOfArms] at h
    split at h
    · cases h
    · rename_i hw
      obtain ⟨tb, _, h2⟩ := bind_ok h
      obtain ⟨ts, hts, _⟩ := bind_ok h2
      simp only [armKinds, List.mem_cons, ArmKind.ty.injEq] at ha
      rcases ha with rfl | ha
      · simpa using hw
      · exact armKinds_wf g rest ts hts a ha
  | .val cands body :: rest, tys, h, a, ha => by
    simp only [tyOfArms] at h
    obtain ⟨_, _, h1⟩ := bind_ok h
    obtain ⟨tb, _, h2⟩ := bind_ok h1
    obtain ⟨ts, hts, _⟩ := bind_ok h2
    simp only [armKinds, List.mem_cons, reduceCtorEq, false_or] at ha
    exact armKinds_wf g rest ts hts a ha
  | .other body :: rest, tys, h, a, ha => by
    simp only [tyOfArms] at h
    obtain ⟨tb, _, h2⟩ := bind_ok h
    obtain ⟨ts, hts, _⟩ := bind_ok h2
    simp only [armKinds, List.mem_cons, reduceCtorEq, false_or] at ha
    exact armKinds_wf g rest ts hts a ha

def SafeV (f : Nat) : Prop := ∀ (g : TEnv) (env : Env) (e : Expr) (T : Ty) (σ : St),
  EnvOk env g → tyOf g e = .ok T → isWrong (evalStmtValue f env e σ).1 = false

theorem safeE_step (f : Nat) (hE : SafeE f) (hL : SafeL f) (hS : SafeS f) (hA : SafeA f) (hO : SafeO f) : SafeE (f + 1) := by
  intro g env e T σ henv ht
  have snd : ∀ (g : TEnv) (env : Env) (e : Expr) (T : Ty) (σ σ' : St) (v : Val), EnvOk env g → tyOf g e = .ok T →
      eval f env e σ = (.ok v, σ') → hasTy v T = true ∧ plain v = true := fun g env e T σ σ' v h1 h2 h3 =>
    have h := (sound_all f).1 g env e T σ σ' v h1 h2 h3
    ⟨hasTy_of_tag h.2 h.1, h.2⟩
  cases e with
  | litBool b => simp [eval, isWrong, pure]
  | litInt i => simp [eval, isWrong, pure]
  | litFloat x => simp [eval, isWrong, pure]
  | litStr x => simp [eval, isWrong, pure]
  | litUnit => simp [eval, isWrong, pure]
  | var x =>
    simp only [tyOf] at ht
    split at ht
    · rename_i t hl
      obtain ⟨w, hw, _, _⟩ := henv x _ hl
      simp [eval, hw, isWrong, pure]
    · cases ht
  | bin op a b =>
    simp only [tyOf] at ht
    obtain ⟨ta, hta, h2⟩ := bind_ok ht
    obtain ⟨tb, htb, h3⟩ := bind_ok h2
    by_cases hop : C07.isScalarOp op = true
    · rw [C07.bin_left_then_right f env op a b σ hop]
      have sa := hE g env a ta σ henv hta
      cases ha : eval f env a σ with
      | mk ra σ1 =>
        rw [ha] at sa
        cases ra with
        | error e => simpa using sa
        | ok x =>
          simp only []
          have sb := hE g env b tb σ1 henv htb
          cases hb : eval f env b σ1 with
          | mk rb σ2 =>
            rw [hb] at sb
            cases rb with
            | error e => simpa using sb
            | ok y =>
              simp only []
              obtain ⟨hx, fx⟩ := snd g env a ta σ σ1 x henv hta ha
              obtain ⟨hy, fy⟩ := snd g env b tb σ1 σ2 y henv htb hb
              exact bin_not_wrong op ta tb T x y hx hy (plain_fo fx) (plain_fo fy) h3
    · cases op <;> simp [C07.isScalarOp] at hop <;> (simp only [binTy] at h3; cases h3)
  | pre op a =>
    cases op with
    | deref => simp only [tyOf] at ht; cases ht
    | not =>
      simp only [tyOf] at ht
      obtain ⟨ta, hta, h2⟩ := bind_ok ht
      split at h2
      · rename_i hs
        simp only [eval]
        apply safe_bind _ _ _ (hE g env a ta σ henv hta)
        intro x σ1 ha
        obtain ⟨hx, fx⟩ := snd g env a ta σ σ1 x henv hta ha
        have hm := matches_sound_partial x ta accNot (plain_fo fx) hs hx
        simp only [accNot, hasTy_multi, hasTyAny, Bool.or_eq_true, Bool.or_false] at hm
        rcases hm with hm | hm
        · obtain ⟨k, rfl⟩ := int_of_hasTy hm
          simp [liftE, preScalar, isWrong]
        · obtain ⟨k, rfl⟩ := bool_of_hasTy hm
          simp [liftE, preScalar, isWrong]
      · cases h2
    | neg =>
      simp only [tyOf] at ht
      obtain ⟨ta, hta, h2⟩ := bind_ok ht
      split at h2
      · rename_i hs
        simp only [eval]
        apply safe_bind _ _ _ (hE g env a ta σ henv hta)
        intro x σ1 ha
        obtain ⟨hx, fx⟩ := snd g env a ta σ σ1 x henv hta ha
        have hm := matches_sound_partial x ta accNeg (plain_fo fx) hs hx
        simp only [accNeg, hasTy_multi, hasTyAny, Bool.or_eq_true, Bool.or_false] at hm
        rcases hm with hm | hm
        · obtain ⟨k, rfl⟩ := int_of_hasTy hm
          simp [liftE, preScalar, isWrong]
        · obtain ⟨k, rfl⟩ := float_of_hasTy hm
          simp [liftE, preScalar, isWrong]
      · cases h2
  | and a b =>
    simp only [tyOf] at ht
    obtain ⟨ta, hta, h2⟩ := bind_ok ht
    obtain ⟨tb, htb, h3⟩ := bind_ok h2
    split at h3
    · rename_i hb
      simp only [Bool.and_eq_true] at hb
      have e1 := eq_of_eqv_bool hb.1
      have e2 := eq_of_eqv_bool hb.2
      subst e1 e2
      simp only [eval]
      apply safe_bind _ _ _ (hE g env a .bool σ henv hta)
      intro x σ1 ha
      obtain ⟨hx, fx⟩ := snd g env a .bool σ σ1 x henv hta ha
      obtain ⟨k, rfl⟩ := bool_of_hasTy hx
      apply safe_bind
      · simp [liftE, asBool, isWrong]
      · intro k2 σ2 hk
        simp only [liftE, asBool] at hk
        cases hk
        cases k
        · first | (simp [isWrong, pure]; done) | (simpa using hE g env b .bool σ1 henv htb)
        · first | (simp [isWrong, pure]; done) | (simpa using hE g env b .bool σ1 henv htb)
    · cases h3
  | or a b =>
    simp only [tyOf] at ht
    obtain ⟨ta, hta, h2⟩ := bind_ok ht
    obtain ⟨tb, htb, h3⟩ := bind_ok h2
    split at h3
    · rename_i hb
      simp only [Bool.and_eq_true] at hb
      have e1 := eq_of_eqv_bool hb.1
      have e2 := eq_of_eqv_bool hb.2
      subst e1 e2
      simp only [eval]
      apply safe_bind _ _ _ (hE g env a .bool σ henv hta)
      intro x σ1 ha
      obtain ⟨hx, fx⟩ := snd g env a .bool σ σ1 x henv hta ha
      obtain ⟨k, rfl⟩ := bool_of_hasTy hx
      apply safe_bind
      · simp [liftE, asBool, isWrong]
      · intro k2 σ2 hk
        simp only [liftE, asBool] at hk
        cases hk
        cases k
        · first | (simp [isWrong, pure]; done) | (simpa using hE g env b .bool σ1 henv htb)
        · first | (simp [isWrong, pure]; done) | (simpa using hE g env b .bool σ1 henv htb)
    · cases h3
  | array es =>
    simp only [tyOf] at ht
    obtain ⟨ts, hts, h2⟩ := bind_ok ht
    simp only [eval]
    apply safe_bind _ _ _ (hL g env es ts σ henv hts)
    intro vs σ1 _
    simp [isWrong, pure]
  | tuple es =>
    simp only [tyOf] at ht
    split at ht
    · cases ht
    · obtain ⟨ts, hts, h2⟩ := bind_ok ht
      simp only [eval]
      apply safe_bind _ _ _ (hL g env es ts σ henv hts)
      intro vs σ1 _
      simp [isWrong, pure]
  | «at» a i =>
    simp only [tyOf] at ht
    obtain ⟨ta, hta, h2⟩ := bind_ok ht
    obtain ⟨ti, hti, h3⟩ := bind_ok h2
    simp only [eval]
    apply safe_bind _ _ _ (hE g env a ta σ henv hta)
    intro x σ1 ha
    apply safe_bind _ _ _ (hE g env i ti σ1 henv hti)
    intro y σ2 hi
    obtain ⟨hx, fx⟩ := snd g env a ta σ σ1 x henv hta ha
    obtain ⟨hy, fy⟩ := snd g env i ti σ1 σ2 y henv hti hi
    split at h3
    · cases h3
    · rename_i hint
      have e1 := eq_of_eqv_int (by simpa using hint)
      subst e1
      obtain ⟨k, rfl⟩ := int_of_hasTy hy
      split at h3
      · obtain ⟨t1, xs, rfl⟩ := arr_of_hasTy hx
        simp only [liftE, atVal]
        split
        · split <;> simp [isWrong]
        · simp [isWrong]
      · cases x <;> simp [hasTy] at hx
        simp only [liftE, atVal]
        split
        · split <;> simp [isWrong]
        · simp [isWrong]
      all_goals cases h3
  | tacc a n =>
    simp only [tyOf] at ht
    obtain ⟨ta, hta, h2⟩ := bind_ok ht
    simp only [eval]
    apply safe_bind _ _ _ (hE g env a ta σ henv hta)
    intro x σ1 ha
    obtain ⟨hx, fx⟩ := snd g env a ta σ σ1 x henv hta ha
    split at h2
    · rename_i ts
      split at h2
      · rename_i tx htx
        obtain ⟨vs, rfl⟩ := tup_of_hasTy hx
        rw [hasTy_tup] at hx
        cases hw : vs[n]? with
        | some w => simp [hw, isWrong, pure]
        | none =>
          exfalso
          -- the tuple value is as long as its type
          have hlen : ∀ (vs : List Val) (ts : List Ty) (n : Nat) (tx : Ty), hasTyL vs ts = true → ts[n]? = some tx → vs[n]? ≠ none := by
            intro vs
            induction vs with
            | nil => intro ts n tx h ht; cases ts <;> simp [hasTyL] at h; simp at ht
            | cons v vs ih =>
              intro ts n tx h ht
              cases ts with
              | nil => simp at ht
              | cons t ts =>
                simp only [hasTyL, Bool.and_eq_true] at h
                cases n with
                | zero => simp
                | succ n =>
                  have := ih ts n tx h.2 (by simpa using ht)
                  simpa using this
          exact hlen vs ts n tx hx htx hw
      · cases h2
    all_goals cases h2
  | ifElse c t e =>
    simp only [tyOf] at ht
    obtain ⟨tc, htc, h2⟩ := bind_ok ht
    split at h2
    · cases h2
    · obtain ⟨tt, htt, h3⟩ := bind_ok h2
      simp only [eval]
      apply safe_bind _ _ _ (hE g env c tc σ henv htc)
      intro x σ1 hc
      obtain ⟨hx, fx⟩ := snd g env c tc σ σ1 x henv htc hc
      rename_i hb
      have hcond : tc = .bool := by
        simp only [Bool.not_eq_true', Bool.not_eq_false', Bool.or_eq_true] at hb
        have hb' : eqv tc .bool = true ∨ eqv tc .never = true := by
          cases h1 : eqv tc .bool <;> cases h2' : eqv tc .never <;> simp_all
        rcases hb' with h | h
        · exact eq_of_eqv_bool h
        · exfalso
          have : tc = .never := by cases tc <;> simp [eqv] at h <;> rfl
          subst this
          rw [hasTy_never] at hx
          cases hx
      subst hcond
      obtain ⟨k, rfl⟩ := bool_of_hasTy hx
      apply safe_bind
      · simp [liftE, asBool, isWrong]
      · intro k2 σ2 hk
        simp only [liftE, asBool] at hk
        cases hk
        cases k
        · cases e with
          | some e =>
            simp only [] at h3
            obtain ⟨te, hte, _⟩ := bind_ok h3
            simpa using hE g env e te σ1 henv hte
          | none => simp [isWrong, pure]
        · simpa using hE g env t tt σ1 henv htt
  | block body =>
    simp only [tyOf] at ht
    obtain ⟨p, hp, h2⟩ := bind_ok ht
    obtain ⟨tb, g'⟩ := p
    simp only [eval]
    apply safe_bind _ _ _ (hS g g' ([] :: env) body tb σ (envOk_push env g henv) hp)
    intro r σ1 _
    obtain ⟨w, env'⟩ := r
    simp [isWrong, pure]
  | ifSet x ty e body els =>
    simp only [tyOf] at ht
    split at ht
    · cases ht
    · obtain ⟨te, hte, h2⟩ := bind_ok ht
      obtain ⟨tb, htb, h3⟩ := bind_ok h2
      simp only [eval]
      apply safe_bind _ _ _ (hE g env e te σ henv hte)
      intro x0 σ1 he
      obtain ⟨hx0, px0⟩ := snd g env e te σ σ1 x0 henv hte he
      by_cases hm : Ty.sub x0.asType ty = true
      · simp only [hm, if_true]
        exact hE ((x, ty) :: g) ([(x, x0)] :: env) body tb σ1 (envOk_bind env g x x0 ty henv hm px0) htb
      · simp only [hm, Bool.false_eq_true, if_false]
        cases els with
        | some el =>
          simp only [] at h3 ⊢
          obtain ⟨tl, htl, _⟩ := bind_ok h3
          exact hE g env el tl σ1 henv htl
        | none => simp [isWrong, pure]
  | matchE e arms =>
    simp only [tyOf] at ht
    obtain ⟨te, hte, h2⟩ := bind_ok ht
    obtain ⟨tys, htys, h3⟩ := bind_ok h2
    split at h3
    · cases h3
    · rename_i hcov
      simp only [eval]
      apply safe_bind _ _ _ (hE g env e te σ henv hte)
      intro v0 σ1 he
      obtain ⟨tv0, pv0⟩ := (sound_all f).1 g env e te σ σ1 v0 henv hte he
      obtain ⟨s1, s2⟩ := plain_tag_shape pv0
      -- an accepted match has an arm for the run-time type it meets
      have hex := C12.coverage_sound (armKinds arms) v0.asType te (plain_wf_tag pv0) (tyOf_wf g e te hte)
        (armKinds_wf g arms tys htys) s1 s2 tv0 (by simpa using hcov)
      exact hA g env v0 arms tys σ1 henv pv0 htys hex
  | arrayRepeat a n =>
    simp only [tyOf] at ht
    obtain ⟨tv, htv, h2⟩ := bind_ok ht
    obtain ⟨tn, htn, h3⟩ := bind_ok h2
    split at h3
    · cases h3
    · split at h3
      · cases h3
      · rename_i _ hint
        have e1 := eq_of_eqv_int (by simpa using hint)
        subst e1
        simp only [eval]
        apply safe_bind _ _ _ (hE g env a tv σ henv htv)
        intro x σ1 ha
        apply safe_bind _ _ _ (hE g env n .int σ1 henv htn)
        intro y σ2 hn
        obtain ⟨hy, py⟩ := snd g env n .int σ1 σ2 y henv htn hn
        obtain ⟨k, rfl⟩ := int_of_hasTy hy
        simp only []
        split <;> simp [throwS, isWrong, pure]
  | slice a st en sp =>
    simp only [tyOf] at ht
    obtain ⟨ta, hta, h2⟩ := bind_ok ht
    obtain ⟨ts, hts, h3⟩ := bind_ok h2
    obtain ⟨te, hte, h4⟩ := bind_ok h3
    obtain ⟨tp, htp, h5⟩ := bind_ok h4
    simp only [eval]
    apply safe_bind _ _ _ (hE g env a ta σ henv hta)
    intro x σ1 ha
    apply safe_bind _ _ _ (hO g env st ts σ1 henv hts)
    intro vs σ2 hs1
    apply safe_bind _ _ _ (hO g env en te σ2 henv hte)
    intro ve σ3 hs2
    apply safe_bind _ _ _ (hO g env sp tp σ3 henv htp)
    intro vp σ4 hs3
    obtain ⟨hx, px⟩ := snd g env a ta σ σ1 x henv hta ha
    have r1 := (sound_all f).2.2.2.2.2.2 g env st ts σ1 σ2 vs henv hts hs1
    have r2 := (sound_all f).2.2.2.2.2.2 g env en te σ2 σ3 ve henv hte hs2
    have r3 := (sound_all f).2.2.2.2.2.2 g env sp tp σ3 σ4 vp henv htp hs3
    split at h5
    · cases h5
    · split at h5
      · cases h5
      · rename_i _ hb
        have hb' : boundOk ts = true ∧ boundOk te = true ∧ boundOk tp = true := by
          cases h1 : boundOk ts <;> cases h2 : boundOk te <;> cases h3 : boundOk tp <;> simp_all
        obtain ⟨i1, e1⟩ := optIdx_ok vs ts r1 hb'.1
        obtain ⟨i2, e2⟩ := optIdx_ok ve te r2 hb'.2.1
        obtain ⟨i3, e3⟩ := optIdx_ok vp tp r3 hb'.2.2
        cases ta with
        | arr e =>
          obtain ⟨t1, xs, rfl⟩ := arr_of_hasTy hx
          simp [liftE, sliceVal, e1, e2, e3, bind, Except.bind, isWrong]
        | str =>
          cases x <;> simp [hasTy] at hx
          simp [liftE, sliceVal, e1, e2, e3, bind, Except.bind, isWrong]
        | _ => simp only [] at h5; cases h5
  | _ => simp only [tyOf] at ht; cases ht

theorem safeO_step (f : Nat) (hE : SafeE f) : SafeO (f + 1) := by
  intro g env o ot σ henv ht
  cases o with
  | none => simp [evalOpt, isWrong, pure]
  | some e =>
    simp only [tyOfOpt] at ht
    obtain ⟨t, hte, _⟩ := bind_ok ht
    simp only [evalOpt]
    apply safe_bind _ _ _ (hE g env e t σ henv hte)
    intro v σ1 _
    simp [isWrong, pure]

theorem safeC_step (f : Nat) (hE : SafeE f) (hC : SafeC f) : SafeC (f + 1) := by
  intro g env v cands ts σ henv ht
  cases cands with
  | nil => simp [candGo, isWrong, pure]
  | cons c cs =>
    simp only [tyOfList] at ht
    obtain ⟨t, htc, h2⟩ := bind_ok ht
    obtain ⟨ts', hts, _⟩ := bind_ok h2
    simp only [candGo]
    apply safe_bind _ _ _ (hE g env c t σ henv htc)
    intro w σ1 _
    by_cases hq : veq w v = true
    · simp [hq, isWrong, pure]
    · simp only [hq, Bool.false_eq_true, if_false]
      exact hC g env v cs ts' σ1 henv hts

theorem safeA_step (f : Nat) (hE : SafeE f) (hC : SafeC f) (hA : SafeA f) : SafeA (f + 1) := by
  intro g env v arms tys σ henv pv ht hex
  cases arms with
  | nil => obtain ⟨k, hk, _⟩ := hex; simp [armKinds] at hk
  | cons arm rest =>
    cases arm with
    | other body =>
      simp only [tyOfArms] at ht
      obtain ⟨tb, htb, _⟩ := bind_ok ht
      simp only [evalArms]
      exact hE g env body tb σ henv htb
    | ty x t body =>
      simp only [tyOfArms] at ht
      split at ht
      · cases ht
      · obtain ⟨tb, htb, h2⟩ := bind_ok ht
        obtain ⟨ts, hts, _⟩ := bind_ok h2
        simp only [evalArms]
        by_cases hm : Ty.sub v.asType t = true
        · simp only [hm, if_true]
          exact hE ((x, t) :: g) ([(x, v)] :: env) body tb σ (envOk_bind env g x v t henv hm pv) htb
        · simp only [hm, Bool.false_eq_true, if_false]
          apply hA g env v rest ts σ henv pv hts
          obtain ⟨k, hk, hc⟩ := hex
          simp only [armKinds, List.mem_cons] at hk
          rcases hk with rfl | hk
          · simp only [armCovers] at hc
            exact absurd hc hm
          · exact ⟨k, hk, hc⟩
    | val cands body =>
      simp only [tyOfArms] at ht
      obtain ⟨tcs, htcs, h1⟩ := bind_ok ht
      obtain ⟨tb, htb, h2⟩ := bind_ok h1
      obtain ⟨ts, hts, _⟩ := bind_ok h2
      simp only [evalArms]
      apply safe_bind _ _ _ (hC g env v cands tcs σ henv htcs)
      intro hit σ1 _
      cases hit
      · simp only [Bool.false_eq_true, if_false]
        apply hA g env v rest ts σ1 henv pv hts
        obtain ⟨k, hk, hc⟩ := hex
        simp only [armKinds, List.mem_cons] at hk
        rcases hk with rfl | hk
        · simp [armCovers] at hc
        · exact ⟨k, hk, hc⟩
      · simp only [if_true]
        exact hE g env body tb σ1 henv htb

theorem safeL_step (f : Nat) (hE : SafeE f) (hL : SafeL f) : SafeL (f + 1) := by
  intro g env es Ts σ henv ht
  cases es with
  | nil => simp [evalList, isWrong, pure]
  | cons e es =>
    simp only [tyOfList] at ht
    obtain ⟨t, hte, h2⟩ := bind_ok ht
    obtain ⟨ts, hts, h3⟩ := bind_ok h2
    rw [C07.list_left_to_right]
    apply safe_bind _ _ _ (hE g env e t σ henv hte)
    intro v σ1 _
    apply safe_bind _ _ _ (hL g env es ts σ1 henv hts)
    intro vs σ2 _
    simp [isWrong, pure]

theorem safeV_step (f : Nat) (hE : SafeE f) : SafeV (f + 1) := by
  intro g env e T σ henv ht
  simp only [evalStmtValue]
  exact hE g env e T σ henv ht

theorem safeSt_step (f : Nat) (hE : SafeE f) (hV : SafeV f) : SafeSt (f + 1) := by
  intro g g' env s T σ henv ht
  cases s with
  | set x e =>
    simp only [tyOfStmt] at ht
    obtain ⟨t, hte, h2⟩ := bind_ok ht
    simp only [evalStmt]
    apply safe_bind _ _ _ (hV g env e t σ henv hte)
    intro v σ1 _
    simp [isWrong, pure]
  | destruct xs e => simp only [tyOfStmt] at ht; cases ht
  | fndecl x ps r body => simp only [tyOfStmt] at ht; cases ht
  | _ =>
    simp only [tyOfStmt] at ht
    obtain ⟨t, hte, h2⟩ := bind_ok ht
    simp only [evalStmt]
    apply safe_bind _ _ _ (hE _ _ _ _ _ henv hte)
    intro v σ1 _
    simp [isWrong, pure]

theorem safeS_step (f : Nat) (hSt : SafeSt f) (hS : SafeS f) : SafeS (f + 1) := by
  intro g g' env body T σ henv ht
  match body with
  | [] => simp [evalSeq, isWrong, pure]
  | [s] =>
    simp only [tyOfSeq] at ht
    simp only [evalSeq]
    exact hSt g g' env s T σ henv ht
  | s :: s2 :: rest =>
    simp only [tyOfSeq] at ht
    obtain ⟨p, hp, h2⟩ := bind_ok ht
    obtain ⟨t1, g1⟩ := p
    simp only [] at h2
    simp only [evalSeq]
    apply safe_bind _ _ _ (hSt g g1 env s t1 σ henv hp)
    intro r σ1 hs
    obtain ⟨w, env1⟩ := r
    obtain ⟨_, _, henv1⟩ := (sound_all f).2.2.2.1 g g1 env env1 s t1 σ σ1 w henv hp hs
    exact hS g1 g' env1 (s2 :: rest) T σ1 henv1 h2

theorem safe_all : ∀ f : Nat, SafeE f ∧ SafeL f ∧ SafeS f ∧ SafeSt f ∧ SafeV f ∧ SafeC f ∧ SafeA f ∧ SafeO f := by
  intro f
  induction f with
  | zero =>
    refine ⟨?_, ?_, ?_, ?_, ?_, ?_, ?_, ?_⟩
    · intro g env e T σ _ _; simp [eval, throwS, isWrong]
    · intro g env es Ts σ _ _; simp [evalList, throwS, isWrong]
    · intro g g' env body T σ _ _; simp [evalSeq, throwS, isWrong]
    · intro g g' env s T σ _ _; simp [evalStmt, throwS, isWrong]
    · intro g env e T σ _ _; simp [evalStmtValue, throwS, isWrong]
    · intro g env v cands ts σ _ _; simp [candGo, throwS, isWrong]
    · intro g env v arms tys σ _ _ _ _; simp [evalArms, throwS, isWrong]
    · intro g env o ot σ _ _; simp [evalOpt, throwS, isWrong]
  | succ f ih =>
    obtain ⟨hE, hL, hS, hSt, hV, hC, hA, hO⟩ := ih
    exact ⟨safeE_step f hE hL hS hA hO, safeL_step f hE hL, safeS_step f hSt hS, safeSt_step f hE hV, safeV_step f hE,
      safeC_step f hE hC, safeA_step f hE hC hA, safeO_step f hE⟩

/-- **progress, first-order fragment**: an expression the checker model types never goes `wrong` - whatever the
    fuel, store and (type-respecting) environment, the evaluator ends in a value, one of the documented run-time errors,
    or runs out of fuel; it never reaches a state the implementation could only answer with a panic -/
theorem eval_not_wrong (f : Nat) (g : TEnv) (env : Env) (e : Expr) (T : Ty) (σ : St)
    (henv : EnvOk env g) (ht : tyOf g e = .ok T) : isWrong (eval f env e σ).1 = false :=
  (safe_all f).1 g env e T σ henv ht

/-- the same for whole programs from the empty environment -/
theorem program_not_wrong (f : Nat) (prog : List Expr) (T : Ty) (σ : St) (ht : tyOfProgram prog = .ok T) :
    isWrong (evalSeq f [[]] prog σ).1 = false := by
  unfold tyOfProgram at ht
  obtain ⟨p, hp, h2⟩ := bind_ok ht
  obtain ⟨t, g'⟩ := p
  have h0 : EnvOk [[]] [] := by intro x t hx; simp [TEnv.lookup] at hx
  exact (safe_all f).2.2.1 [] g' [[]] prog t σ h0 hp

end Ssl.C02
