"""C19 — equality by content.  Proof: SslModel.Thm.C19 (veq: kinds disjoint, scalars by value, IEEE
floats on bit patterns, arrays/tuples element-wise independent of stored tags, structs as maps,
functions/cells by identity, != is not ==, reflexive without NaN, symmetric for struct-free values).
Correspondence: pairs of first-order values built along different provenance paths and seen through
different static types; ==, != and match value arms — implementation vs. `Spec` vs. content equality
computed in Python (the direct oracle)."""
import math
import random

import progprop
import progstream as P
from gen.programs import INT, BOOL, STR, FLOAT, VOID, tup, fn, iter_of, arr, cell, multi
from vlib import sexp_parse, sexp_str

THM_MODULES = ["SslModel.Thm.C19"]
TRANSLATE_PARTS = ["scalar"]

I = lambda n: ("i", n)
V = lambda x: ("id", x)
ANY = ("any",)


def gen_value(rnd, d):
    """abstract first-order value: ('b',bool) ('i',n) ('f',x) ('s',str) ('u',) ('a',[vals]) ('t',[vals]) ('r',{k:val})"""
    c = rnd.random()
    if d <= 0 or c < 0.45:
        k = rnd.choice("bifsiu")
        if k == "b": return ("b", rnd.random() < 0.5)
        if k == "i": return ("i", rnd.choice([0, 1, -1, 2, 7, 2**63 - 1, -2**63]))
        if k == "f": return ("f", rnd.choice([0.0, -0.0, 1.5, float("nan"), float("inf"), 5e-324, 1.0]))
        if k == "s": return ("s", rnd.choice(["", "a", "é", "ab"]))
        return ("u",)
    if c < 0.75:
        # arrays: mostly homogeneous so that several provenance paths apply
        if rnd.random() < 0.6:
            proto = gen_value(rnd, 0)
            return ("a", [mutate(rnd, proto, 0) if rnd.random() < 0.5 else proto for _ in range(rnd.randint(0, 3))])
        return ("a", [gen_value(rnd, d - 1) for _ in range(rnd.randint(0, 3))])
    if c < 0.9:
        return ("t", [gen_value(rnd, d - 1) for _ in range(rnd.randint(2, 3))])
    keys = rnd.sample(["a", "b", "c"], rnd.randint(0, 3))
    return ("r", {k: gen_value(rnd, d - 1) for k in keys})


def mutate(rnd, v, d):
    """a value equal or nearly equal to v"""
    k = v[0]
    c = rnd.random()
    if c < 0.45:
        return v
    if k == "i":
        return ("i", v[1] + rnd.choice([1, -1]) if abs(v[1]) < 2**62 else 0)
    if k == "f":
        return ("f", rnd.choice([0.0, -0.0, 1.5, float("nan"), v[1]]))
    if k == "b":
        return ("b", not v[1])
    if k == "s":
        return ("s", v[1] + rnd.choice(["", "x"]))
    if k == "a":
        es = list(v[1])
        if es and rnd.random() < 0.6:
            j = rnd.randrange(len(es))
            es[j] = mutate(rnd, es[j], d)
        elif rnd.random() < 0.5:
            es = es[:-1]
        else:
            es = es + [gen_value(rnd, 0)]
        return ("a", es)
    if k == "t":
        es = list(v[1])
        r = rnd.random()
        if r < 0.2 and len(es) > 2:
            return ("t", es[:-1])            # a proper prefix: equal element by element as far as it goes, another length
        if r < 0.4:
            return ("t", es + [gen_value(rnd, 0)])
        j = rnd.randrange(len(es))
        es[j] = mutate(rnd, es[j], d)
        return ("t", es)
    if k == "r":
        m = dict(v[1])
        if m and rnd.random() < 0.6:
            kk = rnd.choice(list(m))
            m[kk] = mutate(rnd, m[kk], d)
        elif m:
            m.pop(rnd.choice(list(m)))
        else:
            m["a"] = ("i", 1)
        return ("r", m)
    return gen_value(rnd, 1)


def content_eq(a, b):
    if a[0] != b[0]:
        return False
    k = a[0]
    if k == "u":
        return True
    if k == "f":
        return a[1] == b[1]          # IEEE: NaN != NaN, 0.0 == -0.0
    if k in ("b", "i", "s"):
        return a[1] == b[1]
    if k in ("a", "t"):
        return len(a[1]) == len(b[1]) and all(content_eq(x, y) for x, y in zip(a[1], b[1]))
    return set(a[1]) == set(b[1]) and all(content_eq(a[1][f], b[1][f]) for f in a[1])


def scalar_type(v):
    return {"b": BOOL, "i": INT, "f": FLOAT, "s": STR, "u": VOID}.get(v[0])


def lit(v):
    k = v[0]
    if k == "b": return ("true",) if v[1] else ("false",)
    if k == "i": return I(v[1])
    if k == "f": return ("f", v[1])
    if k == "s": return ("s", v[1])
    if k == "u": return ("unit",)
    if k == "a": return ("array", [lit(x) for x in v[1]])
    if k == "t": return ("tuple", [lit(x) for x in v[1]])
    return ("struct", [(f, lit(x)) for f, x in v[1].items()])


TRUE_P = lambda t: ("fn", [("e", t)], BOOL, [("return", ("true",))])


def build(rnd, v):
    """(expression producing v, provenance label); arrays get a random provenance path at every level"""
    k = v[0]
    if k in ("t",):
        parts = [build(rnd, x) for x in v[1]]
        return ("tuple", [p[0] for p in parts]), "tuple(" + ",".join(p[1] for p in parts) + ")"
    if k == "r":
        items = list(v[1].items())
        rnd.shuffle(items)
        parts = [(f, build(rnd, x)) for f, x in items]
        return ("struct", [(f, p[0]) for f, p in parts]), "struct"
    if k != "a":
        return lit(v), "lit"
    es = v[1]
    els = [build(rnd, x)[0] for x in es]
    ets = {x[0] for x in es}
    homog = len(ets) == 1 and list(ets)[0] in "bifs"
    et = scalar_type(es[0]) if homog else None
    paths = ["literal", "concat", "slice", "collect", "hidden"]
    if homog:
        paths += ["filter", "partition", "tfilter"]
        if all(content_eq(es[0], x) for x in es) and es[0][0] != "f":
            paths.append("repeat")
    if not es:
        paths += ["repeat0", "slice-empty", "tfilter-empty"]
    p = rnd.choice(paths)
    A = ("array", els)
    if p == "literal":
        return A, p
    if p == "hidden":
        return ("call", V("hide"), [A]), p
    if p == "concat":
        j = rnd.randint(0, len(els))
        return ("bin", "add", ("array", els[:j]), ("array", els[j:])), p
    if p == "slice":
        extra = [I(99)] * rnd.randint(0, 2)
        return ("slice", ("array", els + extra), None, I(len(els)), None), p
    if p == "collect":
        return ("post", "collect", ("post", "iter", A)), p
    if p == "filter":
        return ("post", "collect", ("bin", "filter", ("post", "iter", A), TRUE_P(et))), p
    if p == "partition":
        return ("tacc", ("bin", "partition", ("post", "iter", A), TRUE_P(et)), 0), p
    if p == "tfilter":
        mixed = list(els)
        other = ("s", "zz") if et != STR else I(5)
        mixed.insert(rnd.randint(0, len(mixed)), other)
        return ("post", "collect", ("tfilter", ("post", "iter", ("array", mixed)), et)), p
    if p == "repeat":
        return ("repeat", els[0], I(len(els))), p
    if p == "repeat0":
        return ("repeat", rnd.choice([I(1), ("s", "q"), ("array", [])]), I(0)), p
    if p == "slice-empty":
        return ("slice", ("array", [I(1), I(2)]), I(5), None, None), p
    return ("post", "collect", ("tfilter", ("post", "iter", ("array", [("s", "a")])), INT)), p


def identity_templates():
    """functions and cells are equal by IDENTITY: a function is equal to itself however the two references were obtained -
    its own name inside its body, a parameter it was handed, its result, an alias, a tuple or array element -, two closures
    made by the same expression are different, a cell equals its aliases only"""
    T = []
    eq = lambda a, b: ("bin", "eq", a, b)
    ne = lambda a, b: ("bin", "ne", a, b)
    F = ("fndecl", "f", [("g", ANY)], BOOL, [("return", eq(V("g"), V("f")))])
    FN = ("fndecl", "fn_", [("g", ANY)], BOOL, [("return", ne(V("g"), V("f2")))])
    T.append([F, ("tuple", [("call", V("f"), [V("f")]), ("call", V("f"), [I(1)]), eq(V("f"), V("f"))])])
    T.append([("fndecl", "f2", [("g", ANY)], BOOL, [("return", ne(V("g"), V("f2")))]), ("tuple", [("call", V("f2"), [V("f2")]), ("call", V("f2"), [I(1)])])])
    SELF = ("fndecl", "me", [], ANY, [("return", V("me"))])
    T.append([SELF, ("tuple", [eq(("call", V("me"), []), V("me")), eq(("call", V("me"), []), ("call", V("me"), [])), ne(("call", V("me"), []), V("me"))])])
    T.append([("fndecl", "pk", [], ANY, [("return", ("tuple", [V("pk"), I(1)]))]), ("tuple", [eq(("call", V("pk"), []), ("tuple", [V("pk"), I(1)])),
                                                                                                    eq(("array", [V("pk")]), ("array", [("tacc", ("call", V("pk"), []), 0)]))])])
    T.append([("fndecl", "mt", [("g", ANY)], INT, [("return", ("match", V("g"), [("val", [V("mt")], ("block", [I(1)])), ("other", ("block", [I(0)]))]))]),
              ("tuple", [("call", V("mt"), [V("mt")]), ("call", V("mt"), [I(5)])])])
    T.append([SELF, ("set", "al", V("me")), ("tuple", [eq(V("al"), V("me")), eq(V("al"), ("call", V("al"), []))])])
    # two closures created by the same expression are different; each equals itself
    MK = ("fndecl", "mk", [], ANY, [("return", ("fn", [], INT, [("return", I(1))]))])
    T.append([MK, ("set", "a", ("call", V("mk"), [])), ("set", "b", ("call", V("mk"), [])), ("tuple", [eq(V("a"), V("b")), eq(V("a"), V("a")), ne(V("a"), V("b"))])])
    # recursion through the own name does not change identity either
    T.append([("fndecl", "rec", [("n", INT), ("g", ANY)], BOOL, [("if", ("bin", "gt", V("n"), I(0)), ("block", [("return", ("call", V("rec"), [("bin", "sub", V("n"), I(1)), V("g")]))]), None),
                                                                  ("return", eq(V("g"), V("rec")))]), ("call", V("rec"), [I(3), V("rec")])])
    # cells
    T.append([("set", "c", ("mut", INT, I(1))), ("set", "d", V("c")), ("set", "e", ("mut", INT, I(1))),
              ("tuple", [eq(V("c"), V("d")), eq(V("c"), V("e")), eq(("tuple", [V("c"), I(1)]), ("tuple", [V("d"), I(1)])), ne(V("c"), V("e"))])])
    return T


def run(res, tier, seed, broken_model):
    rnd = random.Random(seed)
    n = 500 if tier == "quick" else 15000
    prelude = [("fndecl", "hide", [("v", arr(ANY))], arr(ANY), [("return", V("v"))]),
               ("fndecl", "eqany", [("x", ANY), ("y", ANY)], BOOL, [("return", ("bin", "eq", V("x"), V("y")))]),
               ("fndecl", "neany", [("x", ANY), ("y", ANY)], BOOL, [("return", ("bin", "ne", V("x"), V("y")))]),
               ("fndecl", "armany", [("x", ANY), ("y", ANY)], INT,
                [("return", ("match", V("x"), [("val", [V("y")], ("block", [I(1)])), ("other", ("block", [I(0)]))]))])]
    progs, metas = [], []
    for _ in range(n):
        a = gen_value(rnd, 3)
        b = mutate(rnd, a, 2) if rnd.random() < 0.8 else gen_value(rnd, 2)
        ea, pa = build(rnd, a)
        eb, pb = build(rnd, b)
        ea2, pa2 = build(rnd, a)
        stmts = prelude + [("set", "va", ea), ("set", "vb", eb), ("set", "va2", ea2),
                           # value arms whose candidate is the EXPRESSION itself (its own static type and tag), alone and after a
                           # non-matching candidate
                           ("set", "m1", ("match", V("va"), [("val", [eb], ("block", [I(1)])), ("other", ("block", [I(0)]))])),
                           ("set", "m2", ("match", ea2, [("val", [("s", "no such value"), eb], ("block", [I(1)])), ("other", ("block", [I(0)]))])),
                           ("tuple", [("bin", "eq", V("va"), V("vb")), ("bin", "ne", V("va"), V("vb")),
                                      ("bin", "eq", V("vb"), V("va")),
                                      ("call", V("eqany"), [V("va"), V("vb")]), ("call", V("neany"), [V("va"), V("vb")]),
                                      ("call", V("armany"), [V("va"), V("vb")]),
                                      ("bin", "eq", V("va"), V("va2")), ("bin", "eq", V("va"), V("va")),
                                      V("m1"), V("m2")])]
        progs.append(stmts)
        metas.append((a, b, pa, pb, pa2))
    idp = identity_templates()
    irecs = P.run_programs(idp, broken_model=broken_model)
    progprop.judge(res, irecs, broken_model, label="identity")
    res.streams["identity-templates"] = dict(programs=len(idp))
    recs = P.run_programs(progs, broken_model=broken_model)
    res.streams["pairs"] = dict(programs=len(progs))
    good = progprop.judge(res, recs, broken_model, label="eq")
    goodset = set(id(r) for r in good)
    for (a, b, pa, pb, pa2), r in zip(metas, recs):
        res.count("provenance:" + pa.split("(")[0])
        if id(r) not in goodset or not r.ivalue or not r.ivalue.startswith("(tup"):
            continue
        e = content_eq(a, b)
        refl = content_eq(a, a)
        t = lambda x: "true" if x else "false"
        want = "(tup %s %s %s %s %s (i %d) %s %s (i %d) (i %d))" % (t(e), t(not e), t(content_eq(b, a)), t(e), t(not e), 1 if e else 0, t(refl), t(refl),
                                                                      1 if e else 0, 1 if e else 0)
        res.count("equal-pairs" if e else "unequal-pairs")
        if r.ivalue != want:
            res.violation("equality is not by content: `%s` gives %s, content equality gives %s (provenance %s vs %s / %s)" %
                          (r.src[-500:], r.ivalue, want, pa, pb, pa2),
                          dict(program=r.src, flags=r.flags, impl=r.impl, expected=want, model=r.model),
                          dict(oracle="content-eq", cls="%s/%s" % (pa.split("(")[0], pb.split("(")[0])))
    for r in recs[:3]:
        res.samples.append(dict(program=r.src[-500:], impl=r.impl[:200], model=r.model[:200]))
    res.rule = ("pairs (a, b) of nested first-order values (bool, boundary ints, floats incl. NaN / -0.0 / inf / subnormal, strings, (), "
                "arrays, tuples, structs; b mostly a near-copy of a), every array built along one of 12 provenance paths (literal, "
                "hidden, +, slice, $], ? $], \\\\, ? T $], [v; n], [v; 0], empty slice, empty type filter); a == b, a != b, b == a, "
                "the same through `any` parameters, a match value arm, and a against a second construction of itself; compared "
                "with Spec and with content equality computed in Python; non-trivial = distinct accepted program")
