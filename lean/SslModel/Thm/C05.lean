import SslModel.Lemmas.TyOrder
/-!
# C05 — outcomes are independent of hash order

In the model a union is a *list* of members and a struct a *list* of fields; the list order stands
for the iteration order of one particular `HashSet` / `HashMap` instance.  Independence of hash
order is invariance under permutation of those lists.  Proved here: type equality and the subtype
test give the same answer for every order; equal unions / structs have equal sizes (what their
`Hash` implementations feed to the hasher, so equal types hash equally); the all-based queries are
order independent; and the queries that fold the members' answers with `concat`
(`index_result`, `element_type`, `return_type`, `mut_element_type`, `field_type`) answer, for every
order of the members, either nothing in both orders or types that match each other in both
directions (`*_order_independent`, from `concat` being a least upper bound).  `params` /
`flatten_tuple` (which fold with `conjoin` / pointwise `concat`) and program-level determinism are
exercised by repetition (K parses + runs per program, in one process and across processes):
tools/props/c05.py.
-/
set_option linter.unusedSimpArgs false
namespace Ssl.C05
open Ssl Ssl.Ty

/-! ## `==` does not depend on the order of union members / struct fields -/

/-- a union equals any reordering of itself -/
theorem eqv_perm_union (ms ms' : List Ty) (hp : ms.Perm ms') (hw : wf (.multi ms) = true) :
    eqv (.multi ms) (.multi ms') = true := by
  simp only [wf, Bool.and_eq_true] at hw
  rw [eqv]
  have hlen : (ms.length == ms'.length) = true := by simp [hp.length_eq]
  have := subL_of ms ms' (fun x hx => eqv_refl x (wfL_mem hw.1.1.2 hx)) (fun x hx => hp.mem_iff.mp hx)
  simp [hlen, this]

/-- a struct type equals any reordering of its fields -/
theorem eqv_perm_struct (fs fs' : List (String × Ty)) (hp : fs.Perm fs') (hw : wf (.struct fs) = true)
    (hn' : nodupKeys fs' = true) : eqv (.struct fs) (.struct fs') = true := by
  simp only [wf, Bool.and_eq_true] at hw
  rw [eqv]
  have hlen : (fs.length == fs'.length) = true := by simp [hp.length_eq]
  have := subF_of fs fs' hn' (fun p hp' => eqv_refl p.2 (wfF_mem hw.1 hp')) (fun x hx => hp.mem_iff.mp hx)
  simp [hlen, this]

/-! ## `matches` does not depend on the order of union members -/

theorem matches_union_left_order (ms ms' : List Ty) (c : Ty) (hp : ms.Perm ms') :
    sub (.multi ms) c = sub (.multi ms') c := by
  rw [sub_multi_left, sub_multi_left, allMatch_eq, allMatch_eq, hp.all_eq]

theorem matches_union_right_order (a : Ty) (ms ms' : List Ty) (hp : ms.Perm ms')
    (h1 : isMulti a = false) (h2 : isNever a = false) :
    sub a (.multi ms) = sub a (.multi ms') := by
  rw [sub_multi_right a ms h1 h2, sub_multi_right a ms' h1 h2, anyMatch_eq, anyMatch_eq, hp.any_eq]

/-! ## equal types feed equal data to the hasher -/

/-- `impl Hash for MultiType` hashes the number of members: equal unions have equal sizes -/
theorem equal_unions_hash_equally (ms ms' : List Ty) (h : eqv (.multi ms) (.multi ms') = true) :
    ms.length = ms'.length := by
  rw [eqv] at h; simp at h; exact h.1

/-- `impl Hash for StructType` (after the repair) hashes the sorted keys; equal struct types have
    the same number of fields, and every key of one is a key of the other -/
theorem equal_structs_same_size (fs fs' : List (String × Ty)) (h : eqv (.struct fs) (.struct fs') = true) :
    fs.length = fs'.length := by
  rw [eqv] at h; simp at h; exact h.1

theorem fieldEq_key_mem (k : String) (t : Ty) (fs : List (String × Ty)) (h : fieldEq k t fs = true) :
    ∃ p ∈ fs, p.1 = k := by
  induction fs with
  | nil => simp [fieldEq] at h
  | cons q fs ih =>
    obtain ⟨k', t'⟩ := q
    rw [fieldEq] at h
    split at h
    · next hk => exact ⟨(k', t'), List.mem_cons_self, by simpa using (Eq.symm (by simpa using hk))⟩
    · obtain ⟨p, hp, hk⟩ := ih h
      exact ⟨p, List.mem_cons_of_mem _ hp, hk⟩

theorem equal_structs_same_keys (fs fs' : List (String × Ty)) (h : eqv (.struct fs) (.struct fs') = true) :
    ∀ p ∈ fs, ∃ q ∈ fs', q.1 = p.1 := by
  rw [eqv] at h
  simp only [Bool.and_eq_true] at h
  have hsub := h.2
  clear h
  induction fs with
  | nil => intro p hp; cases hp
  | cons q fs ih =>
    obtain ⟨k, t⟩ := q
    rw [subF, Bool.and_eq_true] at hsub
    intro p hp
    rcases List.mem_cons.mp hp with rfl | hp
    · exact fieldEq_key_mem k t fs' hsub.1
    · exact ih hsub.2 p hp

/-! ## the all-based queries are order independent -/

theorem is_function_order (ms ms' : List Ty) (hp : ms.Perm ms') :
    isFunction (.multi ms) = isFunction (.multi ms') := by
  simp only [isFunction, hp.all_eq]

theorem is_tuple_order (ms ms' : List Ty) (hp : ms.Perm ms') :
    isTuple (.multi ms) = isTuple (.multi ms') := by
  simp only [isTuple, hp.all_eq]

theorem is_mut_order (ms ms' : List Ty) (hp : ms.Perm ms') :
    isMut (.multi ms) = isMut (.multi ms') := by
  simp only [isMut, hp.all_eq]

theorem has_field_order (k : String) (ms ms' : List Ty) (hp : ms.Perm ms') :
    hasField k (.multi ms) = hasField k (.multi ms') := by
  simp only [hasField, hp.all_eq]

/-! ## queries that join the members' answers -/

/-- the conclusion shared by the five theorems below -/
def SameAnswer (q : Ty → Option Ty) (a b : Ty) : Prop :=
  (q a = none ∧ q b = none) ∨ ∃ r r', q a = some r ∧ q b = some r' ∧ sub r r' = true ∧ sub r' r = true

theorem index_result_order_independent (ms ms' : List Ty) (hp : ms.Perm ms') (hw : wf (.multi ms) = true) :
    SameAnswer indexResult (.multi ms) (.multi ms') := by
  unfold SameAnswer indexResult
  apply query_order_independent _ ms ms' (by intro h; subst h; simp [wf] at hw) (fun x => hp.mem_iff)
  intro m hm t ht
  have wm := (isMulti_false_of_member hw hm).2.2.2
  cases m <;> simp at ht <;> subst ht
  · rfl
  · simpa [wf] using wm

theorem element_type_order_independent (ms ms' : List Ty) (hp : ms.Perm ms') (hw : wf (.multi ms) = true) :
    SameAnswer elementType (.multi ms) (.multi ms') := by
  unfold SameAnswer elementType
  apply query_order_independent _ ms ms' (by intro h; subst h; simp [wf] at hw) (fun x => hp.mem_iff)
  intro m hm t ht
  have wm := (isMulti_false_of_member hw hm).2.2.2
  cases m <;> simp at ht <;> subst ht
  simpa [wf] using wm

theorem return_type_order_independent (ms ms' : List Ty) (hp : ms.Perm ms') (hw : wf (.multi ms) = true) :
    SameAnswer returnType (.multi ms) (.multi ms') := by
  unfold SameAnswer returnType
  apply query_order_independent _ ms ms' (by intro h; subst h; simp [wf] at hw) (fun x => hp.mem_iff)
  intro m hm t ht
  have wm := (isMulti_false_of_member hw hm).2.2.2
  cases m <;> simp at ht <;> subst ht
  simp only [wf, Bool.and_eq_true] at wm; exact wm.2

theorem mut_element_type_order_independent (ms ms' : List Ty) (hp : ms.Perm ms') (hw : wf (.multi ms) = true) :
    SameAnswer mutElementType (.multi ms) (.multi ms') := by
  unfold SameAnswer mutElementType
  apply query_order_independent _ ms ms' (by intro h; subst h; simp [wf] at hw) (fun x => hp.mem_iff)
  intro m hm t ht
  have wm := (isMulti_false_of_member hw hm).2.2.2
  cases m <;> simp at ht <;> subst ht
  simpa [wf] using wm

theorem field_type_order_independent (k : String) (ms ms' : List Ty) (hp : ms.Perm ms') (hw : wf (.multi ms) = true) :
    SameAnswer (fieldType k) (.multi ms) (.multi ms') := by
  unfold SameAnswer fieldType
  apply query_order_independent _ ms ms' (by intro h; subst h; simp [wf] at hw) (fun x => hp.mem_iff)
  intro m hm t ht
  have wm := (isMulti_false_of_member hw hm).2.2.2
  cases m <;> simp at ht
  rename_i fs
  simp only [wf, Bool.and_eq_true] at wm
  exact wfF_mem wm.1 (lookupF_mem ht)

/-! ## non-vacuity -/
example : [Ty.int, Ty.arr .any].Perm [Ty.arr .any, Ty.int] := List.Perm.swap _ _ _

end Ssl.C05
