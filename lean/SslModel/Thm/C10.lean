import SslModel.Lemmas.TyJoin
/-!
# C10 — the subtype relation (`Type::matches`) obeys its laws

Statements are about `Ssl.Ty.sub`, the hand model of `Type::matches` (arms in source order), `eqv`
(`==` with set / map semantics for unions / structs) — for **all** types, or all well-formed types
(`wf`: unions have ≥ 2 pairwise different members none of which is a union, `any` or `!`; struct
keys are distinct — exactly what `from_str`, `|` and the checker can build).
Proved here: reflexivity and **transitivity** (`matches_trans`, `eqv_trans`; by induction on the
total size of the three types), symmetry of `==` (`eqv_symm`), least / greatest element, the variance equations of every constructor,
invariance of `mut`, the two union laws, that `==` implies `matches` and `matches` respects `==` on both
sides, that `concat` (the join) is the least upper bound of its operands, and that `conjoin` (the
**meet** used to intersect parameter types) **is a lower bound of its arguments**; both preserve
well-formedness.  Soundness for values is `C01.matches_sound`.  With this every clause of the property is
a theorem about the model; the model is tied to `src/variable/type.rs` by the `type` stream, which also
evaluates all laws on the real Type API.
-/
namespace Ssl.C10
open Ssl Ssl.Ty

theorem eqv_refl (t : Ty) (hw : wf t = true) : eqv t t = true := Ty.eqv_refl t hw

theorem matches_refl (t : Ty) (hw : wf t = true) : sub t t = true := Ty.sub_refl t hw

theorem never_least (t : Ty) : sub .never t = true := Ty.sub_never t

theorem any_greatest (t : Ty) : sub t .any = true := Ty.any_greatest_aux (size t) t (Nat.le_refl _)

theorem array_covariant (a b : Ty) : sub (.arr a) (.arr b) = sub a b := Ty.sub_arr a b

theorem tuple_covariant_cons (a b : Ty) (as bs : List Ty) :
    sub (.tup (a :: as)) (.tup (b :: bs)) = (sub a b && sub (.tup as) (.tup bs)) := by
  rw [sub_tup, sub_tup, matchesL_cons]

theorem tuple_length_mismatch (a : Ty) (as : List Ty) :
    sub (.tup (a :: as)) (.tup []) = false ∧ sub (.tup []) (.tup (a :: as)) = false := by
  constructor <;> (rw [sub_tup]; rw [matchesL] <;> (intros; simp_all))

/-- parameters contravariant, result covariant -/
theorem func_contra_co (p q r s : Ty) :
    sub (.fn [p] r) (.fn [q] s) = (sub q p && sub r s) := by
  rw [sub_fn, matchesParams, matchesParams]; simp

theorem func_arity (p r s : Ty) : sub (.fn [p] r) (.fn [] s) = false := by
  rw [sub_fn]; rw [matchesParams] <;> first | rfl | (intros; simp_all)

/-- `mut` is invariant: cells match exactly when their contents are equal types -/
theorem cell_invariant (a b : Ty) : sub (.cell a) (.cell b) = eqv a b := Ty.sub_cell a b

theorem fieldMatches_lookup (fa : List (String × Ty)) (k : String) (t2 : Ty) :
    fieldMatches fa k t2 = (match lookupF k fa with | some t1 => sub t1 t2 | none => false) := by
  induction fa with
  | nil => rw [fieldMatches]; rfl
  | cons p fa ih =>
    obtain ⟨k', t1⟩ := p
    rw [fieldMatches]
    simp only [lookupF]
    split <;> simp_all

/-- width and depth subtyping of structs: every field demanded by the supertype is present in the
    subtype with a matching type; extra fields are allowed -/
theorem struct_width_depth (fa fb : List (String × Ty)) :
    sub (.struct fa) (.struct fb) = true ↔
      ∀ p ∈ fb, ∃ t1, lookupF p.1 fa = some t1 ∧ sub t1 p.2 = true := by
  rw [sub_struct]
  induction fb with
  | nil => rw [structMatches]; simp
  | cons q fb ih =>
    obtain ⟨k, t2⟩ := q
    rw [structMatches, Bool.and_eq_true, ih, fieldMatches_lookup]
    constructor
    · intro ⟨h1, h2⟩ p hp
      rcases List.mem_cons.mp hp with rfl | hp
      · cases hl : lookupF k fa with
        | none => simp [hl] at h1
        | some t1 => simp [hl] at h1; exact ⟨t1, rfl, h1⟩
      · exact h2 p hp
    · intro h
      constructor
      · obtain ⟨t1, hl, hs⟩ := h (k, t2) List.mem_cons_self
        simp [hl, hs]
      · intro p hp; exact h p (List.mem_cons_of_mem _ hp)

/-- a union lies below exactly the types all its members lie below -/
theorem union_least (ms : List Ty) (c : Ty) :
    sub (.multi ms) c = ms.all (fun m => sub m c) := by
  rw [sub_multi_left, allMatch_eq]

/-- a union is an upper bound of its members -/
theorem union_upper (ms : List Ty) (m : Ty) (hw : wf (.multi ms) = true) (hm : m ∈ ms) :
    sub m (.multi ms) = true := by
  simp only [wf, Bool.and_eq_true] at hw
  have hk := membersOk_mem hw.1.2 hm
  rw [sub_multi_right m ms hk.1 hk.2.1, anyMatch_eq, List.any_eq_true]
  exact ⟨m, hm, Ty.sub_refl m (wfL_mem hw.1.1.2 hm)⟩

/-- below a union means below one of its members (for a non-union, non-`!` left side) -/
theorem below_union (a : Ty) (ms : List Ty) (h1 : isMulti a = false) (h2 : isNever a = false) :
    sub a (.multi ms) = ms.any (fun m => sub a m) := by
  rw [sub_multi_right a ms h1 h2, anyMatch_eq]

/-- **`matches` is transitive** (all well-formed types) -/
theorem matches_trans (a b c : Ty) (wa : wf a = true) (wb : wf b = true) (wc : wf c = true)
    (h1 : sub a b = true) (h2 : sub b c = true) : sub a c = true :=
  Ty.sub_trans a b c wa wb wc h1 h2

/-- `==` is transitive (all types) -/
theorem eqv_trans (a b c : Ty) (h1 : eqv a b = true) (h2 : eqv b c = true) : eqv a c = true :=
  Ty.eqv_trans a b c h1 h2

/-- `==` is symmetric on well-formed types (unions by counting modulo `==`, structs by counting keys):
    with `eqv_refl` and `eqv_trans`, `==` is an equivalence relation -/
theorem eqv_symm (a b : Ty) (wa : wf a = true) (wb : wf b = true) (h : eqv a b = true) : eqv b a = true :=
  Ty.eqv_symm a b wa wb h

/-- equal types match each other, and `matches` cannot tell equal types apart -/
theorem eq_implies_matches (a b : Ty) (wa : wf a = true) (wb : wf b = true) (h : eqv a b = true) : sub a b = true :=
  Ty.sub_of_eqv a b wa wb h

theorem matches_respects_eq_left (a a' b : Ty) (wa : wf a = true) (wa' : wf a' = true) (wb : wf b = true)
    (he : eqv a a' = true) (h : sub a b = true) : sub a' b = true := Ty.sub_congr_left a a' b wa wa' wb he h

theorem matches_respects_eq_right (a b b' : Ty) (wa : wf a = true) (wb : wf b = true) (wb' : wf b' = true)
    (he : eqv b b' = true) (h : sub a b = true) : sub a b' = true := Ty.sub_congr_right a b b' wa wb wb' he h

/-- `concat` (what `|` builds; the checker's join of branches, elements, results) is an upper bound … -/
theorem concat_upper_bound (a b : Ty) (wa : wf a = true) (wb : wf b = true) :
    sub a (concat a b) = true ∧ sub b (concat a b) = true := Ty.concat_upper a b wa wb

/-- … the least one … -/
theorem concat_least_upper_bound (a b c : Ty) (wa : wf a = true) (wb : wf b = true)
    (ha : sub a c = true) (hb : sub b c = true) : sub (concat a b) c = true := Ty.concat_least a b c wa wb ha hb

/-- … and well-formed -/
theorem concat_wellformed (a b : Ty) (wa : wf a = true) (wb : wf b = true) : wf (concat a b) = true :=
  Ty.concat_wf a b wa wb

/-- **the meet used to intersect parameter types is a lower bound of its arguments** -/
theorem meet_lower_bound (a b : Ty) (wa : wf a = true) (wb : wf b = true) :
    sub (conjoin a b) a = true ∧ sub (conjoin a b) b = true := Ty.conjoin_lower a b wa wb

theorem meet_wellformed (a b : Ty) (wa : wf a = true) (wb : wf b = true) : wf (conjoin a b) = true :=
  Ty.conjoin_wf a b wa wb

/-- the meet of two function types takes the join of the parameters: `(int)->int ∧ (string)->int` -/
example : conjoin (.fn [.int] .int) (.fn [.str] .int) = .fn [.multi [.int, .str]] .int := by
  rw [conjoin.eq_def]; simp [eqv, eqvL, conjoin, concat, List.zipWith]

/-- between non-union types (left not `!`, right not `any`) only types built by the same constructor match -/
theorem matches_same_constructor {a b : Ty} (ha1 : isMulti a = false) (ha2 : isNever a = false)
    (hb1 : isMulti b = false) (hb2 : b ≠ .any) (h : sub a b = true) : head a = head b :=
  Ty.sub_head ha1 ha2 hb1 hb2 h

/-- a chain through a union: below a member, hence below everything the union is below -/
example : sub (.arr .int) (.multi [.arr (.multi [.int, .str]), .str]) = true ∧
    sub (.multi [.arr (.multi [.int, .str]), .str]) (.multi [.str, .arr .any]) = true := by
  constructor <;> simp [sub, allMatch, anyMatch, eqv]

/-! ## non-vacuity: a nested well-formed type meeting the hypotheses -/
def sample : Ty :=
  .cell (.multi [.fn [.multi [.int, .float]] (.multi [.str, .void]), .int,
                 .struct [("a", .arr .never), ("b", .tup [.any, .bool])]])

example : wf sample = true := by
  simp [sample, wf, wfL, wfF, membersOk, nodupL, nodupKeys, memL, eqv]

end Ssl.C10
