import SslModel.Model.Spec
import SslModel.Model.Check
import SslModel.Lemmas.TyTrans
import SslModel.Thm.C06
/-!
# C12 — control flow selects and exits exactly the documented construct

Theorems about the reference semantics `Spec`.  `break`, `continue` and `return` are the signals
`Sig.brk`, `Sig.cont`, `Sig.ret v` of the evaluation monad: every construct propagates them
(`bind_def`: an error result skips the continuation) except loops, which catch `brk` / `cont`, and
function calls, which catch `ret` — and nothing else does.
-/
namespace Ssl.C12
open Ssl Ssl.Spec

theorem bind_def {α β} (m : M α) (k : α → M β) (σ : St) :
    (m >>= k) σ = (match m σ with
      | (.ok a, σ') => k a σ'
      | (.error e, σ') => (.error e, σ')) := rfl

def isEscape : Sig → Bool
  | .brk | .cont | .ret _ => true
  | _ => false

/-! ## `return` exits the innermost enclosing function: a call never lets a signal out -/

theorem nativeCall_no_escape (name : String) (args : List Val) (σ σ' : St) (s : Sig)
    (h : nativeCall name args σ = (.error s, σ')) : isEscape s = false := by
  unfold nativeCall at h
  split at h <;> first
    | (simp [pure] at h; done)
    | (simp [wrong, throwS] at h; obtain ⟨h1, _⟩ := h; subst h1; rfl)

/-- whatever a function body does, the call yields a value, a runtime error, `wrong` or runs out of
    fuel — never `break`, `continue` or `return` -/
theorem call_contains_signals (f : Nat) (fv : Val) (args : List Val) (σ σ' : St) (s : Sig)
    (h : callFn f fv args σ = (.error s, σ')) : isEscape s = false := by
  cases f with
  | zero => simp [callFn, throwS] at h; obtain ⟨h1, _⟩ := h; subst h1; rfl
  | succ f =>
    simp only [callFn] at h
    split at h
    · split at h
      · exact nativeCall_no_escape _ _ _ _ _ h
      · simp only [tryCatchS] at h
        split at h
        · simp at h
        · next e σ1 hev =>
          cases e with
          | ret v => simp [pure] at h
          | brk => simp [wrong, throwS] at h; obtain ⟨h1, _⟩ := h; subst h1; rfl
          | cont => simp [wrong, throwS] at h; obtain ⟨h1, _⟩ := h; subst h1; rfl
          | err e => simp [throwS] at h; obtain ⟨h1, _⟩ := h; subst h1; rfl
          | wrong w => simp [throwS] at h; obtain ⟨h1, _⟩ := h; subst h1; rfl
          | fuel => simp [throwS] at h; obtain ⟨h1, _⟩ := h; subst h1; rfl
    · simp [wrong, throwS] at h; obtain ⟨h1, _⟩ := h; subst h1; rfl

/-- `return e` raises the signal carrying the value of `e` -/
theorem return_raises (f : Nat) (env : Env) (e : Expr) (σ σ1 : St) (v : Val)
    (h : eval f env e σ = (.ok v, σ1)) :
    eval (f + 1) env (.ret (some e)) σ = (.error (.ret v), σ1) := by
  simp only [eval, bind_def, h, throwS]

/-- a call turns the `return` of its body into its result -/
theorem call_returns_value (f : Nat) (id : Nat) (ps : List (String × Ty)) (r : Ty) (s : Expr)
    (body : List Expr) (cap : Frame) (self : Option String) (args : List Val) (σ σ1 : St) (v : Val)
    (hn : ∀ name, s ≠ .native name)
    (h : evalSeq f (calleeEnv (.fn id ps r (s :: body) cap self) ps cap self args) (s :: body) σ = (.error (.ret v), σ1)) :
    callFn (f + 1) (.fn id ps r (s :: body) cap self) args σ = (.ok v, σ1) := by
  rw [C06.callee_environment f id ps r s body cap self args hn]
  simp only [tryCatchS, bind_def]
  rw [h]; rfl

/-- falling off the end of a function body yields `()`, whatever the last statement's value was -/
theorem call_falls_off_end (f : Nat) (id : Nat) (ps : List (String × Ty)) (r : Ty) (s : Expr)
    (body : List Expr) (cap : Frame) (self : Option String) (args : List Val) (σ σ1 : St)
    (res : Val × Env) (hn : ∀ name, s ≠ .native name)
    (h : evalSeq f (calleeEnv (.fn id ps r (s :: body) cap self) ps cap self args) (s :: body) σ = (.ok res, σ1)) :
    callFn (f + 1) (.fn id ps r (s :: body) cap self) args σ = (.ok .unit, σ1) := by
  rw [C06.callee_environment f id ps r s body cap self args hn]
  simp only [tryCatchS, bind_def]
  rw [h]; rfl

/-! ## `break` / `continue` affect the innermost enclosing loop -/

theorem bodyOnce_break (f : Nat) (env : Env) (body : Expr) (σ σ1 : St)
    (h : eval f env body σ = (.error .brk, σ1)) :
    bodyOnce (f + 1) env body σ = (.ok false, σ1) := by
  simp only [bodyOnce, tryCatchS, bind_def, h]; rfl

theorem bodyOnce_continue (f : Nat) (env : Env) (body : Expr) (σ σ1 : St)
    (h : eval f env body σ = (.error .cont, σ1)) :
    bodyOnce (f + 1) env body σ = (.ok true, σ1) := by
  simp only [bodyOnce, tryCatchS, bind_def, h]; rfl

theorem bodyOnce_normal (f : Nat) (env : Env) (body : Expr) (σ σ1 : St) (v : Val)
    (h : eval f env body σ = (.ok v, σ1)) :
    bodyOnce (f + 1) env body σ = (.ok true, σ1) := by
  simp only [bodyOnce, tryCatchS, bind_def, h]; rfl

/-- `return` (and errors) pass through a loop body untouched -/
theorem bodyOnce_propagates_return (f : Nat) (env : Env) (body : Expr) (σ σ1 : St) (v : Val)
    (h : eval f env body σ = (.error (.ret v), σ1)) :
    bodyOnce (f + 1) env body σ = (.error (.ret v), σ1) := by
  simp only [bodyOnce, tryCatchS, bind_def, h]; rfl

/-- a loop body never lets `break` / `continue` out -/
theorem bodyOnce_catches (f : Nat) (env : Env) (body : Expr) (σ σ' : St) (s : Sig)
    (h : bodyOnce f env body σ = (.error s, σ')) : s ≠ .brk ∧ s ≠ .cont := by
  cases f with
  | zero => simp [bodyOnce, throwS] at h; obtain ⟨h1, _⟩ := h; subst h1; simp
  | succ f =>
    simp only [bodyOnce, tryCatchS, bind_def] at h
    split at h
    · simp at h
    · next e σ1 hev =>
      cases e <;> simp [pure, throwS] at h <;> (obtain ⟨h1, _⟩ := h; subst h1; simp)

theorem loop_catches_break_continue (f : Nat) : ∀ (env : Env) (body : Expr) (σ σ' : St) (s : Sig),
    loopGo f env body σ = (.error s, σ') → s ≠ .brk ∧ s ≠ .cont := by
  induction f with
  | zero => intro env body σ σ' s h; simp [loopGo, throwS] at h; obtain ⟨h1, _⟩ := h; subst h1; simp
  | succ f ih =>
    intro env body σ σ' s h
    simp only [loopGo, bind_def] at h
    split at h
    · next go σ1 hb =>
      cases go
      · simp [pure] at h
      · simp only [] at h; exact ih env body σ1 σ' s h
    · next e σ1 hb =>
      simp at h; obtain ⟨h1, _⟩ := h; subst h1
      exact bodyOnce_catches f env body σ σ1 e hb

/-- loops evaluate to `()` -/
theorem loop_value_void (f : Nat) : ∀ (env : Env) (body : Expr) (σ σ' : St) (v : Val),
    loopGo f env body σ = (.ok v, σ') → v = .unit := by
  induction f with
  | zero => intro env body σ σ' v h; simp [loopGo, throwS] at h
  | succ f ih =>
    intro env body σ σ' v h
    simp only [loopGo, bind_def] at h
    split at h
    · next go σ1 hb =>
      cases go
      · simp [pure] at h; exact h.1.symm
      · simp only [] at h; exact ih env body σ1 σ' v h
    · simp at h

/-- `break` in the body ends the loop with `()`, in the store the body left -/
theorem loop_break_ends (f : Nat) (env : Env) (body : Expr) (σ σ1 : St)
    (h : eval f env body σ = (.error .brk, σ1)) :
    loopGo (f + 2) env body σ = (.ok .unit, σ1) := by
  simp only [loopGo, bind_def, bodyOnce_break f env body σ σ1 h]; rfl

/-! ## `if`, `if x: T = e`, `while x: T = e`, `match` select by the documented test -/

theorem if_selects (f : Nat) (env : Env) (c t : Expr) (e : Option Expr) (σ σ1 : St) (b : Bool)
    (h : eval f env c σ = (.ok (.bool b), σ1)) :
    eval (f + 1) env (.ifElse c t e) σ =
      (if b then eval f env t σ1 else match e with
        | some e => eval f env e σ1
        | none => (.ok .unit, σ1)) := by
  cases b <;> cases e <;> (simp only [eval, bind_def, h, liftE, asBool]; rfl)

/-- `if x: T = e` runs its body exactly when the *run-time* type of the value matches `T` -/
theorem ifset_selects (f : Nat) (env : Env) (x : String) (ty : Ty) (e body : Expr) (els : Option Expr)
    (σ σ1 : St) (v : Val) (h : eval f env e σ = (.ok v, σ1)) :
    eval (f + 1) env (.ifSet x ty e body els) σ =
      (if Ty.sub v.asType ty then eval f ([(x, v)] :: env) body σ1
       else match els with
        | some e => eval f env e σ1
        | none => (.ok .unit, σ1)) := by
  simp only [eval, bind_def, h]
  split <;> (try rfl)
  cases els <;> rfl

theorem whileset_selects (f : Nat) (env : Env) (x : String) (ty : Ty) (e body : Expr)
    (σ σ1 : St) (v : Val) (h : eval f env e σ = (.ok v, σ1)) (hs : Ty.sub v.asType ty = false) :
    whileSetGo (f + 1) env x ty e body σ = (.ok .unit, σ1) := by
  simp only [whileSetGo, bind_def, h, hs]; rfl

/-- `match` runs the first arm, top to bottom, that covers the value -/
theorem match_type_arm (f : Nat) (env : Env) (v : Val) (x : String) (t : Ty) (body : Expr)
    (rest : List Arm) :
    evalArms (f + 1) env v (.ty x t body :: rest) =
      (if Ty.sub v.asType t then eval f ([(x, v)] :: env) body else evalArms f env v rest) := by
  simp only [evalArms]

theorem match_other_arm (f : Nat) (env : Env) (v : Val) (body : Expr) (rest : List Arm) :
    evalArms (f + 1) env v (.other body :: rest) = eval f env body := by
  simp only [evalArms]

theorem match_value_arm (f : Nat) (env : Env) (v : Val) (cands : List Expr) (body : Expr)
    (rest : List Arm) :
    evalArms (f + 1) env v (.val cands body :: rest) = (do
      let hit ← candGo f env v cands
      if hit then eval f env body else evalArms f env v rest) := by
  simp only [evalArms]

/-- a `match` none of whose arms covers the value is `wrong` (the checker must exclude it: C01/C02) -/
theorem match_uncovered_is_wrong (f : Nat) (env : Env) (v : Val) :
    evalArms (f + 1) env v [] = wrong "no match arm covers the value" := by
  simp only [evalArms]

/-! ## blocks evaluate to their last statement -/

theorem seq_empty (f : Nat) (env : Env) : evalSeq (f + 1) env [] = pure (.unit, env) := by
  simp only [evalSeq]

theorem seq_last (f : Nat) (env : Env) (s : Expr) : evalSeq (f + 1) env [s] = evalStmt f env s := by
  simp only [evalSeq]

theorem seq_cons (f : Nat) (env : Env) (s s2 : Expr) (rest : List Expr) :
    evalSeq (f + 1) env (s :: s2 :: rest) = (do
      let (_, env') ← evalStmt f env s
      evalSeq f env' (s2 :: rest)) := by
  simp only [evalSeq]

/-! ## an accepted match always has an arm for the value it meets -/

section coverage
open Ssl.Ty

open Ssl.Check

/-- **an accepted match always has an arm for the value it meets**: if the arms cover the static type `T`
    of the scrutinee, then for every run-time type `R` below `T` (run-time types are never unions or `!`)
    some arm's run-time test succeeds -/
theorem coverage_sound (arms : List ArmKind) (R T : Ty) (wR : wf R = true) (wT : wf T = true)
    (warms : ∀ a, ArmKind.ty a ∈ arms → wf a = true)
    (hR1 : isMulti R = false) (hR2 : isNever R = false)
    (hsub : sub R T = true) (hc : covering arms T = true) :
    ∃ arm ∈ arms, armCovers arm R = true := by
  -- a non-union type `M` with `R ≤ M` that some arm covers
  have key : ∀ M : Ty, wf M = true → sub R M = true → arms.any (armCovers · M) = true →
      ∃ arm ∈ arms, armCovers arm R = true := by
    intro M wM hRM hany
    rw [List.any_eq_true] at hany
    obtain ⟨arm, harm, hcov⟩ := hany
    cases arm with
    | value => simp [armCovers] at hcov
    | other => exact ⟨.other, harm, rfl⟩
    | ty a =>
      simp only [armCovers] at hcov
      exact ⟨.ty a, harm, by simp only [armCovers]; exact sub_trans R M a wR wM (warms a harm) hRM hcov⟩
  by_cases hm : isMulti T = true
  · cases T <;> simp [isMulti] at hm
    rename_i ms
    rw [sub_multi_right R ms hR1 hR2, anyMatch_eq, List.any_eq_true] at hsub
    obtain ⟨m, hmem, hRm⟩ := hsub
    simp only [covering, List.all_eq_true] at hc
    exact key m (isMulti_false_of_member wT hmem).2.2.2 hRm (hc m hmem)
  · have hm' : isMulti T = false := by simpa using hm
    have hc' : arms.any (armCovers · T) = true := by
      cases T <;> simp [isMulti] at hm' <;> simpa [covering] using hc
    exact key T wT hsub hc'

/-- the check is not vacuous and not trivially true: `x: int => ..` alone does not cover `int|string` -/
example : covering [.ty .int] (.multi [.int, .str]) = false ∧
    covering [.ty .int, .ty (.multi [.str, .void])] (.multi [.int, .str]) = true ∧
    covering [.value, .other] (.multi [.int, .str]) = true := by
  refine ⟨?_, ?_, ?_⟩ <;> simp [covering, armCovers, sub, anyMatch, eqv]


end coverage

end Ssl.C12
