"""Tiny Rust lexer + helpers used by translate.py.  It is deliberately strict: anything it
cannot tokenise raises TranslateError (a broken tie, never a silent skip)."""
import re


class TranslateError(Exception):
    pass


_PUNCT = [
    "<<=", ">>=", "**=", "...", "..=", "::", "->", "=>", "==", "!=", "<=", ">=", "&&", "||",
    "+=", "-=", "*=", "/=", "%=", "^=", "&=", "|=", "<<", ">>", "..",
]
_TOKEN_RE = re.compile(
    r"""
    (?P<ws>\s+)
  | (?P<lc>//[^\n]*)
  | (?P<bc>/\*.*?\*/)
  | (?P<rawstr>r\#*"(?:.|\n)*?"\#*)
  | (?P<str>b?"(?:\\.|[^"\\])*")
  | (?P<char>'(?:\\.|[^'\\])')
  | (?P<life>'[A-Za-z_][A-Za-z0-9_]*)
  | (?P<num>[0-9][0-9A-Za-z_]*(?:\.[0-9][0-9A-Za-z_]*)?)
  | (?P<id>(?:r\#)?[A-Za-z_][A-Za-z0-9_]*)
  | (?P<p>"""
    + "|".join(re.escape(p) for p in _PUNCT)
    + r"""|[-+*/%^!&|=<>@.,;:\#$?~\\\[\]{}()])
    """,
    re.X | re.S,
)


def lex(src):
    toks = []
    pos = 0
    n = len(src)
    while pos < n:
        m = _TOKEN_RE.match(src, pos)
        if not m:
            raise TranslateError("cannot tokenise Rust at %r" % src[pos : pos + 30])
        pos = m.end()
        k = m.lastgroup
        if k in ("ws", "lc", "bc"):
            continue
        toks.append(m.group())
    return toks


_OPEN = {"(": ")", "[": "]", "{": "}"}
_CLOSE = {")", "]", "}"}


def match_close(toks, i):
    """toks[i] is an opening bracket; return index of its closing partner."""
    depth = 0
    for j in range(i, len(toks)):
        t = toks[j]
        if t in _OPEN:
            depth += 1
        elif t in _CLOSE:
            depth -= 1
            if depth == 0:
                return j
    raise TranslateError("unbalanced brackets")


def split_top(toks, sep=","):
    """split a token list on `sep` at bracket depth 0"""
    out, cur, depth = [], [], 0
    for t in toks:
        if t in _OPEN:
            depth += 1
        elif t in _CLOSE:
            depth -= 1
        if t == sep and depth == 0:
            out.append(cur)
            cur = []
        else:
            cur.append(t)
    if cur:
        out.append(cur)
    return out


def find_fn(toks, name, start=0):
    """return (params_tokens, body_tokens, end_index) of `fn name(...) ... { body }`"""
    i = start
    while i < len(toks) - 1:
        if toks[i] == "fn" and toks[i + 1] == name:
            j = i + 2
            # generics
            if toks[j] == "<":
                d = 0
                while True:
                    if toks[j] == "<":
                        d += 1
                    elif toks[j] == ">":
                        d -= 1
                        if d == 0:
                            break
                    elif toks[j] == ">>":
                        d -= 2
                        if d <= 0:
                            break
                    j += 1
                j += 1
            if toks[j] != "(":
                raise TranslateError("fn %s: expected (" % name)
            pe = match_close(toks, j)
            params = toks[j + 1 : pe]
            k = pe + 1
            while toks[k] != "{":
                if toks[k] == ";":
                    raise TranslateError("fn %s has no body" % name)
                k += 1
            be = match_close(toks, k)
            return params, toks[k + 1 : be], be
        i += 1
    return None


def match_arms(body):
    """body = tokens inside `match X { ... }` braces.  Returns list of (pattern, guard, rhs)."""
    arms = []
    i = 0
    n = len(body)
    while i < n:
        # pattern up to `=>` at depth 0
        depth = 0
        j = i
        while j < n:
            t = body[j]
            if t in _OPEN:
                depth += 1
            elif t in _CLOSE:
                depth -= 1
            elif t == "=>" and depth == 0:
                break
            j += 1
        if j >= n:
            raise TranslateError("match arm without =>")
        pat = body[i:j]
        guard = None
        # split guard `if` at depth 0
        depth = 0
        for k, t in enumerate(pat):
            if t in _OPEN:
                depth += 1
            elif t in _CLOSE:
                depth -= 1
            elif t == "if" and depth == 0:
                guard = pat[k + 1 :]
                pat = pat[:k]
                break
        j += 1
        # rhs: block or expr up to `,` at depth 0
        if j < n and body[j] == "{":
            e = match_close(body, j)
            rhs = body[j : e + 1]
            j = e + 1
            if j < n and body[j] == ",":
                j += 1
        else:
            depth = 0
            k = j
            while k < n:
                t = body[k]
                if t in _OPEN:
                    depth += 1
                elif t in _CLOSE:
                    depth -= 1
                elif t == "," and depth == 0:
                    break
                k += 1
            rhs = body[j:k]
            j = k + 1
        arms.append((pat, guard, rhs))
        i = j
    return arms


def find_match(body):
    """first `match <scrutinee> { arms }` or `match_any! { <scrutinee>, arms }` in body.
    Returns (scrutinee_tokens, arms)."""
    for i, t in enumerate(body):
        if t == "match":
            j = i + 1
            depth = 0
            while not (body[j] == "{" and depth == 0):
                if body[j] in ("(", "["):
                    depth += 1
                elif body[j] in (")", "]"):
                    depth -= 1
                j += 1
            e = match_close(body, j)
            return body[i + 1 : j], match_arms(body[j + 1 : e])
        if t == "match_any" and body[i + 1] == "!":
            j = i + 2
            e = match_close(body, j)
            inner = body[j + 1 : e]
            # scrutinee up to first top-level comma
            depth = 0
            for k, u in enumerate(inner):
                if u in _OPEN:
                    depth += 1
                elif u in _CLOSE:
                    depth -= 1
                elif u == "," and depth == 0:
                    return inner[:k], match_arms(inner[k + 1 :])
            raise TranslateError("match_any! without arms")
    return None


def expand_duplicate_items(src):
    """Textually expand `#[duplicate_item( a b c; [x] [y] [z]; ... )] pub mod a { ... }`.
    Returns dict modname -> expanded source text of the module body, plus the source with the
    templates removed."""
    out = {}
    rest = src
    while True:
        m = re.search(r"#\[duplicate_item\(", rest)
        if not m:
            break
        # find end of attribute
        i = m.end()
        depth = 1
        while depth:
            c = rest[i]
            if c == "(":
                depth += 1
            elif c == ")":
                depth -= 1
            i += 1
        attr = rest[m.end() : i - 1]
        assert rest[i] == "]"
        i += 1
        header, *rows = [r.strip() for r in attr.split(";") if r.strip()]
        names = header.split()
        # the item that follows: `pub mod name { ... }`
        mm = re.match(r"\s*pub\s+mod\s+(\w+)\s*\{", rest[i:])
        if not mm:
            raise TranslateError("duplicate_item not followed by pub mod")
        j = i + mm.end()
        depth = 1
        while depth:
            c = rest[j]
            if c == "{":
                depth += 1
            elif c == "}":
                depth -= 1
            j += 1
        body = rest[i + mm.end() : j - 1]
        for row in rows:
            vals = re.findall(r"\[([^\]]*)\]", row)
            if len(vals) != len(names):
                raise TranslateError("duplicate_item row arity")
            text = body
            for nm, v in zip(names, vals):
                text = re.sub(r"\b%s\b" % re.escape(nm), v, text)
            modname = vals[names.index(mm.group(1))]
            out[modname] = text
        rest = rest[: m.start()] + rest[j:]
    return out, rest
