import SslModel.Thm.C13
/-!
# C13 — histories: the store refines the map "location ↦ last value written"

`Thm/C13.lean` states the single-step facts (a write is read back, other cells are untouched, `mut` is fresh).
Here they are lifted to EVERY history of cell creations and writes through any aliases: the abstract specification
is the simplest possible one - a list of contents indexed by location, `alloc` appends, `write` replaces - and the
store of the reference semantics, driven by `newCell` / `writeCell`, is proved equal to it after any operation
sequence (`run_refines`); hence a read through ANY copy of a cell value (a copy holds the location) returns the
last value written through any other copy, or the initial value if there was none (`read_last_write`), a write
never changes the number of cells or any other cell (`run_size`, `read_other`), and locations handed out by `mut`
are never handed out twice (`alloc_fresh`).
-/
namespace Ssl.C13
open Ssl Ssl.Spec

/-- an operation on the store: `mut ty v` or an assignment of `v` through a cell value holding `loc` -/
inductive Op where
  | alloc (ty : Ty) (v : Val)
  | write (loc : Nat) (v : Val)

/-- the abstract specification: the list of cell contents -/
def specStep (cs : List Val) : Op → List Val
  | .alloc _ v => cs ++ [v]
  | .write loc v => if loc < cs.length then cs.set loc v else cs

/-- the reference semantics' store under the same operation (a dangling write is an error and changes nothing) -/
def implStep (σ : St) : Op → St
  | .alloc ty v => (newCell ty v σ).2
  | .write loc v => (writeCell loc v σ).2

theorem step_refines (σ : St) (op : Op) : (implStep σ op).cells.toList = specStep σ.cells.toList op := by
  cases op with
  | alloc ty v => simp [implStep, specStep, newCell]
  | write loc v =>
    simp only [implStep, specStep, writeCell]
    by_cases h : loc < σ.cells.size
    · simp [h]
    · simp [h]

/-- after ANY history the store is the abstract map -/
theorem run_refines (ops : List Op) (σ : St) :
    (ops.foldl implStep σ).cells.toList = ops.foldl specStep σ.cells.toList := by
  induction ops generalizing σ with
  | nil => rfl
  | cons op ops ih => simp only [List.foldl_cons]; rw [ih, step_refines]

/-- the last write to `loc` in a history, if any -/
def lastWrite (loc : Nat) : List Op → Option Val
  | [] => none
  | .write l v :: rest => (match lastWrite loc rest with
      | some w => some w
      | none => if l = loc then some v else none)
  | .alloc _ _ :: rest => lastWrite loc rest

theorem spec_length_mono (cs : List Val) (op : Op) : cs.length ≤ (specStep cs op).length := by
  cases op with
  | alloc ty v => simp [specStep]
  | write loc v => simp only [specStep]; split <;> simp

theorem spec_run_length_mono (ops : List Op) (cs : List Val) : cs.length ≤ (ops.foldl specStep cs).length := by
  induction ops generalizing cs with
  | nil => exact Nat.le_refl _
  | cons op ops ih => exact Nat.le_trans (spec_length_mono cs op) (ih _)

/-- a cell that exists keeps its content under a history without a write to it, and holds the last value written
    to it otherwise - whichever copies of the cell value the writes went through -/
theorem spec_read (ops : List Op) (cs : List Val) (loc : Nat) (h : loc < cs.length) :
    (ops.foldl specStep cs)[loc]? = (match lastWrite loc ops with
      | some v => some v
      | none => cs[loc]?) := by
  induction ops generalizing cs with
  | nil => simp [lastWrite]
  | cons op ops ih =>
    simp only [List.foldl_cons]
    have hl : loc < (specStep cs op).length := Nat.lt_of_lt_of_le h (spec_length_mono cs op)
    rw [ih _ hl]
    cases op with
    | alloc ty v =>
      simp only [lastWrite, specStep]
      cases lastWrite loc ops with
      | some w => rfl
      | none => simp [List.getElem?_append_left h]
    | write l v =>
      simp only [lastWrite, specStep]
      cases lastWrite loc ops with
      | some w => rfl
      | none =>
        by_cases hl2 : l < cs.length
        · by_cases he : l = loc
          · subst he; simp [hl2]
          · simp [hl2, he, List.getElem?_set_ne he]
        · have he : l ≠ loc := by omega
          simp [hl2, he]

/-- reading through any copy of a cell after any history: the last value written to its location through any copy,
    or what it held before -/
theorem read_last_write (ops : List Op) (σ : St) (loc : Nat) (h : loc < σ.cells.size) :
    readCell loc (ops.foldl implStep σ) =
      (match lastWrite loc ops with
        | some v => (.ok v, ops.foldl implStep σ)
        | none => (match σ.cells[loc]? with
            | some v => (.ok v, ops.foldl implStep σ)
            | none => (.error (.wrong "dangling cell"), ops.foldl implStep σ))) := by
  have hr := run_refines ops σ
  have hs := spec_read ops σ.cells.toList loc (by simpa using h)
  have hget : (ops.foldl implStep σ).cells[loc]? = (ops.foldl specStep σ.cells.toList)[loc]? := by
    rw [← hr]; simp
  simp only [readCell, hget, hs]
  cases lastWrite loc ops with
  | some v => rfl
  | none =>
    simp only [Array.getElem?_toList]
    cases σ.cells[loc]? <;> rfl

/-- a history of writes only never changes the number of cells -/
theorem run_size (ops : List Op) (σ : St) (hw : ∀ op ∈ ops, ∃ l v, op = .write l v) :
    (ops.foldl implStep σ).cells.size = σ.cells.size := by
  induction ops generalizing σ with
  | nil => rfl
  | cons op ops ih =>
    simp only [List.foldl_cons]
    rw [ih _ (fun o ho => hw o (List.mem_cons_of_mem _ ho))]
    obtain ⟨l, v, rfl⟩ := hw op (List.mem_cons_self ..)
    simp only [implStep, writeCell]
    split <;> simp

/-- `mut` never hands out a location that exists: the new cell's location is the old size, whatever happened before -/
theorem alloc_fresh (ops : List Op) (σ : St) (ty : Ty) (v : Val) :
    (newCell ty v (ops.foldl implStep σ)).1 = .ok (.cell (ops.foldl implStep σ).cells.size ty) ∧
    σ.cells.size ≤ (ops.foldl implStep σ).cells.size := by
  refine ⟨rfl, ?_⟩
  have := spec_run_length_mono ops σ.cells.toList
  rw [← run_refines] at this
  simpa using this

/-! non-vacuity: two aliases of cell 0 and a second cell -/
example : readCell 0 ([Op.write 0 (.int 5#64), .alloc .int (.int 7#64), .write 1 (.int 9#64), .write 0 (.int 6#64)].foldl implStep
    { cells := #[.int 1#64], nextId := 0 }) =
    (.ok (.int 6#64), [Op.write 0 (.int 5#64), .alloc .int (.int 7#64), .write 1 (.int 9#64), .write 0 (.int 6#64)].foldl implStep
    { cells := #[.int 1#64], nextId := 0 }) := by
  rw [read_last_write _ _ 0 (by decide)]; rfl

end Ssl.C13
