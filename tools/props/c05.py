"""C05 — determinism / hash-order independence.  Proof: SslModel.Thm.C05 (== and matches are
invariant under permutation of union members / struct fields; equal types feed equal data to their
Hash implementations; all-based queries are order independent).  Decision for the running code:
repetition — K fresh parses of each type (pairwise ==, matches, one HashSet entry, cells of it match),
K parse+run repetitions of each program inside one process and again in 3 separate processes, all
canonicalised outcomes identical; biased to unions of multi-key structs, cells of unions, mixed arrays
iterated past exhaustion."""
import random
import subprocess

import progprop
import progstream as P
from gen import ast as A
from gen import types as T
from gen.programs import INT, BOOL, STR, FLOAT, VOID, tup, fn, iter_of, arr, cell, multi
from vlib import HARNESS_BIN, esc_field, harness_run, sexp_parse, sexp_str

THM_MODULES = ["SslModel.Thm.C05", "SslModel.Thm.C05Fuel"]
TRANSLATE_PARTS = []
I = lambda n: ("i", n)
V = lambda x: ("id", x)
ANY = ("any",)


def biased_programs(rnd, n):
    """programs whose outcome could depend on hash order"""
    out = []
    S1 = ("struct", (("a", INT), ("b", STR)))
    S2 = ("struct", (("a", INT), ("b", STR), ("c", BOOL)))
    U = multi(S1, INT)
    for _ in range(n):
        k = rnd.randrange(9)
        if k == 0:
            # mixed-type array iterated past exhaustion: the junk default of a union element type
            els = rnd.sample([I(1), ("s", "a"), ("true",), ("f", 1.5), ("unit",)], rnd.randint(2, 4))
            pulls = len(els) + rnd.randint(1, 3)
            out.append([("set", "it", ("post", "iter", ("array", els)))] + [("set", "r%d" % j, ("call", V("it"), [])) for j in range(pulls)] +
                       [("tuple", [V("r%d" % j) for j in range(max(0, pulls - 2), pulls)])])
        elif k == 1:
            # cell of a union of structs: must match itself
            out.append([("fndecl", "f", [("c", cell(U))], cell(U), [("return", V("c"))]),
                        ("set", "c", ("mut", U, ("struct", [("a", I(1)), ("b", ("s", "x"))]))),
                        ("set", "d", ("call", V("f"), [V("c")])), ("assign", "set", V("d"), I(3)), ("pre", "deref", V("c"))])
        elif k == 2:
            # match on a union of structs / types in random arm order
            arms = [("ty", "x", S2, ("block", [I(2)])), ("ty", "x", S1, ("block", [I(1)])), ("ty", "x", INT, ("block", [I(0)]))]
            rnd.shuffle(arms)
            v = rnd.choice([("struct", [("a", I(1)), ("b", ("s", "x"))]), ("struct", [("c", ("true",)), ("a", I(1)), ("b", ("s", "x"))]), I(7)])
            out.append([("fndecl", "idu", [("v", multi(S1, S2, INT))], multi(S1, S2, INT), [("return", V("v"))]),
                        ("match", ("call", V("idu"), [v]), arms)])
        elif k == 3:
            # field access / indexing through a union: the result type is a fold over members
            out.append([("fndecl", "g", [("v", multi(S1, S2))], ANY, [("return", ("facc", V("v"), rnd.choice(["a", "b"])))]),
                        ("call", V("g"), [("struct", [("a", I(5)), ("b", ("s", "y")), ("c", ("false",))])])])
        elif k == 4:
            # union of function types called: params is a meet, result a join
            FU = multi(fn((INT,), INT), fn((multi(INT, STR),), STR))
            out.append([("fndecl", "h", [("k", FU)], multi(INT, STR), [("return", ("call", V("k"), [I(3)]))]),
                        ("call", V("h"), [("fn", [("p", multi(INT, STR))], STR, [("return", ("s", "r"))])])])
        elif k == 5:
            # module: struct of its names
            out.append([("set", "m", ("mod", [("set", "a", I(1)), ("set", "b", ("s", "x")), ("set", "c", ("array", [I(1)])),
                                              ("fndecl", "f", [], INT, [("return", V("a"))])])),
                        ("tuple", [("facc", V("m"), "a"), ("facc", V("m"), "b"), ("call", ("facc", V("m"), "f"), [])])])
        elif k == 6:
            # assignment through a union of cells
            CU = multi(cell(multi(INT, FLOAT)), cell(multi(INT, STR)))
            out.append([("fndecl", "w", [("x", CU)], multi(INT, FLOAT, STR), [("assign", "set", V("x"), I(5)), ("return", ("pre", "deref", V("x")))]),
                        ("call", V("w"), [("mut", multi(INT, STR), ("s", "a"))])])
        elif k == 8:
            # a built-in reducer / general reduce / for over the EMPTY iterator `[]~` handed over at a static type that is
            # a union of iterator types or an iterator of a union: the unit / default it yields must not depend on the
            # iteration order of the union's members
            els = rnd.choice([(FLOAT, STR), (INT, FLOAT), (INT, STR), (INT, FLOAT, STR), (STR, arr(INT)), (BOOL, INT)])
            ity = rnd.choice([multi(*[iter_of(e) for e in els]), iter_of(multi(*els))])
            op = rnd.choice(["sum", "sum", "product", "bitand", "bitor", "all", "any", "collect"])
            form = rnd.randrange(3)
            if form == 0:
                out.append([("fndecl", "f", [], ity, [("return", ("post", "iter", ("array", [])))]), ("post", op, ("call", V("f"), []))])
            elif form == 1:
                out.append([("fndecl", "g", [("it", ity)], ANY, [("return", ("post", op, V("it")))]),
                            ("call", V("g"), [("post", "iter", ("array", []))])])
            else:
                out.append([("fndecl", "f", [], ity, [("return", ("post", "iter", ("array", [])))]), ("set", "it", ("call", V("f"), [])),
                            ("set", "r", ("post", op, V("it"))), ("tuple", [V("r"), ("call", V("it"), [])])])
        else:
            # type filter by a union of structs (formats the type into source text and re-parses it)
            vals = [("struct", [("a", I(1)), ("b", ("s", "x"))]), I(2), ("s", "z"), ("struct", [("a", I(3))])]
            out.append([("post", "collect", ("tfilter", ("post", "iter", ("array", vals)), rnd.choice([U, S1, multi(S1, STR)])))])
    # exhausted iterators whose element type is a union of COMPOSITE members that themselves contain unions (tuples, structs,
    # arrays of unions): the placeholder is chosen among the members by an order that must not depend on how the nested
    # unions happen to be laid out in memory (always included, not sampled)
    mix = ("array", [I(1), ("s", "a")])
    mix3 = ("array", [("true",), ("s", "a"), I(1)])
    nested = [
        [("tuple", [mix, I(1)]), ("tuple", [mix, ("f", 2.5)])],
        [("tuple", [mix, I(1)]), ("tuple", [mix, ("s", "z")]), ("tuple", [mix, ("true",)])],
        [("tuple", [mix3, I(1)]), ("f", 2.5), ("tuple", [mix3, ("s", "z")])],
        [("struct", [("a", mix), ("b", I(1))]), ("struct", [("a", mix), ("b", ("f", 2.5))])],
        [("array", [("tuple", [mix, I(1)])]), ("array", [("tuple", [mix, ("f", 2.5)])])],
        [("tuple", [("tuple", [mix, I(1)]), I(1)]), ("tuple", [("tuple", [mix, I(1)]), ("s", "q")])],
        [("tuple", [mix, mix3, I(1)]), ("tuple", [mix, mix3, ("f", 0.5)]), ("tuple", [mix3, mix, I(1)])],
    ]
    for els in nested:
        pulls = len(els) + 2
        src_it = ("post", "iter", ("array", els))
        last2 = [("tuple", [V("r%d" % j) for j in range(pulls - 2, pulls)])]
        out.append([("set", "it", src_it)] + [("set", "r%d" % j, ("call", V("it"), [])) for j in range(pulls)] + last2)
        # the same placeholder observed inside the language and through `@` / `?`
        out.append([("set", "it", ("bin", "map", src_it, ("fn", [("x", ANY)], ANY, [("return", V("x"))])))] +
                   [("set", "r%d" % j, ("call", V("it"), [])) for j in range(pulls)] + last2)
        out.append([("fndecl", "keep", [("x", ANY)], BOOL, [("return", ("true",))]), ("set", "it", ("bin", "filter", src_it, V("keep")))] +
                   [("set", "r%d" % j, ("call", V("it"), [])) for j in range(pulls)] + last2)
    return out


def run(res, tier, seed, broken_model):
    rnd = random.Random(seed)
    K = 5 if tier == "quick" else 25
    # 0. errors: the same rejected text parsed K times gives EQUAL error values (errors embed types; equality must not go
    #    through anything that depends on the order in which a union's members or a struct's fields are visited)
    UT, ST = "int|string|float", "struct{a: int, b: float, c: string}"
    SV = "struct{a := 1, b := 0.5, c := \"x\"}"
    rejected = []
    for ty, val in ((UT, "1"), (ST, SV), ("[%s]|(int, %s)" % (UT, ST), "[1]")):
        o = "(*(mut %s %s))" % (ty, val)
        rejected += ["f := () -> %s {}" % ty, "x := mut %s true" % ty, "f := () -> bool { return %s }" % o, "g := (a: bool) -> int { return 1 }; g(%s)" % o,
                     "%s + true" % o, "-%s" % o, "!%s" % o, "%s[0][0][0]" % o, "[1, 2][%s]" % o, "if %s { 1 }" % o, "match %s { x: bool => {1} }" % o, "%s.7" % o,
                     "%s.zz" % o, "[1; %s]" % o, "(a, b, c, d, e) := %s" % o, "for x in %s { }" % o, "c := mut bool true; c = %s" % o, "c := mut bool true; c &= %s" % o,
                     "%s()" % o, "*%s" % o, "%s ~" % o, "%s $+" % o, "while %s { }" % o, "f := (a: %s) -> int { return a }" % ty]
    eout = harness_run(["errk\t\t%d\t%s" % (K + 3, esc_field(p)) for p in rejected])
    res.streams["error-equality"] = dict(programs=len(rejected), parses_each=K + 3)
    import re as _re
    for p, o in zip(rejected, eout):
        res.evaluations += 1
        m = _re.match(r"\(errk accepted=(\d+) rejected=(\d+) unequal=(\d+) (\S+)\)", o)
        if not m:
            res.violation("parsing `%s` %d times: %s" % (p, K + 3, o[:200]), dict(program=p, impl=o), dict(oracle="crash", cls=o[:20]))
            continue
        acc, rej, uneq, name = int(m.group(1)), int(m.group(2)), int(m.group(3)), m.group(4)
        res.count("error-equality:" + name)
        if rej:
            res.nontrivial.add("errk:" + p)
        if acc and rej:
            res.violation("the same text is accepted by some parses and rejected by others: `%s`: %s" % (p, o), dict(program=p, impl=o),
                          dict(oracle="nondeterminism", cls="verdict"))
        elif uneq:
            res.violation("the same rejected text gives error values that are not equal to each other (%d of %d): `%s`: %s" % (uneq, rej, p, o),
                          dict(program=p, impl=o), dict(oracle="nondeterminism", cls="error-equality"))
    # 1. types: K fresh parses
    g = T.TypeGen(rnd, max_depth=3 if tier == "quick" else 4)
    structs = [("multi", (("struct", (("a", ("int",)), ("b", ("int",)))), ("int",))),
               ("multi", (("struct", (("a", ("int",)), ("b", ("str",)), ("x1", ("bool",)))), ("struct", (("int", ("int",)),)))),
               ("cell", ("multi", (("struct", (("a", ("int",)), ("b", ("int",)))), ("arr", ("int",)))))]
    # unions of three members in which one member's component is subsumed by another's and a third is
    # unrelated: folds over the members that drop or replace subsumed results depend on the visiting order
    I_, F_, S_ = ("int",), ("float",), ("str",)
    IF = ("multi", (I_, F_))
    A1, A2 = ("arr", I_), ("arr", IF)
    fam = []
    for x, y, z in ((A1, A2, S_), (("arr", A1), ("arr", A2), S_), (("tup", (I_, I_)), ("tup", (IF, I_)), ("tup", (S_, I_))),
                    (("struct", (("a", I_),)), ("struct", (("a", IF),)), ("struct", (("a", S_),)))):
        fam.append(("multi", (("arr", x), ("arr", y), ("arr", z))) if z != S_ or x[0] != "arr" else ("multi", (("arr", x), ("arr", y), S_)))
        fam.append(("multi", (("fn", (I_,), x), ("fn", (I_,), y), ("fn", (I_,), z))))
        fam.append(("multi", (("fn", (x,), I_), ("fn", (y,), I_), ("fn", (z,), I_))))
        fam.append(("multi", (("cell", x), ("cell", y), ("cell", z))))
        fam.append(("multi", (("tup", (x, I_)), ("tup", (y, I_)), ("tup", (z, I_)))))
        fam.append(("multi", (("tup", (I_, x)), ("tup", (I_, y)), ("tup", (I_, z)))))
        fam.append(("multi", (("fn", (), ("tup", (("bool",), x))), ("fn", (), ("tup", (("bool",), y))), ("fn", (), ("tup", (("bool",), z))))))
        fam.append(("multi", (("struct", (("a", x), ("b", I_))), ("struct", (("a", y), ("b", I_))), ("struct", (("a", z), ("b", I_))))))
    # unions of TWO (or a chain of three) members whose parameter / content types are related by `matches` in one direction
    # only (struct width and depth, arrays, tuples): a meet or join that treats `a <= b` and `b <= a` differently answers
    # by visiting order (`params()`, `mut_assign_type()` fold `conjoin` over the members)
    SAB, SA, SABC = ("struct", (("a", I_), ("b", I_))), ("struct", (("a", I_),)), ("struct", (("a", I_), ("b", I_), ("c", I_)))
    SAW = ("struct", (("a", IF),))
    for chain in ((SAB, SA), (SA, SAW), (SABC, SAB, SA), (A1, A2), (("tup", (I_, I_)), ("tup", (IF, I_))), (("arr", SAB), ("arr", SA)),
                  (("tup", (SAB, I_)), ("tup", (SA, I_))), (("fn", (SA,), I_), ("fn", (SAB,), I_))):
        fam.append(("multi", tuple(("fn", (x,), I_) for x in chain)))
        fam.append(("multi", tuple(("fn", (I_, x), S_) for x in chain)))
        fam.append(("multi", tuple(("cell", x) for x in chain)))
        fam.append(("multi", tuple(("fn", (), x) for x in chain)))
        fam.append(("multi", tuple(("arr", x) for x in chain)))
        fam.append(("multi", tuple(("tup", (x, S_)) for x in chain)))
        fam.append(("multi", tuple(("fn", (("cell", x),), I_) for x in chain)))
    # unions of three to seven tuple types of DIFFERENT lengths (function types of different arities): the queries that fold a
    # minimum or a common length over the members (min_tuple_len, tuple_len, tuple_element_at, flatten_tuple, params) must
    # not depend on which member is visited first or on what was visited before the shortest one
    ELT = [I_, S_, F_, ("bool",), IF, ("arr", I_), ("void",)]
    for lens in ((2, 3, 4), (4, 2, 3), (3, 2, 3), (2, 3, 3, 4), (5, 2, 4, 3), (2, 2, 3), (3, 4, 5, 2, 6), (4, 4, 2, 4, 3, 3, 5)):
        tn = lambda n, k: ("tup", tuple([ELT[k]] * n))
        fam.append(("multi", tuple(tn(n, k) for k, n in enumerate(lens))))
        fam.append(("multi", tuple(("fn", tuple([ELT[k]] * n), I_) for k, n in enumerate(lens))))
        fam.append(("cell", ("multi", tuple(tn(n, k) for k, n in enumerate(lens)))))
        fam.append(("arr", ("multi", tuple(tn(n, k) for k, n in enumerate(lens)))))
    # unions in which one member makes a query answer "nothing" (a non-iterator among iterators, a non-tuple among tuples,
    # a non-function among functions, a non-cell among cells ..) next to members whose answers absorb everything (`any`):
    # a fold that stops early, or skips members once the accumulator is `any`, answers differently per visiting order
    ANY_ = ("any",)
    B_ = ("bool",)
    it = lambda e: ("fn", (), ("tup", (B_, e)))
    mixed = [
        ("multi", (it(ANY_), I_)), ("multi", (it(ANY_), ("fn", (), I_))), ("multi", (it(ANY_), ("fn", (I_,), ("tup", (B_, I_))))),
        ("multi", (it(ANY_), it(I_), S_)), ("multi", (it(I_), it(ANY_), it(S_), F_)),
        ("multi", (("arr", ANY_), I_)), ("multi", (("arr", ANY_), ("arr", I_), ("tup", (I_, I_)))),
        ("multi", (("fn", (I_,), ANY_), S_)), ("multi", (("fn", (I_,), ANY_), ("fn", (I_,), I_), ("arr", I_))),
        ("multi", (("cell", ANY_), I_)), ("multi", (("cell", ANY_), ("cell", I_), S_)),
        ("multi", (("tup", (ANY_, I_)), I_)), ("multi", (("tup", (ANY_, I_)), ("tup", (I_, I_)), ("tup", (I_, I_, I_)))),
        ("multi", (("struct", (("a", ANY_),)), I_)), ("multi", (("struct", (("a", ANY_),)), ("struct", (("a", I_),)), ("struct", (("b", I_),)))),
    ]
    types = structs + fam + mixed + list(T.HAND) + [g.gen() for _ in range(300 if tier == "quick" else 8000)]
    out = harness_run(["type\tdet\t%s\t%d" % (esc_field(T.src(t)), K + 1) for t in types])
    for t, o in zip(types, out):
        res.evaluations += 1
        if o.startswith("(det "):
            res.nontrivial.add(T.canon(t))
            if o != "(det eq_fail=0 match_fail=0 set_size=1 cell_fail=0)":
                res.violation("equal types do not behave equally: %d parses of `%s`: %s" % (K + 1, T.src(t), o),
                              dict(type=T.src(t), impl=o), dict(oracle="nondeterminism", cls="type-query" if "varying=" in o else "type-comparison"))
            else:
                res.traces_validated += 1
        else:
            res.violation("Type API failed on `%s`: %s" % (T.src(t), o[:100]), dict(type=T.src(t), impl=o), dict(oracle="type-api", cls=o[:20]))
    res.streams["types"] = dict(types=len(types), parses_each=K + 1)
    # 2. programs: K repetitions in-process, and 3 separate processes
    progs, stats = P.generate(seed, 250 if tier == "quick" else 6000, max_depth=3, features=dict(mark=0.1))
    progs = biased_programs(rnd, 200 if tier == "quick" else 4000) + progs
    lines = ["progk\tstd\t%d\t%s" % (K, esc_field(A.program_src(p))) for p in progs]
    runs = [harness_run(lines)]
    for _ in range(2):
        p = subprocess.run([HARNESS_BIN], input=("\n".join(lines) + "\n").encode(), capture_output=True, timeout=900)
        runs.append(p.stdout.decode("utf-8", "replace").splitlines())
    res.streams["programs"] = dict(programs=len(progs), repetitions_in_process=K, processes=3)
    for k, p in enumerate(progs):
        res.evaluations += 1
        src = A.program_src(p)
        outs = [r[k] if k < len(r) else "(missing)" for r in runs]
        s = sexp_parse(outs[0])
        if not (isinstance(s, list) and s and s[0] == "progk"):
            res.violation("repeated run crashed: %s" % outs[0][:100], dict(program=src, impl=outs[0]), dict(oracle="crash", cls=outs[0][:20]))
            continue
        res.nontrivial.add(src)
        res.count("outcome:" + (s[2][0] if isinstance(s[2], list) else "?"))
        distinct = set()
        for o in outs:
            so = sexp_parse(o)
            if isinstance(so, list) and so and so[0] == "progk":
                for x in so[2:]:
                    distinct.add(sexp_str(x))
            else:
                distinct.add(o)
        if len(distinct) > 1:
            masked = set(sexp_str(P.mask_junk(sexp_parse(x))) for x in distinct)
            cls = "exhausted-iterator-default-of-union" if len(masked) == 1 else (
                "acceptance" if any(x.startswith("(rejected") for x in distinct) and any(x.startswith("(accepted") for x in distinct) else "outcome")
            res.violation("the same program gives different outcomes in repeated runs: `%s`: %s" % (src[:300], sorted(distinct)[:3]),
                          dict(program=src, flags="std", outcomes=sorted(distinct)), dict(oracle="nondeterminism", cls=cls))
        else:
            res.traces_validated += 1
    res.samples.append(dict(request=lines[0][:300], answer=runs[0][0][:300]))
    res.rule = ("types (unions of multi-key structs, cells of unions, hand families, generated to depth 3/4) parsed K+1 times: pairwise ==, the 13 static queries (structurally equal answers), "
                "matches, HashSet size, mut-wrapped match; programs (9 biased families: built-in reducers over `[]~` at union iterator types,  mixed arrays pulled past exhaustion, cells of "
                "struct unions, matches in shuffled arm order, folds over union members, unions of function types, modules, unions of "
                "cells, type filters by struct unions; plus seeded general programs) parsed and run K times in one process and again in "
                "two more processes; non-trivial = distinct type / program")
