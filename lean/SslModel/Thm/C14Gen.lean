import SslModel.Thm.C14
/-!
# C14, unbounded: the grouping of ANY chain of binary operators

`Thm/C14.lean` decides the grouping of all operator pairs and triples over the regenerated tables.
This file proves, for the model of pest's Pratt loop and ANY table in which operators of one
precedence share one associativity, what the loop builds for an operand / binary-operator chain of
ANY length `p₀ o₁ p₁ o₂ … oₙ pₙ`:

* the tree reads back, left to right, as the token sequence (`parse_chain_flatten`), and
* at every node `l o r` of the tree: if `l` is itself a binary node with operator `o₁`, then `o₁`
  binds tighter than `o`, or equally tight and the level is left-associative; if `r` is a binary
  node with operator `o₂`, then `o₂` binds tighter than `o`, or equally tight and the level is
  right-associative (`parse_chain_grouping`) — a higher-precedence operator is never split by a
  lower one, and equal precedence groups by the documented associativity, at every depth.

`table_uniform` discharges the hypothesis for the table regenerated from `parser/src/lib.rs`.
-/
set_option linter.unusedSimpArgs false
set_option linter.unusedVariables false
namespace Ssl.C14
open Ssl.Pratt

/-- precedence and right-associativity of an infix operator token -/
def infixPrec (T : Table) (t : Tok) : Option (Nat × Bool) :=
  match T.get t.rule with
  | some (.infixL, p) => some (p, false)
  | some (.infixR, p) => some (p, true)
  | _ => none

def isPrim (T : Table) (t : Tok) : Bool := (T.get t.rule).isNone

mutual
/-- `p (o p)*` -/
def altP (T : Table) : List Tok → Bool
  | [] => false
  | t :: rest => isPrim T t && altO T rest
/-- `(o p)*` -/
def altO (T : Table) : List Tok → Bool
  | [] => true
  | t :: rest => (infixPrec T t).isSome && altP T rest
end

def flatten : Tree → List Tok
  | .prim t => [t]
  | .pre o r => o :: flatten r
  | .post l o => flatten l ++ [o]
  | .bin l o r => flatten l ++ o :: flatten r

def rootOp : Tree → Option Tok
  | .bin _ o _ => some o
  | _ => none

/-- the left operand `l` may stand under `o`: its operator binds tighter, or equally and the level is left-associative -/
def leftOk (T : Table) (l : Tree) (o : Tok) : Prop :=
  ∀ o1 p ra p1 ra1, rootOp l = some o1 → infixPrec T o = some (p, ra) → infixPrec T o1 = some (p1, ra1) →
    p < p1 ∨ (p1 = p ∧ ra = false)

/-- the right operand `r` may stand under `o`: its operator binds tighter, or equally and the level is right-associative -/
def rightOk (T : Table) (o : Tok) (r : Tree) : Prop :=
  ∀ o2 p ra p2 ra2, rootOp r = some o2 → infixPrec T o = some (p, ra) → infixPrec T o2 = some (p2, ra2) →
    p < p2 ∨ (p2 = p ∧ ra = true)

/-- precedence-correct at every node -/
def PC (T : Table) : Tree → Prop
  | .prim _ => True
  | .pre _ r => PC T r
  | .post l _ => PC T l
  | .bin l o r => PC T l ∧ PC T r ∧ leftOk T l o ∧ rightOk T o r

/-- operators of one precedence share one associativity, and precedences are positive -/
structure Uniform (T : Table) : Prop where
  assoc : ∀ o1 o2 p ra1 ra2, infixPrec T o1 = some (p, ra1) → infixPrec T o2 = some (p, ra2) → ra1 = ra2
  pos : ∀ o p ra, infixPrec T o = some (p, ra) → 0 < p

/-- the binding power an operator passes to the parse of its right operand -/
def rbpOf (p : Nat) (ra : Bool) : Nat := if ra then p - 1 else p

/-- the next token, if any, is an operator that does not bind tighter than `rbp` -/
def StopsAt (T : Table) (rest : List Tok) (rbp : Nat) : Prop :=
  ∀ o rest', rest = o :: rest' → ∀ p ra, infixPrec T o = some (p, ra) → p ≤ rbp

/-- the root operator, if any, binds tighter than `rbp` -/
def RootAbove (T : Table) (t : Tree) (rbp : Nat) : Prop :=
  ∀ o p ra, rootOp t = some o → infixPrec T o = some (p, ra) → rbp < p

/-- what `loop` needs of the tree built so far: the next operator does not bind tighter than the
    root operator allowed (`≤ p₁` after a left-associative root, `< p₁` after a right-associative one) -/
def Accepts (T : Table) (lhs : Tree) (toks : List Tok) : Prop :=
  ∀ o1 p1 ra1, rootOp lhs = some o1 → infixPrec T o1 = some (p1, ra1) → StopsAt T toks (rbpOf p1 ra1)

theorem infixPrec_get {T : Table} {t : Tok} {p : Nat} {ra : Bool} (h : infixPrec T t = some (p, ra)) :
    T.get t.rule = some (if ra then .infixR else .infixL, p) := by
  unfold infixPrec at h
  split at h
  · simp only [Option.some.injEq, Prod.mk.injEq] at h; obtain ⟨rfl, rfl⟩ := h; simp [*]
  · simp only [Option.some.injEq, Prod.mk.injEq] at h; obtain ⟨rfl, rfl⟩ := h; simp [*]
  · simp at h

structure Inv (T : Table) (f : Nat) : Prop where
  expr : ∀ toks rbp t rest, altP T toks = true → Pratt.expr T f toks rbp = .ok (t, rest) →
    flatten t ++ rest = toks ∧ PC T t ∧ altO T rest = true ∧ StopsAt T rest rbp ∧ RootAbove T t rbp
  loop : ∀ lhs toks rbp t rest, altO T toks = true → PC T lhs → Accepts T lhs toks →
    Pratt.loop T f lhs toks rbp = .ok (t, rest) →
    flatten t ++ rest = flatten lhs ++ toks ∧ PC T t ∧ altO T rest = true ∧ StopsAt T rest rbp ∧
      (t = lhs ∨ RootAbove T t rbp)

theorem inv_zero (T : Table) : Inv T 0 := by
  constructor <;> intros <;> simp_all [Pratt.expr, Pratt.loop]

theorem inv_succ (T : Table) (hu : Uniform T) (f : Nat) (ih : Inv T f) : Inv T (f + 1) := by
  constructor
  · -- expr: a primary, then the loop
    intro toks rbp t rest ha h
    simp only [Pratt.expr] at h
    cases f with
    | zero => simp [Pratt.nud] at h
    | succ f' =>
      cases toks with
      | nil => simp [altP] at ha
      | cons p0 rest0 =>
        simp only [altP, Bool.and_eq_true, isPrim, Option.isNone_iff_eq_none] at ha
        simp only [Pratt.nud, ha.1] at h
        have hl := ih.loop (.prim p0) rest0 rbp t rest ha.2 trivial
          (by intro o1 p1 ra1 hr; simp [rootOp] at hr) h
        obtain ⟨h1, h2, h3, h4, h5⟩ := hl
        refine ⟨by simpa [flatten] using h1, h2, h3, h4, ?_⟩
        rcases h5 with rfl | h5
        · intro o p ra hr; simp [rootOp] at hr
        · exact h5
  · -- loop
    intro lhs toks rbp t rest ha hpc hacc h
    cases toks with
    | nil =>
      simp only [Pratt.loop, Res.ok.injEq, Prod.mk.injEq] at h
      obtain ⟨rfl, rfl⟩ := h
      exact ⟨rfl, hpc, rfl, (by unfold StopsAt; intro o r' hr; cases hr), Or.inl rfl⟩
    | cons o rest0 =>
      simp only [altO, Bool.and_eq_true, Option.isSome_iff_exists] at ha
      obtain ⟨⟨⟨p, ra⟩, hip⟩, hrest0⟩ := ha
      have hget := infixPrec_get hip
      simp only [Pratt.loop, hget] at h
      by_cases hlt : rbp < p
      · simp only [hlt, if_true] at h
        -- the right operand is parsed with the binding power of `o`
        have key : ∀ rhs rest', Pratt.expr T f rest0 (rbpOf p ra) = .ok (rhs, rest') →
            Pratt.loop T f (.bin lhs o rhs) rest' rbp = .ok (t, rest) →
            flatten t ++ rest = flatten lhs ++ o :: rest0 ∧ PC T t ∧ altO T rest = true ∧ StopsAt T rest rbp ∧
              (t = lhs ∨ RootAbove T t rbp) := by
          intro rhs rest' he hl
          obtain ⟨e1, e2, e3, e4, e5⟩ := ih.expr rest0 (rbpOf p ra) rhs rest' hrest0 he
          have hpc' : PC T (.bin lhs o rhs) := by
            refine ⟨hpc, e2, ?_, ?_⟩
            · intro o1 p' ra' p1 ra1 hr hio hio1
              rw [hip] at hio; cases hio
              have hs := hacc o1 p1 ra1 hr hio1 o rest0 rfl p ra hip
              cases ra1 with
              | true =>
                simp only [rbpOf, if_true] at hs
                have := hu.pos o1 p1 true hio1
                left; omega
              | false =>
                simp only [rbpOf] at hs
                by_cases heq : p1 = p
                · subst heq
                  right; exact ⟨rfl, hu.assoc o o1 p1 ra false hip hio1⟩
                · left; simp at hs; omega
            · intro o2 p' ra' p2 ra2 hr hio hio2
              rw [hip] at hio; cases hio
              have hs := e5 o2 p2 ra2 hr hio2
              cases ra with
              | true =>
                simp only [rbpOf, if_true] at hs
                by_cases heq : p2 = p
                · right; exact ⟨heq, rfl⟩
                · left; omega
              | false =>
                simp only [rbpOf] at hs
                left; simpa using hs
          have hacc' : Accepts T (.bin lhs o rhs) rest' := by
            intro o1 p1 ra1 hr hio1
            simp only [rootOp, Option.some.injEq] at hr; subst hr
            rw [hip] at hio1; cases hio1
            exact e4
          obtain ⟨l1, l2, l3, l4, l5⟩ := ih.loop (.bin lhs o rhs) rest' rbp t rest e3 hpc' hacc' hl
          refine ⟨?_, l2, l3, l4, Or.inr ?_⟩
          · rw [l1, ← e1]; simp [flatten]
          · rcases l5 with rfl | l5
            · intro o' p' ra' hr hio'
              simp only [rootOp, Option.some.injEq] at hr; subst hr
              rw [hip] at hio'; cases hio'; exact hlt
            · exact l5
        cases ra with
        | false =>
          simp only [if_false, Bool.false_eq_true] at h
          cases he : Pratt.expr T f rest0 p with
          | ok pr =>
            obtain ⟨rhs, rest'⟩ := pr
            rw [he] at h
            exact key rhs rest' (by simpa [rbpOf] using he) h
          | _ => rw [he] at h; cases h
        | true =>
          simp only [if_true] at h
          cases he : Pratt.expr T f rest0 (p - 1) with
          | ok pr =>
            obtain ⟨rhs, rest'⟩ := pr
            rw [he] at h
            exact key rhs rest' (by simpa [rbpOf] using he) h
          | _ => rw [he] at h; cases h
      · simp only [hlt, if_false] at h
        simp only [Res.ok.injEq, Prod.mk.injEq] at h
        obtain ⟨rfl, rfl⟩ := h
        refine ⟨rfl, hpc, ?_, ?_, Or.inl rfl⟩
        · simp only [altO, Bool.and_eq_true, Option.isSome_iff_exists]
          exact ⟨⟨(p, ra), hip⟩, hrest0⟩
        · intro o' r' hr p' ra' hio'
          cases hr
          rw [hip] at hio'; cases hio'
          omega

theorem inv_all (T : Table) (hu : Uniform T) : ∀ f, Inv T f
  | 0 => inv_zero T
  | f + 1 => inv_succ T hu f (inv_all T hu f)

/-- ANY operand / binary-operator chain: what the Pratt loop answers reads back as the chain -/
theorem parse_chain_flatten (T : Table) (hu : Uniform T) (toks : List Tok) (t : Tree)
    (ha : altP T toks = true) (h : Pratt.parse T toks = .ok t) : flatten t = toks := by
  unfold Pratt.parse at h
  cases he : Pratt.expr T (3 * toks.length + 3) toks 0 with
  | ok pr =>
    obtain ⟨t', rest⟩ := pr
    rw [he] at h
    simp only [Res.ok.injEq] at h; subst h
    obtain ⟨h1, _, h3, h4, _⟩ := (inv_all T hu _).expr toks 0 t' rest ha he
    -- nothing is left over: a remaining operator would have to bind no tighter than 0
    cases rest with
    | nil => simpa using h1
    | cons o r =>
      exfalso
      simp only [altO, Bool.and_eq_true, Option.isSome_iff_exists] at h3
      obtain ⟨⟨⟨p, ra⟩, hip⟩, _⟩ := h3
      have := h4 o r rfl p ra hip
      have := hu.pos o p ra hip
      omega
  | _ => rw [he] at h; cases h

/-- … and at every node a tighter (or equally tight, correctly associated) operator stands below a looser one -/
theorem parse_chain_grouping (T : Table) (hu : Uniform T) (toks : List Tok) (t : Tree)
    (ha : altP T toks = true) (h : Pratt.parse T toks = .ok t) : PC T t := by
  unfold Pratt.parse at h
  cases he : Pratt.expr T (3 * toks.length + 3) toks 0 with
  | ok pr =>
    obtain ⟨t', rest⟩ := pr
    rw [he] at h
    simp only [Res.ok.injEq] at h; subst h
    exact ((inv_all T hu _).expr toks 0 t' rest ha he).2.1
  | _ => rw [he] at h; cases h

/-- the table regenerated from `parser/src/lib.rs` satisfies the hypothesis -/
def uniformB (T : Table) : Bool :=
  T.all (fun (_, a1, p1) => (a1 == .infixL || a1 == .infixR) → (0 < p1 &&
    T.all (fun (_, a2, p2) => (a2 == .infixL || a2 == .infixR) → p1 == p2 → a1 == a2)))

theorem lookup_mem {α} (r : String) : ∀ (l : List (String × α)) (v : α), List.lookup r l = some v → (r, v) ∈ l
  | [], v, h => by simp [List.lookup] at h
  | (k, w) :: l, v, h => by
    simp only [List.lookup] at h
    split at h
    · next heq =>
      simp only [Option.some.injEq] at h; subst h
      have : r = k := by simpa using heq
      subst this; exact List.mem_cons_self
    · exact List.mem_cons_of_mem _ (lookup_mem r l v h)

theorem infixPrec_mem {T : Table} {o : Tok} {p : Nat} {ra : Bool} (h : infixPrec T o = some (p, ra)) :
    (o.rule, (if ra then Affix.infixR else Affix.infixL), p) ∈ T :=
  lookup_mem o.rule T _ (infixPrec_get h)

theorem uniform_of_uniformB (T : Table) (h : uniformB T = true) : Uniform T := by
  unfold uniformB at h
  rw [List.all_eq_true] at h
  constructor
  · intro o1 o2 p ra1 ra2 h1 h2
    have m1 := h _ (infixPrec_mem h1)
    have m2 := infixPrec_mem h2
    cases ra1 <;> cases ra2 <;> simp at m1 <;> first | rfl | (have := m1.2 _ _ _ m2; simp at this)
  · intro o p ra h1
    have m1 := h _ (infixPrec_mem h1)
    cases ra <;> simp at m1 <;> exact m1.1

/-- the hypothesis holds of the table regenerated from `parser/src/lib.rs` -/
theorem table_uniform : Uniform T := uniform_of_uniformB T (by decide)

/-! ## the loop terminates within the fuel `parse` gives it, and never reaches a `panic!` on a chain -/

theorem flatten_ne_nil : ∀ t : Tree, flatten t ≠ []
  | .prim _ => by simp [flatten]
  | .pre _ _ => by simp [flatten]
  | .post _ _ => by simp [flatten]
  | .bin _ _ _ => by simp [flatten]

/-- with fuel `2·n + 2` for `n` tokens both `expr` and `loop` answer -/
theorem total_aux (T : Table) (hu : Uniform T) : ∀ (n : Nat),
    (∀ toks rbp f, toks.length ≤ n → altP T toks = true → 2 * toks.length + 2 ≤ f →
      ∃ t rest, Pratt.expr T f toks rbp = .ok (t, rest)) ∧
    (∀ lhs toks rbp f, toks.length ≤ n → altO T toks = true → 2 * toks.length + 1 ≤ f →
      ∃ t rest, Pratt.loop T f lhs toks rbp = .ok (t, rest)) := by
  intro n
  induction n with
  | zero =>
    constructor
    · intro toks rbp f hl ha _
      have : toks = [] := by cases toks <;> simp_all
      subst this; simp [altP] at ha
    · intro lhs toks rbp f hl ha hf
      have : toks = [] := by cases toks <;> simp_all
      subst this
      obtain ⟨k, rfl⟩ : ∃ k, f = k + 1 := ⟨f - 1, by omega⟩
      exact ⟨lhs, [], by simp [Pratt.loop]⟩
  | succ n ih =>
    obtain ⟨ihe, ihl⟩ := ih
    have hloop : ∀ lhs toks rbp f, toks.length ≤ n + 1 → altO T toks = true → 2 * toks.length + 1 ≤ f →
        ∃ t rest, Pratt.loop T f lhs toks rbp = .ok (t, rest) := by
      intro lhs toks rbp f hl ha hf
      obtain ⟨k, rfl⟩ : ∃ k, f = k + 1 := ⟨f - 1, by omega⟩
      cases toks with
      | nil => exact ⟨lhs, [], by simp [Pratt.loop]⟩
      | cons o rest0 =>
        simp only [altO, Bool.and_eq_true, Option.isSome_iff_exists] at ha
        obtain ⟨⟨⟨p, ra⟩, hip⟩, hrest0⟩ := ha
        have hget := infixPrec_get hip
        simp only [List.length_cons] at hl hf
        by_cases hlt : rbp < p
        · -- the right operand, then the loop again on what is left
          obtain ⟨rhs, rest', he⟩ := ihe rest0 (rbpOf p ra) k (by omega) hrest0 (by omega)
          obtain ⟨e1, _, e3, _, _⟩ := (inv_all T hu k).expr rest0 (rbpOf p ra) rhs rest' hrest0 he
          have hlen : rest'.length + 1 ≤ rest0.length := by
            have := congrArg List.length e1
            simp only [List.length_append] at this
            have := List.length_pos_iff.mpr (flatten_ne_nil rhs)
            omega
          obtain ⟨t, rest, hl2⟩ := ihl (.bin lhs o rhs) rest' rbp k (by omega) e3 (by omega)
          refine ⟨t, rest, ?_⟩
          cases ra with
          | false =>
            have hget' : T.get o.rule = some (.infixL, p) := by simpa using hget
            have he' : Pratt.expr T k rest0 p = .ok (rhs, rest') := by simpa [rbpOf] using he
            simp only [Pratt.loop, hget', hlt, if_true, he', hl2]
          | true =>
            have hget' : T.get o.rule = some (.infixR, p) := by simpa using hget
            have he' : Pratt.expr T k rest0 (p - 1) = .ok (rhs, rest') := by simpa [rbpOf] using he
            simp only [Pratt.loop, hget', hlt, if_true, he', hl2]
        · exact ⟨lhs, o :: rest0, by simp only [Pratt.loop, hget, hlt, if_false]⟩
    refine ⟨?_, hloop⟩
    intro toks rbp f hl ha hf
    obtain ⟨k, rfl⟩ : ∃ k, f = k + 1 := ⟨f - 1, by omega⟩
    cases toks with
    | nil => simp [altP] at ha
    | cons p0 rest0 =>
      simp only [altP, Bool.and_eq_true, isPrim, Option.isNone_iff_eq_none] at ha
      simp only [List.length_cons] at hl hf
      obtain ⟨k', rfl⟩ : ∃ k', k = k' + 1 := ⟨k - 1, by omega⟩
      obtain ⟨t, rest, hl2⟩ := hloop (.prim p0) rest0 rbp (k' + 1) (by omega) ha.2 (by omega)
      exact ⟨t, rest, by simp only [Pratt.expr, Pratt.nud, ha.1, hl2]⟩

/-- on an operand / binary-operator chain of ANY length the Pratt loop does not panic and does not run out of the fuel
    `parse` gives it: it answers a tree, the tree reads back as the chain and is precedence-correct at every node -/
theorem parse_chain_total (T : Table) (hu : Uniform T) (toks : List Tok) (ha : altP T toks = true) :
    ∃ t, Pratt.parse T toks = .ok t ∧ flatten t = toks ∧ PC T t := by
  obtain ⟨t, rest, he⟩ := (total_aux T hu toks.length).1 toks 0 (3 * toks.length + 3) (Nat.le_refl _) ha (by omega)
  have hp : Pratt.parse T toks = .ok t := by simp only [Pratt.parse, he]
  exact ⟨t, hp, parse_chain_flatten T hu toks t ha hp, parse_chain_grouping T hu toks t ha hp⟩

/-- the unbounded statement for the parser's own table -/
theorem parser_chain_grouping (toks : List Tok) (ha : altP T toks = true) :
    ∃ t, Pratt.parse T toks = .ok t ∧ flatten t = toks ∧ PC T t :=
  parse_chain_total T table_uniform toks ha

/-- the premises are satisfiable by a chain of five operators on three levels, and the conclusion
    says what the documentation says about it -/
example : altP T [a, op "add", b, op "multiply", c, op "pow", d, op "pow", a, op "subtract", b, op "equal", c] = true := by decide

end Ssl.C14

/-! ## the precedence-correct tree is unique -/
namespace Ssl.C14
open Ssl.Pratt

/-- trees of operand leaves and binary operator nodes over the table -/
def WFT (T : Table) : Tree → Prop
  | .prim t => isPrim T t = true
  | .bin l o r => WFT T l ∧ WFT T r ∧ (infixPrec T o).isSome = true
  | _ => False

/-- every operator occurring in the tree is at least as tight as `(p, ra)` allows on the given side:
    tighter, or equally tight on a level of the given associativity -/
def AllOps (T : Table) (p : Nat) (needRight : Bool) : Tree → Prop
  | .prim _ => True
  | .bin l o r => AllOps T p needRight l ∧ AllOps T p needRight r ∧
      (∀ p' ra', infixPrec T o = some (p', ra') → p < p' ∨ (p' = p ∧ ra' = needRight))
  | _ => True

theorem allOps_weaken (T : Table) (hu : Uniform T) {p q : Nat} {nr nr' : Bool} (h : q < p) :
    ∀ t, AllOps T p nr t → AllOps T q nr' t
  | .prim _, _ => trivial
  | .bin l o r, ⟨hl, hr, ho⟩ => ⟨allOps_weaken T hu h l hl, allOps_weaken T hu h r hr, fun p' ra' hp => by
      rcases ho p' ra' hp with h1 | h1
      · left; omega
      · left; omega⟩
  | .pre _ _, _ => trivial
  | .post _ _, _ => trivial

theorem allOps_rel (T : Table) {p : Nat} {nr nr' : Bool} : ∀ t, AllOps T p nr t →
    (∀ o p' ra', infixPrec T o = some (p', ra') → (p < p' ∨ (p' = p ∧ ra' = nr)) → (p < p' ∨ (p' = p ∧ ra' = nr'))) →
    AllOps T p nr' t
  | .prim _, _, _ => trivial
  | .bin l o r, ⟨hl, hr, ho⟩, f => ⟨allOps_rel T l hl f, allOps_rel T r hr f, fun p' ra' hp => f o p' ra' hp (ho p' ra' hp)⟩
  | .pre _ _, _, _ => trivial
  | .post _ _, _, _ => trivial

/-- local precedence-correctness gives the global statement: below `l o r`, everything in `l` is tighter than `o`
    or equally tight on a left-associative level, everything in `r` tighter or equally tight on a right-associative one -/
theorem pc_global (T : Table) (hu : Uniform T) : ∀ t, WFT T t → PC T t →
    ∀ l o r, t = .bin l o r → ∀ p ra, infixPrec T o = some (p, ra) → AllOps T p false l ∧ AllOps T p true r := by
  intro t
  induction t with
  | prim _ => intro _ _ l o r h; cases h
  | pre _ _ _ => intro _ _ l o r h; cases h
  | post _ _ _ => intro _ _ l o r h; cases h
  | bin l0 o0 r0 ihl ihr =>
    intro hw hpc l o r h p ra hip
    cases h
    obtain ⟨hwl, hwr, _⟩ := hw
    obtain ⟨hpl, hpr, hlo, hro⟩ := hpc
    constructor
    · -- the left operand
      cases l0 with
      | prim _ => trivial
      | pre _ _ => exact hwl.elim
      | post _ _ => exact hwl.elim
      | bin l1 o1 r1 =>
        obtain ⟨_, _, ho1⟩ := hwl
        obtain ⟨⟨p1, ra1⟩, hip1⟩ := Option.isSome_iff_exists.mp ho1
        obtain ⟨g1, g2⟩ := ihl ⟨‹_›, ‹_›, ho1⟩ hpl l1 o1 r1 rfl p1 ra1 hip1
        have hroot := hlo o1 p ra p1 ra1 rfl hip hip1
        refine ⟨?_, ?_, fun p' ra' hp' => ?_⟩
        · rcases hroot with h1 | ⟨h1, h2⟩
          · exact allOps_weaken T hu h1 l1 g1
          · subst h1
            have : ra1 = false := by rw [← h2]; exact hu.assoc o1 o0 p1 ra1 ra hip1 hip
            subst this; exact g1
        · rcases hroot with h1 | ⟨h1, h2⟩
          · exact allOps_weaken T hu h1 r1 g2
          · -- equal level, left-associative: the right operand of `o1` must be strictly tighter
            subst h1
            have hra1 : ra1 = false := by rw [← h2]; exact hu.assoc o1 o0 p1 ra1 ra hip1 hip
            subst hra1
            -- everything in r1 is tighter than p1, or equal on a RIGHT-associative level - impossible on this level
            exact allOps_rel T r1 g2 (fun o' p' ra' hp' hor => by
              rcases hor with h3 | ⟨h3, h4⟩
              · exact Or.inl h3
              · subst h3
                have := hu.assoc o' o1 p' ra' false hp' hip1
                subst this; cases h4)
        · rw [hip1] at hp'; cases hp'
          rcases hroot with h1 | ⟨h1, h2⟩
          · exact Or.inl h1
          · exact Or.inr ⟨h1, by rw [← h2]; exact hu.assoc o1 o0 p1 ra1 ra hip1 (h1 ▸ hip)⟩
    · cases r0 with
      | prim _ => trivial
      | pre _ _ => exact hwr.elim
      | post _ _ => exact hwr.elim
      | bin l2 o2 r2 =>
        obtain ⟨_, _, ho2⟩ := hwr
        obtain ⟨⟨p2, ra2⟩, hip2⟩ := Option.isSome_iff_exists.mp ho2
        obtain ⟨g1, g2⟩ := ihr ⟨‹_›, ‹_›, ho2⟩ hpr l2 o2 r2 rfl p2 ra2 hip2
        have hroot := hro o2 p ra p2 ra2 rfl hip hip2
        refine ⟨?_, ?_, fun p' ra' hp' => ?_⟩
        · rcases hroot with h1 | ⟨h1, h2⟩
          · exact allOps_weaken T hu h1 l2 g1
          · subst h1
            have hra2 : ra2 = true := by rw [← h2]; exact hu.assoc o2 o0 p2 ra2 ra hip2 hip
            subst hra2
            exact allOps_rel T l2 g1 (fun o' p' ra' hp' hor => by
              rcases hor with h3 | ⟨h3, h4⟩
              · exact Or.inl h3
              · subst h3
                have := hu.assoc o' o2 p' ra' true hp' hip2
                subst this; cases h4)
        · rcases hroot with h1 | ⟨h1, h2⟩
          · exact allOps_weaken T hu h1 r2 g2
          · subst h1
            have : ra2 = true := by rw [← h2]; exact hu.assoc o2 o0 p2 ra2 ra hip2 hip
            subst this; exact g2
        · rw [hip2] at hp'; cases hp'
          rcases hroot with h1 | ⟨h1, h2⟩
          · exact Or.inl h1
          · exact Or.inr ⟨h1, by rw [← h2]; exact hu.assoc o2 o0 p2 ra2 ra hip2 (h1 ▸ hip)⟩

theorem infixPrec_prim {T : Table} {t : Tok} (h : isPrim T t = true) : infixPrec T t = none := by
  simp only [isPrim, Option.isNone_iff_eq_none] at h
  simp only [infixPrec, h]

theorem allOps_mem (T : Table) {p : Nat} {nr : Bool} : ∀ t, WFT T t → AllOps T p nr t →
    ∀ tok, tok ∈ flatten t → ∀ p' ra', infixPrec T tok = some (p', ra') → p < p' ∨ (p' = p ∧ ra' = nr)
  | .prim a, hw, _, tok, hm, p', ra', hp => by
    simp only [flatten, List.mem_singleton] at hm; subst hm
    rw [infixPrec_prim hw] at hp; cases hp
  | .bin l o r, ⟨hwl, hwr, _⟩, ⟨hl, hr, ho⟩, tok, hm, p', ra', hp => by
    simp only [flatten, List.mem_append, List.mem_cons] at hm
    rcases hm with hm | rfl | hm
    · exact allOps_mem T l hwl hl tok hm p' ra' hp
    · exact ho p' ra' hp
    · exact allOps_mem T r hwr hr tok hm p' ra' hp
  | .pre _ _, hw, _, _, _, _, _, _ => hw.elim
  | .post _ _, hw, _, _, _, _, _, _ => hw.elim

/-- two precedence-correct trees over the same token sequence are the same tree: the grouping the table prescribes is
    the ONLY one in which tighter operators stand below looser ones and equal levels group by their associativity -/
theorem pc_unique (T : Table) (hu : Uniform T) : ∀ t1 t2, WFT T t1 → WFT T t2 → PC T t1 → PC T t2 →
    flatten t1 = flatten t2 → t1 = t2 := by
  intro t1
  induction t1 with
  | pre _ _ _ => intro _ hw; exact hw.elim
  | post _ _ _ => intro _ hw; exact hw.elim
  | prim a =>
    intro t2 _ hw2 _ _ hf
    cases t2 with
    | prim b => simp only [flatten, List.cons.injEq, and_true] at hf; rw [hf]
    | pre _ _ => exact hw2.elim
    | post _ _ => exact hw2.elim
    | bin l2 o2 r2 =>
      exfalso
      have := congrArg List.length hf
      simp only [flatten, List.length_cons, List.length_nil, List.length_append] at this
      have := List.length_pos_iff.mpr (flatten_ne_nil l2)
      omega
  | bin l1 o1 r1 ihl ihr =>
    intro t2 hw1 hw2 hpc1 hpc2 hf
    cases t2 with
    | pre _ _ => exact hw2.elim
    | post _ _ => exact hw2.elim
    | prim b =>
      exfalso
      have := congrArg List.length hf
      simp only [flatten, List.length_cons, List.length_nil, List.length_append] at this
      have := List.length_pos_iff.mpr (flatten_ne_nil l1)
      omega
    | bin l2 o2 r2 =>
      obtain ⟨hwl1, hwr1, ho1⟩ := hw1
      obtain ⟨hwl2, hwr2, ho2⟩ := hw2
      obtain ⟨⟨p1, ra1⟩, hip1⟩ := Option.isSome_iff_exists.mp ho1
      obtain ⟨⟨p2, ra2⟩, hip2⟩ := Option.isSome_iff_exists.mp ho2
      obtain ⟨g1l, g1r⟩ := pc_global T hu (.bin l1 o1 r1) ⟨hwl1, hwr1, ho1⟩ hpc1 l1 o1 r1 rfl p1 ra1 hip1
      obtain ⟨g2l, g2r⟩ := pc_global T hu (.bin l2 o2 r2) ⟨hwl2, hwr2, ho2⟩ hpc2 l2 o2 r2 rfl p2 ra2 hip2
      simp only [flatten] at hf
      have same : flatten l1 = flatten l2 ∧ o1 = o2 ∧ flatten r1 = flatten r2 := by
        rcases List.append_eq_append_iff.mp hf with ⟨m, h1, h2⟩ | ⟨m, h1, h2⟩
        · cases m with
          | nil =>
            simp only [List.append_nil, List.nil_append, List.cons.injEq] at h1 h2
            exact ⟨h1.symm, h2.1, h2.2⟩
          | cons x m' =>
            exfalso
            simp only [List.cons_append, List.cons.injEq] at h2
            obtain ⟨rfl, h2⟩ := h2
            -- o1 stands inside l2, o2 inside r1
            have a1 := allOps_mem T l2 hwl2 g2l o1 (by rw [h1]; simp) p1 ra1 hip1
            have a2 := allOps_mem T r1 hwr1 g1r o2 (by rw [h2]; simp) p2 ra2 hip2
            rcases a1 with a1 | ⟨a1, a1'⟩ <;> rcases a2 with a2 | ⟨a2, a2'⟩
            · omega
            · omega
            · omega
            · subst a1
              have := hu.assoc o1 o2 p1 ra1 ra2 hip1 hip2
              subst this; subst a1'; cases a2'
        · cases m with
          | nil =>
            simp only [List.append_nil, List.nil_append, List.cons.injEq] at h1 h2
            exact ⟨h1, h2.1.symm, h2.2.symm⟩
          | cons x m' =>
            exfalso
            simp only [List.cons_append, List.cons.injEq] at h2
            obtain ⟨rfl, h2⟩ := h2
            have a1 := allOps_mem T l1 hwl1 g1l o2 (by rw [h1]; simp) p2 ra2 hip2
            have a2 := allOps_mem T r2 hwr2 g2r o1 (by rw [h2]; simp) p1 ra1 hip1
            rcases a1 with a1 | ⟨a1, a1'⟩ <;> rcases a2 with a2 | ⟨a2, a2'⟩
            · omega
            · omega
            · omega
            · subst a1
              have := hu.assoc o2 o1 p2 ra2 ra1 hip2 hip1
              subst this; subst a1'; cases a2'
      obtain ⟨sl, so, sr⟩ := same
      obtain ⟨hpl1, hpr1, _, _⟩ := hpc1
      obtain ⟨hpl2, hpr2, _, _⟩ := hpc2
      rw [ihl l2 hwl1 hwl2 hpl1 hpl2 sl, ihr r2 hwr1 hwr2 hpr1 hpr2 sr, so]

/-! ### what the loop builds on a chain has operand leaves and binary nodes only -/

structure InvW (T : Table) (f : Nat) : Prop where
  expr : ∀ toks rbp t rest, altP T toks = true → Pratt.expr T f toks rbp = .ok (t, rest) → WFT T t ∧ altO T rest = true
  loop : ∀ lhs toks rbp t rest, altO T toks = true → WFT T lhs → Pratt.loop T f lhs toks rbp = .ok (t, rest) →
    WFT T t ∧ altO T rest = true

theorem invW_all (T : Table) : ∀ f, InvW T f
  | 0 => by constructor <;> intros <;> simp_all [Pratt.expr, Pratt.loop]
  | f + 1 => by
    have ih := invW_all T f
    constructor
    · intro toks rbp t rest ha h
      simp only [Pratt.expr] at h
      cases f with
      | zero => simp [Pratt.nud] at h
      | succ f' =>
        cases toks with
        | nil => simp [altP] at ha
        | cons p0 rest0 =>
          simp only [altP, Bool.and_eq_true] at ha
          have hp0 := ha.1
          simp only [isPrim, Option.isNone_iff_eq_none] at hp0
          simp only [Pratt.nud, hp0] at h
          exact ih.loop (.prim p0) rest0 rbp t rest ha.2 ha.1 h
    · intro lhs toks rbp t rest ha hw h
      cases toks with
      | nil =>
        simp only [Pratt.loop, Res.ok.injEq, Prod.mk.injEq] at h
        obtain ⟨rfl, rfl⟩ := h
        exact ⟨hw, rfl⟩
      | cons o rest0 =>
        have ha0 := ha
        simp only [altO, Bool.and_eq_true, Option.isSome_iff_exists] at ha
        obtain ⟨⟨⟨p, ra⟩, hip⟩, hrest0⟩ := ha
        have hget := infixPrec_get hip
        simp only [Pratt.loop, hget] at h
        by_cases hlt : rbp < p
        · simp only [hlt, if_true] at h
          have key : ∀ rbp' rhs rest', Pratt.expr T f rest0 rbp' = .ok (rhs, rest') →
              Pratt.loop T f (.bin lhs o rhs) rest' rbp = .ok (t, rest) → WFT T t ∧ altO T rest = true := by
            intro rbp' rhs rest' he hl
            obtain ⟨w1, w2⟩ := ih.expr rest0 rbp' rhs rest' hrest0 he
            exact ih.loop (.bin lhs o rhs) rest' rbp t rest w2
              ⟨hw, w1, by simp only [Option.isSome_iff_exists]; exact ⟨(p, ra), hip⟩⟩ hl
          cases ra with
          | false =>
            simp only [if_false, Bool.false_eq_true] at h
            cases he : Pratt.expr T f rest0 p with
            | ok pr => obtain ⟨rhs, rest'⟩ := pr; rw [he] at h; exact key p rhs rest' he h
            | _ => rw [he] at h; cases h
          | true =>
            simp only [if_true] at h
            cases he : Pratt.expr T f rest0 (p - 1) with
            | ok pr => obtain ⟨rhs, rest'⟩ := pr; rw [he] at h; exact key (p - 1) rhs rest' he h
            | _ => rw [he] at h; cases h
        · simp only [hlt, if_false, Res.ok.injEq, Prod.mk.injEq] at h
          obtain ⟨rfl, rfl⟩ := h
          exact ⟨hw, ha0⟩

/-- the parser answers THE precedence-correct tree: any tree of operand leaves and binary nodes that reads as the
    chain and is precedence-correct at every node is the tree the Pratt loop builds -/
theorem parse_chain_unique (T : Table) (hu : Uniform T) (toks : List Tok) (ha : altP T toks = true)
    (t' : Tree) (hw : WFT T t') (hpc : PC T t') (hf : flatten t' = toks) : Pratt.parse T toks = .ok t' := by
  obtain ⟨t, hp, h1, h2⟩ := parse_chain_total T hu toks ha
  have hwt : WFT T t := by
    unfold Pratt.parse at hp
    cases he : Pratt.expr T (3 * toks.length + 3) toks 0 with
    | ok pr =>
      obtain ⟨t0, rest⟩ := pr
      rw [he] at hp
      simp only [Res.ok.injEq] at hp; subst hp
      exact ((invW_all T _).expr toks 0 t0 rest ha he).1
    | _ => rw [he] at hp; cases hp
  rw [hp, pc_unique T hu t t' hwt hw h2 hpc (h1.trans hf.symm)]

/-- … for the parser's own table -/
theorem parser_chain_unique (toks : List Tok) (ha : altP T toks = true) (t' : Tree) (hw : WFT T t') (hpc : PC T t')
    (hf : flatten t' = toks) : Pratt.parse T toks = .ok t' :=
  parse_chain_unique T table_uniform toks ha t' hw hpc hf

end Ssl.C14
