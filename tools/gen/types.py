"""Seeded generator of SimpleSL types, closed under all 13 constructors.
A type is a nested tuple: ("int",) ("fn", (params...), ret) ("arr", e) ("tup", (es...))
("multi", (ms...)) ("cell", e) ("struct", ((k, t)...)).  Generated types are well-formed:
unions have >= 2 pairwise different members, none of which is a union, any or never."""
import random

BASE = ["bool", "int", "float", "str", "void", "any", "never"]
KEYS = ["a", "b", "int", "x1"]


def canon(t):
    k = t[0]
    if k in BASE:
        return k
    if k == "fn":
        return "(fn (%s) %s)" % (" ".join(canon(p) for p in t[1]), canon(t[2]))
    if k == "arr":
        return "(arr %s)" % canon(t[1])
    if k == "tup":
        return "(tup %s)" % " ".join(canon(e) for e in t[1])
    if k == "multi":
        return "(multi %s)" % " ".join(sorted(canon(m) for m in t[1]))
    if k == "cell":
        return "(cell %s)" % canon(t[1])
    if k == "struct":
        if not t[1]:
            return "(struct)"
        return "(struct %s)" % " ".join(sorted("(%s %s)" % (f, canon(x)) for f, x in t[1]))
    raise ValueError(t)


def src(t):
    k = t[0]
    if k in ("bool", "int", "float", "any"):
        return k
    if k == "str":
        return "string"
    if k == "void":
        return "()"
    if k == "never":
        return "!"
    if k == "fn":
        r = src(t[2])
        if t[2][0] == "multi":
            r = "(%s)" % r
        return "(%s)->%s" % (", ".join(src(p) for p in t[1]), r)
    if k == "arr":
        return "[]" if t[1] == ("never",) else "[%s]" % src(t[1])
    if k == "tup":
        return "(%s)" % ", ".join(src(e) for e in t[1])
    if k == "multi":
        return "|".join(src(m) for m in t[1])
    if k == "cell":
        e = src(t[1])
        return "mut (%s)" % e if t[1][0] == "multi" else "mut %s" % e
    if k == "struct":
        return "struct{%s}" % ", ".join("%s: %s" % (f, src(x)) for f, x in t[1])
    raise ValueError(t)


def from_sexp(s):
    """parsed s-expression (nested lists / atoms) -> type tuple"""
    if isinstance(s, str):
        return (s,)
    h = s[0]
    if h == "fn":
        return ("fn", tuple(from_sexp(p) for p in s[1]), from_sexp(s[2]))
    if h == "arr":
        return ("arr", from_sexp(s[1]))
    if h == "tup":
        return ("tup", tuple(from_sexp(e) for e in s[1:]))
    if h == "multi":
        return ("multi", tuple(from_sexp(e) for e in s[1:]))
    if h == "cell":
        return ("cell", from_sexp(s[1]))
    if h == "struct":
        return ("struct", tuple((f[0], from_sexp(f[1])) for f in s[1:]))
    raise ValueError(s)


def mk_multi(ms):
    """normalising union constructor (what `|` / concat does)"""
    flat = []
    for m in ms:
        if m[0] == "multi":
            flat.extend(m[1])
        else:
            flat.append(m)
    if any(m == ("any",) for m in flat):
        return ("any",)
    out, seen = [], set()
    for m in flat:
        if m == ("never",):
            continue
        c = canon(m)
        if c not in seen:
            seen.add(c)
            out.append(m)
    if not out:
        return ("never",)
    if len(out) == 1:
        return out[0]
    return ("multi", tuple(out))


class TypeGen:
    def __init__(self, rnd, max_depth=3, leaf_bias=0.35):
        self.rnd = rnd
        self.max_depth = max_depth
        self.leaf_bias = leaf_bias
        self.counts = {}

    def gen(self, depth=None, allow_multi=True):
        d = self.max_depth if depth is None else depth
        r = self.rnd
        if d <= 0 or r.random() < self.leaf_bias:
            k = r.choice(["bool", "int", "int", "float", "str", "void", "any", "never"])
            self.counts[k] = self.counts.get(k, 0) + 1
            return (k,)
        kinds = ["fn", "arr", "tup", "cell", "struct"] + (["multi", "multi"] if allow_multi else [])
        k = r.choice(kinds)
        self.counts[k] = self.counts.get(k, 0) + 1
        if k == "fn":
            return ("fn", tuple(self.gen(d - 1) for _ in range(r.choice([0, 1, 1, 2]))), self.gen(d - 1))
        if k == "arr":
            return ("arr", self.gen(d - 1))
        if k == "tup":
            return ("tup", tuple(self.gen(d - 1) for _ in range(r.choice([2, 2, 3]))))
        if k == "cell":
            return ("cell", self.gen(d - 1))
        if k == "struct":
            keys = r.sample(KEYS, r.choice([0, 1, 2, 2, 3]))
            return ("struct", tuple((f, self.gen(d - 1)) for f in keys))
        ms = [self.gen(d - 1, allow_multi=False) for _ in range(r.choice([2, 2, 3]))]
        return mk_multi(ms)

    def related(self, t):
        """a type likely to be related to t by matches (widen / narrow somewhere)"""
        r = self.rnd
        k = t[0]
        c = r.random()
        if c < 0.15:
            return mk_multi([t, self.gen(1, allow_multi=False)])
        if c < 0.25:
            return ("any",)
        if c < 0.3:
            return ("never",)
        if k == "multi" and c < 0.6:
            ms = list(t[1])
            ms.pop(r.randrange(len(ms)))
            return mk_multi(ms)
        if k == "arr":
            return ("arr", self.related(t[1]))
        if k == "tup":
            es = list(t[1])
            i = r.randrange(len(es))
            es[i] = self.related(es[i])
            return ("tup", tuple(es))
        if k == "cell":
            return ("cell", self.related(t[1]) if r.random() < 0.3 else t[1])
        if k == "fn":
            ps = list(t[1])
            if ps and r.random() < 0.5:
                i = r.randrange(len(ps))
                ps[i] = self.related(ps[i])
                return ("fn", tuple(ps), t[2])
            return ("fn", tuple(ps), self.related(t[2]))
        if k == "struct":
            fs = list(t[1])
            if fs and r.random() < 0.5:
                fs.pop(r.randrange(len(fs)))
                return ("struct", tuple(fs))
            if fs:
                i = r.randrange(len(fs))
                fs[i] = (fs[i][0], self.related(fs[i][1]))
                return ("struct", tuple(fs))
            return ("struct", (("a", self.gen(1)),))
        if k == "multi":
            ms = list(t[1])
            i = r.randrange(len(ms))
            ms[i] = self.related(ms[i])
            return mk_multi(ms)
        return self.gen(1)


HAND = [
    ("cell", ("multi", (("fn", (), ("multi", (("int",), ("str",)))), ("int",)))),
    ("multi", (("struct", (("a", ("int",)), ("b", ("int",)))), ("int",))),
    ("multi", (("struct", (("a", ("int",)),)), ("struct", (("a", ("float",)), ("b", ("str",)))))),
    ("arr", ("never",)), ("arr", ("any",)), ("tup", (("any",), ("never",))),
    ("fn", (("any",),), ("never",)), ("fn", (("never",),), ("any",)),
    ("multi", (("cell", ("int",)), ("cell", ("float",)))),
    ("multi", (("arr", ("int",)), ("cell", ("int",)))),
    ("multi", (("arr", ("int",)), ("str",))),
    ("multi", (("tup", (("int",), ("int",))), ("tup", (("float",), ("str",), ("bool",))))),
    ("multi", (("fn", (("int",),), ("int",)), ("fn", (("float",),), ("str",)))),
    ("multi", (("fn", (), ("tup", (("bool",), ("int",)))), ("fn", (), ("tup", (("bool",), ("str",)))))),
    ("fn", (), ("multi", (("tup", (("bool",), ("int",))), ("tup", (("bool",), ("float",)))))),
    ("struct", ()), ("struct", (("int", ("int",)),)),
    ("cell", ("struct", (("a", ("multi", (("int",), ("float",)))), ("b", ("any",))))),
]
