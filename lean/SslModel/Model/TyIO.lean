import SslModel.Model.Ty
import SslModel.Model.Sexp
/-! wire format of types: reading, and canonical (sorted) writing -/
namespace Ssl
namespace Ty
open Sexp

partial def ofSexp : Sexp → Option Ty
  | .atom "bool" => some .bool | .atom "int" => some .int | .atom "float" => some .float
  | .atom "str" => some .str | .atom "void" => some .void | .atom "any" => some .any
  | .atom "never" => some .never
  | .list [.atom "fn", .list ps, r] => do
    let ps ← ps.mapM ofSexp
    let r ← ofSexp r
    some (.fn ps r)
  | .list [.atom "arr", e] => (ofSexp e).map .arr
  | .list (.atom "tup" :: es) => (es.mapM ofSexp).map .tup
  | .list (.atom "multi" :: ms) => (ms.mapM ofSexp).map .multi
  | .list [.atom "cell", e] => (ofSexp e).map .cell
  | .list (.atom "struct" :: fs) =>
    (fs.mapM fun (f : Sexp) => match f with
      | Sexp.list [Sexp.atom k, t] => (ofSexp t).map fun t => (k, t)
      | _ => none).map .struct
  | _ => none

def insertSorted (s : String) : List String → List String
  | [] => [s]
  | x :: xs => if s ≤ x then s :: x :: xs else x :: insertSorted s xs

def sortStrings (l : List String) : List String := l.foldl (fun acc s => insertSorted s acc) []

/-- canonical text: union members sorted by their own canonical text, struct fields by key -/
partial def render : Ty → String
  | .bool => "bool" | .int => "int" | .float => "float" | .str => "str" | .void => "void"
  | .any => "any" | .never => "never"
  | .fn ps r => "(fn (" ++ " ".intercalate (ps.map render) ++ ") " ++ render r ++ ")"
  | .arr e => "(arr " ++ render e ++ ")"
  | .tup es => "(tup " ++ " ".intercalate (es.map render) ++ ")"
  | .multi ms => "(multi " ++ " ".intercalate (sortStrings (ms.map render)) ++ ")"
  | .cell e => "(cell " ++ render e ++ ")"
  | .struct fs =>
    if fs.isEmpty then "(struct)" else
    "(struct " ++ " ".intercalate (sortStrings (fs.map fun (k, t) => "(" ++ k ++ " " ++ render t ++ ")")) ++ ")"

def showOpt : Option Ty → String
  | some t => "(some " ++ render t ++ ")"
  | none => "none"
def showOptL : Option (List Ty) → String
  | some ts => "(some " ++ " ".intercalate (ts.map render) ++ ")"
  | none => "none"

end Ty
end Ssl
