import SslModel.Model.Pratt
import SslModel.Gen.PrattTable
import SslModel.Gen.DocPrecedence
import SslModel.Gen.BinOpMap
/-!
# C14 — operator precedence and associativity follow the documented table

All statements are over tables regenerated on every run from `parser/src/lib.rs`
(`Gen.prattLevels`), `parser/src/simplesl.pest` (`Gen.binOpAlts` …), `docs/operators.md`
(`Gen.docLevels`) and `src/bin_operator.rs` (`Gen.ruleToBinOp`), and over the model of pest's
Pratt loop in `Model/Pratt.lean`.  The quantifiers of the property (all ordered pairs of binary
operators, each prefix before each binary operator, postfix after prefix) are finite and are
discharged completely by `decide` — not over a sample.
-/
namespace Ssl.C14
open Ssl.Pratt

def T : Table := mkTable Gen.prattLevels

def infixRules : List String := Gen.binOpAlts.map (·.1)
def prefixRules : List String := Gen.prefixOpAlts.map (·.1)
def postfixRules : List String := Gen.postfixOpAlts.map (·.1)

/-- documented level (1 binds tightest) and associativity of a rule -/
def docLevel (r : String) : Option (Nat × Bool) :=
  (Gen.docLevels.find? (fun l => l.2.1.contains r)).map fun l => (l.1, l.2.2)

def a : Tok := ⟨"ident", 1⟩
def b : Tok := ⟨"ident", 2⟩
def c : Tok := ⟨"ident", 3⟩
def d : Tok := ⟨"ident", 4⟩
def op (r : String) : Tok := ⟨r, 0⟩

/-- the grouping docs/operators.md prescribes for `a o₁ b o₂ c` -/
def expectedPair (o1 o2 : String) : Option Tree :=
  match docLevel o1, docLevel o2 with
  | some (l1, r1), some (l2, _) =>
    if l1 < l2 || (l1 == l2 && !r1) then
      some (.bin (.bin (.prim a) (op o1) (.prim b)) (op o2) (.prim c))
    else some (.bin (.prim a) (op o1) (.bin (.prim b) (op o2) (.prim c)))
  | _, _ => none

def sameMembers (l1 l2 : List String) : Bool := l1.all (l2.contains ·) && l2.all (l1.contains ·)

/-! ## the table in the parser is the table in the documentation -/

/-- 14 levels; level k of the documentation (1 = tightest) has exactly the operators of the
    k-th `.op(...)` call counted from the end; infix operators have the documented associativity -/
theorem table_agrees_with_doc :
    Gen.docLevels.length = 14 ∧ Gen.prattLevels.length = 14 ∧
    (List.zip Gen.docLevels Gen.prattLevels.reverse).all (fun (dl, pl) =>
      sameMembers dl.2.1 (pl.map (·.1)) &&
      pl.all (fun (_, aff) => match aff with
        | .infixL => !dl.2.2 | .infixR => dl.2.2 | _ => true)) = true := by decide

/-- every alternative of the grammar's `bin_op` / `prefix_op` / `postfix_op` is in the table with
    the right affix, and no `primary` alternative is (so the Pratt loop's panics are unreachable
    on any pair sequence the grammar's `expr` rule can produce) -/
theorem table_covers_grammar :
    infixRules.all (fun r => match T.get r with
      | some (.infixL, _) | some (.infixR, _) => true | _ => false) = true ∧
    prefixRules.all (fun r => match T.get r with | some (.prefixOp, _) => true | _ => false) = true ∧
    postfixRules.all (fun r => match T.get r with | some (.postfixOp, _) => true | _ => false) = true ∧
    Gen.primaryAlts.all (fun r => (T.get r).isNone) = true := by decide

/-- every operator of the table is an operator of the grammar (no dead / misspelt entries) -/
theorem table_within_grammar :
    T.all (fun (r, _, _) => infixRules.contains r || prefixRules.contains r || postfixRules.contains r)
      = true := by decide

/-! ## all ordered pairs of binary operators group as documented -/

theorem pair_grouping :
    ∀ o1 ∈ infixRules, ∀ o2 ∈ infixRules,
      (expectedPair o1 o2).isSome = true ∧
      some (parse T [a, op o1, b, op o2, c]) = (expectedPair o1 o2).map Res.ok := by decide

/-- assignments group right to left -/
theorem assign_right_assoc :
    ∀ o1 ∈ infixRules, ∀ o2 ∈ infixRules, docLevel o1 = some (14, true) → docLevel o2 = some (14, true) →
      parse T [a, op o1, b, op o2, c] =
        .ok (.bin (.prim a) (op o1) (.bin (.prim b) (op o2) (.prim c))) := by decide

/-! ## all ordered triples of binary operators group as documented (35³ = 42 875 cases, kernel evaluation) -/

/-- binding strength a documented level gives: tighter = smaller level number -/
def lvl (o : String) : Nat := ((docLevel o).map (·.1)).getD 0
def rassoc (o : String) : Bool := ((docLevel o).map (·.2)).getD false

/-- does operator `x` (to the left) take its right neighbour operand before operator `y` (to the right)? -/
def leftFirst (x y : String) : Bool := lvl x < lvl y || (lvl x == lvl y && !rassoc x)

/-- the grouping docs/operators.md prescribes for `a o₁ b o₂ c o₃ d`, by case analysis on which
    adjacent operator wins each operand (five binary tree shapes) -/
def expectedTriple (o1 o2 o3 : String) : Tree :=
  let A := Tree.prim a; let B := Tree.prim b; let C := Tree.prim c; let D := Tree.prim d
  if leftFirst o1 o2 then
    -- (a o1 b) is formed before o2 applies
    if leftFirst o2 o3 then .bin (.bin (.bin A (op o1) B) (op o2) C) (op o3) D
    else .bin (.bin A (op o1) B) (op o2) (.bin C (op o3) D)
  else
    -- o2 takes b first
    if leftFirst o2 o3 then
      -- (b o2 c) formed; then o1 against o3
      if leftFirst o1 o3 then .bin (.bin A (op o1) (.bin B (op o2) C)) (op o3) D
      else .bin A (op o1) (.bin (.bin B (op o2) C) (op o3) D)
    else .bin A (op o1) (.bin B (op o2) (.bin C (op o3) D))

set_option maxRecDepth 100000 in
theorem triple_grouping :
    infixRules.all (fun o1 => infixRules.all (fun o2 => infixRules.all (fun o3 =>
      decide (parse T [a, op o1, b, op o2, c, op o3, d] = .ok (expectedTriple o1 o2 o3))))) = true := by
  decide +kernel

/-! ## prefix operators against binary and postfix operators -/

/-- each prefix operator binds tighter than each binary operator: `p a o b = (p a) o b` -/
theorem prefix_vs_infix :
    ∀ p ∈ prefixRules, ∀ o ∈ infixRules,
      parse T [op p, a, op o, b] = .ok (.bin (.pre (op p) (.prim a)) (op o) (.prim b)) := by decide

/-- level-1 postfix forms (index, slice, call, tuple/field access, `? type`) bind tighter than a
    prefix operator; the level-3 postfix forms (reducers, `~`, `$]`) bind looser -/
theorem prefix_vs_postfix :
    ∀ p ∈ prefixRules, ∀ q ∈ postfixRules,
      parse T [op p, a, op q] =
        (match docLevel q with
         | some (1, _) => .ok (.pre (op p) (.post (.prim a) (op q)))
         | _ => .ok (.post (.pre (op p) (.prim a)) (op q))) := by decide

/-- a postfix form after a binary operation: level-1 forms attach to the right operand, level-3
    forms attach according to the precedence of the binary operator -/
theorem infix_vs_postfix :
    ∀ o ∈ infixRules, ∀ q ∈ postfixRules,
      parse T [a, op o, b, op q] =
        (match docLevel q, docLevel o with
         | some (lq, _), some (lo, _) =>
           if lq < lo then .ok (.bin (.prim a) (op o) (.post (.prim b) (op q)))
           else .ok (.post (.bin (.prim a) (op o) (.prim b)) (op q))
         | _, _ => .fuel) := by decide

/-! ## multi-character operators are never split -/

/-- in an ordered choice an earlier alternative must not be a proper prefix of a later one
    (PEG would commit to the shorter token) -/
def noSplit (alts : List (String × String)) : Bool :=
  (alts.zipIdx).all fun (x, i) => (alts.zipIdx).all fun (y, j) =>
    !(i < j && x.2 != "" && x.2 != y.2 && x.2.toList.isPrefixOf y.2.toList)

theorem no_split_bin : noSplit Gen.binOpAlts = true := by decide

/-- `[`-, `.`- and `?`-introduced postfix forms share a first character and are told apart by what
    follows, so they are exempt; the `$…` reducers must be ordered longest first -/
theorem no_split_postfix :
    noSplit (Gen.postfixOpAlts.filter (fun x => x.2.toList.head? == some '$')) = true := by decide

/-- postfix forms are tried before binary operators (`atom = prefix_op? primary postfix_op*`), so
    no binary operator literal may be a proper prefix of a `$`-reducer except `$` itself, which is
    `reduce` and is tried only after the postfix alternatives fail -/
theorem reducers_before_reduce :
    (Gen.binOpAlts.filter (fun x => x.2.toList.head? == some '$')).map (·.1) = ["reduce"] := by decide

/-! ## rule ↦ operator map -/

/-- every infix rule except `reduce` is mapped to a distinct `BinOperator` whose display text is
    the grammar literal of the rule -/
theorem binop_map_total_injective :
    (infixRules.filter (· != "reduce")).all (fun r =>
      match List.lookup r Gen.ruleToBinOp with
      | some v => (List.lookup v Gen.binOperators) == List.lookup r Gen.binOpAlts
      | none => false) = true ∧
    (Gen.ruleToBinOp.map (·.2)).Nodup ∧ (Gen.ruleToBinOp.map (·.1)).Nodup := by decide

/-! ## the pinned third-party algorithm -/
theorem pest_pinned :
    Gen.pestVersion = "2.7.14" ∧
    Gen.prattParserSha256 = "81840653126031e4f069fab09a6d0773c59defc4c9686f4c50a7d08dcb52251f" := by
  decide

/-! ## non-vacuity -/
example : infixRules.length = 35 ∧ prefixRules.length = 3 ∧ postfixRules.length = 14 := by decide
example : expectedPair "add" "multiply" =
    some (.bin (.prim a) (op "add") (.bin (.prim b) (op "multiply") (.prim c))) := by decide

end Ssl.C14
