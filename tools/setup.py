#!/usr/bin/env python3
"""MANIFEST.setup_cmd: build the Lean project and the harness from files on disk (offline)."""
import os, subprocess, sys
sys.path.insert(0, os.path.dirname(os.path.abspath(__file__)))
import vlib
ok_t, msgs = vlib.run_translate()
print("\n".join(msgs))
ok, out = vlib.lake_build([])
print(out[-3000:])
okh, hout = vlib.build_harness()
print(hout[-2000:])
sys.exit(0 if (ok and okh) else 1)
