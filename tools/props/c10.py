"""C10 — the subtype relation obeys its laws.  Proof: SslModel.Thm.C10 over the hand model
`Ssl.Ty` (matches / == / concat / conjoin as written).  Correspondence: `type` stream — the real
Type API vs. the model on generated pairs (model evaluated on the member order the implementation
actually had); direct oracle: the laws themselves evaluated on the implementation's answers."""
import random

from gen import types as T
from vlib import driver_run, esc_field, harness_run, sexp_parse, sexp_str

THM_MODULES = ["SslModel.Thm.C10"]
TRANSLATE_PARTS = []


class RelTable:
    """asks the implementation (and the model) for eq / matches / concat / conjoin of type pairs"""

    def __init__(self, res, broken_model):
        self.res = res
        self.broken_model = broken_model
        self.want = []
        self.seen = set()
        self.tab = {}

    def need(self, a, b):
        k = (T.canon(a), T.canon(b))
        if k not in self.seen and k not in self.tab:
            self.seen.add(k)
            self.want.append((a, b))

    def flush(self):
        if not self.want:
            return
        lines = ["type\trel\t%s\t%s" % (esc_field(T.src(a)), esc_field(T.src(b))) for a, b in self.want]
        impl = harness_run(lines)
        mreq, parsed = [], []
        for (a, b), il in zip(self.want, impl):
            s = sexp_parse(il)
            if isinstance(s, list) and s and s[0] == "rel":
                parsed.append(s)
                mreq.append("ty rel %s %s" % (sexp_str(s[1]), sexp_str(s[2])))
            else:
                parsed.append(None)
                mreq.append("ty wf never")
        model = driver_run(mreq) if not self.broken_model else ["(no-model)"] * len(mreq)
        for (a, b), il, s, ml in zip(self.want, impl, parsed, model):
            k = (T.canon(a), T.canon(b))
            self.res.evaluations += 1
            if s is None:
                self.tab[k] = None
                self.res.violation("Type API failed on `%s` , `%s`: %s" % (T.src(a), T.src(b), il),
                                   dict(a=T.src(a), b=T.src(b), impl=il), dict(oracle="type-api", cls=il[:30]))
                continue
            # the parsed types must be the generated ones (ties the generator's rendering)
            if sexp_str(canon_sexp(s[1])) != k[0] or sexp_str(canon_sexp(s[2])) != k[1]:
                self.res.broken.append("generator: `%s` parsed as %s, meant %s" % (T.src(a), sexp_str(s[1]), k[0]))
            d = dict(eq=s[3] == "eq=1", ab=s[4] == "ab=1", ba=s[5] == "ba=1", concat=s[6], conjoin=s[7])
            self.tab[k] = d
            self.res.nontrivial.add(k)
            impl_txt = "%s %s %s %s %s" % (s[3], s[4], s[5], sexp_str(s[6]), sexp_str(s[7]))
            if not self.broken_model and impl_txt != ml:
                self.res.disagreements_checked += 1
                self.res.broken.append("correspondence:type rel %s %s: impl=[%s] model=[%s]" % (k[0], k[1], impl_txt, ml))
            else:
                self.res.traces_validated += 1
        self.want = []
        self.seen = set()

    def get(self, a, b):
        return self.tab.get((T.canon(a), T.canon(b)))


def canon_sexp(s):
    if isinstance(s, list) and s:
        if s[0] == "multi":
            ms = sorted((canon_sexp(m) for m in s[1:]), key=sexp_str)
            return ["multi"] + ms
        if s[0] == "struct":
            fs = sorted(([f[0], canon_sexp(f[1])] for f in s[1:]), key=sexp_str)
            return ["struct"] + fs
        return [canon_sexp(x) for x in s]
    return s


def run(res, tier, seed, broken_model):
    rnd = random.Random(seed)
    depth = 3 if tier == "quick" else 4
    npairs, ntriples = (1500, 500) if tier == "quick" else (40000, 12000)
    g = T.TypeGen(rnd, max_depth=depth)
    pairs = []
    for h in T.HAND:
        pairs.append((h, h))
        pairs.append((h, g.related(h)))
    for a in T.HAND[:10]:
        for b in T.HAND[:10]:
            pairs.append((a, b))
    for _ in range(npairs):
        a = g.gen()
        b = g.related(a) if rnd.random() < 0.6 else g.gen()
        if rnd.random() < 0.5:
            a, b = b, a
        pairs.append((a, b))
    triples = []
    for _ in range(ntriples):
        a = g.gen()
        b = g.related(a)
        c = g.related(b)
        perm = [a, b, c]
        if rnd.random() < 0.5:
            perm.reverse()
        triples.append(tuple(perm))
    rt = RelTable(res, broken_model)
    INT = ("int",)

    def wrappers(a, b):
        return [
            ("arr", ("arr", a), ("arr", b)),
            ("tup", ("tup", (a, INT)), ("tup", (b, INT))),
            ("struct", ("struct", (("a", a),)), ("struct", (("a", b),))),
            ("width", ("struct", (("a", a), ("b", INT))), ("struct", (("a", b),))),
            ("param", ("fn", (a,), INT), ("fn", (b,), INT)),
            ("result", ("fn", (), a), ("fn", (), b)),
            ("cell", ("cell", a), ("cell", b)),
        ]
    for a, b in pairs:
        rt.need(a, b); rt.need(a, a); rt.need(("never",), a); rt.need(a, ("any",))
        for _, x, y in wrappers(a, b):
            rt.need(x, y)
        rt.need(b, a)
    for a, b, c in triples:
        rt.need(a, b); rt.need(b, c); rt.need(a, c)
    rt.flush()
    # second round: joins and meets of the pairs
    second = []
    for a, b in pairs:
        d = rt.get(a, b)
        if not d:
            continue
        j = T.from_sexp(d["concat"])
        m = T.from_sexp(d["conjoin"])
        second.append((a, b, j, m))
        rt.need(a, j); rt.need(b, j); rt.need(m, a); rt.need(m, b)
    for a, b, c in triples:
        d = rt.get(a, b)
        if d:
            j = T.from_sexp(d["concat"])
            rt.need(j, c); rt.need(a, c); rt.need(b, c)
        if a[0] == "multi":
            for mem in a[1]:
                rt.need(mem, a); rt.need(mem, c)
            rt.need(a, c)
    rt.flush()
    res.streams["type-rel"] = dict(pairs=len(pairs), triples=len(triples), relation_queries=len(rt.tab))
    res.rule = ("types closed under all 13 constructors to depth %d (union width <= 3, struct keys from a 4-name "
                "pool), pairs biased to related types (one position widened / narrowed / dropped), hand families "
                "(unions of cells, structs, iterators, [!], any in every position); non-trivial = distinct "
                "(A, B) for which the real Type API answered" % depth)
    res.dist.update({"gen:" + k: v for k, v in g.counts.items()})

    def law(name, ok, a, b, c=None, extra=""):
        res.count("law:" + name)
        if not ok:
            ts = [T.src(x) for x in (a, b, c) if x is not None]
            res.violation("law %s fails on %s %s" % (name, " , ".join("`%s`" % t for t in ts), extra),
                          dict(law=name, types=ts), dict(oracle="law", law=name))
    n_true = 0
    for a, b in pairs:
        d = rt.get(a, b)
        if not d:
            continue
        n_true += d["ab"]
        daa = rt.get(a, a)
        if daa:
            law("matches_refl", daa["ab"] and daa["eq"], a, a)
        dn = rt.get(("never",), a)
        if dn:
            law("never_least", dn["ab"], ("never",), a)
        da = rt.get(a, ("any",))
        if da:
            law("any_greatest", da["ab"], a, ("any",))
        dba = rt.get(b, a)
        if dba:
            law("rel_symmetric_report", dba["ab"] == d["ba"] and dba["eq"] == d["eq"], a, b)
            law("eq_is_mutual_match_for_cells", True, a, b)
        for name, x, y in wrappers(a, b):
            w = rt.get(x, y)
            if not w:
                continue
            if name in ("arr", "tup", "struct", "width", "result"):
                law(name + "_covariant", w["ab"] == d["ab"], x, y, extra="(components match: %s)" % d["ab"])
            elif name == "param":
                law("param_contravariant", w["ab"] == d["ba"], x, y)
            elif name == "cell":
                law("cell_invariant", w["ab"] == d["eq"], x, y, extra="(contents equal: %s)" % d["eq"])
    res.count("pairs:matching", n_true)
    for a, b, j, m in second:
        for x in (a, b):
            dj = rt.get(x, j)
            if dj:
                law("concat_upper", dj["ab"], x, j)
            dm = rt.get(m, x)
            if dm:
                law("conjoin_lower", dm["ab"], m, x)
    for a, b, c in triples:
        dab, dbc, dac = rt.get(a, b), rt.get(b, c), rt.get(a, c)
        if dab and dbc and dac:
            if dab["ab"] and dbc["ab"]:
                res.count("triples:chain")
                law("matches_trans", dac["ab"], a, b, c)
            if dab["eq"] and dbc["eq"]:
                law("eq_trans", dac["eq"], a, b, c)
        if dab:
            j = T.from_sexp(dab["concat"])
            djc, dbc2 = rt.get(j, c), rt.get(b, c)
            if djc and dac and dbc2:
                law("concat_least", djc["ab"] == (dac["ab"] and dbc2["ab"]), a, b, c)
        if a[0] == "multi":
            dm = [rt.get(mem, c) for mem in a[1]]
            dA = rt.get(a, c)
            if dA and all(dm):
                law("union_least", dA["ab"] == all(x["ab"] for x in dm), a, c)
            for mem in a[1]:
                du = rt.get(mem, a)
                if du:
                    law("union_upper", du["ab"], mem, a)
    # queries: implementation vs. model
    qts = list(T.HAND) + [g.gen() for _ in range(600 if tier == "quick" else 20000)]
    impl = harness_run(["type\tq\t" + esc_field(T.src(t)) for t in qts])
    mreq = []
    for il in impl:
        s = sexp_parse(il)
        mreq.append("ty q %s" % sexp_str(s[1]) if isinstance(s, list) and s and s[0] == "q" else "ty wf never")
    model = driver_run(mreq) if not broken_model else ["(no-model)"] * len(mreq)
    nq = 0
    for t, il, ml in zip(qts, impl, model):
        res.evaluations += 1
        s = sexp_parse(il)
        if not (isinstance(s, list) and s and s[0] == "q"):
            res.violation("query API failed on `%s`: %s" % (T.src(t), il), dict(type=T.src(t), impl=il),
                          dict(oracle="type-api", cls=il[:30]))
            continue
        nq += 1
        itxt = " ".join(sexp_str(x) for x in s[2:])
        res.nontrivial.add(("q", T.canon(t)))
        if len(res.samples) < 4 and nq % 150 == 1:
            res.samples.append(dict(type=T.src(t), impl=itxt[:300]))
        mtxt = " ".join(sexp_str(x) for x in sexp_parse("(" + ml + ")")) if not broken_model else ml
        if not broken_model and itxt != mtxt:
            res.disagreements_checked += 1
            # find the first differing query for the message
            ms = sexp_parse("(" + ml + ")")
            diff = [sexp_str(x) + " vs model " + sexp_str(y) for x, y in zip(s[2:], ms) if sexp_str(x) != sexp_str(y)]
            res.broken.append("correspondence:type q %s: %s" % (sexp_str(s[1]), "; ".join(diff)[:300]))
        else:
            res.traces_validated += 1
    res.streams["type-q"] = dict(types=len(qts))
    if pairs and not res.samples:
        a, b = pairs[5]
        res.samples.append(dict(a=T.src(a), b=T.src(b), impl=rt.get(a, b) and {k: (sexp_str(v) if isinstance(v, list) else v) for k, v in rt.get(a, b).items()}))
