//! Implementation side of the correspondence: reads one case per line on stdin, runs the real
//! SimpleSL crate in-process under catch_unwind, prints one canonical outcome line per case.
//! Line format: fields separated by TAB; inside a field `\t`, `\n`, `\\` are escaped.
mod canon;
mod modes;

use std::io::{BufRead, BufReader, Read, Seek, SeekFrom, Write};
use std::os::fd::{AsRawFd, FromRawFd, IntoRawFd};
use std::panic;
use std::sync::Mutex;

unsafe extern "C" {
    fn dup(fd: i32) -> i32;
    fn dup2(a: i32, b: i32) -> i32;
    fn close(fd: i32) -> i32;
}

/// Point fd 0 at `file` (or close it for `None`): what the program under test sees as stdin.
pub fn set_stdin(file: Option<std::fs::File>) {
    unsafe {
        match file {
            Some(f) => {
                let fd = f.into_raw_fd();
                if fd != 0 {
                    dup2(fd, 0);
                    close(fd);
                }
            }
            None => {
                close(0);
            }
        }
    }
}

pub fn scratch_dir() -> std::path::PathBuf {
    let d = std::path::PathBuf::from(
        std::env::var("SSLH_SCRATCH").unwrap_or_else(|_| "/verif/.cache/harness-io".into()),
    );
    let _ = std::fs::create_dir_all(&d);
    d
}

pub static LAST_PANIC: Mutex<Option<String>> = Mutex::new(None);

pub fn unescape_field(s: &str) -> String {
    let mut out = String::with_capacity(s.len());
    let mut it = s.chars();
    while let Some(c) = it.next() {
        if c == '\\' {
            match it.next() {
                Some('t') => out.push('\t'),
                Some('n') => out.push('\n'),
                Some('r') => out.push('\r'),
                Some('\\') => out.push('\\'),
                Some(o) => {
                    out.push('\\');
                    out.push(o)
                }
                None => out.push('\\'),
            }
        } else {
            out.push(c)
        }
    }
    out
}

fn main() {
    // deep SimpleSL recursion needs a deep Rust stack; the monitor's fuel ends runaway recursion
    let worker = std::thread::Builder::new()
        .stack_size(1 << 30)
        .spawn(real_main)
        .expect("spawn worker");
    let _ = worker.join();
}

fn real_main() {
    panic::set_hook(Box::new(|info| {
        let loc = info
            .location()
            .map(|l| {
                let f = l.file();
                // keep path relative to the crate
                let f = f.rsplit_once("/repo/").map(|x| x.1).unwrap_or(f);
                let f = f.rsplit_once("registry/src/").map(|x| x.1).unwrap_or(f);
                format!("{}:{}", f, l.line())
            })
            .unwrap_or_else(|| "?".into());
        *LAST_PANIC.lock().unwrap() = Some(loc);
    }));
    // The protocol keeps private copies of the original stdin/stdout; fd 1 becomes a capture file
    // (what `print` writes is reported per case) and fd 0 is /dev/null unless a case sets it.
    let proto_in = unsafe { std::fs::File::from_raw_fd(dup(0)) };
    let mut out = unsafe { std::fs::File::from_raw_fd(dup(1)) };
    let cap_path = scratch_dir().join(format!("stdout.{}", std::process::id()));
    let mut cap = std::fs::OpenOptions::new()
        .create(true)
        .truncate(true)
        .read(true)
        .write(true)
        .open(&cap_path)
        .expect("capture file");
    unsafe {
        dup2(cap.as_raw_fd(), 1);
    }
    set_stdin(std::fs::File::open("/dev/null").ok());
    let mut cap_pos: u64 = 0;
    for line in BufReader::new(proto_in).lines() {
        let line = match line {
            Ok(l) => l,
            Err(_) => break,
        };
        if line.is_empty() {
            continue;
        }
        let fields: Vec<String> = line.split('\t').map(unescape_field).collect();
        let res = panic::catch_unwind(|| modes::dispatch(&fields));
        let text = match res {
            Ok(t) => t,
            Err(_) => {
                let loc = LAST_PANIC.lock().unwrap().take().unwrap_or_else(|| "?".into());
                format!("(harness-panic {loc})")
            }
        };
        let _ = std::io::stdout().flush();
        let mut printed = Vec::new();
        if cap.seek(SeekFrom::Start(cap_pos)).is_ok() {
            let _ = cap.read_to_end(&mut printed);
        }
        cap_pos += printed.len() as u64;
        let mut text = text.replace('\n', " ");
        if !printed.is_empty() {
            text.push_str(&format!(
                " (stdout {})",
                canon::string(&String::from_utf8_lossy(&printed))
            ));
        }
        let _ = writeln!(out, "{}", text);
        let _ = out.flush();
    }
    let _ = std::fs::remove_file(&cap_path);
}
