import SslModel.Thm.C01StA
set_option linter.unusedSimpArgs false
set_option linter.unusedVariables false
set_option maxRecDepth 2000
namespace Ssl.CS
open Ssl Ssl.Ty Ssl.Val Ssl.Spec Ssl.Check Ssl.CheckF Ssl.CheckS Ssl.C01
variable {S : STy}

theorem tyS_wf (lp : Bool) (ret : Option Ty) (g : TEnv) (e : Expr) (T : Ty) (h : tyS lp ret g e = .ok T) : wf T = true := by
  have okw : ∀ {t : Ty}, okW t = .ok T → wf T = true := fun hh => (okW_ok hh).1 ▸ (okW_ok hh).2
  cases e with
  | litBool _ => simp only [tyS] at h; cases h; rfl
  | litInt _ => simp only [tyS] at h; cases h; rfl
  | litFloat _ => simp only [tyS] at h; cases h; rfl
  | litStr _ => simp only [tyS] at h; cases h; rfl
  | litUnit => simp only [tyS] at h; cases h; rfl
  | var x =>
    simp only [tyS] at h
    split at h
    · exact okw h
    · cases h
  | array es =>
    simp only [tyS] at h
    obtain ⟨ts, _, h2⟩ := bind_ok h
    exact okw h2
  | tuple es =>
    simp only [tyS] at h
    split at h
    · cases h
    · obtain ⟨ts, _, h2⟩ := bind_ok h
      exact okw h2
  | pre op e =>
    cases op <;> simp only [tyS] at h
    · obtain ⟨t, _, h2⟩ := bind_ok h
      split at h2
      · exact okw h2
      · cases h2
    · obtain ⟨t, _, h2⟩ := bind_ok h
      split at h2
      · exact okw h2
      · cases h2
    · obtain ⟨t, _, h2⟩ := bind_ok h
      split at h2
      · exact okw h2
      all_goals first | (cases h2; done) | (split at h2 <;> (try split at h2) <;> (try split at h2) <;> (try split at h2) <;> first | exact okw h2 | cases h2)
  | and a b =>
    simp only [tyS] at h
    obtain ⟨ta, _, h2⟩ := bind_ok h
    obtain ⟨tb, _, h3⟩ := bind_ok h2
    split at h3
    · cases h3; rfl
    · cases h3
  | or a b =>
    simp only [tyS] at h
    obtain ⟨ta, _, h2⟩ := bind_ok h
    obtain ⟨tb, _, h3⟩ := bind_ok h2
    split at h3
    · cases h3; rfl
    · cases h3
  | bin op a b =>
    simp only [tyS] at h
    obtain ⟨ta, _, h2⟩ := bind_ok h
    obtain ⟨tb, _, h3⟩ := bind_ok h2
    exact binTy_wf op ta tb T h3
  | «at» a i =>
    simp only [tyS] at h
    obtain ⟨ta, _, h2⟩ := bind_ok h
    obtain ⟨ti, _, h3⟩ := bind_ok h2
    split at h3
    · cases h3
    · split at h3
      · exact okw h3
      · cases h3; rfl
      all_goals first | (cases h3; done) | (split at h3 <;> (try split at h3) <;> (try split at h3) <;> (try split at h3) <;> first | exact okw h3 | cases h3)
  | tacc e n =>
    simp only [tyS] at h
    obtain ⟨t, _, h2⟩ := bind_ok h
    split at h2
    · split at h2
      · exact okw h2
      · cases h2
    all_goals first | (cases h2; done) | (split at h2 <;> (try split at h2) <;> (try split at h2) <;> (try split at h2) <;> first | exact okw h2 | cases h2)
  | ifElse c t e =>
    simp only [tyS] at h
    obtain ⟨tc, _, h2⟩ := bind_ok h
    split at h2
    · cases h2
    · obtain ⟨tt, _, h3⟩ := bind_ok h2
      split at h3
      · obtain ⟨te, _, h4⟩ := bind_ok h3
        exact okw h4
      · exact okw h3
  | block body =>
    simp only [tyS] at h
    obtain ⟨p, _, h2⟩ := bind_ok h
    exact okw h2
  | ifSet x ty e body els =>
    simp only [tyS] at h
    split at h
    · cases h
    · obtain ⟨te, _, h2⟩ := bind_ok h
      obtain ⟨tb, _, h3⟩ := bind_ok h2
      split at h3
      · obtain ⟨tl, _, h4⟩ := bind_ok h3
        exact okw h4
      · exact okw h3
  | matchE e arms =>
    simp only [tyS] at h
    obtain ⟨te, _, h2⟩ := bind_ok h
    obtain ⟨tys, _, h3⟩ := bind_ok h2
    split at h3
    · cases h3
    · exact okw h3
  | arrayRepeat v n =>
    simp only [tyS] at h
    obtain ⟨tv, _, h2⟩ := bind_ok h
    obtain ⟨tn, _, h3⟩ := bind_ok h2
    split at h3
    · cases h3
    · split at h3
      · cases h3
      · exact okw h3
  | slice a st en sp =>
    simp only [tyS] at h
    obtain ⟨ta, _, h2⟩ := bind_ok h
    obtain ⟨ts, _, h3⟩ := bind_ok h2
    obtain ⟨te, _, h4⟩ := bind_ok h3
    obtain ⟨tp, _, h5⟩ := bind_ok h4
    split at h5
    · cases h5
    · split at h5
      · cases h5
      · split at h5
        · exact okw h5
        · cases h5; rfl
        · exact okw h5
        · cases h5
  | fn ps rt body =>
    simp only [tyS] at h
    split at h
    · cases h
    · obtain ⟨p, _, h2⟩ := bind_ok h
      split at h2
      · cases h2
      · exact okw h2
  | call f args =>
    simp only [tyS] at h
    obtain ⟨tf, _, h2⟩ := bind_ok h
    obtain ⟨tas, _, h3⟩ := bind_ok h2
    split at h3
    · split at h3
      · exact okw h3
      · cases h3
    all_goals first | (cases h3; done) | (split at h3 <;> (try split at h3) <;> (try split at h3) <;> (try split at h3) <;> first | exact okw h3 | cases h3)
  | ret e =>
    cases ret with
    | none => simp only [tyS] at h; cases h
    | some rt =>
      cases e with
      | some e =>
        simp only [tyS] at h
        obtain ⟨te, _, h2⟩ := bind_ok h
        split at h2
        · cases h2; rfl
        · cases h2
      | none =>
        simp only [tyS] at h
        split at h
        · cases h; rfl
        · cases h
  | mutE oty e =>
    cases oty with
    | none => simp only [tyS] at h; cases h
    | some ty =>
      simp only [tyS] at h
      split at h
      · cases h
      · obtain ⟨te, _, h2⟩ := bind_ok h
        split at h2
        · exact okw h2
        · cases h2
  | assign op target value =>
    simp only [tyS] at h
    obtain ⟨tt, _, h2⟩ := bind_ok h
    obtain ⟨tv, _, h3⟩ := bind_ok h2
    split at h3
    · split at h3
      · split at h3
        · exact okw h3
        · cases h3
      · obtain ⟨rt, _, h4⟩ := bind_ok h3
        split at h4
        · exact okw h4
        · cases h4
      · obtain ⟨rt, _, h4⟩ := bind_ok h3
        split at h4
        · exact okw h4
        · cases h4
    all_goals first | (cases h3; done) | (split at h3 <;> (try split at h3) <;> (try split at h3) <;> (try split at h3) <;> first | exact okw h3 | cases h3)
  | loop body =>
    simp only [tyS] at h
    obtain ⟨t, _, h2⟩ := bind_ok h
    cases h2; rfl
  | «while» c body =>
    simp only [tyS] at h
    obtain ⟨tc, _, h2⟩ := bind_ok h
    split at h2
    · cases h2
    · obtain ⟨t, _, h3⟩ := bind_ok h2
      cases h3; rfl
  | whileSet x ty e body =>
    simp only [tyS] at h
    split at h
    · cases h
    · obtain ⟨t, _, h2⟩ := bind_ok h
      obtain ⟨t2, _, h3⟩ := bind_ok h2
      cases h3; rfl
  | forE x it body =>
    simp only [tyS] at h
    obtain ⟨ti, _, h2⟩ := bind_ok h
    split at h2
    · split at h2
      · cases h2
      · obtain ⟨t, _, h3⟩ := bind_ok h2
        cases h3; rfl
    all_goals cases h2
  | struct fs =>
    simp only [tyS] at h
    obtain ⟨fts, _, h2⟩ := bind_ok h
    exact okw h2
  | facc e k =>
    simp only [tyS] at h
    obtain ⟨t, _, h2⟩ := bind_ok h
    split at h2
    · split at h2
      · exact okw h2
      · cases h2
    all_goals first | (cases h2; done) | (split at h2 <;> (try split at h2) <;> (try split at h2) <;> (try split at h2) <;> first | exact okw h2 | cases h2)
  | post op e =>
    cases op <;> simp only [tyS] at h
    case collect =>
      obtain ⟨ti, _, h2⟩ := bind_ok h
      split at h2
      · split at h2
        · cases h2
        · exact okw h2
      all_goals cases h2
    all_goals cases h
  | brk =>
    simp only [tyS] at h
    split at h
    · cases h; rfl
    · cases h
  | cont =>
    simp only [tyS] at h
    split at h
    · cases h; rfl
    · cases h
  | _ => simp only [tyS] at h; cases h




theorem tySList_wf (lp : Bool) (ret : Option Ty) (g : TEnv) : ∀ (es : List Expr) (ts : List Ty), tySList lp ret g es = .ok ts → wfL ts = true
  | [], ts, h => by simp only [tySList] at h; cases h; rfl
  | e :: es, ts, h => by
    simp only [tySList] at h
    obtain ⟨t, ht, h2⟩ := bind_ok h
    obtain ⟨ts', hts, h3⟩ := bind_ok h2
    cases h3
    simp only [wfL, Bool.and_eq_true]
    exact ⟨tyS_wf lp ret g e t ht, tySList_wf lp ret g es ts' hts⟩

theorem tySArms_wf (lp : Bool) (ret : Option Ty) (g : TEnv) : ∀ (arms : List Arm) (tys : List Ty), tySArms lp ret g arms = .ok tys → wfL tys = true
  | [], tys, h => by simp only [tySArms] at h; cases h; rfl
  | .ty x t body :: rest, tys, h => by
    simp only [tySArms] at h
    split at h
    · cases h
    · obtain ⟨tb, htb, h2⟩ := bind_ok h
      obtain ⟨ts, hts, h3⟩ := bind_ok h2
      cases h3
      simp only [wfL, Bool.and_eq_true]
      exact ⟨tyS_wf _ _ _ body tb htb, tySArms_wf lp ret g rest ts hts⟩
  | .val cands body :: rest, tys, h => by
    simp only [tySArms] at h
    obtain ⟨_, _, h1⟩ := bind_ok h
    obtain ⟨tb, htb, h2⟩ := bind_ok h1
    obtain ⟨ts, hts, h3⟩ := bind_ok h2
    cases h3
    simp only [wfL, Bool.and_eq_true]
    exact ⟨tyS_wf _ _ _ body tb htb, tySArms_wf lp ret g rest ts hts⟩
  | .other body :: rest, tys, h => by
    simp only [tySArms] at h
    obtain ⟨tb, htb, h2⟩ := bind_ok h
    obtain ⟨ts, hts, h3⟩ := bind_ok h2
    cases h3
    simp only [wfL, Bool.and_eq_true]
    exact ⟨tyS_wf _ _ _ body tb htb, tySArms_wf lp ret g rest ts hts⟩

theorem armKindsS_wf (lp : Bool) (ret : Option Ty) (g : TEnv) : ∀ (arms : List Arm) (tys : List Ty), tySArms lp ret g arms = .ok tys →
    ∀ a, ArmKind.ty a ∈ armKinds arms → wf a = true
  | [], _, _, a, ha => by simp [armKinds] at ha
  | .ty x t body :: rest, tys, h, a, ha => by
    simp only [tySArms] at h
    split at h
    · cases h
    · rename_i hw
      obtain ⟨tb, _, h2⟩ := bind_ok h
      obtain ⟨ts, hts, _⟩ := bind_ok h2
      simp only [armKinds, List.mem_cons, ArmKind.ty.injEq] at ha
      rcases ha with rfl | ha
      · simpa using hw
      · exact armKindsS_wf lp ret g rest ts hts a ha
  | .val cands body :: rest, tys, h, a, ha => by
    simp only [tySArms] at h
    obtain ⟨_, _, h1⟩ := bind_ok h
    obtain ⟨tb, _, h2⟩ := bind_ok h1
    obtain ⟨ts, hts, _⟩ := bind_ok h2
    simp only [armKinds, List.mem_cons, reduceCtorEq, false_or] at ha
    exact armKindsS_wf lp ret g rest ts hts a ha
  | .other body :: rest, tys, h, a, ha => by
    simp only [tySArms] at h
    obtain ⟨tb, _, h2⟩ := bind_ok h
    obtain ⟨ts, hts, _⟩ := bind_ok h2
    simp only [armKinds, List.mem_cons, reduceCtorEq, false_or] at ha
    exact armKindsS_wf lp ret g rest ts hts a ha

/-! ### small facts about value typing -/

theorem good_tag_shape {v : Val} (h : Good S v) : isMulti v.asType = false ∧ isNever v.asType = false := by
  cases h <;> simp [asType, isMulti, isNever]

theorem vt_never (v : Val) : ¬ VT S .never v := by
  intro ⟨h, g⟩
  obtain ⟨s1, s2⟩ := good_tag_shape g
  rw [sub_regular_never _ s1 s2] at h
  cases h

theorem vt_trans {v : Val} {a b : Ty} (h : VT S a v) (wa : wf a = true) (wb : wf b = true) (hs : sub a b = true) : VT S b v :=
  ⟨sub_trans _ a b (good_wf_tag h.2) wa wb h.1 hs, h.2⟩

theorem vt_contents {v : Val} {T : Ty} (h : VT S T v) (wT : wf T = true) : hasTy v T = true := hasTy_of_tagG h.2 wT h.1

theorem vt_bool {v : Val} (h : VT S .bool v) : ∃ k, v = .bool k := bool_of_hasTy (vt_contents h rfl)
theorem vt_int {v : Val} (h : VT S .int v) : ∃ k, v = .int k := int_of_hasTy (vt_contents h rfl)

theorem eq_never_of_eqv {t : Ty} (h : eqv t .never = true) : t = .never := by
  cases t <;> simp [eqv] at h <;> rfl


/-! ### the statements proved together by induction on the evaluator's fuel -/

def RWf (ret : Option Ty) : Prop := ∀ rt, ret = some rt → wf rt = true

def ListOk (S : STy) (Ts : List Ty) (vs : List Val) : Prop := matchesL (asTypeL vs) Ts = true ∧ ∀ v ∈ vs, Good S v

def OptRelG (S : STy) : Option Val → Option Ty → Prop
  | some v, some t => VT S t v
  | none, none => True
  | _, _ => False

theorem listOk_mono {S S' : STy} (h : Ext S S') {Ts : List Ty} {vs : List Val} (hl : ListOk S Ts vs) : ListOk S' Ts vs :=
  ⟨hl.1, fun v hv => good_mono h (hl.2 v hv)⟩

theorem optRel_mono {S S' : STy} (h : Ext S S') {ov : Option Val} {ot : Option Ty} (hl : OptRelG S ov ot) : OptRelG S' ov ot := by
  cases ov <;> cases ot <;> simp only [OptRelG] at hl ⊢
  exact vt_mono h hl

def PE (f : Nat) : Prop := ∀ (lp : Bool) (ret : Option Ty) (S : STy) (g : TEnv) (env : Env) (e : Expr) (T : Ty) (σ : St),
  EnvOkG S env g → GWf g → RWf ret → StoreOk S σ → tyS lp ret g e = .ok T → OutP lp ret S (fun S' v => VT S' T v) (eval f env e σ)
def PL (f : Nat) : Prop := ∀ (lp : Bool) (ret : Option Ty) (S : STy) (g : TEnv) (env : Env) (es : List Expr) (Ts : List Ty) (σ : St),
  EnvOkG S env g → GWf g → RWf ret → StoreOk S σ → tySList lp ret g es = .ok Ts → OutP lp ret S (fun S' vs => ListOk S' Ts vs) (evalList f env es σ)
def PO (f : Nat) : Prop := ∀ (lp : Bool) (ret : Option Ty) (S : STy) (g : TEnv) (env : Env) (o : Option Expr) (ot : Option Ty) (σ : St),
  EnvOkG S env g → GWf g → RWf ret → StoreOk S σ → tySOpt lp ret g o = .ok ot → OutP lp ret S (fun S' ov => OptRelG S' ov ot) (evalOpt f env o σ)
def PS (f : Nat) : Prop := ∀ (lp : Bool) (ret : Option Ty) (S : STy) (g g' : TEnv) (env : Env) (body : List Expr) (ts : List Ty) (σ : St),
  EnvOkG S env g → GWf g → RWf ret → StoreOk S σ → tySSeq lp ret g body = .ok (ts, g') →
  OutP lp ret S (fun S' p => VT S' (lastTy ts) p.1 ∧ EnvOkG S' p.2 g' ∧ GWf g' ∧ ∀ t ∈ ts, eqv t .never = false) (evalSeq f env body σ)
def PSt (f : Nat) : Prop := ∀ (lp : Bool) (ret : Option Ty) (S : STy) (g g' : TEnv) (env : Env) (s : Expr) (t : Ty) (σ : St),
  EnvOkG S env g → GWf g → RWf ret → StoreOk S σ → tySStmt lp ret g s = .ok (t, g') →
  OutP lp ret S (fun S' p => VT S' t p.1 ∧ EnvOkG S' p.2 g' ∧ GWf g') (evalStmt f env s σ)
def PV (f : Nat) : Prop := ∀ (lp : Bool) (ret : Option Ty) (S : STy) (g : TEnv) (env : Env) (e : Expr) (T : Ty) (σ : St),
  EnvOkG S env g → GWf g → RWf ret → StoreOk S σ → tyS lp ret g e = .ok T → OutP lp ret S (fun S' v => VT S' T v) (evalStmtValue f env e σ)
def PA (f : Nat) : Prop := ∀ (lp : Bool) (ret : Option Ty) (S : STy) (g : TEnv) (env : Env) (v : Val) (arms : List Arm) (tys : List Ty) (σ : St),
  EnvOkG S env g → GWf g → RWf ret → StoreOk S σ → Good S v → tySArms lp ret g arms = .ok tys →
  (∃ k ∈ armKinds arms, armCovers k v.asType = true) → OutP lp ret S (fun S' r => ∃ t ∈ tys, VT S' t r) (evalArms f env v arms σ)
def PC (f : Nat) : Prop := ∀ (lp : Bool) (ret : Option Ty) (S : STy) (g : TEnv) (env : Env) (v : Val) (cands : List Expr) (ts : List Ty) (σ : St),
  EnvOkG S env g → GWf g → RWf ret → StoreOk S σ → tySList lp ret g cands = .ok ts → OutP lp ret S (fun _ _ => True) (candGo f env v cands σ)
/-- calling a good function value of a function type with arguments whose tags lie below the static parameter types -/
def PF (f : Nat) : Prop := ∀ (lp : Bool) (ret : Option Ty) (S : STy) (fv : Val) (args : List Val) (pts : List Ty) (rt : Ty) (σ : St),
  StoreOk S σ → Good S fv → sub fv.asType (.fn pts rt) = true → wfL pts = true → wf rt = true → ListOk S pts args →
  OutP lp ret S (fun S' v => VT S' rt v) (callFn f fv args σ)
/-- one run of a loop body (checked "inside a loop"): `break` / `continue` end here -/
def PB (f : Nat) : Prop := ∀ (lp : Bool) (ret : Option Ty) (S : STy) (g : TEnv) (env : Env) (body : Expr) (T : Ty) (σ : St),
  EnvOkG S env g → GWf g → RWf ret → StoreOk S σ → tyS true ret g body = .ok T → OutP lp ret S (fun _ _ => True) (bodyOnce f env body σ)
def PLp (f : Nat) : Prop := ∀ (lp : Bool) (ret : Option Ty) (S : STy) (g : TEnv) (env : Env) (body : Expr) (T : Ty) (σ : St),
  EnvOkG S env g → GWf g → RWf ret → StoreOk S σ → tyS true ret g body = .ok T →
  OutP lp ret S (fun S' v => VT S' .void v) (loopGo f env body σ)
def PW (f : Nat) : Prop := ∀ (lp : Bool) (ret : Option Ty) (S : STy) (g : TEnv) (env : Env) (c body : Expr) (T : Ty) (σ : St),
  EnvOkG S env g → GWf g → RWf ret → StoreOk S σ → tyS lp ret g c = .ok .bool → tyS true ret g body = .ok T →
  OutP lp ret S (fun S' v => VT S' .void v) (whileGo f env c body σ)
def PWS (f : Nat) : Prop := ∀ (lp : Bool) (ret : Option Ty) (S : STy) (g : TEnv) (env : Env) (x : String) (ty : Ty) (e body : Expr) (T1 T : Ty) (σ : St),
  EnvOkG S env g → GWf g → RWf ret → StoreOk S σ → wf ty = true → tyS lp ret g e = .ok T1 → tyS true ret ((x, ty) :: g) body = .ok T →
  OutP lp ret S (fun S' v => VT S' .void v) (whileSetGo f env x ty e body σ)


def PFo (f : Nat) : Prop := ∀ (lp : Bool) (ret : Option Ty) (S : STy) (g : TEnv) (env : Env) (x : String) (itv : Val) (body : Expr) (b t T : Ty) (σ : St),
  EnvOkG S env g → GWf g → RWf ret → StoreOk S σ → VT S (.fn [] (.tup [b, t])) itv → eqv b .bool = true → wf t = true →
  tyS true ret ((x, t) :: ("$con", .bool) :: g) body = .ok T →
  OutP lp ret S (fun S' v => VT S' .void v) (forGo f env x itv body σ)

/-- the field initialisers of a struct literal, in order -/
def PFd (f : Nat) : Prop := ∀ (lp : Bool) (ret : Option Ty) (S : STy) (g : TEnv) (env : Env) (fs : List (String × Expr)) (fts : List (String × Ty)) (σ : St),
  EnvOkG S env g → GWf g → RWf ret → StoreOk S σ → tySFields lp ret g fs = .ok fts →
  OutP lp ret S (fun S' vs => Rel S' fts vs) (evalFields f env fs σ)

/-- one pull of an iterator of static type `() -> (bool, t)`: a value of `t`, or the end -/
def PPull (f : Nat) : Prop := ∀ (lp : Bool) (ret : Option Ty) (S : STy) (it : Val) (t : Ty) (σ : St),
  StoreOk S σ → VT S (.fn [] (.tup [.bool, t])) it → wf t = true →
  OutP lp ret S (fun S' o => ∀ x, o = some x → VT S' t x) (pull f it σ)
def PCol (f : Nat) : Prop := ∀ (lp : Bool) (ret : Option Ty) (S : STy) (it : Val) (acc : List Val) (t : Ty) (σ : St),
  StoreOk S σ → VT S (.fn [] (.tup [.bool, t])) it → wf t = true → (∀ v ∈ acc, VT S t v) →
  OutP lp ret S (fun S' vs => ∀ v ∈ vs, VT S' t v) (collectGo f it acc σ)

/-- a value of a pair type is a pair of values of the component types -/
theorem vt_pair {v : Val} {a b : Ty} (h : VT S (.tup [a, b]) v) : ∃ x y, v = .tup [x, y] ∧ VT S a x ∧ VT S b y := by
  obtain ⟨hs, hg⟩ := h
  cases hg with
  | tup es hes =>
    simp only [asType, C01.sub_tup] at hs
    match es, hs, hes with
    | [x, y], hs, hes =>
      simp only [asTypeL, matchesL, Bool.and_eq_true, Bool.and_true] at hs
      exact ⟨x, y, rfl, ⟨hs.1, hes x (by simp)⟩, ⟨hs.2, hes y (by simp)⟩⟩
    | [], hs, _ => simp [asTypeL, matchesL] at hs
    | [_], hs, _ => simp [asTypeL, matchesL] at hs
    | _ :: _ :: _ :: _, hs, _ => simp [asTypeL, matchesL] at hs
  | _ => simp [asType, sub, eqv] at hs

/-- a value of a tuple type is a tuple whose elements are values of the element types -/
theorem vt_tuple {v : Val} {ts : List Ty} (h : VT S (.tup ts) v) : ∃ vs, v = .tup vs ∧ ListOk S ts vs := by
  obtain ⟨hs, hg⟩ := h
  cases hg with
  | tup es hes => exact ⟨es, rfl, by simpa [asType, C01.sub_tup] using hs, hes⟩
  | _ => simp [asType, sub, eqv] at hs

/-- `(a, b, ..) := (v, w, ..)`: the declared names, later ones shadowing earlier ones, respect the extended typing -/
theorem envOkG_bindAll : ∀ (xs : List String) (ts : List Ty) (vs : List Val) (env : Env) (g : TEnv),
    EnvOkG S env g → GWf g → wfL ts = true → matchesL (asTypeL vs) ts = true → (∀ v ∈ vs, Good S v) →
    EnvOkG S ((List.zip xs vs).foldl (fun en (p : String × Val) => en.insert p.1 p.2) env) (bindAll (List.zip xs ts) g) ∧
      GWf (bindAll (List.zip xs ts) g)
  | [], ts, vs, env, g, he, hg, _, _, _ => by simpa [bindAll] using ⟨he, hg⟩
  | x :: xs, [], vs, env, g, he, hg, _, hm, _ => by
    cases vs with
    | nil => simpa [bindAll] using ⟨he, hg⟩
    | cons v vs => simp [asTypeL, matchesL] at hm
  | x :: xs, t :: ts, [], env, g, he, hg, _, hm, _ => by simp [asTypeL, matchesL] at hm
  | x :: xs, t :: ts, v :: vs, env, g, he, hg, hw, hm, hgood => by
    simp only [asTypeL] at hm
    rw [matchesL] at hm
    simp only [Bool.and_eq_true] at hm
    simp only [wfL, Bool.and_eq_true] at hw
    have hv : VT S t v := ⟨hm.1, hgood v (by simp)⟩
    have := envOkG_bindAll xs ts vs (env.insert x v) ((x, t) :: g) (envOkG_insert env g x v t he hv) (gwf_cons g x t hg hw.1) hw.2 hm.2
      (fun z hz => hgood z (by simp [hz]))
    simpa [bindAll, List.zip, List.foldl] using this

theorem asTypeL_none : ∀ (vs : List Val) (n : Nat), vs[n]? = none → (asTypeL vs)[n]? = none
  | [], _, _ => by simp [asTypeL]
  | v :: vs, 0, h => by simp at h
  | v :: vs, n + 1, h => by simp at h; simp [asTypeL, asTypeL_none vs n (by simpa using h)]

theorem matchesL_some : ∀ (as bs : List Ty) (n : Nat) (b : Ty), matchesL as bs = true → bs[n]? = some b → as[n]? ≠ none
  | [], bs, n, b, h, hb => by cases bs <;> simp [matchesL] at h; simp at hb
  | a :: as, [], n, b, h, hb => by simp at hb
  | a :: as, b0 :: bs, 0, b, h, hb => by simp
  | a :: as, b0 :: bs, n + 1, b, h, hb => by
    rw [matchesL] at h
    simp only [Bool.and_eq_true] at h
    have := matchesL_some as bs n b h.2 (by simpa using hb)
    simpa using this

theorem listOk_get (Ts : List Ty) (vs : List Val) (h : ListOk S Ts vs) (n : Nat) (v : Val) (t : Ty)
    (hv : vs[n]? = some v) (ht : Ts[n]? = some t) : VT S t v :=
  ⟨matchesL_get (asTypeL vs) Ts n v.asType t h.1 (asTypeL_get vs n v hv) ht, h.2 v (List.mem_of_getElem? hv)⟩

theorem good_mkArray (vs : List Val) (h : ∀ v ∈ vs, Good S v) : Good S (Val.mkArray vs) := by
  have hw : wfL (asTypeL vs) = true := by
    induction vs with
    | nil => simp [asTypeL, wfL]
    | cons v vs ih =>
      simp only [asTypeL, wfL, Bool.and_eq_true]
      exact ⟨good_wf_tag (h v (by simp)), ih (fun x hx => h x (by simp [hx]))⟩
  exact Good.arr _ _ (wf_concatL _ hw)
    (fun v hv => members_sub_concatL (asTypeL vs) hw v.asType (asType_mem vs v hv)) h

theorem wfL_asTypeLG (vs : List Val) (h : ∀ v ∈ vs, Good S v) : wfL (asTypeL vs) = true := by
  induction vs with
  | nil => simp [asTypeL, wfL]
  | cons v vs ih =>
    simp only [asTypeL, wfL, Bool.and_eq_true]
    exact ⟨good_wf_tag (h v (by simp)), ih (fun x hx => h x (by simp [hx]))⟩

theorem optIdx_okG (ov : Option Val) (ot : Option Ty) (hr : OptRelG S ov ot) (hb : boundOk ot = true) :
    ∃ oi, optIdx ov = .ok oi := by
  cases ov with
  | none => exact ⟨none, rfl⟩
  | some v =>
    cases ot with
    | none => cases hr
    | some t =>
      simp only [boundOk] at hb
      have e := eq_of_eqv_int hb
      subst e
      obtain ⟨k, rfl⟩ := vt_int hr
      exact ⟨some k.toInt, rfl⟩

theorem matchesL_trans : ∀ (as bs cs : List Ty), wfL as = true → wfL bs = true → wfL cs = true →
    matchesL as bs = true → argsOk bs cs = true → matchesL as cs = true
  | [], [], [], _, _, _, _, _ => by simp [matchesL]
  | a :: as, b :: bs, c :: cs, wa, wb, wc, h1, h2 => by
    rw [matchesL] at h1 ⊢
    simp only [argsOk, Bool.and_eq_true] at h2
    simp only [wfL, Bool.and_eq_true] at wa wb wc
    simp only [Bool.and_eq_true] at h1 ⊢
    exact ⟨sub_trans a b c wa.1 wb.1 wc.1 h1.1 h2.1, matchesL_trans as bs cs wa.2 wb.2 wc.2 h1.2 h2.2⟩
  | [], _ :: _, _, _, _, _, h, _ => by simp [matchesL] at h
  | _ :: _, [], _, _, _, _, h, _ => by simp [matchesL] at h
  | [], [], _ :: _, _, _, _, _, h => by simp [argsOk] at h
  | _ :: _, _ :: _, [], _, _, _, _, h => by simp [argsOk] at h

end Ssl.CS
