"""Ill-formed variants of generated programs: each must be *rejected*; if the checker accepts one, it
must still run without panic and without leaving its static types (C01 / C02 / C03 negative stream)."""
import random

from gen.programs import INT, BOOL, STR, FLOAT, VOID, tup, fn, iter_of, arr, cell, multi

I = lambda n: ("i", n)
V = lambda x: ("id", x)
ANY = ("any",)

STMT_LISTS = {"fn": 3, "mod": 1, "fndecl": 4, "block": 1}


def _paths(node, path=()):
    """yield (path, list) for every statement list inside node (a statement list itself at top)"""
    if isinstance(node, list):
        yield path, node
        for i, x in enumerate(node):
            yield from _paths(x, path + (i,))
    elif isinstance(node, tuple):
        for i, x in enumerate(node):
            if isinstance(x, (list, tuple)):
                if isinstance(x, list) and not (node and node[0] in STMT_LISTS and STMT_LISTS[node[0]] == i):
                    # a list that is not a statement list (array elements, args, arms ...): descend only
                    for j, y in enumerate(x):
                        yield from _paths(y, path + (i, j))
                else:
                    yield from _paths(x, path + (i,))


def _replace(node, path, fn_):
    if not path:
        return fn_(node)
    i = path[0]
    if isinstance(node, list):
        return node[:i] + [_replace(node[i], path[1:], fn_)] + node[i + 1:]
    return node[:i] + (_replace(node[i], path[1:], fn_),) + node[i + 1:]


def stray_signal(rnd, stmts):
    lists = list(_paths(stmts))
    path, lst = rnd.choice(lists)
    sig = rnd.choice([("break",), ("continue",), ("return", I(1)), ("return", None),
                      ("if", ("bin", "eq", I(1), I(1)), ("block", [(rnd.choice(["break", "continue"]),)]), None)])
    pos = rnd.randint(0, max(0, len(lst) - 1))
    return _replace(stmts, path, lambda l: l[:pos] + [sig] + l[pos:])


def _expr_sites(node, path=()):
    if isinstance(node, tuple) and node and isinstance(node[0], str):
        if node[0] in ("i", "s", "true", "false", "f"):
            yield path, node
        for i, x in enumerate(node):
            if isinstance(x, (tuple, list)) and i > 0:
                yield from _expr_sites(x, path + (i,))
    elif isinstance(node, list):
        for i, x in enumerate(node):
            yield from _expr_sites(x, path + (i,))
    elif isinstance(node, tuple):
        # plain tuple container such as (key, expr) or a type: descend into expression-like children
        for i, x in enumerate(node):
            if isinstance(x, (tuple, list)):
                yield from _expr_sites(x, path + (i,))


def type_error(rnd, stmts):
    sites = [(p, n) for p, n in _expr_sites(stmts)]
    if not sites:
        return None
    path, n = rnd.choice(sites)
    k = n[0]
    new = {"i": rnd.choice([("s", "zz"), ("true",), ("f", 1.5), ("array", [I(1)]), ("unit",)]),
           "s": rnd.choice([I(7), ("true",), ("array", [])]),
           "true": rnd.choice([I(1), ("s", "t")]), "false": rnd.choice([I(0), ("unit",)]),
           "f": rnd.choice([I(2), ("s", "f")])}[k]
    return _replace(stmts, path, lambda _: new)


def scope_escape(rnd, stmts):
    """use, at the end of the program, a name that was declared only inside a nested scope"""
    inner = []
    top = {s[1] for s in stmts if isinstance(s, tuple) and s and s[0] in ("set", "fndecl")}
    for s in stmts:
        if isinstance(s, tuple) and s and s[0] == "destruct":
            top.update(s[1])
    for path, lst in _paths(stmts):
        if not path:
            continue
        for s in lst:
            if isinstance(s, tuple) and s and s[0] in ("set", "fndecl") and s[1] not in top:
                inner.append(s[1])
            if isinstance(s, tuple) and s and s[0] == "destruct":
                inner.extend(x for x in s[1] if x not in top)
    if not inner:
        return None
    name = rnd.choice(inner)
    return stmts[:-1] + [("set", "leak", V(name)), stmts[-1]]


def narrowing_templates():
    """a name narrowed by if-set / match arm / while-set used at the narrowed type where it is not narrowed"""
    T = []
    U, M = multi(INT, STR), INT
    call = lambda f, v: ("call", V(f), [v])
    for val in (("s", "abc"), I(5)):
        # else branch of an if-set that shadows the scrutinee
        T.append([("fndecl", "g", [("x", U)], M, [("ifset", "x", M, V("x"), ("block", [("return", V("x"))]), ("block", [("return", V("x"))]))]), call("g", val)])
        # after the if-set
        T.append([("fndecl", "g", [("x", U)], M, [("ifset", "x", M, V("x"), ("block", [V("x")]), None), ("return", V("x"))]), call("g", val)])
        # other arm / after a match whose type arm shadows the scrutinee
        T.append([("fndecl", "g", [("x", U)], M, [("match", V("x"), [("ty", "x", M, ("block", [("return", V("x"))])), ("other", ("block", [("return", V("x"))]))])]), call("g", val)])
        T.append([("fndecl", "g", [("x", U)], M, [("set", "r", ("match", V("x"), [("ty", "x", M, ("block", [V("x")])), ("other", ("block", [I(0)]))])), ("return", V("x"))]), call("g", val)])
        # after a while-set
        T.append([("fndecl", "g", [("x", U)], M, [("whileset", "x", M, V("x"), ("block", [("break",)])), ("return", V("x"))]), call("g", val)])
        # binding through := of an if-set whose else branch yields the un-narrowed name
        T.append([("fndecl", "g", [("x", U)], M, [("set", "r", ("ifset", "x", M, V("x"), ("block", [V("x")]), ("block", [V("x")]))), ("return", V("r"))]), call("g", val)])
        # for-loop variable / destructured names after their scope
        T.append([("fndecl", "g", [("x", U)], M, [("for", "x", ("post", "iter", ("array", [I(1)])), ("block", [V("x")])), ("return", V("x"))]), call("g", val)])
        # parameter of an inner function shadows, outer use afterwards
        T.append([("fndecl", "g", [("x", U)], M, [("fndecl", "h", [("x", M)], M, [("return", V("x"))]), ("return", V("x"))]), call("g", val)])
        # block-local redeclaration at a narrower type
        T.append([("fndecl", "g", [("x", U)], M, [("block", [("set", "x", I(1)), V("x")]), ("return", V("x"))]), call("g", val)])
    # a name bound by `if x: T = e` / `while x: T = e` / a type arm has the ANNOTATED type T, nothing narrower: with T a struct
    # type that the value's own (wider) struct type matches, using x where an int is wanted must be rejected
    SA_, SAB_ = ("struct", (("a", INT),)), ("struct", (("a", INT), ("b", INT)))
    sval = ("struct", [("a", I(1)), ("b", I(2))])
    for ety in (multi(SAB_, INT), SAB_, multi(SAB_, ("struct", (("c", STR),)))):
        pre = [("set", "c", ("mut", ety, sval)), ("set", "out", ("mut", INT, I(0)))]
        T.append(pre + [("ifset", "x", SA_, ("pre", "deref", V("c")), ("block", [("assign", "set", V("out"), V("x"))]), None), ("pre", "deref", V("out"))])
        T.append(pre + [("whileset", "x", SA_, ("pre", "deref", V("c")), ("block", [("assign", "set", V("out"), V("x")), ("break",)])), ("pre", "deref", V("out"))])
        T.append(pre + [("match", ("pre", "deref", V("c")), [("ty", "x", SA_, ("block", [("assign", "set", V("out"), V("x"))])), ("other", ("block", [I(0)]))]), ("pre", "deref", V("out"))])
        T.append(pre + [("fndecl", "g", [("v", ety)], INT, [("ifset", "x", SA_, V("v"), ("block", [("return", V("x"))]), None), ("return", I(0))]),
                        ("bin", "add", ("call", V("g"), [("pre", "deref", V("c"))]), I(1))])
        T.append(pre + [("set", "xs", ("array", [("pre", "deref", V("c"))])),
                        ("ifset", "x", arr(SA_), V("xs"), ("block", [("assign", "set", V("out"), ("at", V("x"), I(0)))]), None), ("pre", "deref", V("out"))])
    # destructuring a value whose type is a union of tuple types of DIFFERENT lengths has no length to go by: rejected; if it
    # were accepted the names would have no honest type (a use at a type the value does not have must not get through)
    TU = multi(tup(INT, STR), tup(INT, STR, FLOAT))
    mk = ("fndecl", "mk", [("c", BOOL)], TU, [("if", V("c"), ("block", [("return", ("tuple", [I(1), ("s", "a")]))]), None), ("return", ("tuple", [I(2), ("s", "b"), ("f", 0.5)]))])
    idS = ("fndecl", "ids", [("s", STR)], STR, [("return", V("s"))])
    for arg in (("true",), ("false",)):
        T.append([mk, idS, ("destruct", ["a", "b"], ("call", V("mk"), [arg])), ("call", V("ids"), [V("a")])])
        T.append([mk, ("set", "out", ("mut", FLOAT, ("f", 0.0))), ("destruct", ["a", "b"], ("call", V("mk"), [arg])), ("assign", "set", V("out"), V("b")), ("pre", "deref", V("out"))])
        T.append([mk, ("fndecl", "g", [("p", TU)], STR, [("destruct", ["a", "b"], V("p")), ("return", V("a"))]), ("call", V("g"), [("call", V("mk"), [arg])])])
    # .. and the names USED where only one member's component fits (an operator that answers a wrong operand kind with a panic):
    # members whose components at the same position have different types, as many names as the SHORTEST member has
    TV = multi(tup(INT, INT), tup(STR, INT, INT))
    mk2 = ("fndecl", "mk", [("c", BOOL)], TV, [("if", V("c"), ("block", [("return", ("tuple", [I(7), I(2)]))]), None), ("return", ("tuple", [("s", "s"), I(2), I(3)]))])
    for arg in (("true",), ("false",)):
        for use in (("bin", "sub", V("a"), V("b")), ("bin", "mul", V("a"), V("b")), ("pre", "neg", V("a")), ("bin", "shl", V("b"), V("a")),
                    ("at", ("array", [I(1), I(2)]), V("a"))):
            T.append([mk2, ("destruct", ["a", "b"], ("call", V("mk"), [arg])), use])
            T.append([mk2, ("fndecl", "g", [("p", TV)], ("any",), [("destruct", ["a", "b"], V("p")), ("return", use)]), ("call", V("g"), [("call", V("mk"), [arg])])])
        T.append([("set", "ts", ("array", [("tuple", [I(2), I(3)]), ("tuple", [("s", "s"), I(2), I(3)])])),
                  ("destruct", ["a", "b"], ("at", V("ts"), I(0 if arg == ("true",) else 1))), ("bin", "sub", V("a"), V("b"))])
    # stray signals after constant-condition loops and in function bodies
    for cond in (("true",), ("false",)):
        for sig in (("break",), ("continue",)):
            body = ("block", [("break",)])
            T.append([("while", cond, body), sig, I(1)])
            T.append([("set", "x", I(1)), ("while", cond, body), ("if", ("bin", "gt", V("x"), I(0)), ("block", [sig]), None), V("x")])
            T.append([("fndecl", "f", [("n", INT)], INT, [("while", cond, body), ("if", ("bin", "gt", V("n"), I(0)), ("block", [sig]), None), ("return", V("n"))]),
                      ("bin", "add", call("f", I(0)), call("f", I(1)))])
            T.append([("fndecl", "f", [("n", INT)], INT, [("loop", ("block", [("break",)])), sig, ("return", V("n"))]), call("f", I(1))])
            T.append([("for", "k", ("post", "iter", ("array", [I(1)])), ("block", [])), sig, I(1)])
            T.append([("fndecl", "f", [], INT, [("for", "k", ("post", "iter", ("array", [I(1)])), ("block", [("set", "g", ("fn", [], INT, [sig, ("return", I(1))])), ("call", V("g"), [])])), ("return", I(2))]), call("f", I(0))[:2] + ([],)])
    # a signal in the ITERATOR expression of a `for` (evaluated once, before the loop exists): block, module, branch, arm
    for sig in (("break",), ("continue",)):
        for it in (("block", [sig, ("array", [I(1)])]),
                   ("facc", ("mod", [("set", "it", ("array", [I(1), I(2)])), sig]), "it"),
                   ("facc", ("mod", [("set", "it", ("array", [I(1), I(2)])), ("if", ("bin", "eq", ("at", V("it"), I(0)), I(1)), ("block", [sig]), None)]), "it"),
                   ("if", ("bin", "eq", I(1), I(1)), ("block", [sig, ("array", [I(1)])]), ("block", [("array", [I(2)])])),
                   ("match", I(1), [("val", [I(1)], ("block", [sig, ("array", [I(1)])])), ("other", ("block", [("array", [I(2)])]))])):
            loop = ("for", "k", ("post", "iter", it), ("block", []))
            T.append([loop, I(1)])
            T.append([("fndecl", "f", [("n", INT)], INT, [loop, ("return", V("n"))]), call("f", I(1))])
            T.append([("set", "g", ("fn", [("n", INT)], INT, [("block", [loop]), ("return", V("n"))])), ("call", V("g"), [I(1)])])
    T.append([("return", I(1))])
    T.append([("block", [("return", I(1))]), I(2)])
    T.append([("set", "m", ("mod", [("return", I(1))])), I(2)])
    return T


def assignment_templates():
    """a store whose value lies outside the cell's content type: plain `=` and every compound `op=` whose result type is
    wider than (or unrelated to) the content type - through the declared and the inferred `mut`, a parameter and a
    captured cell; each is read back afterwards"""
    T = []
    F = lambda x: ("f", x)
    cases = [
        (arr(INT), ("array", [I(1)]), ("array", [F(2.5)]), ("add", "set")),
        (arr(INT), ("array", []), ("array", [("s", "x")]), ("add", "set")),
        (arr(arr(INT)), ("array", [("array", [I(1)])]), ("array", [("array", [F(2.5)])]), ("add", "set")),
        (arr(multi(INT, FLOAT)), ("array", [I(1), F(0.5)]), ("array", [("s", "x")]), ("add", "set")),
        (INT, I(1), F(2.5), ("set", "add", "sub", "mul", "div", "pow")),
        (FLOAT, F(1.5), I(2), ("set", "add", "sub", "mul", "div", "pow")),
        (STR, ("s", "a"), I(1), ("set", "add")),
        (STR, ("s", "a"), ("array", [("s", "b")]), ("set", "add")),
        (INT, I(1), ("s", "x"), ("set", "add", "mul")),
        (INT, I(6), ("true",), ("set", "band", "bor", "bxor")),
        (BOOL, ("true",), I(1), ("set", "band", "bor", "bxor")),
        (multi(INT, STR), I(1), F(2.5), ("set",)),
        # a content type that is a UNION of array / string types: the right side alone may fit the union although the result
        # of `*c + rhs` (an array of the joined element type) does not
        (multi(arr(INT), arr(FLOAT)), ("array", [F(1.5)]), ("array", [I(1)]), ("add",)),
        (multi(arr(INT), arr(FLOAT)), ("array", [I(1)]), ("array", [F(1.5)]), ("add",)),
        (multi(arr(INT), arr(STR)), ("array", [("s", "a")]), ("array", [I(1)]), ("add",)),
        (multi(arr(INT), STR), ("s", "a"), ("array", [I(1)]), ("add",)),
        (multi(arr(INT), STR), ("array", [I(1)]), ("s", "a"), ("add",)),
        (multi(arr(arr(INT)), arr(arr(FLOAT))), ("array", [("array", [I(1)])]), ("array", [("array", [F(0.5)])]), ("add",)),
        (multi(INT, FLOAT), I(1), F(2.5), ("add", "sub", "mul", "div", "pow")),
        (multi(INT, FLOAT), F(1.5), I(2), ("add", "sub", "mul", "div", "pow")),
    ]
    for ct, init, rhs, ops in cases:
        for op in ops:
            st = ("assign", op, V("m"), rhs)
            rd = ("pre", "deref", V("m"))
            T.append([("set", "m", ("mut", ct, init)), st, rd])
            T.append([("set", "m", ("mut", None, init)), st, rd])
            T.append([("fndecl", "g", [("m", cell(ct))], ANY, [st, ("return", rd)]), ("call", V("g"), [("mut", ct, init)])])
            T.append([("set", "m", ("mut", ct, init)), ("fndecl", "g", [], ANY, [st, ("return", rd)]), ("tuple", [("call", V("g"), []), rd])])
    # the TARGET is statically a UNION of cell types with different contents (`mut A | mut B`: an element of an array of
    # cells, a function result, an if-expression): only a value that fits EVERY member may be stored through it - a right
    # side of type A, B, or exactly the content union A | B fits one member and not the other
    FL = lambda x: ("f", x)
    pairs = [(INT, I(1), I(2), FLOAT, FL(1.5), FL(2.5)), (INT, I(1), I(2), STR, ("s", "a"), ("s", "b")),
             (arr(INT), ("array", [I(1)]), ("array", [I(2)]), arr(FLOAT), ("array", [FL(1.5)]), ("array", [FL(2.5)]))]
    for (ta, a1, a2, tb, b1, b2) in pairs:
        pre = [("set", "ca", ("mut", ta, a1)), ("set", "cb", ("mut", tb, b1)), ("set", "vals", ("array", [a2, b2]))]
        mu = multi(cell(ta), cell(tb))
        pick = ("fndecl", "pick", [("k", INT)], mu, [("if", ("bin", "eq", V("k"), I(0)), ("block", [("return", V("ca"))]), None), ("return", V("cb"))])
        rd = ("tuple", [("pre", "deref", V("ca")), ("pre", "deref", V("cb"))])
        for k in (0, 1):
            targets = [("at", ("array", [V("ca"), V("cb")]), I(k)), ("call", V("pick"), [I(k)]),
                       ("if", ("bin", "eq", ("at", ("array", [I(0), I(1)]), I(k)), I(0)), ("block", [V("ca")]), ("block", [V("cb")]))]
            for tg in targets:
                for rhs in (("at", V("vals"), I(1 - k)), ("at", V("vals"), I(k)), a2, b2):
                    for op in ("set", "add"):
                        T.append(pre + [pick, ("assign", op, tg, rhs), rd])
                        T.append(pre + [pick, ("fndecl", "g", [], ANY, [("assign", op, tg, rhs), ("return", rd)]), ("call", V("g"), [])])
    return T


def union_operand_templates():
    """an operand whose static type is a union (or `any`) of which only ONE member is admissible for the position, holding
    the other member at run time: every operand position that the implementation later unwraps.  The checker must reject
    each (admissibility is `matches`, not `is matched by`); whatever it accepts must not panic or leave its types"""
    T = []
    F = lambda x: ("f", x)
    S = lambda x: ("s", x)
    ARR = ("array", [I(1), I(2), I(3)])
    n = V("n")
    blk = lambda *st: ("block", list(st))
    want_int = [
        ("repeat", I(0), n), ("repeat", n, I(2)) , ("at", ARR, n), ("at", S("abc"), n),
        ("slice", ARR, n, None, None), ("slice", ARR, None, n, None), ("slice", ARR, None, None, n), ("slice", S("abcd"), n, n, n),
    ] + [("bin", op, n, I(1)) for op in ("add", "sub", "mul", "div", "mod", "pow", "shl", "shr", "band", "bor", "bxor", "lt", "le", "gt", "ge")] + \
        [("bin", op, I(1), n) for op in ("add", "sub", "mul", "div", "mod", "pow", "shl", "shr", "band", "bor", "bxor", "lt", "le", "gt", "ge")] + \
        [("pre", "neg", n), ("call", V("inc"), [n]), ("tacc", ("tuple", [n, I(1)]), 0),
         ("assign", "add", V("c"), n), ("assign", "set", V("c"), n), ("assign", "shl", V("c"), n), ("assign", "div", V("c"), n),
         ("array", [I(1), ("bin", "add", n, I(1))])]
    int_unions = [(multi(INT, FLOAT), F(2.5)), (multi(INT, STR), S("x")), (multi(INT, VOID), ("unit",)), (ANY, S("x")), (ANY, F(2.5)),
                  (multi(INT, arr(INT)), ("array", [I(1)]))]
    pre = [("fndecl", "inc", [("v", INT)], INT, [("return", ("bin", "add", V("v"), I(1)))]), ("set", "c", ("mut", INT, I(6)))]
    for e in want_int:
        for u, bad in int_unions:
            T.append(pre + [("fndecl", "g", [("n", u)], ANY, [("return", e)]), ("call", V("g"), [bad])])
    want_bool = [("pre", "not", n), ("and", n, ("true",)), ("and", ("true",), n), ("or", n, ("false",)), ("or", ("false",), n),
                 ("if", n, blk(I(1)), blk(I(2))), ("while", n, blk(("break",))), ("bin", "band", n, ("true",)), ("bin", "bxor", ("true",), n),
                 ("post", "all", ("post", "iter", ("array", [("true",), n])))]
    for e in want_bool:
        for u, bad in ((multi(BOOL, INT), I(1)), (multi(BOOL, VOID), ("unit",)), (ANY, I(1)), (ANY, S("x"))):
            T.append([("fndecl", "g", [("n", u)], ANY, [("return", e) if e[0] != "while" else e, ("return", I(0))]), ("call", V("g"), [bad])])
    want_arr = [("at", n, I(0)), ("slice", n, I(0), None, None), ("post", "iter", n), ("bin", "add", n, ARR), ("bin", "add", ARR, n),
                ("for", "x", ("post", "iter", n), blk(V("x"))), ("post", "sum", ("post", "iter", n)), ("destruct", ["p", "q"], n)]
    for e in want_arr:
        for u, bad in ((multi(arr(INT), INT), I(5)), (multi(arr(INT), VOID), ("unit",)), (ANY, I(5)), (multi(arr(INT), tup(INT, INT)), ("tuple", [I(1), I(2)]))):
            T.append([("fndecl", "g", [("n", u)], ANY, [e, ("return", I(0))] if e[0] in ("for", "destruct") else [("return", e)]), ("call", V("g"), [bad])])
    want_fn = [("call", n, [I(1)]), ("bin", "map", ("post", "iter", ARR), n), ("bin", "filter", ("post", "iter", ARR), n),
               ("bin", "partition", ("post", "iter", ARR), n), ("reduce", ("post", "iter", ARR), I(0), n)]
    for e in want_fn:
        for u, bad in ((multi(fn((INT,), INT), INT), I(5)), (ANY, I(5)), (multi(fn((INT,), INT), fn((INT, INT), INT)), ("fn", [("a", INT), ("b", INT)], INT, [("return", V("a"))])),
                       (multi(fn((INT,), BOOL), fn((INT,), INT)), ("fn", [("a", INT)], INT, [("return", V("a"))]))):
            T.append([("fndecl", "g", [("n", u)], ANY, [("return", e if e[0] in ("call", "reduce") or e[2] == "partition" else ("post", "collect", e))]), ("call", V("g"), [bad])])
    want_iter = [("post", op, n) for op in ("sum", "product", "bitand", "bitor", "collect")] + [("for", "x", n, blk(V("x"))), ("tfilter", n, INT),
                 ("bin", "map", n, V("inc")), ("reduce", n, I(0), ("fn", [("a", INT), ("b", INT)], INT, [("return", V("a"))]))]
    for e in want_iter:
        for u, bad in ((multi(iter_of(INT), INT), I(5)), (multi(iter_of(INT), arr(INT)), ARR), (ANY, ARR),
                       (multi(iter_of(INT), iter_of(STR)), ("post", "iter", ("array", [S("a")]))),
                       (multi(iter_of(INT), fn((), INT)), ("fn", [], INT, [("return", I(1))]))):
            T.append(pre[:1] + [("fndecl", "g", [("n", u)], ANY, [e, ("return", I(0))] if e[0] == "for" else [("return", e if e[0] not in ("tfilter", "bin") else ("post", "collect", e))]),
                                ("call", V("g"), [bad])])
    want_cell = [("pre", "deref", n), ("assign", "set", n, I(1)), ("assign", "add", n, I(1)), ("assign", "div", n, I(1))]
    for e in want_cell:
        for u, bad in ((multi(cell(INT), INT), I(5)), (ANY, I(5)), (multi(cell(INT), cell(STR)), ("mut", STR, S("a"))),
                       (multi(cell(INT), cell(multi(INT, STR))), ("mut", multi(INT, STR), S("a")))):
            T.append([("fndecl", "g", [("n", u)], ANY, [("return", e)]), ("call", V("g"), [bad])])
    want_tuple = [("tacc", n, 0), ("tacc", n, 1), ("destruct", ["p", "q"], n)]
    for e in want_tuple:
        for u, bad in ((multi(tup(INT, INT), INT), I(5)), (ANY, I(5)), (multi(tup(INT, INT), tup(INT,)), None), (multi(tup(INT, INT), arr(INT)), ("array", [I(1)]))):
            if bad is None:
                continue
            T.append([("fndecl", "g", [("n", u)], ANY, [e, ("return", I(0))] if e[0] == "destruct" else [("return", e)]), ("call", V("g"), [bad])])
    ST = ("struct", (("a", INT),))
    for e in (("facc", n, "a"),):
        for u, bad in ((multi(ST, INT), I(5)), (ANY, I(5)), (multi(ST, ("struct", (("b", INT),))), ("struct", [("b", I(1))]))):
            T.append([("fndecl", "g", [("n", u)], ANY, [("return", e)]), ("call", V("g"), [bad])])
    return T


def union_call_templates():
    """a call through a union of function types, or a store through a union of cell types, with a value that only ONE
    member admits, the OTHER member being the one picked at run time: the admissible argument / content type of a union is
    the meet of the members' (conjoin), so each of these must be rejected"""
    T = []
    F = lambda x: ("f", x)
    S = lambda x: ("s", x)
    SA, SB = ("struct", (("a", INT),)), ("struct", (("b", INT),))
    cases = [
        (SA, SB, ("struct", [("a", I(1))]), ("struct", [("b", I(2))])), (SA, SB, ("struct", []), ("struct", [("b", I(2))])),
        (SA, ("struct", (("a", STR),)), ("struct", [("a", I(1))]), ("struct", [("a", S("x"))])),
        (INT, STR, I(1), S("x")), (arr(INT), arr(STR), ("array", [I(1)]), ("array", [S("x")])),
        (tup(INT, INT), tup(INT, STR), ("tuple", [I(1), I(2)]), ("tuple", [I(1), S("x")])),
        (multi(INT, STR), multi(INT, FLOAT), S("x"), F(2.5)), (cell(INT), cell(multi(INT, FLOAT)), ("mut", INT, I(1)), ("mut", multi(INT, FLOAT), F(2.5))),
        (fn((INT,), INT), fn((STR,), INT), ("fn", [("q", INT)], INT, [("return", V("q"))]), ("fn", [("q", STR)], INT, [("return", I(0))])),
    ]
    for A_, B_, xa, xb in cases:
        fu = multi(fn((A_,), INT), fn((B_,), INT))
        T.append([("fndecl", "fa", [("s", A_)], INT, [("return", I(1))]),
                  ("fndecl", "fb", [("s", B_)], INT, [("set", "t", V("s")), ("return", I(2))]),
                  ("fndecl", "pick", [("c", BOOL)], fu, [("if", V("c"), ("block", [("return", V("fa"))]), None), ("return", V("fb"))]),
                  ("set", "h", ("call", V("pick"), [("false",)])), ("call", V("h"), [xa])])
        # the same with the picked member USING its parameter at its own type (what goes wrong at run time if the call is accepted)
        use = {repr(STR): ("bin", "add", V("s"), S("x")), repr(arr(STR)): ("bin", "add", ("at", V("s"), I(0)), S("x")),
               repr(tup(INT, STR)): ("bin", "add", ("tacc", V("s"), 1), S("x")), repr(SB): ("bin", "add", ("facc", V("s"), "b"), I(1)),
               repr(("struct", (("a", STR),))): ("bin", "add", ("facc", V("s"), "a"), S("x")),
               repr(cell(multi(INT, FLOAT))): ("assign", "set", V("s"), F(2.5))}.get(repr(B_))
        if use is not None:
            pre = [("set", "arg", xa)]
            after = [("bin", "add", ("pre", "deref", V("arg")), I(1))] if B_[0] == "cell" else [V("r")]
            T.append(pre + [("fndecl", "fa", [("s", A_)], INT, [("return", I(1))]),
                            ("fndecl", "fb", [("s", B_)], INT, [("set", "t", use), ("return", I(2))]),
                            ("fndecl", "pick", [("c", BOOL)], fu, [("if", V("c"), ("block", [("return", V("fa"))]), None), ("return", V("fb"))]),
                            ("set", "h", ("call", V("pick"), [("false",)])), ("set", "r", ("call", V("h"), [V("arg")]))] + after)
        cu = multi(cell(A_), cell(B_))
        T.append([("set", "ca", ("mut", A_, xa)), ("set", "cb", ("mut", B_, xb)),
                  ("fndecl", "pick", [("c", BOOL)], cu, [("if", V("c"), ("block", [("return", V("ca"))]), None), ("return", V("cb"))]),
                  ("set", "p", ("call", V("pick"), [("false",)])), ("assign", "set", V("p"), xa), ("pre", "deref", V("cb"))])
    return T


def mutants(rnd, progs, per_prog=2):
    out = []
    for p in progs:
        for _ in range(per_prog):
            k = rnd.choice(["signal", "signal", "type", "type", "scope"])
            try:
                m = stray_signal(rnd, p) if k == "signal" else type_error(rnd, p) if k == "type" else scope_escape(rnd, p)
            except Exception:
                m = None
            if m is not None:
                out.append((k, m))
    return out


def coverage_templates():
    """`match` without a default arm whose type arms split a union that sits INSIDE a type constructor (element type of an
    array, content of a cell, a tuple component, a struct field, a function's result): `[int | float]` is not `[int] | [float]`
    - a value mixing the members has the outer type and none of the arms' types.  The checker must reject these matches; one it
    accepts is run on such a value (no arm covers it: the interpreter's `panic!()` after the arms)."""
    T = []
    A, B = INT, FLOAT
    va, vb = I(1), ("f", 2.5)
    U = multi(A, B)
    arm = lambda t, k: ("ty", "x", t, ("block", [I(k)]))
    idf = lambda t: ("fndecl", "idu", [("v", t)], t, [("return", V("v"))])
    shapes = [
        (arr(U), [arr(A), arr(B)], ("array", [va, vb])),
        (arr(arr(U)), [arr(arr(A)), arr(arr(B))], ("array", [("array", [va, vb])])),
        (tup(arr(U), INT), [tup(arr(A), INT), tup(arr(B), INT)], ("tuple", [("array", [va, vb]), I(0)])),
        (arr(tup(U, INT)), [arr(tup(A, INT)), arr(tup(B, INT))], ("array", [("tuple", [va, I(0)]), ("tuple", [vb, I(0)])])),
        (cell(U), [cell(A), cell(B)], ("mut", U, va)),
        (arr(cell(U)), [arr(cell(A)), arr(cell(B))], ("array", [("mut", U, va)])),
        (("struct", (("k", arr(U)),)), [("struct", (("k", arr(A)),)), ("struct", (("k", arr(B)),))], ("struct", [("k", ("array", [va, vb]))])),
        (multi(INT, arr(multi(INT, STR))), [INT, arr(INT), arr(STR)], ("array", [I(1), ("s", "a")])),
    ]
    for ty, arms, val in shapes:
        m = lambda scrut: ("match", scrut, [arm(t, k + 1) for k, t in enumerate(arms)])
        # the scrutinee's static type comes from a declared parameter / result type, the value mixes the members
        T.append([idf(ty), ("set", "a", ("call", V("idu"), [val])), ("set", "r", m(V("a"))), V("r")])
        T.append([("fndecl", "g", [("a", ty)], INT, [("return", m(V("a")))]), ("call", V("g"), [val])])
        # arms in the other order, and with a value arm in front (value arms never count towards coverage)
        T.append([idf(ty), ("set", "a", ("call", V("idu"), [val])),
                  ("set", "r", ("match", V("a"), [arm(t, k + 1) for k, t in reversed(list(enumerate(arms)))])), V("r")])
    # the scrutinee typed by an array literal / concatenation itself
    T.append([("set", "a", ("array", [va, vb])), ("match", V("a"), [arm(arr(A), 1), arm(arr(B), 2)])])
    T.append([("set", "n", ("pre", "deref", ("mut", INT, I(1)))), ("set", "a", ("bin", "add", ("array", [V("n")]), ("array", [vb]))),
              ("match", V("a"), [arm(arr(A), 1), arm(arr(B), 2)])])
    return T
