#!/usr/bin/env python3
"""Confirm a seeded change (from a sub-agent's scratch worktree) and run the checks against it.
usage: seedcheck.py <seed-id> <property> [more properties to run...]   (seed dir: /tmp/seed/<seed-id>/out)"""
import json, os, shutil, subprocess, sys, time
V = os.path.dirname(os.path.dirname(os.path.abspath(__file__)))
sid, props = sys.argv[1], sys.argv[2:]
src = "/tmp/seed/%s/out" % sid
if not os.path.isdir(src):
    src = "/tmp/seed_%s/seed_out" % sid
if os.environ.get("SEED_SRC"):
    src = os.environ["SEED_SRC"]
dst = os.path.join(V, "seeded", sid)
os.makedirs(dst, exist_ok=True)
for f in ("patch.diff", "demo.rs", "notes.md"):
    if os.path.exists(os.path.join(src, f)):
        shutil.copy(os.path.join(src, f), os.path.join(dst, f))
patch = os.path.join(dst, "patch.diff")
wt = "/tmp/sv_%s" % sid
def sh(cmd, cwd=None, timeout=1800):
    p = subprocess.run(cmd, shell=True, cwd=cwd, capture_output=True, text=True, timeout=timeout)
    return p.returncode, (p.stdout + p.stderr)
meta = dict(seed=sid, breaks=props[0], ran=[])
_old_meta = os.path.join(dst, "meta.json")
KEEP = {}
if os.path.exists(_old_meta):
    try:
        _o = json.load(open(_old_meta))
        KEEP = {k: _o[k] for k in ("needs_to_manifest", "first_attempt", "source", "suite_note") if k in _o}
    except Exception:
        pass
sh("git -C /repo worktree remove --force %s" % wt)
rc, out = sh("git -C /repo worktree add -q %s HEAD" % wt)
env = "CARGO_TARGET_DIR=%s/target CARGO_NET_OFFLINE=true" % wt
rc, out = sh("git apply %s" % patch, cwd=wt)
meta["patch_applies"] = rc == 0
if rc != 0:
    print("PATCH DOES NOT APPLY:", out[-500:])
rc, out = sh("%s cargo build --offline --features verif 2>&1 | tail -3" % env, cwd=wt)
rc, out = sh("%s cargo test --workspace --no-fail-fast --offline 2>&1 | grep -E '^test result|FAILED|error(\\[|:)' " % env, cwd=wt)
meta["suite_with_change"] = out.strip().splitlines()
suite_ok = "FAILED" not in out and "error" not in out and "test result: ok" in out
shutil.copy(os.path.join(dst, "demo.rs"), os.path.join(wt, "tests", "seed_demo.rs"))
rc1, out1 = sh("%s cargo test --offline --test seed_demo 2>&1 | grep -E '^test result|panicked|FAILED' | head -8" % env, cwd=wt)
demo_fails = "FAILED" in out1 or "failed" in out1
sh("git apply -R %s" % patch, cwd=wt)
rc2, out2 = sh("%s cargo test --offline --test seed_demo 2>&1 | grep -E '^test result|panicked|FAILED' | head -8" % env, cwd=wt)
demo_passes_clean = "test result: ok" in out2 and "FAILED" not in out2
meta.update(suite_passes_with_change=suite_ok, demo_fails_with_change=demo_fails, demo_passes_without=demo_passes_clean,
            demo_with=out1.strip()[:400], demo_without=out2.strip()[:300])
sh("git -C /repo worktree remove --force %s" % wt)
print("confirm: suite_ok=%s demo_fails=%s demo_passes_clean=%s" % (suite_ok, demo_fails, demo_passes_clean))
# run the checks against the change
rc, out = sh("git -C /repo apply %s" % patch)
if rc != 0:
    print("cannot apply to /repo:", out)
else:
    try:
        for p in props:
            t0 = time.time()
            rc, out = sh("python3 tools/check.py %s --tier quick" % p, cwd=V, timeout=3000)
            viol = [l for l in out.splitlines() if l.startswith("VIOLATION")]
            first = ""
            lines = out.splitlines()
            for i, l in enumerate(lines):
                if l.startswith("VIOLATION") and i + 1 < len(lines):
                    first = lines[i + 1].strip()[:300]
                    break
            meta["ran"].append(dict(check=p, rc=rc, violations=len(viol), first=first, wall=round(time.time() - t0, 1),
                                    no_failing_input=any("no-failing-input-found" in v for v in viol)))
            print("check %s rc=%d violations=%d %s" % (p, rc, len(viol), first[:200]))
    finally:
        sh("git -C /repo checkout -- .")
        print("repo restored:", sh("git -C /repo status --short")[1].strip() or "clean")
        # the harness binary in .cache was built from the changed tree: rebuild it from the restored one
        sh("python3 -c \"import sys; sys.path.insert(0, 'tools'); import vlib; vlib.build_harness()\"", cwd=V)
meta["detected_by"] = [r["check"] for r in meta["ran"] if r["rc"] == 1]
meta.update({k: v for k, v in KEEP.items() if k not in meta})
json.dump(meta, open(os.path.join(dst, "meta.json"), "w"), indent=1)
