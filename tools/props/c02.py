"""C02 — accepted programs do not go wrong.  Proof: SslModel.Thm.C02 (operators, indexing, slicing
and prefix operators are never `wrong` on admitted operand kinds; signals are contained; the error
enumeration).  Decision for the running code: panic hook + catch_unwind + worker exit status on
generated programs, iterator-heavy programs and host calls (admissible and inadmissible vectors)."""
import random

import progprop
import progstream as P
from gen import mutants
from gen.programs import INT, BOOL, STR, FLOAT, VOID, tup, fn, iter_of, arr, cell, multi
from props import c07, c01, c06, c11, c12, c13

THM_MODULES = ["SslModel.Thm.C02", "SslModel.Thm.C02Eval", "SslModel.Thm.C01Fn", "SslModel.Thm.C01StD"]
TRANSLATE_PARTS = ["scalar", "errors"]


def negative_stream(res, rnd, tier, seed, prop):
    """ill-formed variants (stray break / continue / return, one deliberate type error, a name used after its
    scope, narrowed names used where they are not narrowed): the checker should reject them; whatever it
    accepts must still run without panic (C02) and without leaving its static types (C01)"""
    base, _ = P.generate(seed + 11, 150 if tier == "quick" else 4000, max_depth=3, features=dict(mark=0.0))
    if prop == "C13":
        # typed content of cells: only the stores of a value outside the cell's content type
        muts = [("assign-template", t) for t in mutants.assignment_templates()] + \
            [("union-call-template", t) for t in mutants.union_call_templates()]
    else:
        muts = [("template", t) for t in mutants.narrowing_templates()] + \
            [("coverage-template", t) for t in mutants.coverage_templates()] + \
            [("assign-template", t) for t in mutants.assignment_templates()] + \
            [("union-operand-template", t) for t in mutants.union_operand_templates()] + \
            [("union-call-template", t) for t in mutants.union_call_templates()] + mutants.mutants(rnd, base, 2)
    recs = P.run_programs([m for _, m in muts], broken_model=True)
    res.streams["negative"] = dict(programs=len(muts))
    acc = 0
    for (kind, _), r in zip(muts, recs):
        res.evaluations += 1
        res.count("negative:%s:%s" % (kind, "rejected" if r.status.startswith("rejected") else r.status))
        if r.status.startswith("rejected"):
            continue
        acc += 1
        res.nontrivial.add(r.src)
        if r.status == "parse-panic":
            if prop in ("C02", "C03"):
                res.violation("parsing panics (%s) on `%s`" % (r.impl, r.src[:300]), dict(program=r.src, flags=r.flags, impl=r.impl),
                              dict(oracle="parse-panic", site=r.impl))
        elif r.status == "exec-panic" and prop == "C02":
            res.violation("an ill-formed program (%s) is accepted and panics at %s: `%s`" % (kind, r.panic_at, r.src[:400]),
                          dict(program=r.src, flags=r.flags, impl=r.impl),
                          dict(oracle="panic", root=progprop.root_of(r) or ("site:" + str(r.panic_at)), rootcls=progprop.root_class(r)))
        elif prop in ("C01", "C13") and progprop.root_class(r) is not None:
            res.violation("an ill-formed program (%s) is accepted and a value leaves its static type: %s in `%s`" %
                          (kind, r.impl[-300:], r.src[:300]), dict(program=r.src, flags=r.flags, impl=r.impl),
                          dict(oracle="monitor", rootcls=progprop.root_class(r)))
        elif prop in ("C01", "C13") and "(value " in r.impl and ("tag=0" in r.impl or "content=0" in r.impl):
            res.violation("an ill-formed program (%s) is accepted and its final value is outside the static type %s: `%s` -> %s" %
                          (kind, r.static, r.src[:300], r.impl[:200]), dict(program=r.src, flags=r.flags, impl=r.impl),
                          dict(oracle="final-type", cls=str(r.static)[:40]))
        elif r.status == "impl-crash":
            res.violation("implementation crashed or hung (%s) on `%s`" % (r.impl[:60], r.src[:300]),
                          dict(program=r.src, flags=r.flags, impl=r.impl), dict(oracle="crash", cls=r.impl[:20]))
    res.count("negative:accepted-anyway", acc)


def never_function_templates():
    """a function that never returns (`() -> !`) matches every function type: handed over as an iterator, a callback or a
    plain function it must be usable wherever that type is - creating (not pulling) every derived iterator included
    (F26, F27: `@`, `? f`, `? T` parsed their helpers against the run-time type)"""
    I = lambda n: ("i", n)
    V = lambda x: ("id", x)
    G = ("fndecl", "g", [], ("never",), [("return", ("call", V("g"), []))])
    G1 = ("fndecl", "g1", [("v", INT)], ("never",), [("return", ("call", V("g1"), [V("v")]))])
    IT = iter_of(multi(INT, STR))
    inc = ("fn", [("v", multi(INT, STR))], INT, [("return", I(1))])
    pos = ("fn", [("v", multi(INT, STR))], BOOL, [("return", ("true",))])
    T = []
    for e in (("bin", "map", V("it"), inc), ("bin", "filter", V("it"), pos), ("tfilter", V("it"), INT), ("tfilter", V("it"), multi(INT, STR)),
              ("bin", "map", ("bin", "filter", V("it"), pos), inc), ("tfilter", ("bin", "map", V("it"), inc), INT)):
        T.append([G, ("fndecl", "f", [("it", IT)], ("any",), [("set", "x", e), ("return", I(1))]), ("call", V("f"), [V("g")])])
        T.append([G, ("set", "it", V("g")), ("set", "x", e), I(2)])
    # as a callback: created, never called because the source is empty
    src0 = ("post", "iter", ("repeat", I(0), I(0)))
    for rt, e in ((INT, ("post", "collect", ("bin", "map", src0, V("cb")))), (BOOL, ("post", "collect", ("bin", "filter", src0, V("cb")))),
                  (BOOL, ("bin", "partition", src0, V("cb"))), (INT, ("post", "sum", ("bin", "map", src0, V("cb")))),
                  (BOOL, ("post", "all", ("bin", "map", src0, V("cb"))))):
        T.append([G1, ("fndecl", "f", [("cb", fn((INT,), rt))], ("any",), [("return", e)]), ("call", V("f"), [V("g1")])])
    # destructuring / conditions on a diverging expression inside a function that is never called
    T.append([G, ("fndecl", "h", [], INT, [("destruct", ["a", "b"], ("call", V("g"), [])), ("return", ("bin", "add", V("a"), V("b")))]), I(3)])
    T.append([G, ("fndecl", "h", [], INT, [("if", ("call", V("g"), []), ("block", [("return", I(1))]), None), ("return", I(2))]), I(3)])
    return T


def run(res, tier, seed, broken_model):
    rnd = random.Random(seed + 7)
    feats = dict(mark=0.1, weights=dict(useriter=16, fndecl=14, capture=8))
    recs, good = progprop.stream(res, tier, seed + 7, broken_model, 700, 25000, features=feats,
                                 templates=never_function_templates() + c06.templates() + c12.templates()[::3] + c11.repeated_templates()[::4] + c07.templates()[::5], label="programs", depth=3)
    n = 200 if tier == "quick" else 6000
    pipes = [c11.Pipe(rnd).build() for _ in range(n)] + [c13.history(rnd, rnd.randint(3, 20)) for _ in range(n // 2)]
    precs = P.run_programs(pipes, broken_model=broken_model)
    res.streams["pipelines+histories"] = dict(programs=len(pipes))
    progprop.judge(res, precs, broken_model, label="pipes")
    negative_stream(res, rnd, tier, seed, "C02")
    c01.host_calls(res, rnd, 80 if tier == "quick" else 2000, broken_model, "C02")
    fuel = sum(1 for r in recs + precs if r.status == "inconclusive-fuel")
    res.count("inconclusive-fuel", fuel)
    res.rule = ("seeded type-directed programs (all statement and expression forms, user-written iterators that declare names, "
                "recursion by name, break / continue / return at depth), scoping and control-flow templates, iterator pipelines, "
                "assignment histories with failing operators, host calls with admissible and inadmissible argument vectors; the "
                "oracle is: no panic, no crash; fuel exhaustion is counted as inconclusive; non-trivial = distinct accepted program that ran")
