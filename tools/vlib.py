"""Shared machinery for the per-property checks (see DESIGN.md §4)."""
import json
import os
import re
import shutil
import subprocess
import sys
import time

VERIF = os.path.dirname(os.path.dirname(os.path.abspath(__file__)))
REPO = os.environ.get("VERIF_REPO", "/repo")
LEAN = os.path.join(VERIF, "lean")
HARNESS = os.path.join(VERIF, "harness")
CACHE = os.path.join(VERIF, ".cache")
TARGET = os.path.join(CACHE, "harness-target")
HARNESS_BIN = os.path.join(TARGET, "debug", "sslh")
DRIVER_BIN = os.path.join(LEAN, ".lake", "build", "bin", "driver")
OUT = os.path.join(VERIF, "out")
ALLOWED_AXIOMS = {"propext", "Classical.choice", "Quot.sound"}

ENV = dict(os.environ, CARGO_NET_OFFLINE="true")


def log(*a):
    print(*a, file=sys.stderr, flush=True)


# ------------------------------------------------------------------ s-expressions

_TOK = re.compile(r'\s*(\(|\)|"(?:\\.|[^"\\])*"|[^\s()"]+)')


def sexp_parse(s):
    toks = _TOK.findall(s)
    pos = 0

    def rd():
        nonlocal pos
        t = toks[pos]
        pos += 1
        if t == "(":
            out = []
            while toks[pos] != ")":
                out.append(rd())
            pos += 1
            return out
        return t

    try:
        v = rd()
    except IndexError:
        return ["<unparsable>", s]
    return v


def sexp_str(x):
    if isinstance(x, list):
        return "(" + " ".join(sexp_str(e) for e in x) + ")"
    return x


def strip_tags(v):
    """value s-expr -> content only: drop stored array element types, cell declared types,
    function types"""
    if isinstance(v, list) and v:
        h = v[0]
        if h == "arr":
            return ["arr"] + [strip_tags(e) for e in v[2:]]
        if h == "cell#":
            return ["cell#", strip_tags(v[2])] if len(v) > 2 else ["cell#"]
        if h == "fn#":
            return ["fn#"]
        if h in ("tup",):
            return [h] + [strip_tags(e) for e in v[1:]]
        if h == "struct":
            return [h] + [[f[0], strip_tags(f[1])] for f in v[1:]]
    return v


# ------------------------------------------------------------------ translate / lean

def run_translate(parts=None):
    """returns (ok, messages).  Broken ties are messages containing BROKEN-TIE."""
    if not parts:
        return True, []            # this property's models import no generated table
    cmd = [sys.executable, os.path.join(VERIF, "tools", "translate.py")] + list(parts or [])
    p = subprocess.run(cmd, capture_output=True, text=True, env=dict(ENV, VERIF_REPO=REPO))
    msgs = [l for l in p.stdout.splitlines() if l.strip()]
    if p.returncode not in (0, 2):
        msgs.append("translate crashed: " + p.stderr[-2000:])
    return p.returncode == 0, msgs


def lake_build(targets, timeout=3000):
    """returns (ok, output)"""
    cmd = ["lake", "build"] + list(targets)
    p = subprocess.run(cmd, cwd=LEAN, capture_output=True, text=True, timeout=timeout, env=ENV)
    return p.returncode == 0, p.stdout + p.stderr


def theorems_in(module):
    """names of `theorem` declarations of a Thm module, with their namespace"""
    path = os.path.join(LEAN, *module.split(".")) + ".lean"
    src = open(path, encoding="utf-8").read()
    ns = []
    out = []
    for line in src.splitlines():
        m = re.match(r"^namespace\s+(\S+)", line)
        if m:
            ns.append(m.group(1))
            continue
        m = re.match(r"^end\s+(\S+)", line)
        if m and ns and ns[-1] == m.group(1):
            ns.pop()
            continue
        m = re.match(r"^(?:private\s+|protected\s+)?theorem\s+(\S+)", line)
        if m:
            out.append(".".join(ns + [m.group(1)]))
    return out, src


FORBIDDEN = re.compile(r"\bsorry\b|\badmit\b|^axiom\s|native_decide|bv_decide|implemented_by|\bunsafe\s|maxHeartbeats\s+0")


def forbidden_hits():
    hits = []
    for root, _, files in os.walk(LEAN):
        if ".lake" in root:
            continue
        for f in files:
            if not f.endswith(".lean"):
                continue
            p = os.path.join(root, f)
            in_block = 0
            for n, line in enumerate(open(p, encoding="utf-8"), 1):
                # crude comment stripping: block comments and line comments
                text = line
                if in_block:
                    if "-/" in text:
                        text = text.split("-/", 1)[1]
                        in_block = 0
                    else:
                        continue
                while "/-" in text:
                    before, after = text.split("/-", 1)
                    if "-/" in after:
                        text = before + after.split("-/", 1)[1]
                    else:
                        text = before
                        in_block = 1
                text = text.split("--", 1)[0]
                if FORBIDDEN.search(text):
                    hits.append("%s:%d: %s" % (os.path.relpath(p, LEAN), n, line.strip()))
    return hits


def failed_theorems(module, build_output):
    """map error line numbers in a module's build output to theorem names"""
    path = "/".join(module.split(".")) + ".lean"
    names, src = theorems_in(module)
    lines = src.splitlines()
    starts = []
    for i, l in enumerate(lines, 1):
        m = re.match(r"^(?:private\s+|protected\s+)?(theorem|example|def|lemma)\s+(\S*)", l)
        if m:
            starts.append((i, m.group(1), m.group(2)))
    bad = set()
    for m in re.finditer(r"error: %s:(\d+):(\d+)" % re.escape(path), build_output):
        ln = int(m.group(1))
        cur = None
        for s in starts:
            if s[0] <= ln:
                cur = s
        if cur:
            bad.add(cur[2] or "example@%d" % cur[0])
    return sorted(bad)


def audit_axioms(module):
    """returns dict theorem -> sorted axiom list (via `#print axioms`)"""
    names, _ = theorems_in(module)
    os.makedirs(os.path.join(LEAN, ".lake", "audit"), exist_ok=True)
    f = os.path.join(LEAN, ".lake", "audit", module.replace(".", "_") + ".lean")
    with open(f, "w") as fh:
        fh.write("import %s\n" % module)
        for n in names:
            fh.write("#print axioms %s\n" % n)
    p = subprocess.run(["lake", "env", "lean", f], cwd=LEAN, capture_output=True, text=True, env=ENV)
    out = p.stdout + p.stderr
    res = {}
    for m in re.finditer(r"'([^']+)' (depends on axioms: \[([^\]]*)\]|does not depend on any axioms)", out):
        ax = [a.strip() for a in (m.group(3) or "").replace("\n", " ").split(",") if a.strip()]
        res[m.group(1)] = sorted(ax)
    missing = [n for n in names if n not in res]
    return res, missing, out


# ------------------------------------------------------------------ harness / driver

def build_harness():
    os.makedirs(CACHE, exist_ok=True)
    lock_src = os.path.join(REPO, "Cargo.lock")
    lock_dst = os.path.join(HARNESS, "Cargo.lock")
    try:
        if open(lock_src).read() != (open(lock_dst).read() if os.path.exists(lock_dst) else ""):
            shutil.copy(lock_src, lock_dst)
    except OSError:
        pass
    cmd = ["cargo", "build", "--offline", "--quiet"]
    p = subprocess.run(cmd, cwd=HARNESS, capture_output=True, text=True, env=ENV)
    return p.returncode == 0, p.stdout + p.stderr


def esc_field(s):
    return s.replace("\\", "\\\\").replace("\t", "\\t").replace("\n", "\\n").replace("\r", "\\r")


def run_lines(binary, lines, timeout_per_chunk=60, crash_marker="(crash)", cwd=None):
    """Feed `lines` to `binary` (one answer line per request line).  If the process dies or
    hangs, the request it was working on gets `crash_marker`/(timeout) and the rest is re-run in
    a fresh process."""
    results = []
    i = 0
    n = len(lines)
    timeouts = 0
    while i < n:
        if timeouts >= 3:
            results.extend(["(timeout)"] * (n - i))
            break
        chunk = lines[i:]
        data = ("\n".join(chunk) + "\n").encode("utf-8")
        try:
            p = subprocess.run([binary], input=data, capture_output=True,
                               timeout=timeout_per_chunk + len(chunk) * 0.01, cwd=cwd)
            out = p.stdout.decode("utf-8", "replace").splitlines()
            died = p.returncode != 0 or len(out) < len(chunk)
            marker = crash_marker
        except subprocess.TimeoutExpired as e:
            raw = (e.stdout or b"").decode("utf-8", "replace")
            out = raw.splitlines()
            if out and not raw.endswith("\n"):
                out = out[:-1]                      # the last line is partial
            if out:
                # the batch as a whole was slow (large batch, loaded machine) but answers kept coming:
                # keep them and go on with the rest; only a request that produces nothing within the
                # whole allowance counts as hung
                results.extend(out[: len(chunk)])
                i += len(out[: len(chunk)])
                continue
            died = True
            marker = "(timeout)"
            timeouts += 1
        if not died:
            results.extend(out[: len(chunk)])
            break
        out = out[: len(chunk)]
        results.extend(out)
        i += len(out)
        if i < n:
            results.append(marker)
            i += 1
    return results


def harness_run(lines, **kw):
    return run_lines(HARNESS_BIN, lines, **kw)


def driver_run(lines, **kw):
    return run_lines(DRIVER_BIN, lines, crash_marker="(model-crash)", **kw)


# ------------------------------------------------------------------ known findings

def load_findings():
    p = os.path.join(VERIF, "known_findings.json")
    if not os.path.exists(p):
        return []
    return json.load(open(p))["findings"]


# ------------------------------------------------------------------ result / evidence

class Result:
    def __init__(self, pid, tier, seed):
        self.pid = pid
        self.tier = tier
        self.seed = seed
        self.t0 = time.time()
        self.obligations = 0
        self.discharged = 0
        self.axioms = set()
        self.evaluations = 0
        self.nontrivial = set()
        self.samples = []
        self.dist = {}
        self.violations = []      # dicts: kind, what, replay-data, signature
        self.known = []
        self.notes = []
        self.streams = {}
        self.disagreements_checked = 0
        self.traces_validated = 0
        self.broken = []          # names of theorems / ties / streams that no longer check
        self.checker_cmd = ""
        self.assumptions = []
        self.rule = ""

    def count(self, key, n=1):
        self.dist[key] = self.dist.get(key, 0) + n

    def violation(self, what, replay, signature=None, kind="oracle"):
        self.violations.append(dict(what=what, replay=replay, signature=signature or {}, kind=kind))


def signature_matches(sig, fsig):
    """every key of the finding's signature must agree; a list value means any-of"""
    for k, v in fsig.items():
        if isinstance(v, list):
            if sig.get(k) not in v:
                return False
        elif sig.get(k) != v:
            return False
    return True


def finish(res, level_extra=None):
    """known-finding filtering, evidence file, VIOLATION lines, exit code"""
    # a run in which no case was non-trivial decides nothing: it must not pass silently (e.g. every generated program
    # rejected by the parser)
    if res.evaluations > 0 and len(res.nontrivial) == 0:
        res.broken.append("coverage: %d evaluations, none of them non-trivial (nothing was actually exercised)" % res.evaluations)
    findings = [f for f in load_findings()
                if res.pid in f.get("properties", [f["property"]]) and f.get("status") == "open"]
    unlisted = []
    seen_known = {}
    import hashlib
    record = os.environ.get("VERIF_RECORD_WITNESSES")
    for v in res.violations:
        hit = None
        for f in findings:
            sig = {k: x for k, x in v["signature"].items() if k != "origin"}
            if signature_matches(sig, f["signature"]):
                hit = f
                break
        if hit and v["signature"].get("origin") == "template" and "template_witnesses" in hit:
            # on the fixed set of hand-written templates the finding is identified by the programs that show
            # it on the unchanged tree; the same symptom on any other template is a different violation
            text = (v["replay"] or {}).get("original") or (v["replay"] or {}).get("program") or ""
            h = hashlib.sha1(text.encode("utf-8")).hexdigest()[:16] + ":" + str(v["signature"].get("cls"))
            if record:
                print("WITNESS %s %s %s" % (hit["id"], h, text[:160].replace("\n", " ")))
            elif h not in hit["template_witnesses"]:
                v["what"] += "   [symptom of %s on a template that is not one of its recorded witnesses]" % hit["id"]
                hit = None
        if hit:
            seen_known.setdefault(hit["id"], (hit, 0))
            seen_known[hit["id"]] = (hit, seen_known[hit["id"]][1] + 1)
        else:
            unlisted.append(v)
    if res.broken and not unlisted:
        # a proof obligation / the tie / the correspondence no longer checks and the search found no input on which the
        # property itself fails (an occurrence of a listed known finding does not explain a broken tie)
        unlisted.append(dict(what="no longer shown to hold: " + "; ".join(res.broken)[:1500], replay=dict(broken=res.broken),
                             signature=dict(oracle="proof", broken=res.broken[0][:80]), kind="broken-proof-or-tie"))
    for fid, (f, n) in seen_known.items():
        print("KNOWN-FINDING: property=%s %s (%s; %d occurrence(s) this run; witness: %s)" %
              (res.pid, f["what"], fid, n, f.get("witness", "")))
    for f in findings:
        if f["id"] not in seen_known:
            res.notes.append("known finding %s not observed in this run (stale or not sampled)" % f["id"])
    os.makedirs(OUT, exist_ok=True)
    os.makedirs(os.path.join(VERIF, "evidence"), exist_ok=True)
    rc = 0
    # group unlisted violations by signature, report first of each group (max 5 lines)
    groups = {}
    for v in unlisted:
        key = json.dumps(v["signature"], sort_keys=True) + "|" + v["kind"]
        groups.setdefault(key, []).append(v)
    k = 0
    for key, vs in groups.items():
        v = vs[0]
        k += 1
        path = os.path.join(OUT, "%s_replay_%d.json" % (res.pid, k))
        with open(path, "w") as fh:
            json.dump(dict(property=res.pid, what=v["what"], kind=v["kind"], signature=v["signature"],
                           replay=v["replay"], occurrences=len(vs), broken=res.broken,
                           seed=res.seed, tier=res.tier), fh, indent=1)
        tail = " no-failing-input-found" if v["kind"] == "broken-proof-or-tie" else ""
        print("VIOLATION property=%s replay=%s%s" % (res.pid, path, tail))
        print("  " + v["what"][:300])
        rc = 1
        if k >= 5:
            break
    cov = dict(
        obligations=res.obligations, discharged=res.discharged,
        checker_cmd=res.checker_cmd or "lake build (Lean 4 kernel) + #print axioms audit",
        trusted_base=sorted(res.axioms) + [
            "Lean 4.33.0 kernel", "tools/translate.py (source->Gen tables)",
            "harness/ + Driver.lean correspondence, tools/ generators"],
        evaluations=res.evaluations,
        distinct_nontrivial=len(res.nontrivial),
        rule=res.rule,
        samples=res.samples[:12] or ["(none)"],
        distribution=res.dist,
        streams=res.streams,
        disagreements_checked=res.disagreements_checked,
        traces_validated_against_impl=res.traces_validated,
        broken=res.broken,
        known_findings_observed=sorted(seen_known),
        notes=res.notes,
    )
    if level_extra:
        cov.update(level_extra)
    if res.discharged < 1 or res.obligations < 1:
        # nothing was discharged (the Lean build failed outright): the proof-level keys must be >= 1, so the run is
        # described by its exploration counts instead and the proof counts move to keys of their own
        cov["obligations_stated"] = cov.pop("obligations")
        cov["obligations_discharged"] = cov.pop("discharged")
    ev = dict(property_id=res.pid, tier=res.tier, seed=res.seed, level="proof", coverage=cov,
              assumptions=res.assumptions, wall_s=round(time.time() - res.t0, 2),
              violations=len(unlisted))
    with open(os.path.join(VERIF, "evidence", res.pid + ".json"), "w") as fh:
        json.dump(ev, fh, indent=1)
    if rc == 0:
        print("OK property=%s obligations=%d/%d evaluations=%d distinct_nontrivial=%d wall=%.1fs" %
              (res.pid, res.discharged, res.obligations, res.evaluations, len(res.nontrivial),
               time.time() - res.t0))
    return rc


# ------------------------------------------------------------------ the proof step

# generated tables that have a correspondence stream comparing the TABLE ITSELF with the implementation:
# part -> (generated file, the property whose streams make that comparison, what they compare)
FALLBACK_TABLES = {
    "scalar": "lean/SslModel/Gen/ScalarOps.lean",
    "pratt": "lean/SslModel/Gen/PrattTable.lean",
    "stdsig": "lean/SslModel/Gen/StdSig.lean",
}
FALLBACK_VALIDATOR = {
    "scalar": ("c08", "operator applications: implementation vs table vs big-integer specification"),
    "pratt": ("c14", "operator sequences: the implementation's PRATT_PARSER vs the table's parser vs the documented precedence"),
    "stdsig": ("c18", "standard-library exports: the types the implementation's values carry vs the table"),
}


def validate_fallback(res):
    """for every table the translator could not regenerate: compare the kept table with the implementation"""
    import importlib
    for part, msg in getattr(res, "fallback_parts", []):
        modname, what = FALLBACK_VALIDATOR[part]
        mod = importlib.import_module("props." + modname)
        if res.pid.lower() == modname:
            # this property's own streams make the comparison: a disagreement shows up as its violation
            note = ("%s - the translator fails closed on a source shape it does not know; the table generated from the last readable "
                    "source was kept, and this run's own streams (%s) are its tie to the current implementation" % (msg, what))
            res.notes.append(note)
            res.assumptions.append(note)
            continue
        tmp = Result(modname.upper(), "quick", res.seed)
        mod.run(tmp, "quick", res.seed, False)
        real = [v for v in tmp.violations if v.get("kind") != "broken-proof-or-tie"]
        if real or tmp.broken:
            why = (real[0]["what"] if real else tmp.broken[0])[:300]
            res.broken.append("tie:%s; and the table generated from the last readable source DISAGREES with the implementation: %s" % (msg, why))
        else:
            note = ("%s - the translator fails closed on a source shape it does not know; the table generated from the last readable "
                    "source was kept and agrees with the current implementation on %d cases (%s), which is this run's tie for that table"
                    % (msg, tmp.evaluations, what))
            res.notes.append(note)
            res.assumptions.append(note)


def proof_step(res, thm_modules, translate_parts):
    """translate, build, audit.  Returns True if everything checks; otherwise records what broke
    in res.broken (the caller then runs its failing-input search)."""
    ok_t, msgs = run_translate(translate_parts)
    res.fallback_parts = []
    for m in msgs:
        if "BROKEN-TIE" in m:
            part = m.split()[1].rstrip(":") if m.startswith("translate ") else ""
            if part in FALLBACK_TABLES:
                # the translator cannot read the source any more (it fails closed on any shape it does not know, e.g. after a
                # refactoring): the table generated from the last readable source is kept as a hand model, and its tie to the
                # CURRENT source becomes the correspondence stream that compares the table with the implementation
                # (validate_fallback, after the harness is built)
                subprocess.run(["git", "-C", VERIF, "checkout", "--", FALLBACK_TABLES[part]], capture_output=True)
                res.fallback_parts.append((part, m))
                ok_t = all("BROKEN-TIE" not in x or x is m or (x.split()[1].rstrip(":") in FALLBACK_TABLES) for x in msgs)
            else:
                res.broken.append("tie:" + m)
    targets = list(thm_modules) + ["driver"]
    ok_b, out = lake_build(targets)
    all_ok = ok_t
    for mod in thm_modules:
        names, _ = theorems_in(mod)
        res.obligations += len(names)
        bad = failed_theorems(mod, out) if not ok_b else []
        modfailed = (not ok_b) and (("error: %s" % "/".join(mod.split("."))) in out or
                                    re.search(r"- %s\b" % re.escape(mod), out) is not None)
        if modfailed and not bad:
            bad = ["<module %s failed to build>" % mod]
        if bad:
            all_ok = False
            for b in bad:
                res.broken.append("theorem:%s:%s" % (mod, b))
            res.discharged += max(0, len(names) - len(bad))
            continue
        if not ok_b:
            # some other module failed (dependency); this module's theorems are not checked
            all_ok = False
            res.broken.append("build:%s not built: %s" % (mod, out[-500:]))
            continue
        ax, missing, aout = audit_axioms(mod)
        for n in names:
            a = ax.get(n)
            if a is None:
                all_ok = False
                res.broken.append("audit:%s not printed" % n)
                continue
            extra = set(a) - ALLOWED_AXIOMS
            if extra:
                all_ok = False
                res.broken.append("audit:%s uses axioms %s" % (n, sorted(extra)))
                continue
            res.axioms.update(a)
            res.discharged += 1
    if not ok_b and "driver" in out and "Driver" in out and "error" in out and not os.path.exists(DRIVER_BIN):
        res.broken.append("build:driver")
    hits = forbidden_hits()
    if hits:
        all_ok = False
        res.broken.append("forbidden constructs: " + "; ".join(hits[:5]))
    res.notes.append("lean build ok" if ok_b else "lean build FAILED")
    res.build_output = out
    return all_ok
