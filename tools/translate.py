#!/usr/bin/env python3
"""Source -> Lean translator.  Regenerates lean/SslModel/Gen/*.lean from /repo's *current
working tree* on every run.  Strict: any construct it does not recognise raises
TranslateError, which the caller reports as a broken tie.

Usage: translate.py [--repo /repo] [--out /verif/lean/SslModel/Gen] [part ...]
Parts: scalar pratt doc binop errors (default: all)
"""
import hashlib
import os
import re
import sys

sys.path.insert(0, os.path.dirname(os.path.abspath(__file__)))
from rustlex import (TranslateError, expand_duplicate_items, find_fn, find_match, lex,
                     match_close, split_top)

REPO = os.environ.get("VERIF_REPO", "/repo")
OUT = os.path.join(os.path.dirname(os.path.abspath(__file__)), "..", "lean", "SslModel", "Gen")


def read(rel):
    with open(os.path.join(REPO, rel), encoding="utf-8") as f:
        return f.read()


def sha(text):
    return hashlib.sha256(text.encode()).hexdigest()[:16]


def write_if_changed(name, text):
    path = os.path.join(OUT, name)
    os.makedirs(OUT, exist_ok=True)
    old = None
    if os.path.exists(path):
        with open(path, encoding="utf-8") as f:
            old = f.read()
    if old != text:
        with open(path, "w", encoding="utf-8") as f:
            f.write(text)
        return True
    return False


def lstr(s):
    return '"' + s.replace("\\", "\\\\").replace('"', '\\"') + '"'


# ----------------------------------------------------------------------------- scalar ops

def strip_wrappers(toks):
    """remove Ok( .. ), ( .. ), { .. }, trailing .into() and `?`/`,` around an expression"""
    changed = True
    while changed:
        changed = False
        if len(toks) >= 4 and toks[-3:] == [".", "into", "("] + [] and False:
            pass
        if len(toks) >= 4 and toks[-4:] == [".", "into", "(", ")"]:
            toks = toks[:-4]
            changed = True
        if toks and toks[0] in ("(", "{") and match_close(toks, 0) == len(toks) - 1:
            toks = toks[1:-1]
            changed = True
        if len(toks) >= 3 and toks[0] == "Ok" and toks[1] == "(" and match_close(toks, 1) == len(toks) - 1:
            toks = toks[2:-1]
            changed = True
        if toks and toks[-1] in (",", ";"):
            toks = toks[:-1]
            changed = True
    return toks


INT_METHODS = {
    "wrapping_add": "wrappingAdd", "wrapping_sub": "wrappingSub", "wrapping_mul": "wrappingMul",
    "wrapping_div": "wrappingDiv", "wrapping_rem": "wrappingRem",
}
INT_INFIX = {"<<": "shl", ">>": "shr", "&": "band", "|": "bor", "^": "bxor",
             "<": "lt", "<=": "le", ">": "gt", ">=": "ge"}
FLOAT_INFIX = {"+": "fadd", "-": "fsub", "*": "fmul", "/": "fdiv",
               "<": "flt", "<=": "fle", ">": "fgt", ">=": "fge"}
BOOL_INFIX = {"&": "band", "|": "bor", "^": "bxor"}

# the square-and-multiply helper accepted in pow.rs (token-exact after lexing)
POW_HELPER = lex("""
fn wrapping_pow_u64(mut base: i64, mut exp: u64) -> i64 {
    let mut acc: i64 = 1;
    while exp > 0 {
        if exp & 1 == 1 {
            acc = acc.wrapping_mul(base);
        }
        base = base.wrapping_mul(base);
        exp >>= 1;
    }
    acc
}
""")


def int_expr(toks, a, b, helpers):
    t = strip_wrappers(toks)
    # a.method(b)
    if len(t) == 6 and t[0] == a and t[1] == "." and t[3] == "(" and t[4] == b and t[5] == ")":
        if t[2] in INT_METHODS:
            return INT_METHODS[t[2]]
    if t == [a, ".", "wrapping_pow", "(", b, "as", "u32", ")"]:
        return "wrappingPowU32"
    if t == ["wrapping_pow_u64", "(", a, ",", b, "as", "u64", ")"]:
        if helpers.get("wrapping_pow_u64") != "ok":
            raise TranslateError("pow.rs: wrapping_pow_u64 helper is not the recognised square-and-multiply loop")
        return "powSqMulU64"
    if len(t) == 3 and t[0] == a and t[2] == b and t[1] in INT_INFIX:
        return INT_INFIX[t[1]]
    raise TranslateError("unrecognised int arm expression: %s" % " ".join(toks))


def float_expr(toks, a, b):
    t = strip_wrappers(toks)
    if len(t) == 3 and t[0] == a and t[2] == b and t[1] in FLOAT_INFIX:
        return FLOAT_INFIX[t[1]]
    if t == [a, ".", "powf", "(", b, ")"]:
        return "powf"
    raise TranslateError("unrecognised float arm expression: %s" % " ".join(toks))


def err_of(toks):
    t = strip_wrappers(toks)
    if len(t) >= 2 and t[0] == "return":
        t = strip_wrappers(t[1:])
    if len(t) == 6 and t[:2] == ["Err", "("] and t[2] == "ExecError" and t[3] == "::" and t[5] == ")":
        return t[4]
    return None


def pat_pair(pat):
    """(Variable::K(x), Variable::K2(y)) -> (K, x, K2, y); `_` allowed -> (None, None, ..)"""
    if not (pat and pat[0] == "(" and match_close(pat, 0) == len(pat) - 1):
        return None
    parts = split_top(pat[1:-1])
    if len(parts) != 2:
        return None
    out = []
    for p in parts:
        if p == ["_"]:
            out += [None, None]
        elif len(p) == 6 and p[0] == "Variable" and p[1] == "::" and p[3] == "(" and p[5] == ")":
            out += [p[2], p[4]]
        else:
            return None
    return tuple(out)


def split_alternatives(pat):
    return split_top(pat, "|")


def translate_binop_exec(name, text):
    """returns dict(guards=[(guard,err)], body=intexpr, fbody=floatexpr|None, bbody=boolexpr|None)"""
    toks = lex(text)
    helpers = {}
    h = find_fn(toks, "wrapping_pow_u64")
    if h is not None:
        # compare the whole fn token-exactly
        i = next(k for k in range(len(toks) - 1) if toks[k] == "fn" and toks[k + 1] == "wrapping_pow_u64")
        helpers["wrapping_pow_u64"] = "ok" if toks[i : h[2] + 1] == POW_HELPER else "changed"
    fn = find_fn(toks, "exec")
    if fn is None:
        raise TranslateError("%s: no fn exec" % name)
    params, body, _ = fn
    res = dict(guards=[], body=None, fbody=None, bbody=None)
    m = find_match(body)
    if m is None:
        # shift.rs template: let-else destructuring, range guard, Ok((lhs OP rhs).into())
        norm = " ".join(body)
        mm = re.match(
            r"let \( Variable :: Int \( (\w+) \) , Variable :: Int \( (\w+) \) \) = \( & \w+ , & \w+ \) else \{ unreachable ! \(.*?\) \} ; "
            r"if ! \( 0 \.\.= 63 \) \. contains \( (\w+) \) \{ return Err \( ExecError :: (\w+) \) ; \} (.*)$",
            norm)
        if not mm or mm.group(3) != mm.group(2):
            raise TranslateError("%s: exec body is neither a match nor the shift template" % name)
        res["guards"].append(("rhsOutside0to63", mm.group(4)))
        res["body"] = int_expr(mm.group(5).split(" "), mm.group(1), mm.group(2), helpers)
        return res
    scrut, arms = m
    seen_int = False
    for pat, guard, rhs in arms:
        for alt in split_alternatives(pat):
            pp = pat_pair(alt)
            if pp is None:
                # catch-all `(lhs, rhs) => panic!(..)` is fine only after the int arm
                r = " ".join(rhs)
                if ("panic !" in r or "unreachable !" in r):
                    continue
                raise TranslateError("%s: unrecognised arm pattern %s" % (name, " ".join(alt)))
            k1, x, k2, y = pp
            e = err_of(rhs)
            if e is not None:
                # guard arm
                if seen_int:
                    continue  # unreachable for ints; ignore
                if k1 is None and k2 == "Int" and y == "0" and guard is None:
                    res["guards"].append(("rhsZero", e))
                elif k1 is None and k2 == "Int" and guard == [y, "<", "0"]:
                    res["guards"].append(("rhsNegative", e))
                elif k1 is None and k2 == "Int" and " ".join(guard or []) == "! ( 0 ..= 63 ) . contains ( & %s )" % y:
                    res["guards"].append(("rhsOutside0to63", e))
                else:
                    raise TranslateError("%s: unrecognised error arm %s if %s" % (name, " ".join(alt), guard))
                continue
            if guard is not None:
                raise TranslateError("%s: guarded value arm" % name)
            if k1 == "Int" and k2 == "Int":
                res["body"] = int_expr(rhs, x, y, helpers)
                seen_int = True
            elif k1 == "Float" and k2 == "Float":
                res["fbody"] = float_expr(rhs, x, y)
            elif k1 == "Bool" and k2 == "Bool":
                t = strip_wrappers(rhs)
                if len(t) == 3 and t[0] == x and t[2] == y and t[1] in BOOL_INFIX:
                    res["bbody"] = BOOL_INFIX[t[1]]
                else:
                    raise TranslateError("%s: unrecognised bool arm" % name)
            elif (k1, k2) in (("String", "String"), ("Array", "Array")):
                pass  # modelled by hand (Op.lean), tied by correspondence
            else:
                raise TranslateError("%s: unexpected arm kinds %s %s" % (name, k1, k2))
    if res["body"] is None:
        raise TranslateError("%s: no (Int, Int) arm" % name)
    return res


def translate_unop_exec(name, text):
    toks = lex(text)
    fn = find_fn(toks, "exec")
    if fn is None:
        raise TranslateError("%s: no fn exec" % name)
    m = find_match(fn[1])
    if m is None:
        raise TranslateError("%s: exec without match" % name)
    out = {}
    for pat, guard, rhs in m[1]:
        if len(pat) == 6 and pat[:2] == ["Variable", "::"] and pat[3] == "(" and pat[5] == ")":
            kind, x = pat[2], pat[4]
            t = strip_wrappers(rhs)
            if t[:3] == ["var", "!", "("]:
                t = strip_wrappers(t[2:])
            if kind == "Int":
                if t == [x, ".", "wrapping_neg", "(", ")"]:
                    out["int"] = "wrappingNeg"
                elif t == ["!", x]:
                    out["int"] = "bitNot"
                else:
                    raise TranslateError("%s: unrecognised int arm %s" % (name, " ".join(rhs)))
            elif kind == "Float":
                if t == ["-", x]:
                    out["float"] = "fneg"
                else:
                    raise TranslateError("%s: unrecognised float arm" % name)
            elif kind == "Bool":
                if t == ["!", x]:
                    out["bool"] = "bnot"
                else:
                    raise TranslateError("%s: unrecognised bool arm" % name)
            else:
                raise TranslateError("%s: unexpected arm kind %s" % (name, kind))
        else:
            r = " ".join(rhs)
            if "panic !" in r or "unreachable !" in r:
                continue
            raise TranslateError("%s: unrecognised arm" % name)
    if "int" not in out:
        raise TranslateError("%s: no Int arm" % name)
    return out


def module_uses_own_exec(name, text):
    """does `create_from_instructions` fold two constants by calling this module's `exec`?"""
    toks = lex(text)
    fn = find_fn(toks, "create_from_instructions")
    if fn is None:
        return None
    body = " ".join(fn[1])
    if re.search(r"create_from_instructions_with_exec \( \w+ , \w+ , BinOperator :: \w+ , exec \)", body):
        return True
    if re.search(r"\( Instruction :: Variable \( (\w+) \) , Instruction :: Variable \( (\w+) \) \) => (?:\{ )?Ok \( exec \( \1 , \2 \) \? \. into \( \) \)", body):
        return True
    return False


def gen_scalar():
    B = "src/instruction/bin_op/"
    srcs = {}
    mods = {}
    for nm in ("add", "subtract", "multiply", "divide", "modulo", "pow"):
        mods[nm] = read(B + "math/%s.rs" % nm)
        srcs[B + "math/%s.rs" % nm] = mods[nm]
    for f in ("math.rs", "shift.rs", "bitwise.rs"):
        s = read(B + f)
        srcs[B + f] = s
        ex, _ = expand_duplicate_items(s)
        mods.update(ex)
    bin_src = read(B[:-1] + ".rs")
    srcs["src/instruction/bin_op.rs"] = bin_src
    prefix_src = read("src/instruction/prefix_op.rs")
    srcs["src/instruction/prefix_op.rs"] = prefix_src
    want = ["add", "subtract", "multiply", "divide", "modulo", "pow", "lshift", "rshift",
            "bitwise_and", "bitwise_or", "xor", "greater", "greater_equal", "lower", "lower_equal"]
    lines = ["-- GENERATED by tools/translate.py from /repo (do not edit).",
             "-- sources: " + ", ".join("%s@%s" % (k, sha(v)) for k, v in sorted(srcs.items())),
             "import SslModel.Model.Int64", "namespace Ssl.Gen", ""]
    folds = {}
    fl = {}
    for nm in want:
        if nm not in mods:
            raise TranslateError("operator module %s not found" % nm)
        r = translate_binop_exec(nm, mods[nm])
        guards = ", ".join("(.%s, .%s)" % g for g in r["guards"])
        lines.append("def %s : IntOp := { guards := [%s], body := .%s }" % (nm, guards, r["body"]))
        fl[nm] = (r["fbody"], r["bbody"])
        folds[nm] = module_uses_own_exec(nm, mods[nm])
    lines.append("")
    lines.append("/-- float / bool arm of each operator module (none = no such arm) -/")
    lines.append("def floatArms : List (String × Option String × Option String) := [")
    lines.append(",\n".join("  (%s, %s, %s)" % (lstr(nm), "some " + lstr(f) if f else "none",
                                              "some " + lstr(b) if b else "none")
                           for nm, (f, b) in fl.items()))
    lines.append("]")
    # prefix operators: modules unary_minus, not inside prefix_op.rs
    pm = {}
    for mname in ("unary_minus", "not"):
        m = re.search(r"pub mod %s \{" % mname, prefix_src)
        if not m:
            raise TranslateError("prefix_op.rs: module %s not found" % mname)
        i = m.end()
        depth = 1
        while depth:
            c = prefix_src[i]
            depth += (c == "{") - (c == "}")
            i += 1
        pm[mname] = translate_unop_exec(mname, prefix_src[m.end(): i - 1])
    lines.append("")
    lines.append("def unary_minus : UnExpr := .%s" % pm["unary_minus"]["int"])
    lines.append("def not : UnExpr := .%s" % pm["not"]["int"])
    lines.append("def unaryOther : List (String × String × String) := [%s]" % ", ".join(
        "(%s, %s, %s)" % (lstr(m), lstr(k), lstr(v)) for m, d in pm.items() for k, v in d.items() if k != "int"))
    # the three paths: Exec table, Recreate (fold) table, assignment table of bin_op.rs
    toks = lex(bin_src)
    # impl Exec for BinOperation
    exec_tab, fold_tab, assign_tab = [], [], []
    i = 0
    impl_bodies = {}
    while i < len(toks):
        if toks[i] == "impl" and toks[i + 2] == "for" and toks[i + 3] == "BinOperation":
            j = i + 4
            e = match_close(toks, j)
            impl_bodies[toks[i + 1]] = toks[j + 1 : e]
            i = e
        i += 1
    for need in ("Exec", "Recreate"):
        if need not in impl_bodies:
            raise TranslateError("bin_op.rs: impl %s for BinOperation not found" % need)
    ex_fn = find_fn(impl_bodies["Exec"], "exec")
    # last match in exec body is `match self.op { ... }`
    body = ex_fn[1]
    idx = max(k for k in range(len(body) - 3) if body[k : k + 4] == ["match", "self", ".", "op"])
    _, arms = find_match(body[idx:])
    for pat, guard, rhs in arms:
        for alt in split_alternatives(pat):
            if alt == ["_"]:
                continue
            if not (len(alt) == 3 and alt[0] == "BinOperator" and alt[1] == "::"):
                raise TranslateError("bin_op.rs Exec: pattern %s" % " ".join(alt))
            op = alt[2]
            r = " ".join(rhs)
            m1 = re.match(r"^(\w+) :: exec \( lhs , rhs \)(?: \?)?$", r)
            m2 = re.match(r"^assign :: (exec|try_exec) \( lhs , rhs , (\w+) :: exec \)(?: \?)?$", r)
            m3 = re.match(r"^assign :: exec \( lhs , rhs , \| _ , (\w+) \| \1 \)$", r)
            if m1:
                exec_tab.append((op, m1.group(1)))
            elif m2:
                assign_tab.append((op, m2.group(2), m2.group(1)))
            elif m3:
                assign_tab.append((op, "<rhs>", "exec"))
            else:
                raise TranslateError("bin_op.rs Exec: unrecognised arm for %s: %s" % (op, r))
    rc_fn = find_fn(impl_bodies["Recreate"], "recreate")
    body = rc_fn[1]
    idx = max(k for k in range(len(body) - 3) if body[k : k + 4] == ["match", "self", ".", "op"])
    _, arms = find_match(body[idx:])
    for pat, guard, rhs in arms:
        for alt in split_alternatives(pat):
            if len(alt) == 3 and alt[0] == "BinOperator":
                r = " ".join(strip_wrappers(rhs))
                m1 = re.match(r"^(\w+) :: create_from_instructions \( lhs , rhs \)$", r)
                if not m1:
                    raise TranslateError("bin_op.rs Recreate: unrecognised arm %s" % r)
                fold_tab.append((alt[2], m1.group(1)))
            elif alt == ["op"]:
                pass
            else:
                raise TranslateError("bin_op.rs Recreate: pattern %s" % " ".join(alt))
    lines.append("")
    lines.append("/-- `impl Exec for BinOperation`: operator ↦ module whose `exec` runs it -/")
    lines.append("def execTable : List (String × String) := [%s]" % ", ".join("(%s, %s)" % (lstr(a), lstr(b)) for a, b in exec_tab))
    lines.append("/-- `impl Recreate for BinOperation`: operator ↦ module whose `create_from_instructions` folds it -/")
    lines.append("def foldTable : List (String × String) := [%s]" % ", ".join("(%s, %s)" % (lstr(a), lstr(b)) for a, b in fold_tab))
    lines.append("/-- compound assignments: operator ↦ module whose `exec` is applied to (*cell, rhs) -/")
    lines.append("def assignTable : List (String × String) := [%s]" % ", ".join("(%s, %s)" % (lstr(a), lstr(b)) for a, b, _ in assign_tab))
    lines.append("/-- does module m's `create_from_instructions` fold two constants through its own `exec`? -/")
    lines.append("def foldsThroughOwnExec : List (String × Bool) := [%s]" % ", ".join(
        "(%s, %s)" % (lstr(k), "true" if v else "false") for k, v in folds.items() if v is not None))
    lines += ["", "end Ssl.Gen", ""]
    return write_if_changed("ScalarOps.lean", "\n".join(lines))


# ----------------------------------------------------------------------------- errors

def gen_errors():
    src = read("src/errors/exec_error.rs")
    toks = lex(src)
    i = next(k for k in range(len(toks)) if toks[k] == "enum" and toks[k + 1] == "ExecError")
    e = match_close(toks, i + 2)
    inner = toks[i + 3 : e]
    variants = []
    k = 0
    while k < len(inner):
        if inner[k] == "#":
            k = match_close(inner, k + 1) + 1
            continue
        if re.match(r"^[A-Z]\w*$", inner[k]):
            variants.append(inner[k])
            k += 1
            if k < len(inner) and inner[k] in ("(", "{"):
                raise TranslateError("ExecError variant with payload: %s" % variants[-1])
            continue
        if inner[k] == ",":
            k += 1
            continue
        raise TranslateError("exec_error.rs: unexpected token %s" % inner[k])
    lines = ["-- GENERATED by tools/translate.py from /repo (do not edit).",
             "-- source: src/errors/exec_error.rs@" + sha(src),
             "namespace Ssl.Gen",
             "def execErrors : List String := [%s]" % ", ".join(lstr(v) for v in variants),
             "end Ssl.Gen", ""]
    return write_if_changed("ExecErrors.lean", "\n".join(lines))


PARTS = {"scalar": gen_scalar, "errors": gen_errors}


def main(argv):
    global REPO, OUT
    args = list(argv)
    while args and args[0].startswith("--"):
        if args[0] == "--repo":
            REPO = args[1]
        elif args[0] == "--out":
            OUT = args[1]
        else:
            raise SystemExit("unknown option " + args[0])
        args = args[2:]
    parts = args or list(PARTS)
    rc = 0
    for p in parts:
        try:
            changed = PARTS[p]()
            print("translate %s: ok%s" % (p, " (changed)" if changed else ""))
        except TranslateError as e:
            print("translate %s: BROKEN-TIE %s" % (p, e))
            rc = 2
    return rc


if __name__ == "__main__":
    sys.exit(main(sys.argv[1:]))
