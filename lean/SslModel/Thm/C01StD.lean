import SslModel.Thm.C01StC
set_option linter.unusedSimpArgs false
set_option linter.unusedVariables false
set_option maxRecDepth 2000
namespace Ssl.CS
open Ssl Ssl.Ty Ssl.Val Ssl.Spec Ssl.Check Ssl.CheckF Ssl.CheckS Ssl.C01
variable {S : STy}

theorem step_L (f : Nat) (hE : PE f) (hL : PL f) : PL (f + 1) := by
  intro lp ret S g env es Ts σ henv hg hr hst ht
  cases es with
  | nil =>
    simp only [tySList] at ht; cases ht
    simp only [evalList]
    exact outP_pure _ _ _ _ _ _ hst ⟨by simp [asTypeL, matchesL], by simp⟩
  | cons e es =>
    simp only [tySList] at ht
    obtain ⟨t, hte, h2⟩ := bind_ok ht
    obtain ⟨ts, hts, h3⟩ := bind_ok h2
    cases h3
    rw [C07.list_left_to_right]
    apply outP_bind lp ret S (fun S' v => VT S' t v) _ _ _ σ (hE lp ret S g env e t σ henv hg hr hst hte)
    intro v σ1 S hle hst _ hv
    replace henv := envOk_mono hle henv
    apply outP_bind lp ret S (fun S' v => ListOk S' ts v) _ _ _ σ1 (hL lp ret S g env es ts σ1 henv hg hr hst hts)
    intro vs σ2 S hle hst _ hvs
    replace henv := envOk_mono hle henv
    replace hv := vt_mono hle hv
    apply outP_pure _ _ _ _ _ _ hst
    refine ⟨by simp [asTypeL, matchesL, hv.1, hvs.1], ?_⟩
    intro z hz
    rcases List.mem_cons.mp hz with rfl | hz
    · exact hv.2
    · exact hvs.2 z hz

theorem step_O (f : Nat) (hE : PE f) : PO (f + 1) := by
  intro lp ret S g env o ot σ henv hg hr hst ht
  cases o with
  | none =>
    simp only [tySOpt] at ht; cases ht
    simp only [evalOpt]
    exact outP_pure _ _ _ _ _ _ hst trivial
  | some e =>
    simp only [tySOpt] at ht
    obtain ⟨t, hte, h2⟩ := bind_ok ht
    cases h2
    simp only [evalOpt]
    apply outP_bind lp ret S (fun S' v => VT S' t v) _ _ _ σ (hE lp ret S g env e t σ henv hg hr hst hte)
    intro v σ1 S hle hst _ hv
    replace henv := envOk_mono hle henv
    exact outP_pure _ _ _ _ _ _ hst hv

theorem step_V (f : Nat) (hE : PE f) : PV (f + 1) := by
  intro lp ret S g env e T σ henv hg hr hst ht
  simp only [evalStmtValue]
  exact hE lp ret S g env e T σ henv hg hr hst ht

theorem gwf_bodyEnv (self : Option String) (ps : List (String × Ty)) (rt : Ty) (Γ : TEnv) (hΓ : GWf Γ)
    (wp : wfParams ps = true) (wr : wf rt = true) : GWf (bodyEnv self ps rt Γ) := by
  have wft : wf (Ty.fn (ps.map (·.2)) rt) = true := by simp [wf, wfL_of_wfParams ps wp, wr]
  have base : GWf (match self with | some x => (x, Ty.fn (ps.map (·.2)) rt) :: Γ | none => Γ) := by
    cases self with
    | none => exact hΓ
    | some x => exact gwf_cons Γ x _ hΓ wft
  unfold bodyEnv bindParams
  intro y t hy
  -- a lookup in `ps.reverse ++ rest` is a parameter type or a lookup in `rest`
  have key : ∀ (l : List (String × Ty)) (rest : TEnv), (∀ p ∈ l, wf p.2 = true) → GWf rest → GWf (l ++ rest) := by
    intro l
    induction l with
    | nil => intro rest _ h; simpa using h
    | cons p l ih =>
      intro rest hl h
      obtain ⟨n, tp⟩ := p
      exact gwf_cons _ n tp (ih rest (fun q hq => hl q (by simp [hq])) h) (hl (n, tp) (by simp))
  exact key ps.reverse _ (fun p hp => by
    have : p ∈ ps := by simpa using hp
    simp only [wfParams, List.all_eq_true] at wp
    exact wp p this) base y t hy

theorem step_St (f : Nat) (hE : PE f) (hV : PV f) : PSt (f + 1) := by
  intro lp ret S g g' env s t σ henv hg hr hst ht
  cases s with
  | set x e =>
    simp only [tySStmt] at ht
    obtain ⟨t', hte, h2⟩ := bind_ok ht
    cases h2
    simp only [evalStmt]
    apply outP_bind lp ret S (fun S' v => VT S' t v) _ _ _ σ (hV lp ret S g env e t σ henv hg hr hst hte)
    intro v σ1 S hle hst _ hv
    replace henv := envOk_mono hle henv
    exact outP_pure _ _ _ _ _ _ hst ⟨hv, envOkG_insert env g x v t henv hv, gwf_cons g x t hg (tyS_wf lp ret g e t hte)⟩
  | destruct xs e =>
    simp only [tySStmt] at ht
    obtain ⟨te, hte, h2⟩ := bind_ok ht
    have wte := tyS_wf lp ret g e te hte
    split at h2
    · rename_i ts
      split at h2
      · cases h2
        simp only [evalStmt]
        apply outP_bind lp ret S (fun S' v => VT S' (.tup ts) v) _ _ _ σ (hV lp ret S g env e (.tup ts) σ henv hg hr hst hte)
        intro v σ1 S hle hst _ hv
        replace henv := envOk_mono hle henv
        obtain ⟨vs, rfl, hl⟩ := vt_tuple hv
        simp only []
        have wts : wfL ts = true := by simpa [wf] using wte
        obtain ⟨h1, h2⟩ := envOkG_bindAll xs ts vs env g henv hg wts hl.1 hl.2
        exact outP_pure _ _ _ _ _ _ hst ⟨hv, h1, h2⟩
      · cases h2
    · rename_i ms
      split at h2
      · cases h2
      · split at h2
        · cases h2
        · split at h2
          · split at h2
            · rename_i ts hq
              cases h2
              simp only [evalStmt]
              apply outP_bind lp ret S (fun S' v => VT S' (.multi ms) v) _ _ _ σ (hV lp ret S g env e (.multi ms) σ henv hg hr hst hte)
              intro v σ1 S hle hst _ hv
              replace henv := envOk_mono hle henv
              have wl := wfL_of_multi wte
              obtain ⟨wts, hmem⟩ := flattenTuple_upper ms ts wl hq
              obtain ⟨m, hm, hvm⟩ := vt_member hv
              obtain ⟨es, rfl, hes⟩ := hmem m hm
              have wes : wfL es = true := by have := wfL_memU wl hm; simpa [wf] using this
              obtain ⟨vs, rfl, hl⟩ := vt_tuple hvm
              simp only []
              have hmt := matchesL_trans _ es ts (wfL_asTypeLG vs hl.2) wes wts hl.1 hes
              obtain ⟨h1, h2⟩ := envOkG_bindAll xs ts vs env g henv hg wts hmt hl.2
              exact outP_pure _ _ _ _ _ _ hst ⟨hv, h1, h2⟩
            · cases h2
          · cases h2
    all_goals cases h2
  | fndecl x ps rt body =>
    simp only [tySStmt] at ht
    split at ht
    · cases ht
    · rename_i hwf
      have hwf' : wfParams ps = true ∧ wf rt = true := by simpa using hwf
      obtain ⟨p, hp, h2⟩ := bind_ok ht
      obtain ⟨ts, g''⟩ := p
      simp only [] at h2
      split at h2
      · cases h2
      · rename_i hmr
        cases h2
        have wft : wf (Ty.fn (ps.map (·.2)) rt) = true := by simp [wf, wfL_of_wfParams ps hwf'.1, hwf'.2]
        simp only [evalStmt]
        apply outP_bind lp ret S (fun _ _ => True) _ _ _ σ (show OutP lp ret S (fun _ _ => True) (freshId σ) from ⟨S, ext_refl S, storeOk_fresh hst, trivial⟩)
        intro id σ1 S hle hst _ _
        replace henv := envOk_mono hle henv
        apply outP_pure _ _ _ _ _ _ hst
        have hsnap : ∀ y, frameLookup y env.snapshot = env.lookup y := fun y => by
          rw [← lookup_single]; exact C06.snapshot_lookup env y
        have gfv : Good S (Val.fn id ps rt body env.snapshot (some x)) := by
          refine Good.fn id ps rt body env.snapshot (some x) g hwf'.1 hwf'.2 hg ?_ ?_ ?_
          · intro y ty hy
            obtain ⟨v, hv, hvt⟩ := henv y ty hy
            exact ⟨v, by rw [hsnap]; exact hv, hvt.1⟩
          · intro y ty v hy hv
            obtain ⟨w, hw, hwt⟩ := henv y ty hy
            rw [hsnap, hw] at hv
            cases hv
            exact hwt.2
          · refine ⟨ts, g'', by simpa [bodyEnv] using hp, ?_⟩
            cases h1 : sub Ty.void rt <;> cases h2' : ts.any (fun t => eqv t .never) <;> simp_all
        have vt : VT S (Ty.fn (ps.map (·.2)) rt) (Val.fn id ps rt body env.snapshot (some x)) :=
          ⟨by simp only [asType]; exact sub_refl _ wft, gfv⟩
        exact ⟨vt, envOkG_insert env g x _ _ henv vt, gwf_cons g x _ hg wft⟩
  | _ =>
    simp only [tySStmt] at ht
    obtain ⟨t', hte, h2⟩ := bind_ok ht
    cases h2
    simp only [evalStmt]
    apply outP_bind lp ret S (fun S' v => VT S' t v) _ _ _ σ (hE _ _ _ _ _ _ _ _ henv hg hr hst hte)
    intro v σ1 S hle hst _ hv
    replace henv := envOk_mono hle henv
    exact outP_pure _ _ _ _ _ _ hst ⟨hv, henv, hg⟩


theorem never_not_value (t : Ty) (v : Val) (h : VT S t v) : eqv t .never = false := by
  cases hq : eqv t .never with
  | false => rfl
  | true =>
    have := eq_never_of_eqv hq
    subst this
    exact absurd h (vt_never v)

theorem step_S (f : Nat) (hSt : PSt f) (hS : PS f) : PS (f + 1) := by
  intro lp ret S g g' env body ts σ henv hg hr hst ht
  match body with
  | [] =>
    simp only [tySSeq] at ht; cases ht
    simp only [evalSeq]
    exact outP_pure _ _ _ _ _ _ hst ⟨⟨by simp [lastTy, asType, sub, eqv], Good.unit⟩, henv, hg, by simp⟩
  | [s] =>
    simp only [tySSeq] at ht
    obtain ⟨p, hp, h2⟩ := bind_ok ht
    obtain ⟨t1, g1⟩ := p
    simp only [Res.bind] at h2
    cases h2
    simp only [evalSeq]
    exact outP_mono _ _ _ _ _ _ (hSt lp ret S g g' env s t1 σ henv hg hr hst hp)
      (fun _ p _ ⟨h1, h2, h3⟩ => ⟨by simpa [lastTy] using h1, h2, h3, by
        intro t ht'
        simp only [List.mem_singleton] at ht'
        subst ht'
        exact never_not_value t p.1 h1⟩)
  | s :: s2 :: rest =>
    simp only [tySSeq] at ht
    obtain ⟨p, hp, h2⟩ := bind_ok ht
    obtain ⟨t1, g1⟩ := p
    simp only [] at h2
    obtain ⟨q, hq, h3⟩ := bind_ok h2
    obtain ⟨ts', g2⟩ := q
    cases h3
    simp only [evalSeq]
    apply outP_bind lp ret S _ _ _ _ σ (hSt lp ret S g g1 env s t1 σ henv hg hr hst hp)
    intro r σ1 S hle hst _ hr1
    replace henv := envOk_mono hle henv
    obtain ⟨w, env1⟩ := r
    obtain ⟨hw, henv1, hg1⟩ := hr1
    have hq' : tySSeq lp ret g1 (s2 :: rest) = .ok (ts', g2) := by
      simp only [tySSeq]; exact hq
    refine outP_mono _ _ _ _ _ _ (hS lp ret S g1 g2 env1 (s2 :: rest) ts' σ1 henv1 hg1 hr hst hq') ?_
    intro S2 p hle2 ⟨h1, h2, h3, h4⟩
    refine ⟨?_, h2, h3, ?_⟩
    · cases ts' with
      | nil =>
        -- a non-empty statement list has at least one type
        obtain ⟨p2, _, hh⟩ := bind_ok hq
        obtain ⟨q2, _, hh2⟩ := bind_ok hh
        cases hh2
      | cons t2 ts2 => simpa [lastTy] using h1
    · intro t ht'
      rcases List.mem_cons.mp ht' with rfl | ht'
      · exact never_not_value t w hw
      · exact h4 t ht'

theorem step_C (f : Nat) (hE : PE f) (hC : PC f) : PC (f + 1) := by
  intro lp ret S g env v cands ts σ henv hg hr hst ht
  cases cands with
  | nil => simp only [candGo]; exact outP_pure _ _ _ _ _ _ hst trivial
  | cons c cs =>
    simp only [tySList] at ht
    obtain ⟨t, htc, h2⟩ := bind_ok ht
    obtain ⟨ts', hts, _⟩ := bind_ok h2
    simp only [candGo]
    apply outP_bind lp ret S (fun S' v => VT S' t v) _ _ _ σ (hE lp ret S g env c t σ henv hg hr hst htc)
    intro w σ1 S hle hst _ _
    replace henv := envOk_mono hle henv
    by_cases hq : veq w v = true
    · simp only [hq, if_true]; exact outP_pure _ _ _ _ _ _ hst trivial
    · simp only [hq, Bool.false_eq_true, if_false]
      exact hC lp ret S g env v cs ts' σ1 henv hg hr hst hts

theorem step_A (f : Nat) (hE : PE f) (hC : PC f) (hA : PA f) : PA (f + 1) := by
  intro lp ret S g env v arms tys σ henv hg hr hst gv ht hex
  cases arms with
  | nil => obtain ⟨k, hk, _⟩ := hex; simp [armKinds] at hk
  | cons arm rest =>
    cases arm with
    | other body =>
      simp only [tySArms] at ht
      obtain ⟨tb, htb, h2⟩ := bind_ok ht
      obtain ⟨ts, hts, h3⟩ := bind_ok h2
      cases h3
      simp only [evalArms]
      exact outP_mono _ _ _ _ _ _ (hE lp ret S g env body tb σ henv hg hr hst htb) (fun _ r _ hr' => ⟨tb, by simp, hr'⟩)
    | ty x t body =>
      simp only [tySArms] at ht
      split at ht
      · cases ht
      · rename_i hwt
        have wt : wf t = true := by simpa using hwt
        obtain ⟨tb, htb, h2⟩ := bind_ok ht
        obtain ⟨ts, hts, h3⟩ := bind_ok h2
        cases h3
        simp only [evalArms]
        by_cases hm : Ty.sub v.asType t = true
        · simp only [hm, if_true]
          exact outP_mono _ _ _ _ _ _
            (hE lp ret S ((x, t) :: g) ([(x, v)] :: env) body tb σ (envOkG_bind env g x v t henv ⟨hm, gv⟩) (gwf_cons g x t hg wt) hr hst htb)
            (fun _ r _ hr' => ⟨tb, by simp, hr'⟩)
        · simp only [hm, Bool.false_eq_true, if_false]
          have hex' : ∃ k ∈ armKinds rest, armCovers k v.asType = true := by
            obtain ⟨k, hk, hc⟩ := hex
            simp only [armKinds, List.mem_cons] at hk
            rcases hk with rfl | hk
            · simp only [armCovers] at hc
              exact absurd hc hm
            · exact ⟨k, hk, hc⟩
          exact outP_mono _ _ _ _ _ _ (hA lp ret S g env v rest ts σ henv hg hr hst gv hts hex')
            (fun _ r _ ⟨t', hm', hv'⟩ => ⟨t', by simp [hm'], hv'⟩)
    | val cands body =>
      simp only [tySArms] at ht
      obtain ⟨tcs, htcs, h1⟩ := bind_ok ht
      obtain ⟨tb, htb, h2⟩ := bind_ok h1
      obtain ⟨ts, hts, h3⟩ := bind_ok h2
      cases h3
      simp only [evalArms]
      apply outP_bind lp ret S (fun _ _ => True) _ _ _ σ (hC lp ret S g env v cands tcs σ henv hg hr hst htcs)
      intro hit σ1 S hle hst _ _
      replace henv := envOk_mono hle henv
      replace gv := good_mono hle gv
      cases hit
      · simp only [Bool.false_eq_true, if_false]
        have hex' : ∃ k ∈ armKinds rest, armCovers k v.asType = true := by
          obtain ⟨k, hk, hc⟩ := hex
          simp only [armKinds, List.mem_cons] at hk
          rcases hk with rfl | hk
          · simp [armCovers] at hc
          · exact ⟨k, hk, hc⟩
        exact outP_mono _ _ _ _ _ _ (hA lp ret S g env v rest ts σ1 henv hg hr hst gv hts hex')
          (fun _ r _ ⟨t', hm', hv'⟩ => ⟨t', by simp [hm'], hv'⟩)
      · simp only [if_true]
        exact outP_mono _ _ _ _ _ _ (hE lp ret S g env body tb σ1 henv hg hr hst htb) (fun _ r _ hr' => ⟨tb, by simp, hr'⟩)


theorem argsOk_of_tags : ∀ (ps : List (String × Ty)) (pts : List Ty) (args : List Val),
    matchesParams pts (ps.map (·.2)) = true → wfL pts = true → wfParams ps = true → ListOk S pts args → ArgsOk S ps args
  | [], [], [], _, _, _, _ => by simp [ArgsOk]
  | (n, t) :: ps, p :: pts, a :: args, hm, wp, wps, hl => by
    simp only [List.map_cons] at hm
    rw [matchesParams] at hm
    simp only [Bool.and_eq_true] at hm
    simp only [wfL, Bool.and_eq_true] at wp
    simp only [wfParams, List.all_cons, Bool.and_eq_true] at wps
    obtain ⟨h1, h2⟩ := hl
    simp only [asTypeL] at h1
    rw [matchesL] at h1
    simp only [Bool.and_eq_true] at h1
    simp only [ArgsOk]
    refine ⟨vt_trans ⟨h1.1, h2 a (by simp)⟩ wp.1 wps.1 hm.1, ?_⟩
    exact argsOk_of_tags ps pts args hm.2 wp.2 (by simpa [wfParams] using wps.2) ⟨h1.2, fun z hz => h2 z (by simp [hz])⟩
  | [], _ :: _, _, hm, _, _, _ => by simp [matchesParams] at hm
  | _ :: _, [], _, hm, _, _, _ => by simp [matchesParams] at hm
  | [], [], _ :: _, _, _, _, hl => by have := hl.1; simp [asTypeL, matchesL] at this
  | _ :: _, _ :: _, [], _, _, _, hl => by have := hl.1; simp [asTypeL, matchesL] at this

theorem step_F (f : Nat) (hS : PS f) : PF (f + 1) := by
  intro lp ret S fv args pts rt σ hst gfv hsub wpts wrt hargs
  cases gfv with
  | fn id ps rt' body cap self Γ wp wr hΓ hcap hgood hbody =>
    simp only [asType] at hsub
    rw [sub] at hsub
    simp only [Bool.and_eq_true] at hsub
    obtain ⟨hparams, hret⟩ := hsub
    obtain ⟨ts, g', hty, hmr⟩ := hbody
    have gfv : Good S (Val.fn id ps rt' body cap self) := Good.fn id ps rt' body cap self Γ wp wr hΓ hcap hgood ⟨ts, g', hty, hmr⟩
    have wft : wf (Ty.fn (ps.map (·.2)) rt') = true := by simp [wf, wfL_of_wfParams ps wp, wr]
    have henv : EnvOkG S (calleeEnv (Val.fn id ps rt' body cap self) ps cap self args) (bodyEnv self ps rt' Γ) :=
      envOkG_callee _ ps rt' cap self args Γ (argsOk_of_tags ps pts args hparams wpts wp hargs)
        (fun x _ => ⟨by simp only [asType]; exact sub_refl _ wft, gfv⟩)
        (fun x t hx => by
          obtain ⟨v, hv, hvs⟩ := hcap x t hx
          exact ⟨v, hv, hvs, hgood x t v hx hv⟩)
    have hbodyOut := hS false (some rt') S (bodyEnv self ps rt' Γ) g' _ body ts σ henv (gwf_bodyEnv self ps rt' Γ hΓ wp wr)
      (fun r hr => by cases hr; exact wr) hst hty
    simp only [callFn]
    split
    · -- a native body is not typed by the model
      rename_i name
      simp only [tySSeq, tySStmt, tyS, Res.bind] at hty
      cases hty
    · simp only [tryCatchS]
      rw [C07.bind_def]
      cases hev : evalSeq f (calleeEnv (Val.fn id ps rt' body cap self) ps cap self args) body σ with
      | mk r σ1 =>
        rw [hev] at hbodyOut
        cases r with
        | ok p =>
          obtain ⟨S1, hle1, hst1, _, _, _, hnever⟩ := hbodyOut
          -- the body fell off its end: no statement had type `!`, so `()` is a result
          have hvoid : sub Ty.void rt' = true := by
            rcases hmr with h | h
            · exact h
            · exfalso
              simp only [List.any_eq_true] at h
              obtain ⟨t, ht, he⟩ := h
              rw [hnever t ht] at he
              cases he
          simp only [OutP, pure]
          exact ⟨S1, hle1, hst1, sub_trans _ rt' rt (by simp [asType, wf]) wr wrt (by simpa [asType] using hvoid) hret, Good.unit⟩
        | error sg =>
          simp only [OutP] at hbodyOut
          cases sg with
          | ret v =>
            obtain ⟨r2, S1, hr2, hle1, hst1, hv⟩ := hbodyOut
            cases hr2
            simp only [OutP, pure]
            exact ⟨S1, hle1, hst1, vt_trans hv wr wrt hret⟩
          | brk => cases hbodyOut.1
          | cont => cases hbodyOut.1
          | wrong w => cases hbodyOut
          | err e => simp [OutP, throwS, okSig]
          | fuel => simp [OutP, throwS, okSig]
  | bool b => simp [asType, sub, eqv] at hsub
  | int i => simp [asType, sub, eqv] at hsub
  | float x => simp [asType, sub, eqv] at hsub
  | str x => simp [asType, sub, eqv] at hsub
  | unit => simp [asType, sub, eqv] at hsub
  | arr t es _ _ _ => simp [asType, sub, eqv] at hsub
  | tup es _ => simp [asType, sub, eqv] at hsub
  | cell loc ty _ _ => simp [asType, sub, eqv] at hsub
  | struct fs _ _ => simp [asType, sub, eqv] at hsub

/-! ### loops -/

theorem step_B (f : Nat) (hE : PE f) : PB (f + 1) := by
  intro lp ret S g env body T σ henv hg hr hst ht
  have h := hE true ret S g env body T σ henv hg hr hst ht
  simp only [bodyOnce, tryCatchS]
  rw [C07.bind_def]
  cases hev : eval f env body σ with
  | mk r σ1 =>
    rw [hev] at h
    cases r with
    | ok v =>
      obtain ⟨S1, hle1, hst1, _⟩ := h
      simp only [OutP, pure]
      exact ⟨S1, hle1, hst1, trivial⟩
    | error sg =>
      simp only [OutP] at h
      cases sg with
      | ret v => simpa [OutP, throwS, okSig] using h
      | brk => obtain ⟨_, S1, hle1, hst1⟩ := h; simp only [OutP, pure]; exact ⟨S1, hle1, hst1, trivial⟩
      | cont => obtain ⟨_, S1, hle1, hst1⟩ := h; simp only [OutP, pure]; exact ⟨S1, hle1, hst1, trivial⟩
      | wrong w => cases h
      | err e => simp [OutP, throwS, okSig]
      | fuel => simp [OutP, throwS, okSig]

theorem vt_unit : VT S .void .unit := ⟨by simp [asType, sub, eqv], Good.unit⟩

theorem step_Lp (f : Nat) (hB : PB f) (hLp : PLp f) : PLp (f + 1) := by
  intro lp ret S g env body T σ henv hg hr hst ht
  simp only [loopGo]
  apply outP_bind lp ret S (fun _ _ => True) _ _ _ σ (hB lp ret S g env body T σ henv hg hr hst ht)
  intro go σ1 S hle hst _ _
  replace henv := envOk_mono hle henv
  cases go
  · simp only [Bool.false_eq_true, if_false]; exact outP_pure _ _ _ _ _ _ hst vt_unit
  · simp only [if_true]; exact hLp lp ret S g env body T σ1 henv hg hr hst ht

theorem step_W (f : Nat) (hE : PE f) (hB : PB f) (hW : PW f) : PW (f + 1) := by
  intro lp ret S g env c body T σ henv hg hr hst htc ht
  simp only [whileGo]
  apply outP_bind lp ret S (fun S' v => VT S' .bool v) _ _ _ σ (hE lp ret S g env c .bool σ henv hg hr hst htc)
  intro x σ1 S hle hst _ hx
  replace henv := envOk_mono hle henv
  obtain ⟨k, rfl⟩ := vt_bool hx
  apply outP_bind lp ret S (fun _ k2 => k2 = k) _ _ _ σ1 (outP_liftE _ _ _ _ _ _ hst (by simp [asBool]))
  intro k2 σ2 S hle hst _ hk
  replace henv := envOk_mono hle henv
  subst hk
  cases k2
  · simp only [Bool.false_eq_true, if_false]; exact outP_pure _ _ _ _ _ _ hst vt_unit
  · simp only [if_true]
    apply outP_bind lp ret S (fun _ _ => True) _ _ _ σ2 (hB lp ret S g env body T σ2 henv hg hr hst ht)
    intro go σ3 S hle hst _ _
    replace henv := envOk_mono hle henv
    cases go
    · simp only [Bool.false_eq_true, if_false]; exact outP_pure _ _ _ _ _ _ hst vt_unit
    · simp only [if_true]; exact hW lp ret S g env c body T σ3 henv hg hr hst htc ht

theorem step_WS (f : Nat) (hE : PE f) (hB : PB f) (hWS : PWS f) : PWS (f + 1) := by
  intro lp ret S g env x ty e body T1 T σ henv hg hr hst wty hte ht
  simp only [whileSetGo]
  apply outP_bind lp ret S (fun S' v => VT S' T1 v) _ _ _ σ (hE lp ret S g env e T1 σ henv hg hr hst hte)
  intro v σ1 S hle hst _ hv
  replace henv := envOk_mono hle henv
  by_cases hm : Ty.sub v.asType ty = true
  · simp only [hm, if_true]
    apply outP_bind lp ret S (fun _ _ => True) _ _ _ σ1
      (hB lp ret S ((x, ty) :: g) ([(x, v)] :: env) body T σ1 (envOkG_bind env g x v ty henv ⟨hm, hv.2⟩) (gwf_cons g x ty hg wty) hr hst ht)
    intro go σ2 S hle hst _ _
    replace henv := envOk_mono hle henv
    cases go
    · simp only [Bool.false_eq_true, if_false]; exact outP_pure _ _ _ _ _ _ hst vt_unit
    · simp only [if_true]; exact hWS lp ret S g env x ty e body T1 T σ2 henv hg hr hst wty hte ht
  · simp only [hm, Bool.false_eq_true, if_false]; exact outP_pure _ _ _ _ _ _ hst vt_unit

theorem step_Fo (f : Nat) (hF : PF f) (hB : PB f) (hFo : PFo f) : PFo (f + 1) := by
  intro lp ret S g env x itv body b t T σ henv hg hr hst hitv hb wt ht
  have e1 := eq_of_eqv_bool hb
  subst e1
  simp only [forGo]
  apply outP_bind lp ret S (fun S' v => VT S' (.tup [.bool, t]) v) _ _ _ σ
    (hF lp ret S itv [] [] (.tup [.bool, t]) σ hst hitv.2 hitv.1 rfl (by simp [wf, wfL, wt]) ⟨by simp [asTypeL, matchesL], by simp⟩)
  intro r σ1 S hle hst _ hr1
  replace henv := envOk_mono hle henv
  replace hitv := vt_mono hle hitv
  obtain ⟨c, v, rfl, hc, hv⟩ := vt_pair hr1
  obtain ⟨k, rfl⟩ := vt_bool hc
  simp only []
  cases k
  · simp only [Bool.false_eq_true, if_false]; exact outP_pure _ _ _ _ _ _ hst vt_unit
  · simp only [if_true]
    have henvb : EnvOkG S ([(x, v), ("$con", .bool true)] :: env) ((x, t) :: ("$con", .bool) :: g) := by
      have h1 := envOkG_insert ([] :: env) g "$con" (.bool true) .bool (envOkG_push env g henv) hc
      have h2 := envOkG_insert _ _ x v t h1 hv
      simpa [Env.insert] using h2
    apply outP_bind lp ret S (fun _ _ => True) _ _ _ σ1
      (hB lp ret S _ _ body T σ1 henvb (gwf_cons _ x t (gwf_cons g "$con" .bool hg rfl) wt) hr hst ht)
    intro go σ2 S hle hst _ _
    replace henv := envOk_mono hle henv
    replace hitv := vt_mono hle hitv
    cases go
    · simp only [Bool.false_eq_true, if_false]; exact outP_pure _ _ _ _ _ _ hst vt_unit
    · simp only [if_true]; exact hFo lp ret S g env x itv body .bool t T σ2 henv hg hr hst hitv hb wt ht

theorem step_Fd (f : Nat) (hE : PE f) (hFd : PFd f) : PFd (f + 1) := by
  intro lp ret S g env fs fts σ henv hg hr hst ht
  cases fs with
  | nil =>
    simp only [tySFields] at ht; cases ht
    simp only [evalFields]
    exact outP_pure _ _ _ _ _ _ hst (by simp [Rel])
  | cons q es =>
    obtain ⟨k, e⟩ := q
    simp only [tySFields] at ht
    obtain ⟨t, hte, h2⟩ := bind_ok ht
    obtain ⟨ts, hts, h3⟩ := bind_ok h2
    cases h3
    simp only [evalFields]
    apply outP_bind lp ret S (fun S' v => VT S' t v) _ _ _ σ (hE lp ret S g env e t σ henv hg hr hst hte)
    intro v σ1 S hle hst _ hv
    replace henv := envOk_mono hle henv
    apply outP_bind lp ret S (fun S' vs => Rel S' ts vs) _ _ _ σ1 (hFd lp ret S g env es ts σ1 henv hg hr hst hts)
    intro vs σ2 S hle hst _ hvs
    replace hv := vt_mono hle hv
    exact outP_pure _ _ _ _ _ _ hst (by simp only [Rel]; exact ⟨trivial, hv, hvs⟩)

theorem step_Pull (f : Nat) (hF : PF f) : PPull (f + 1) := by
  intro lp ret S it t σ hst hit wt
  simp only [pull]
  apply outP_bind lp ret S (fun S' v => VT S' (.tup [.bool, t]) v) _ _ _ σ
    (hF lp ret S it [] [] (.tup [.bool, t]) σ hst hit.2 hit.1 rfl (by simp [wf, wfL, wt]) ⟨by simp [asTypeL, matchesL], by simp⟩)
  intro r σ1 S hle hst _ hr1
  obtain ⟨c, v, rfl, hc, hv⟩ := vt_pair hr1
  obtain ⟨k, rfl⟩ := vt_bool hc
  cases k
  · simp only []
    exact outP_pure _ _ _ _ _ _ hst (by intro x hx; cases hx)
  · simp only []
    exact outP_pure _ _ _ _ _ _ hst (by intro x hx; cases hx; exact hv)

theorem step_Col (f : Nat) (hP : PPull f) (hCol : PCol f) : PCol (f + 1) := by
  intro lp ret S it acc t σ hst hit wt hacc
  simp only [collectGo]
  apply outP_bind lp ret S (fun S' o => ∀ x, o = some x → VT S' t x) _ _ _ σ (hP lp ret S it t σ hst hit wt)
  intro o σ1 S hle hst _ ho
  replace hit := vt_mono hle hit
  have hacc2 : ∀ v ∈ acc, VT S t v := fun v hv => vt_mono hle (hacc v hv)
  cases o with
  | none =>
    simp only []
    exact outP_pure _ _ _ _ _ _ hst (by intro v hv; exact hacc2 v (by simpa using hv))
  | some x =>
    simp only []
    exact hCol lp ret S it (x :: acc) t σ1 hst hit wt (by
      intro v hv
      rcases List.mem_cons.mp hv with rfl | hv
      · exact ho v rfl
      · exact hacc2 v hv)

/-- everything at once, for every amount of fuel -/
theorem all_f : ∀ f : Nat, PE f ∧ PL f ∧ PO f ∧ PS f ∧ PSt f ∧ PV f ∧ PA f ∧ PC f ∧ PF f ∧ PB f ∧ PLp f ∧ PW f ∧ PWS f ∧ PFo f ∧ PPull f ∧ PCol f ∧ PFd f := by
  intro f
  induction f with
  | zero =>
    refine ⟨?_, ?_, ?_, ?_, ?_, ?_, ?_, ?_, ?_, ?_, ?_, ?_, ?_, ?_, ?_, ?_, ?_⟩
    · intro lp ret S g env e T σ _ _ _ _ _; simp [eval, throwS, OutP, okSig]
    · intro lp ret S g env es Ts σ _ _ _ _ _; simp [evalList, throwS, OutP, okSig]
    · intro lp ret S g env o ot σ _ _ _ _ _; simp [evalOpt, throwS, OutP, okSig]
    · intro lp ret S g g' env body ts σ _ _ _ _ _; simp [evalSeq, throwS, OutP, okSig]
    · intro lp ret S g g' env s t σ _ _ _ _ _; simp [evalStmt, throwS, OutP, okSig]
    · intro lp ret S g env e T σ _ _ _ _ _; simp [evalStmtValue, throwS, OutP, okSig]
    · intro lp ret S g env v arms tys σ _ _ _ _ _ _ _; simp [evalArms, throwS, OutP, okSig]
    · intro lp ret S g env v cands ts σ _ _ _ _ _; simp [candGo, throwS, OutP, okSig]
    · intro lp ret S fv args pts rt σ _ _ _ _ _ _; simp [callFn, throwS, OutP, okSig]
    · intro lp ret S g env body T σ _ _ _ _ _; simp [bodyOnce, throwS, OutP, okSig]
    · intro lp ret S g env body T σ _ _ _ _ _; simp [loopGo, throwS, OutP, okSig]
    · intro lp ret S g env c body T σ _ _ _ _ _ _; simp [whileGo, throwS, OutP, okSig]
    · intro lp ret S g env x ty e body T1 T σ _ _ _ _ _ _ _; simp [whileSetGo, throwS, OutP, okSig]
    · intro lp ret S g env x itv body b t T σ _ _ _ _ _ _ _ _; simp [forGo, throwS, OutP, okSig]
    · intro lp ret S it t σ _ _ _; simp [pull, throwS, OutP, okSig]
    · intro lp ret S it acc t σ _ _ _ _; simp [collectGo, throwS, OutP, okSig]
    · intro lp ret S g env fs fts σ _ _ _ _ _; simp [evalFields, throwS, OutP, okSig]
  | succ f ih =>
    obtain ⟨hE, hL, hO, hS, hSt, hV, hA, hC, hF, hB, hLp, hW, hWS, hFo, hPull, hCol, hFd⟩ := ih
    exact ⟨step_E f hE hL hS hA hO hF hLp hW hWS hFo hCol hFd, step_L f hE hL, step_O f hE, step_S f hSt hS, step_St f hE hV, step_V f hE,
      step_A f hE hC hA, step_C f hE hC, step_F f hS, step_B f hE, step_Lp f hB hLp, step_W f hE hB hW, step_WS f hE hB hWS, step_Fo f hF hB hFo, step_Pull f hF, step_Col f hPull hCol, step_Fd f hE hFd⟩

/-- **soundness and progress with functions, mutable cells and loops**: for an expression the checker model types, the
    reference evaluator - with any fuel, from any store `σ` that respects a store typing `S`, in any environment whose
    variables hold good values with tags below their static types - ends with a store that respects an extension of `S` and
    a value whose tag lies below the type and which inhabits it by contents; or in a documented run-time error; or runs out
    of fuel; or `return`s a value of the enclosing function's result type; or, inside a loop body only, in `break` /
    `continue`.  It never reaches `wrong` (a cell that does not exist, an operator applied to operands of the wrong kind,
    a call of a non-function, an uncovered `match` ...). -/
theorem eval_outcome (f : Nat) (lp : Bool) (ret : Option Ty) (S : STy) (g : TEnv) (env : Env) (e : Expr) (T : Ty) (σ : St)
    (henv : EnvOkG S env g) (hg : GWf g) (hr : RWf ret) (hst : StoreOk S σ) (ht : tyS lp ret g e = .ok T) :
    OutP lp ret S (fun S' v => VT S' T v ∧ hasTy v T = true) (eval f env e σ) :=
  outP_mono _ _ _ _ _ _ ((all_f f).1 lp ret S g env e T σ henv hg hr hst ht) (fun _ v _ hv => ⟨hv, vt_contents hv (tyS_wf lp ret g e T ht)⟩)

/-- the store invariant is what makes a later read sound: in every store the evaluation of a typed expression ends with,
    every cell holds a value of the cell's declared type (by tag and by contents) -/
theorem cells_keep_their_types (f : Nat) (lp : Bool) (ret : Option Ty) (S : STy) (g : TEnv) (env : Env) (e : Expr) (T : Ty) (σ σ' : St) (v : Val)
    (henv : EnvOkG S env g) (hg : GWf g) (hr : RWf ret) (hst : StoreOk S σ) (ht : tyS lp ret g e = .ok T)
    (hev : eval f env e σ = (.ok v, σ')) :
    ∃ S', Ext S S' ∧ σ'.cells.size = S'.length ∧
      ∀ (loc : Nat) (ty : Ty), S'[loc]? = some ty → ∃ w, σ'.cells[loc]? = some w ∧ sub w.asType ty = true ∧ hasTy w ty = true := by
  have := (all_f f).1 lp ret S g env e T σ henv hg hr hst ht
  rw [hev] at this
  obtain ⟨S', hle, hst', _⟩ := this
  refine ⟨S', hle, hst'.1, ?_⟩
  intro loc ty hl
  obtain ⟨w, hw, hvt⟩ := hst'.2.1 loc ty hl
  exact ⟨w, hw, hvt.1, vt_contents hvt (hst'.2.2 ty (List.mem_of_getElem? hl))⟩

theorem tySStmt_wf (lp : Bool) (ret : Option Ty) (g g' : TEnv) (s : Expr) (t : Ty) (h : tySStmt lp ret g s = .ok (t, g')) : wf t = true := by
  cases s with
  | set x e =>
    simp only [tySStmt] at h
    obtain ⟨t', hte, h2⟩ := bind_ok h
    cases h2
    exact tyS_wf lp ret g e t hte
  | destruct xs e =>
    simp only [tySStmt] at h
    obtain ⟨te, hte, h2⟩ := bind_ok h
    have wte := tyS_wf lp ret g e te hte
    split at h2
    · split at h2
      · cases h2; exact wte
      · cases h2
    all_goals first | (cases h2; done) | (split at h2 <;> (try split at h2) <;> (try split at h2) <;> (try split at h2) <;> first | (cases h2; exact wte) | cases h2)
  | fndecl x ps rt body =>
    simp only [tySStmt] at h
    split at h
    · cases h
    · rename_i hwf
      have hwf' : wfParams ps = true ∧ wf rt = true := by simpa using hwf
      obtain ⟨p, hp, h2⟩ := bind_ok h
      split at h2
      · cases h2
      · cases h2
        simp [wf, wfL_of_wfParams ps hwf'.1, hwf'.2]
  | _ =>
    simp only [tySStmt] at h
    obtain ⟨t', hte, h2⟩ := bind_ok h
    cases h2
    exact tyS_wf lp ret g _ t hte

theorem tySSeq_wf (lp : Bool) (ret : Option Ty) : ∀ (body : List Expr) (g g' : TEnv) (ts : List Ty),
    tySSeq lp ret g body = .ok (ts, g') → wfL ts = true
  | [], g, g', ts, h => by simp only [tySSeq] at h; cases h; rfl
  | s :: rest, g, g', ts, h => by
    simp only [tySSeq] at h
    obtain ⟨p, hp, h2⟩ := bind_ok h
    obtain ⟨t1, g1⟩ := p
    simp only [] at h2
    obtain ⟨q, hq, h3⟩ := bind_ok h2
    obtain ⟨ts', g2⟩ := q
    cases h3
    simp only [wfL, Bool.and_eq_true]
    exact ⟨tySStmt_wf lp ret g g1 s t1 hp, tySSeq_wf lp ret rest g1 g2 ts' hq⟩

theorem lastTy_wf : ∀ (ts : List Ty), wfL ts = true → wf (lastTy ts) = true
  | [], _ => rfl
  | [t], h => by simp only [wfL, Bool.and_eq_true] at h; simpa [lastTy] using h.1
  | t :: t2 :: ts, h => by
    simp only [wfL, Bool.and_eq_true] at h
    have := lastTy_wf (t2 :: ts) (by simp only [wfL, Bool.and_eq_true]; exact h.2)
    simpa [lastTy] using this

/-- whole programs from the empty environment and the empty store: a value of the program's type, a documented error, or
    fuel - nothing else (at top level there is no enclosing function or loop, so `return`, `break` and `continue` are not
    outcomes either) -/
theorem program_outcome (f : Nat) (prog : List Expr) (T : Ty) (ht : tySProgram [] prog = .ok T) :
    (match (evalSeq f [[]] prog {}).1 with
     | .ok p => sub p.1.asType T = true ∧ hasTy p.1 T = true
     | .error (.err _) => True
     | .error .fuel => True
     | .error _ => False) := by
  unfold tySProgram at ht
  obtain ⟨p, hp, h2⟩ := bind_ok ht
  obtain ⟨ts, g'⟩ := p
  cases h2
  have h0 : EnvOkG [] [[]] [] := by intro x t hx; simp [TEnv.lookup] at hx
  have hg0 : GWf [] := by intro x t hx; simp [TEnv.lookup] at hx
  have hs0 : StoreOk [] ({} : St) := ⟨rfl, by intro loc ty h; simp at h, by intro ty h; simp at h⟩
  have wT : wf (lastTy ts) = true := lastTy_wf ts (tySSeq_wf false none prog [] g' ts hp)
  have := (all_f f).2.2.2.1 false none [] [] g' [[]] prog ts {} h0 hg0 (by intro rt h; cases h) hs0 hp
  cases hev : evalSeq f [[]] prog {} with
  | mk r σ1 =>
    rw [hev] at this
    simp only []
    cases r with
    | ok p =>
      obtain ⟨S', _, _, hvt, _, _, _⟩ := this
      exact ⟨hvt.1, vt_contents hvt wT⟩
    | error sg => cases sg <;> simp [OutP, okSig] at this ⊢

/-- non-vacuity: a counter cell, a `while` loop that updates it with compound assignments and leaves through `break`, a
    function that writes through a cell parameter -/
def sampleSt : List Expr :=
  [.set "c" (.mutE (some .int) (.litInt 0)),
   .fndecl "bump" [("k", .cell .int)] .int [.ret (some (.assign .add (.var "k") (.litInt 2)))],
   .«while» (.bin .lt (.pre .deref (.var "c")) (.litInt 10))
     (.block [.call (.var "bump") [.var "c"],
              .ifElse (.bin .gt (.pre .deref (.var "c")) (.litInt 7)) (.block [.brk]) none,
              .assign .mul (.var "c") (.litInt 2)]),
   .pre .deref (.var "c")]

example : tySProgram [] sampleSt = .ok .int := by
  simp [tySProgram, sampleSt, tySSeq, tySStmt, tyS, tySList, Res.bind, okW, binTy, TEnv.lookup, bindParams, wfParams, argsOk,
    lastTy, pairTy, accNum, accAddScalar, accAdd, concat, wf, wfL, membersOk, nodupL, memL, eqv, eqvL, sub, anyMatch, matchesL, allMatch, insertM,
    extendM, matchesParams, Spec.assignBase, helperRet]

/-- non-vacuity for `for`, destructuring and a union-typed operand: a hand-written iterator over a counter cell, summed by a
    `for` loop, the sum taken apart from a tuple, a value of type `[int] | string` indexed -/
def sampleU : List Expr :=
  [.set "n" (.mutE (some .int) (.litInt 0)),
   .fndecl "it" [] (.tup [.bool, .int])
     [.assign .add (.var "n") (.litInt 1),
      .ret (some (.tuple [.bin .lt (.pre .deref (.var "n")) (.litInt 4), .pre .deref (.var "n")]))],
   .set "acc" (.mutE (some .int) (.litInt 0)),
   .forE "x" (.var "it") (.block [.assign .add (.var "acc") (.var "x")]),
   .destruct ["a", "b"] (.tuple [.pre .deref (.var "acc"), .litStr "s"]),
   .set "u" (.ifElse (.bin .gt (.var "a") (.litInt 3)) (.block [.array [.var "a"]]) (some (.block [.var "b"]))),
   .at (.var "u") (.litInt 0)]

example : tySProgram [] sampleU = .ok (.multi [.int, .str]) := by
  simp [tySProgram, sampleU, tySSeq, tySStmt, tyS, tySList, Res.bind, okW, binTy, TEnv.lookup, bindParams, wfParams, argsOk,
    lastTy, pairTy, accNum, accAddScalar, accAdd, concat, concatL, wf, wfL, membersOk, nodupL, memL, eqv, eqvL, sub, subL, anyMatch, matchesL, allMatch, insertM,
    extendM, matchesParams, Spec.assignBase, helperRet, bindAll, canBeIndexed, indexResult, query, foldQ, joinO, isMulti, isNever]

end Ssl.CS
