import SslModel.Model.Spec
/-!
  Membership of a run-time value in a type, judged by *contents* (independently of
  `Type::matches` on run-time tags), and soundness of the tags stored inside values.
  Cells are judged by their declared content type (invariance); what a cell currently holds is
  the business of the store invariant.
-/
set_option linter.unusedSimpArgs false
namespace Ssl
namespace Val
open Ty

mutual
/-- `v ∈ T` by contents -/
def hasTy : Val → Ty → Bool
  | _, .any => true
  | _, .never => false
  | v, .multi ms => hasTyAny v ms
  | .bool _, .bool => true
  | .int _, .int => true
  | .float _, .float => true
  | .str _, .str => true
  | .unit, .void => true
  | .arr _ es, .arr e => allHasTy es e
  | .tup vs, .tup ts => hasTyL vs ts
  | .struct fs, .struct fts => hasFields fs fts
  | v@(.fn ..), t@(.fn ..) => Ty.sub v.asType t
  | .cell _ t0, .cell t => Ty.eqv t0 t
  | _, _ => false
termination_by v t => Val.size v + Ty.size t
decreasing_by all_goals (simp only [Val.size, Val.sizeL, Val.sizeF, Ty.size, Ty.sizeL, Ty.sizeF]; omega)
def hasTyAny : Val → List Ty → Bool
  | _, [] => false
  | v, m :: ms => hasTy v m || hasTyAny v ms
termination_by v ms => Val.size v + Ty.sizeL ms
decreasing_by all_goals (simp only [Val.size, Val.sizeL, Val.sizeF, Ty.size, Ty.sizeL, Ty.sizeF]; omega)
def allHasTy : List Val → Ty → Bool
  | [], _ => true
  | v :: vs, t => hasTy v t && allHasTy vs t
termination_by vs t => Val.sizeL vs + Ty.size t
decreasing_by all_goals (simp only [Val.size, Val.sizeL, Val.sizeF, Ty.size, Ty.sizeL, Ty.sizeF]; omega)
def hasTyL : List Val → List Ty → Bool
  | [], [] => true
  | v :: vs, t :: ts => hasTy v t && hasTyL vs ts
  | _, _ => false
termination_by vs ts => Val.sizeL vs + Ty.sizeL ts
decreasing_by all_goals (simp only [Val.size, Val.sizeL, Val.sizeF, Ty.size, Ty.sizeL, Ty.sizeF]; omega)
/-- every field demanded by the struct type is present with a value of its type -/
def hasFields : List (String × Val) → List (String × Ty) → Bool
  | _, [] => true
  | fs, (k, t) :: fts => hasField fs k t && hasFields fs fts
termination_by fs fts => Val.sizeF fs + Ty.sizeF fts
decreasing_by all_goals (simp only [Val.size, Val.sizeL, Val.sizeF, Ty.size, Ty.sizeL, Ty.sizeF]; omega)
def hasField : List (String × Val) → String → Ty → Bool
  | [], _, _ => false
  | (k', v) :: fs, k, t => if k == k' then hasTy v t else hasField fs k t
termination_by fs _ t => Val.sizeF fs + Ty.size t
decreasing_by all_goals (simp only [Val.size, Val.sizeL, Val.sizeF, Ty.size, Ty.sizeL, Ty.sizeF]; omega)
end

mutual
/-- the stored element type of every array inside `v` covers its elements -/
def tagOk : Val → Bool
  | .arr t es => allHasTy es t && tagOkL es
  | .tup es => tagOkL es
  | .struct fs => tagOkF fs
  | _ => true
def tagOkL : List Val → Bool
  | [] => true
  | v :: vs => tagOk v && tagOkL vs
def tagOkF : List (String × Val) → Bool
  | [] => true
  | (_, v) :: fs => tagOk v && tagOkF fs
end

end Val
end Ssl
