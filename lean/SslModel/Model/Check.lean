import SslModel.Model.Val
/-!
  The static types the checker assigns (`ReturnType::return_type` after the admissibility tests of
  `create_instruction`), for the FIRST-ORDER EXPRESSION FRAGMENT of the language: literals, variables,
  array and tuple literals, prefix `!` / `-`, `&&` / `||`, the scalar binary operators, indexing and tuple
  access on non-union operands, `if` / `else`, `if x: T = e` (run-time type tests), `match` (type, value and default arms with
  the coverage test), blocks and `:=` declarations.  Everything else (functions, calls, cells, loops, structs, iterators) answers `unsup` - the fragment is what the
  evaluator-level soundness theorem (Thm/C01Eval) is about.

  Sources: instruction/{array,tuple,prefix_op,unary_operation,bin_op,bin_op/math/add,bin_op/bitwise,at,
  tuple_access,control_flow/if_else,block,set,local_variable}.rs.
-/
namespace Ssl.Check
open Ssl Ssl.Ty

inductive Res (α : Type) where
  | ok (a : α)
  | ill          -- the checker reports an error
  | unsup        -- outside the modelled fragment
  deriving Repr, Inhabited

@[inline] def Res.bind {α β} (r : Res α) (f : α → Res β) : Res β :=
  match r with
  | .ok a => f a
  | .ill => .ill
  | .unsup => .unsup

/-- a computed type is answered only when well-formed (it always is: the guard never fires on the correspondence
    stream; it spares the soundness proof a separate induction over expressions) -/
def okW (t : Ty) : Res Ty := if wf t then .ok t else .unsup

abbrev TEnv := List (String × Ty)

def TEnv.lookup (x : String) : TEnv → Option Ty
  | [] => none
  | (y, t) :: g => if x == y then some t else TEnv.lookup x g

def pairTy (a b : Ty) : Ty := .tup [a, b]
/-- `ACCEPTED_NUM_TYPE`, `ACCEPTED_INT_TYPE`, add's and bitwise's `ACCEPTED_TYPE` -/
def accNum : Ty := .multi [pairTy .int .int, pairTy .float .float]
def accInt : Ty := pairTy .int .int
def accAddScalar : Ty := .multi [pairTy .int .int, pairTy .float .float, pairTy .str .str]
def accAdd : Ty := .multi [pairTy .int .int, pairTy .float .float, pairTy .str .str, pairTy (.arr .any) (.arr .any)]
def accBit : Ty := .multi [pairTy .int .int, pairTy .bool .bool]
def accNot : Ty := .multi [.int, .bool]
def accNeg : Ty := .multi [.int, .float]

/-- `can_be_used` + `BinOperation::return_type` -/
def binTy (op : BinOp) (l r : Ty) : Res Ty :=
  match op with
  | .add =>
    match l, r with
    | .arr le, .arr re => okW (.arr (concat le re))
    | _, _ =>
      if sub (pairTy l r) accAddScalar then okW l
      else if sub (pairTy l r) accAdd then .unsup      -- unions of array types: not in the fragment
      else .ill
  | .sub | .mul | .div | .pow => if sub (pairTy l r) accNum then okW l else .ill
  | .lt | .le | .gt | .ge => if sub (pairTy l r) accNum then .ok .bool else .ill
  | .mod | .shl | .shr => if sub (pairTy l r) accInt then .ok .int else .ill
  | .eq | .ne => .ok .bool
  | .band | .bor | .bxor => if sub (pairTy l r) accBit then okW l else .ill
  | .filter | .map | .partition => .unsup

/-- what the checker knows about an arm (`MatchArm::is_covering_type`) -/
inductive ArmKind where
  | value            -- `v1, v2 => ..`: never counted as covering
  | other            -- `=> ..`
  | ty (t : Ty)      -- `x: T => ..`

/-- `MatchArm::is_covering_type` on a non-union type; at run time (`MatchArm::covers`) the same test is
    applied to the scrutinee's run-time type -/
def armCovers : ArmKind → Ty → Bool
  | .value, _ => false
  | .other, _ => true
  | .ty a, t => sub t a

/-- `Match::is_covering_type`: a union is covered member by member -/
def covering (arms : List ArmKind) : Ty → Bool
  | .multi ms => ms.all fun m => arms.any (armCovers · m)
  | t => arms.any (armCovers · t)

/-- what `MatchArm::is_covering_type` looks at -/
def armKinds : List Arm → List ArmKind
  | [] => []
  | .ty _ t _ :: rest => .ty t :: armKinds rest
  | .val _ _ :: rest => .value :: armKinds rest
  | .other _ :: rest => .other :: armKinds rest

/-- a slice bound, when present, has exactly the type int -/
def boundOk : Option Ty → Bool
  | none => true
  | some t => eqv t .int

mutual
def tyOf : TEnv → Expr → Res Ty
  | _, .litBool _ => .ok .bool
  | _, .litInt _ => .ok .int
  | _, .litFloat _ => .ok .float
  | _, .litStr _ => .ok .str
  | _, .litUnit => .ok .void
  | g, .var x => match g.lookup x with
    | some t => okW t
    | none => .ill
  | g, .array es => (tyOfList g es).bind fun ts => okW (.arr (concatL ts))
  | g, .tuple es => if es.length < 2 then .unsup else (tyOfList g es).bind fun ts => okW (.tup ts)
  | g, .pre .not e => (tyOf g e).bind fun t => if sub t accNot then okW t else .ill
  | g, .pre .neg e => (tyOf g e).bind fun t => if sub t accNeg then okW t else .ill
  | g, .and a b => (tyOf g a).bind fun ta => (tyOf g b).bind fun tb =>
      if eqv ta .bool && eqv tb .bool then .ok .bool else .ill
  | g, .or a b => (tyOf g a).bind fun ta => (tyOf g b).bind fun tb =>
      if eqv ta .bool && eqv tb .bool then .ok .bool else .ill
  | g, .bin op a b => (tyOf g a).bind fun ta => (tyOf g b).bind fun tb => binTy op ta tb
  | g, .at a i => (tyOf g a).bind fun ta => (tyOf g i).bind fun ti =>
      if !eqv ti .int then .ill else
      match ta with
      | .arr e => okW e
      | .str => .ok .str
      | .multi _ => .unsup
      | .never => .unsup
      | _ => .ill
  | g, .tacc e n => (tyOf g e).bind fun t =>
      match t with
      | .tup ts => match ts[n]? with
        | some x => okW x
        | none => .ill
      | .multi _ => .unsup
      | .never => .unsup
      | _ => .ill
  | g, .ifElse c t e => (tyOf g c).bind fun tc =>
      if !(eqv tc .bool || eqv tc .never) then .ill else       -- a condition of type `!` never yields a value
      (tyOf g t).bind fun tt =>
      match e with
      | some e => (tyOf g e).bind fun te => okW (concat tt te)
      | none => okW (concat tt .void)
  | g, .block body => (tyOfSeq g body).bind fun (t, _) => okW t
  | g, .ifSet x ty e body els =>
      -- `if x: T = e body else els`: no admissibility test; `x` has the declared type in the body only
      if !wf ty then .unsup else
      (tyOf g e).bind fun _ => (tyOf ((x, ty) :: g) body).bind fun tb =>
      match els with
      | some el => (tyOf g el).bind fun tl => okW (concat tb tl)
      | none => okW (concat tb .void)
  | g, .arrayRepeat v n => (tyOf g v).bind fun tv => (tyOf g n).bind fun tn =>
      -- `[v; n]`: the length's type must match int; `[typeof v]`
      if !sub tn .int then .ill else
      if !eqv tn .int then .unsup else okW (.arr tv)
  | g, .slice a st en sp => (tyOf g a).bind fun ta =>
      -- `a[start:stop:step]`: the operand must be indexable, every present bound an int; the operand's own type
      (tyOfOpt g st).bind fun ts => (tyOfOpt g en).bind fun te => (tyOfOpt g sp).bind fun tp =>
      if !canBeIndexed ta then .ill else
      if !(boundOk ts && boundOk te && boundOk tp) then .ill else
      match ta with
      | .arr _ => okW ta
      | .str => .ok .str
      | _ => .unsup
  | g, .matchE e arms =>
      -- `Match::create_instruction`: the arms must cover the scrutinee's static type; the type is the join of the arms'
      (tyOf g e).bind fun te => (tyOfArms g arms).bind fun tys =>
      if !(covering (armKinds arms) te) then .ill else okW (concatL tys)
  | _, _ => .unsup
/-- the body types of the arms, in order (`x: T => body` types its body with `x : T`; the candidates of a value arm are
    expressions of any type) -/
def tyOfArms : TEnv → List Arm → Res (List Ty)
  | _, [] => .ok []
  | g, .ty x t body :: rest =>
      if !wf t then .unsup else
      (tyOf ((x, t) :: g) body).bind fun tb => (tyOfArms g rest).bind fun ts => .ok (tb :: ts)
  | g, .val cands body :: rest =>
      (tyOfList g cands).bind fun _ => (tyOf g body).bind fun tb => (tyOfArms g rest).bind fun ts => .ok (tb :: ts)
  | g, .other body :: rest =>
      (tyOf g body).bind fun tb => (tyOfArms g rest).bind fun ts => .ok (tb :: ts)
def tyOfOpt : TEnv → Option Expr → Res (Option Ty)
  | _, none => .ok none
  | g, some e => (tyOf g e).bind fun t => .ok (some t)
def tyOfList : TEnv → List Expr → Res (List Ty)
  | _, [] => .ok []
  | g, e :: es => (tyOf g e).bind fun t => (tyOfList g es).bind fun ts => .ok (t :: ts)
/-- a statement list: the type of its last statement (`()` if empty) and the extended environment -/
def tyOfSeq : TEnv → List Expr → Res (Ty × TEnv)
  | g, [] => .ok (.void, g)
  | g, [s] => tyOfStmt g s
  | g, s :: rest => (tyOfStmt g s).bind fun (_, g') => tyOfSeq g' rest
def tyOfStmt : TEnv → Expr → Res (Ty × TEnv)
  | g, .set x e => (tyOf g e).bind fun t => .ok (t, (x, t) :: g)
  | _, .destruct .. => .unsup
  | _, .fndecl .. => .unsup
  | g, e => (tyOf g e).bind fun t => .ok (t, g)
end

/-- a whole program -/
def tyOfProgram (prog : List Expr) : Res Ty := (tyOfSeq [] prog).bind fun (t, _) => .ok t

end Ssl.Check
