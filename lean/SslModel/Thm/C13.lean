import SslModel.Model.Spec
/-!
# C13 — mutable cells: shared identity, atomic update value

Theorems about the store of the reference semantics `Spec`.  A cell value is `Val.cell loc ty`: it
holds a *location*, so copying the value (binding it, putting it into an array / struct / closure
snapshot, passing it) copies the location and every copy reads and writes the same store entry.
-/
namespace Ssl.C13
open Ssl Ssl.Spec

theorem bind_def {α β} (m : M α) (k : α → M β) (σ : St) :
    (m >>= k) σ = (match m σ with
      | (.ok a, σ') => k a σ'
      | (.error e, σ') => (.error e, σ')) := rfl

/-! ## `mut` creates a fresh cell each time it is evaluated -/

theorem newCell_fresh (ty : Ty) (v : Val) (σ : St) :
    newCell ty v σ = (.ok (.cell σ.cells.size ty), { σ with cells := σ.cells.push v }) := rfl

/-- the new location is none of the existing ones, holds the initial value, and no existing cell changed -/
theorem newCell_spec (ty : Ty) (v : Val) (σ : St) :
    let σ' := (newCell ty v σ).2
    (∀ loc, loc < σ.cells.size → loc ≠ σ.cells.size ∧ σ'.cells[loc]? = σ.cells[loc]?) ∧
    σ'.cells[σ.cells.size]? = some v := by
  simp only [newCell_fresh]
  constructor
  · intro loc h
    refine ⟨by omega, ?_⟩
    simp [Array.getElem?_push, h, Nat.ne_of_lt h]
  · simp

theorem mut_evaluates_to_fresh_cell (f : Nat) (env : Env) (ty : Ty) (e : Expr) (σ σ1 : St) (v : Val)
    (h : eval f env e σ = (.ok v, σ1)) :
    eval (f + 1) env (.mutE (some ty) e) σ =
      (.ok (.cell σ1.cells.size ty), { σ1 with cells := σ1.cells.push v }) := by
  simp only [eval, bind_def, h]; rfl

/-- two evaluations of the same `mut` expression give two different cells -/
theorem two_muts_differ (ty : Ty) (v w : Val) (σ : St) :
    let r1 := newCell ty v σ
    let r2 := newCell ty w r1.2
    ∃ l1 l2, r1.1 = .ok (.cell l1 ty) ∧ r2.1 = .ok (.cell l2 ty) ∧ l1 ≠ l2 := by
  refine ⟨σ.cells.size, σ.cells.size + 1, rfl, ?_, by omega⟩
  simp [newCell]

/-! ## reads and writes go through the location -/

theorem read_after_write (loc : Nat) (v : Val) (σ : St) (h : loc < σ.cells.size) :
    let σ' := (writeCell loc v σ).2
    readCell loc σ' = (.ok v, σ') := by
  simp [writeCell, readCell, h]

theorem write_other_unchanged (loc loc' : Nat) (v : Val) (σ : St) (h : loc < σ.cells.size)
    (hne : loc' ≠ loc) :
    ((writeCell loc v σ).2).cells[loc']? = σ.cells[loc']? := by
  simp [writeCell, h, Array.getElem?_setIfInBounds, Ne.symm hne]

/-- `*c` reads the entry of the cell's location, whatever copy of the cell value is used -/
theorem deref_reads_location (f : Nat) (env : Env) (e : Expr) (σ σ1 : St) (loc : Nat) (ty : Ty)
    (h : eval f env e σ = (.ok (.cell loc ty), σ1)) :
    eval (f + 1) env (.pre .deref e) σ = readCell loc σ1 := by
  simp only [eval, bind_def, h]

/-- aliases: two names bound to the same cell value read the same content -/
theorem aliases_read_same (f : Nat) (env : Env) (x y : String) (c : Val) (σ : St)
    (hx : env.lookup x = some c) (hy : env.lookup y = some c) :
    eval (f + 2) env (.pre .deref (.var x)) σ = eval (f + 2) env (.pre .deref (.var y)) σ := by
  simp only [eval, bind_def, hx, hy]

/-! ## `c = v` stores `v` and yields `v` -/

theorem assign_stores_and_yields (f : Nat) (env : Env) (t e : Expr) (σ σ1 σ2 : St) (loc : Nat)
    (ty : Ty) (v : Val)
    (ht : eval f env t σ = (.ok (.cell loc ty), σ1)) (hv : eval f env e σ1 = (.ok v, σ2))
    (hb : loc < σ2.cells.size) :
    eval (f + 1) env (.assign .set t e) σ = (.ok v, { σ2 with cells := σ2.cells.set! loc v }) := by
  simp only [eval, bind_def, ht, hv, assignBase, writeCell, hb]; rfl

/-! ## `c op= v` uses the content at the moment of the update (after `v` was evaluated) -/

theorem compound_reads_after_rhs (f : Nat) (env : Env) (op : AssignOp) (bop : BinOp) (t e : Expr)
    (σ σ1 σ2 : St) (loc : Nat) (ty : Ty) (v cur r : Val)
    (hop : assignBase op = some bop)
    (ht : eval f env t σ = (.ok (.cell loc ty), σ1)) (hv : eval f env e σ1 = (.ok v, σ2))
    (hc : σ2.cells[loc]? = some cur) (hr : binScalar bop cur v = .ok r) :
    eval (f + 1) env (.assign op t e) σ = (.ok r, { σ2 with cells := σ2.cells.set! loc r }) := by
  have hb : loc < σ2.cells.size := by
    rcases Nat.lt_or_ge loc σ2.cells.size with h | h
    · exact h
    · simp [Array.getElem?_eq_none h] at hc
  simp only [eval, bind_def, ht, hv, hop, readCell, hc, liftE, hr, writeCell, hb]; rfl

/-- … and when the operation fails, the cell keeps its content -/
theorem compound_fail_unchanged (f : Nat) (env : Env) (op : AssignOp) (bop : BinOp) (t e : Expr)
    (σ σ1 σ2 : St) (loc : Nat) (ty : Ty) (v cur : Val) (err : Sig)
    (hop : assignBase op = some bop)
    (ht : eval f env t σ = (.ok (.cell loc ty), σ1)) (hv : eval f env e σ1 = (.ok v, σ2))
    (hc : σ2.cells[loc]? = some cur) (hr : binScalar bop cur v = .error err) :
    eval (f + 1) env (.assign op t e) σ = (.error err, σ2) := by
  simp only [eval, bind_def, ht, hv, hop, readCell, hc, liftE, hr]

/-- every compound operator is its base operator (all 11 by instantiation) -/
theorem compound_operators :
    [AssignOp.add, .sub, .mul, .div, .mod, .pow, .shl, .shr, .band, .bor, .bxor].map assignBase =
    [some .add, some .sub, some .mul, some .div, some .mod, some .pow, some .shl, some .shr,
     some .band, some .bor, some .bxor] := by decide

/-! ## non-vacuity -/
example : (2 : Nat) < (({ cells := #[Val.unit, Val.unit, Val.unit] } : St)).cells.size := by decide

end Ssl.C13
