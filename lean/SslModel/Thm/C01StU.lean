import SslModel.Thm.C01StB
set_option linter.unusedSimpArgs false
set_option linter.unusedVariables false
set_option maxRecDepth 2000
/-!
  Type queries on UNION operands (`Type::index_result`, `tuple_element_at`, `mut_element_type`, `return_type`, `params`,
  `mut_assign_type`): the answer of a join-folded query lies above every member's answer, the answer of a meet-folded one
  below; and a good value of a union type is a value of one of its members.
-/
namespace Ssl.CS
open Ssl Ssl.Ty Ssl.Val Ssl.Spec Ssl.Check Ssl.CheckF Ssl.CheckS Ssl.C01
variable {S : STy}

theorem wfL_memU {ts : List Ty} (h : wfL ts = true) {t : Ty} (ht : t ∈ ts) : wf t = true := by
  induction ts with
  | nil => cases ht
  | cons a as ih =>
    simp only [wfL, Bool.and_eq_true] at h
    rcases List.mem_cons.mp ht with rfl | h2
    · exact h.1
    · exact ih h.2 h2

/-- the fold of a join query: the result is well-formed, lies above the seed and above every member's answer -/
theorem foldJoin_upper (base : Ty → Option Ty) (hb : ∀ m t, wf m = true → base m = some t → wf t = true) :
    ∀ (ms : List Ty) (acc T : Ty), wfL ms = true → wf acc = true →
      ms.foldlM (fun acc t => do let c ← base t; joinO acc c) acc = some T →
      wf T = true ∧ sub acc T = true ∧ ∀ m ∈ ms, ∃ t, base m = some t ∧ sub t T = true
  | [], acc, T, _, wa, h => by
    simp only [List.foldlM, pure, Option.some.injEq] at h
    subst h
    exact ⟨wa, sub_refl _ wa, by simp⟩
  | m :: ms, acc, T, wl, wa, h => by
    simp only [wfL, Bool.and_eq_true] at wl
    simp only [List.foldlM, bind, Option.bind] at h
    cases hbm : base m with
    | none => rw [hbm] at h; simp at h
    | some c =>
      rw [hbm] at h
      simp only [joinO] at h
      have wc := hb m c wl.1 hbm
      have wj := concat_wf acc c wa wc
      obtain ⟨u1, u2⟩ := concat_upper acc c wa wc
      obtain ⟨wT, hs, hmem⟩ := foldJoin_upper base hb ms (concat acc c) T wl.2 wj h
      refine ⟨wT, sub_trans _ _ _ wa wj wT u1 hs, ?_⟩
      intro z hz
      rcases List.mem_cons.mp hz with rfl | hz
      · exact ⟨c, hbm, sub_trans _ _ _ wc wj wT u2 hs⟩
      · exact hmem z hz

theorem query_join_upper (base : Ty → Option Ty) (hb : ∀ m t, wf m = true → base m = some t → wf t = true)
    (ms : List Ty) (T : Ty) (wl : wfL ms = true) (h : query base joinO (.multi ms) = some T) :
    wf T = true ∧ ∀ m ∈ ms, ∃ t, base m = some t ∧ sub t T = true := by
  simp only [query, foldQ] at h
  cases ms with
  | nil => simp at h
  | cons m ms =>
    simp only [wfL, Bool.and_eq_true] at wl
    simp only [bind, Option.bind] at h
    cases hbm : base m with
    | none => rw [hbm] at h; simp at h
    | some c =>
      rw [hbm] at h
      have wc := hb m c wl.1 hbm
      obtain ⟨wT, hs, hmem⟩ := foldJoin_upper base hb ms c T wl.2 wc h
      refine ⟨wT, ?_⟩
      intro z hz
      rcases List.mem_cons.mp hz with rfl | hz
      · exact ⟨c, hbm, hs⟩
      · exact hmem z hz

/-- a good value whose tag lies below a union lies below one of its members -/
theorem vt_member {v : Val} {ms : List Ty} (h : VT S (.multi ms) v) : ∃ m ∈ ms, VT S m v := by
  obtain ⟨hs, hg⟩ := h
  obtain ⟨s1, s2⟩ := good_tag_shape hg
  rw [sub_multi_right _ ms s1 s2] at hs
  have : ∀ (l : List Ty), anyMatch v.asType l = true → ∃ m ∈ l, sub v.asType m = true := by
    intro l
    induction l with
    | nil => intro h; simp [anyMatch] at h
    | cons a as ih =>
      intro h
      rw [anyMatch] at h
      simp only [Bool.or_eq_true] at h
      rcases h with h | h
      · exact ⟨a, by simp, h⟩
      · obtain ⟨m, hm, hh⟩ := ih h; exact ⟨m, by simp [hm], hh⟩
  obtain ⟨m, hm, hh⟩ := this ms hs
  exact ⟨m, hm, hh, hg⟩

/-! ### what the operators do on a member of the union -/

theorem tacc_value {x : Val} {ts : List Ty} {n : Nat} {t : Ty} (hx : VT S (.tup ts) x) (ht : ts[n]? = some t) :
    ∃ vs w, x = .tup vs ∧ vs[n]? = some w ∧ VT S t w := by
  obtain ⟨vs, rfl, hl⟩ := vt_tuple hx
  cases hw : vs[n]? with
  | some w => exact ⟨vs, w, rfl, hw, listOk_get ts vs hl n w t hw ht⟩
  | none => exact absurd (asTypeL_none vs n hw) (matchesL_some (asTypeL vs) ts n t hl.1 ht)

theorem at_value (lp : Bool) (ret : Option Ty) (x : Val) (k : I64) (tc te : Ty) (σ : St) (hst : StoreOk S σ)
    (hx : VT S tc x) (wtc : wf tc = true) (hk : tc = .arr te ∨ (tc = .str ∧ te = .str)) :
    OutP lp ret S (fun S' v => VT S' te v) (liftE (atVal x (.int k)) σ) := by
  have cx := vt_contents hx wtc
  rcases hk with rfl | ⟨rfl, rfl⟩
  · obtain ⟨t1, xs, rfl⟩ := arr_of_hasTy cx
    obtain ⟨tx, gx⟩ := hx
    simp only [asType, C01.sub_arr] at tx
    have we : wf te = true := by simpa [wf] using wtc
    cases gx with
    | arr _ _ w1 hs1 hg1 =>
    apply outP_liftE2 _ _ _ _ _ _ hst
    · intro v hat
      have hmem := atVal_mem t1 xs k v hat
      exact ⟨sub_trans _ t1 te (good_wf_tag (hg1 v hmem)) w1 we (hs1 v hmem) tx, hg1 v hmem⟩
    · intro sg hat
      exact ⟨_, atVal_sig _ k sg (Or.inl ⟨t1, xs, rfl⟩) hat⟩
  · obtain ⟨str, rfl⟩ : ∃ str, x = .str str := by cases x <;> simp [hasTy] at cx; exact ⟨_, rfl⟩
    apply outP_liftE2 _ _ _ _ _ _ hst
    · intro v hat
      have := index_string_yields_string str k v hat
      obtain ⟨w, rfl⟩ : ∃ w, v = .str w := by cases v <;> simp [hasTy] at this; exact ⟨_, rfl⟩
      exact ⟨by simp [asType, sub, eqv], Good.str _⟩
    · intro sg hat
      exact ⟨_, atVal_sig _ k sg (Or.inr ⟨str, rfl⟩) hat⟩

theorem wfL_of_multi {ms : List Ty} (h : wf (.multi ms) = true) : wfL ms = true := by
  simp only [wf, Bool.and_eq_true] at h
  exact h.1.1.2

/-! ### the member answers of the join queries -/
def baseIndex : Ty → Option Ty := fun | .arr e => some e | .str => some .str | _ => none
def baseTupAt (n : Nat) : Ty → Option Ty := fun | .tup es => es[n]? | _ => none
def baseCell : Ty → Option Ty := fun | .cell e => some e | _ => none
def baseRet : Ty → Option Ty := fun | .fn _ r => some r | _ => none

theorem baseIndex_wf (m t : Ty) (wm : wf m = true) (hb : baseIndex m = some t) : wf t = true := by
  cases m <;> simp [baseIndex] at hb
  · subst hb; rfl
  · subst hb; simpa [wf] using wm
theorem baseTupAt_wf (n : Nat) (m t : Ty) (wm : wf m = true) (hb : baseTupAt n m = some t) : wf t = true := by
  cases m <;> simp [baseTupAt] at hb
  rename_i es
  have : wfL es = true := by simpa [wf] using wm
  exact wfL_memU this (List.mem_of_getElem? hb)
theorem baseCell_wf (m t : Ty) (wm : wf m = true) (hb : baseCell m = some t) : wf t = true := by
  cases m <;> simp [baseCell] at hb
  subst hb; simpa [wf] using wm
theorem baseRet_wf (m t : Ty) (wm : wf m = true) (hb : baseRet m = some t) : wf t = true := by
  cases m <;> simp [baseRet] at hb
  subst hb
  simp only [wf, Bool.and_eq_true] at wm
  exact wm.2

def baseField (k : String) : Ty → Option Ty := fun | .struct fs => lookupF k fs | _ => none
theorem wfF_lookup : ∀ (fs : List (String × Ty)) (k : String) (t : Ty), wfF fs = true → lookupF k fs = some t → wf t = true
  | [], _, _, _, h => by simp [lookupF] at h
  | (k2, t2) :: fs, k, t, hw, h => by
    simp only [wfF, Bool.and_eq_true] at hw
    rw [lookupF] at h
    split at h
    · cases h; exact hw.1
    · exact wfF_lookup fs k t hw.2 h
theorem baseField_wf (k : String) (m t : Ty) (wm : wf m = true) (hb : baseField k m = some t) : wf t = true := by
  cases m <;> simp [baseField] at hb
  rename_i fs
  simp only [wf, Bool.and_eq_true] at wm
  exact wfF_lookup fs k t wm.1 hb
theorem fieldType_upper (k : String) (ms : List Ty) (T : Ty) (wl : wfL ms = true) (h : fieldType k (.multi ms) = some T) :
    wf T = true ∧ ∀ m ∈ ms, ∃ t, baseField k m = some t ∧ sub t T = true := query_join_upper (baseField k) (baseField_wf k) ms T wl h

theorem indexResult_upper (ms : List Ty) (T : Ty) (wl : wfL ms = true) (h : indexResult (.multi ms) = some T) :
    wf T = true ∧ ∀ m ∈ ms, ∃ t, baseIndex m = some t ∧ sub t T = true := query_join_upper baseIndex baseIndex_wf ms T wl h
theorem tupleElementAt_upper (n : Nat) (ms : List Ty) (T : Ty) (wl : wfL ms = true) (h : tupleElementAt n (.multi ms) = some T) :
    wf T = true ∧ ∀ m ∈ ms, ∃ t, baseTupAt n m = some t ∧ sub t T = true := query_join_upper (baseTupAt n) (baseTupAt_wf n) ms T wl h
theorem mutElementType_upper (ms : List Ty) (T : Ty) (wl : wfL ms = true) (h : mutElementType (.multi ms) = some T) :
    wf T = true ∧ ∀ m ∈ ms, ∃ t, baseCell m = some t ∧ sub t T = true := query_join_upper baseCell baseCell_wf ms T wl h
theorem returnType_upper (ms : List Ty) (T : Ty) (wl : wfL ms = true) (h : returnType (.multi ms) = some T) :
    wf T = true ∧ ∀ m ∈ ms, ∃ t, baseRet m = some t ∧ sub t T = true := query_join_upper baseRet baseRet_wf ms T wl h

/-! ### the meet-folded queries: `params()` and `mut_assign_type()` -/

theorem argsOk_refl : ∀ (as : List Ty), wfL as = true → argsOk as as = true
  | [], _ => by simp [argsOk]
  | a :: as, h => by
    simp only [wfL, Bool.and_eq_true] at h
    simp only [argsOk, Bool.and_eq_true]
    exact ⟨sub_refl a h.1, argsOk_refl as h.2⟩

theorem argsOk_trans : ∀ (as bs cs : List Ty), wfL as = true → wfL bs = true → wfL cs = true →
    argsOk as bs = true → argsOk bs cs = true → argsOk as cs = true
  | [], [], [], _, _, _, _, _ => by simp [argsOk]
  | a :: as, b :: bs, c :: cs, wa, wb, wc, h1, h2 => by
    simp only [argsOk, Bool.and_eq_true] at h1 h2 ⊢
    simp only [wfL, Bool.and_eq_true] at wa wb wc
    exact ⟨sub_trans a b c wa.1 wb.1 wc.1 h1.1 h2.1, argsOk_trans as bs cs wa.2 wb.2 wc.2 h1.2 h2.2⟩
  | [], _ :: _, _, _, _, _, h, _ => by simp [argsOk] at h
  | _ :: _, [], _, _, _, _, h, _ => by simp [argsOk] at h
  | [], [], _ :: _, _, _, _, _, h => by simp [argsOk] at h
  | _ :: _, _ :: _, [], _, _, _, _, h => by simp [argsOk] at h

theorem zipConj_props : ∀ (as bs : List Ty), wfL as = true → wfL bs = true → as.length = bs.length →
    wfL (List.zipWith conjoin as bs) = true ∧ argsOk (List.zipWith conjoin as bs) as = true ∧
      argsOk (List.zipWith conjoin as bs) bs = true
  | [], [], _, _, _ => by simp [wfL, argsOk]
  | a :: as, b :: bs, wa, wb, hl => by
    simp only [wfL, Bool.and_eq_true] at wa wb
    simp only [List.length_cons, Nat.add_right_cancel_iff] at hl
    obtain ⟨h1, h2, h3⟩ := zipConj_props as bs wa.2 wb.2 hl
    obtain ⟨l1, l2⟩ := conjoin_lower a b wa.1 wb.1
    simp only [List.zipWith, wfL, argsOk, Bool.and_eq_true]
    exact ⟨⟨conjoin_wf a b wa.1 wb.1, h1⟩, ⟨l1, h2⟩, ⟨l2, h3⟩⟩
  | [], _ :: _, _, _, hl => by simp at hl
  | _ :: _, [], _, _, hl => by simp at hl

def baseParams : Ty → Option (List Ty) := fun | .fn ps _ => some ps | _ => none
def combParams : List Ty → List Ty → Option (List Ty) :=
  fun acc cur => if acc.length != cur.length then none else some (List.zipWith conjoin acc cur)

theorem foldParams_lower : ∀ (ms : List Ty) (acc R : List Ty), wfL ms = true → wfL acc = true →
    ms.foldlM (fun acc t => do let c ← baseParams t; combParams acc c) acc = some R →
    wfL R = true ∧ argsOk R acc = true ∧ ∀ m ∈ ms, ∃ mps mrt, m = .fn mps mrt ∧ argsOk R mps = true
  | [], acc, R, _, wa, h => by
    simp only [List.foldlM, pure, Option.some.injEq] at h
    subst h
    exact ⟨wa, argsOk_refl _ wa, by simp⟩
  | m :: ms, acc, R, wl, wa, h => by
    simp only [wfL, Bool.and_eq_true] at wl
    simp only [List.foldlM, bind, Option.bind] at h
    cases m with
    | fn mps mrt =>
      simp only [baseParams, combParams] at h
      by_cases hlen : (acc.length != mps.length) = true
      · simp [hlen] at h
      · simp only [hlen, Bool.false_eq_true, if_false] at h
        have hl : acc.length = mps.length := by simpa using hlen
        have wmps : wfL mps = true := by have := wl.1; simp only [wf, Bool.and_eq_true] at this; exact this.1
        obtain ⟨z1, z2, z3⟩ := zipConj_props acc mps wa wmps hl
        obtain ⟨wR, hR, hmem⟩ := foldParams_lower ms _ R wl.2 z1 h
        refine ⟨wR, argsOk_trans _ _ _ wR z1 wa hR z2, ?_⟩
        intro z hz
        rcases List.mem_cons.mp hz with rfl | hz
        · exact ⟨mps, mrt, rfl, argsOk_trans _ _ _ wR z1 wmps hR z3⟩
        · exact hmem z hz
    | _ => simp [baseParams] at h

theorem params_lower (ms pts : List Ty) (wl : wfL ms = true) (h : params (.multi ms) = some pts) :
    wfL pts = true ∧ ∀ m ∈ ms, ∃ mps mrt, m = .fn mps mrt ∧ argsOk pts mps = true := by
  have h' : query baseParams combParams (.multi ms) = some pts := h
  simp only [query, foldQ] at h'
  cases ms with
  | nil => simp at h'
  | cons m ms =>
    simp only [wfL, Bool.and_eq_true] at wl
    simp only [bind, Option.bind] at h'
    cases m with
    | fn mps mrt =>
      simp only [baseParams] at h'
      have wmps : wfL mps = true := by have := wl.1; simp only [wf, Bool.and_eq_true] at this; exact this.1
      obtain ⟨wR, hR, hmem⟩ := foldParams_lower ms mps pts wl.2 wmps h'
      refine ⟨wR, ?_⟩
      intro z hz
      rcases List.mem_cons.mp hz with rfl | hz
      · exact ⟨mps, mrt, rfl, hR⟩
      · exact hmem z hz
    | _ => simp [baseParams] at h'

theorem foldAssign_lower : ∀ (ms : List Ty) (acc A : Ty), wfL ms = true → wf acc = true →
    ms.foldlM (fun acc m => match m with | .cell e => some (conjoin acc e) | _ => none) acc = some A →
    wf A = true ∧ sub A acc = true ∧ ∀ m ∈ ms, ∃ c, m = .cell c ∧ sub A c = true
  | [], acc, A, _, wa, h => by
    simp only [List.foldlM, pure, Option.some.injEq] at h
    subst h
    exact ⟨wa, sub_refl _ wa, by simp⟩
  | m :: ms, acc, A, wl, wa, h => by
    simp only [wfL, Bool.and_eq_true] at wl
    simp only [List.foldlM, bind, Option.bind] at h
    cases m with
    | cell c =>
      simp only [] at h
      have wc : wf c = true := by simpa [wf] using wl.1
      obtain ⟨l1, l2⟩ := conjoin_lower acc c wa wc
      have wj := conjoin_wf acc c wa wc
      obtain ⟨wA, hA, hmem⟩ := foldAssign_lower ms _ A wl.2 wj h
      refine ⟨wA, sub_trans _ _ _ wA wj wa hA l1, ?_⟩
      intro z hz
      rcases List.mem_cons.mp hz with rfl | hz
      · exact ⟨c, rfl, sub_trans _ _ _ wA wj wc hA l2⟩
      · exact hmem z hz
    | _ => simp at h

theorem mutAssignType_lower (ms : List Ty) (A : Ty) (wl : wfL ms = true) (h : mutAssignType (.multi ms) = some A) :
    wf A = true ∧ ∀ m ∈ ms, ∃ c, m = .cell c ∧ sub A c = true := by
  simp only [mutAssignType] at h
  obtain ⟨wA, _, hmem⟩ := foldAssign_lower ms .any A wl rfl h
  exact ⟨wA, hmem⟩

/-! ### `flatten_tuple()`: the position-wise JOIN over a union of tuple types of one length -/

theorem zipConcat_props : ∀ (as bs : List Ty), wfL as = true → wfL bs = true → as.length = bs.length →
    wfL (List.zipWith concat as bs) = true ∧ argsOk as (List.zipWith concat as bs) = true ∧
      argsOk bs (List.zipWith concat as bs) = true
  | [], [], _, _, _ => by simp [wfL, argsOk]
  | a :: as, b :: bs, wa, wb, hl => by
    simp only [wfL, Bool.and_eq_true] at wa wb
    simp only [List.length_cons, Nat.add_right_cancel_iff] at hl
    obtain ⟨h1, h2, h3⟩ := zipConcat_props as bs wa.2 wb.2 hl
    obtain ⟨u1, u2⟩ := concat_upper a b wa.1 wb.1
    simp only [List.zipWith, wfL, argsOk, Bool.and_eq_true]
    exact ⟨⟨concat_wf a b wa.1 wb.1, h1⟩, ⟨u1, h2⟩, ⟨u2, h3⟩⟩
  | [], _ :: _, _, _, hl => by simp at hl
  | _ :: _, [], _, _, hl => by simp at hl

def baseFlat : Ty → Option (List Ty) := fun | .tup es => some es | _ => none
def combFlat : List Ty → List Ty → Option (List Ty) :=
  fun acc cur => if acc.length != cur.length then none else some (List.zipWith concat acc cur)

theorem foldFlat_upper : ∀ (ms : List Ty) (acc R : List Ty), wfL ms = true → wfL acc = true →
    ms.foldlM (fun acc t => do let c ← baseFlat t; combFlat acc c) acc = some R →
    wfL R = true ∧ argsOk acc R = true ∧ ∀ m ∈ ms, ∃ es, m = .tup es ∧ argsOk es R = true
  | [], acc, R, _, wa, h => by
    simp only [List.foldlM, pure, Option.some.injEq] at h
    subst h
    exact ⟨wa, argsOk_refl _ wa, by simp⟩
  | m :: ms, acc, R, wl, wa, h => by
    simp only [wfL, Bool.and_eq_true] at wl
    simp only [List.foldlM, bind, Option.bind] at h
    cases m with
    | tup es =>
      simp only [baseFlat, combFlat] at h
      by_cases hlen : (acc.length != es.length) = true
      · simp [hlen] at h
      · simp only [hlen, Bool.false_eq_true, if_false] at h
        have hl : acc.length = es.length := by simpa using hlen
        have wes : wfL es = true := by have := wl.1; simpa [wf] using this
        obtain ⟨z1, z2, z3⟩ := zipConcat_props acc es wa wes hl
        obtain ⟨wR, hR, hmem⟩ := foldFlat_upper ms _ R wl.2 z1 h
        refine ⟨wR, argsOk_trans _ _ _ wa z1 wR z2 hR, ?_⟩
        intro z hz
        rcases List.mem_cons.mp hz with rfl | hz
        · exact ⟨es, rfl, argsOk_trans _ _ _ wes z1 wR z3 hR⟩
        · exact hmem z hz
    | _ => simp [baseFlat] at h

theorem flattenTuple_upper (ms ts : List Ty) (wl : wfL ms = true) (h : flattenTuple (.multi ms) = some ts) :
    wfL ts = true ∧ ∀ m ∈ ms, ∃ es, m = .tup es ∧ argsOk es ts = true := by
  have h' : query baseFlat combFlat (.multi ms) = some ts := h
  simp only [query, foldQ] at h'
  cases ms with
  | nil => simp at h'
  | cons m ms =>
    simp only [wfL, Bool.and_eq_true] at wl
    simp only [bind, Option.bind] at h'
    cases m with
    | tup es =>
      simp only [baseFlat] at h'
      have wes : wfL es = true := by have := wl.1; simpa [wf] using this
      obtain ⟨wR, hR, hmem⟩ := foldFlat_upper ms es ts wl.2 wes h'
      refine ⟨wR, ?_⟩
      intro z hz
      rcases List.mem_cons.mp hz with rfl | hz
      · exact ⟨es, rfl, hR⟩
      · exact hmem z hz
    | _ => simp [baseFlat] at h'

/-! ### slices -/

theorem mem_asTypeLU : ∀ (vs : List Val) (ty : Ty), ty ∈ asTypeL vs → ∃ v ∈ vs, v.asType = ty
  | [], ty, h => by simp [asTypeL] at h
  | v :: vs, ty, h => by
    simp only [asTypeL, List.mem_cons] at h
    rcases h with rfl | h
    · exact ⟨v, by simp, rfl⟩
    · obtain ⟨w, hw, e⟩ := mem_asTypeLU vs ty h; exact ⟨w, by simp [hw], e⟩

theorem slice_value (lp : Bool) (ret : Option Ty) (x : Val) (tc : Ty) (vs ve vp : Option Val) (i1 i2 i3 : Option Int) (σ : St)
    (hst : StoreOk S σ) (e1 : optIdx vs = .ok i1) (e2 : optIdx ve = .ok i2) (e3 : optIdx vp = .ok i3)
    (hx : VT S tc x) (wtc : wf tc = true) (hk : (∃ e, tc = .arr e) ∨ tc = .str) :
    OutP lp ret S (fun S' v => VT S' tc v) (liftE (sliceVal x vs ve vp) σ) := by
  have cx := vt_contents hx wtc
  rcases hk with ⟨e, rfl⟩ | rfl
  · obtain ⟨t1, xs, rfl⟩ := arr_of_hasTy cx
    have hsv : sliceVal (.arr t1 xs) vs ve vp = .ok (Val.mkArray (Seq.slice xs i1 i2 i3)) := by
      simp [sliceVal, e1, e2, e3, bind, Except.bind]
    rw [hsv]
    apply outP_liftE2 _ _ _ _ _ _ hst
    · intro v hv
      cases hv
      obtain ⟨tx, gx⟩ := hx
      simp only [asType, C01.sub_arr] at tx
      cases gx with
      | arr _ _ w1 hs1 hg1 =>
      have hsel : ∀ z ∈ Seq.slice xs i1 i2 i3, z ∈ xs := slice_mem xs i1 i2 i3
      have gsel : ∀ z ∈ Seq.slice xs i1 i2 i3, Good S z := fun z hz => hg1 z (hsel z hz)
      have we : wf e = true := by simpa [wf] using wtc
      refine ⟨?_, good_mkArray _ gsel⟩
      simp only [Val.mkArray, asType, C01.sub_arr]
      have hw := wfL_asTypeLG _ gsel
      refine sub_trans _ t1 e (wf_concatL _ hw) w1 we (concatL_least _ t1 hw ?_) tx
      intro t ht'
      obtain ⟨z, hz, rfl⟩ := mem_asTypeLU _ t ht'
      exact hs1 z (hsel z hz)
    · intro sg hsg; cases hsg
  · obtain ⟨str, rfl⟩ : ∃ str, x = .str str := by cases x <;> simp [hasTy] at cx; exact ⟨_, rfl⟩
    have hsv : sliceVal (.str str) vs ve vp = .ok (.str (String.ofList (Seq.slice str.toList i1 i2 i3))) := by
      simp [sliceVal, e1, e2, e3, bind, Except.bind]
    rw [hsv]
    apply outP_liftE2 _ _ _ _ _ _ hst
    · intro v hv; cases hv; exact ⟨by simp [asType, sub, eqv], Good.str _⟩
    · intro sg hsg; cases hsg

/-- a member of a well-formed union is neither a union nor `!` -/
theorem member_shape (ms : List Ty) (m : Ty) (hm : m ∈ ms) (w : wf (.multi ms) = true) : isMulti m = false ∧ isNever m = false := by
  have hok : membersOk ms = true := by simp only [wf, Bool.and_eq_true] at w; exact w.1.2
  have shape : ∀ (l : List Ty), membersOk l = true → m ∈ l → isMulti m = false ∧ isNever m = false := by
    intro l
    induction l with
    | nil => intro _ h; cases h
    | cons a as ih =>
      intro hmo hin
      rcases List.mem_cons.mp hin with rfl | hin
      · cases m <;> simp [membersOk, isMulti, isNever] at hmo ⊢
      · have : membersOk as = true := by cases a <;> simp [membersOk] at hmo ⊢ <;> exact hmo
        exact ih this hin
  exact shape ms hok hm

/-- a member of a well-formed union lies below the union -/
theorem member_sub_multi (ms : List Ty) (m : Ty) (hm : m ∈ ms) (w : wf (.multi ms) = true) : sub m (.multi ms) = true := by
  have wl := wfL_of_multi w
  have wm := wfL_memU wl hm
  obtain ⟨s1, s2⟩ := member_shape ms m hm w
  rw [sub_multi_right _ ms s1 s2]
  have : ∀ (l : List Ty), m ∈ l → anyMatch m l = true := by
    intro l
    induction l with
    | nil => intro h; cases h
    | cons a as ih =>
      intro hin
      rw [anyMatch]
      simp only [Bool.or_eq_true]
      rcases List.mem_cons.mp hin with rfl | hin
      · exact Or.inl (sub_refl _ wm)
      · exact Or.inr (ih hin)
  exact this ms hm

/-- a member of a union that can be indexed is an array type or `string` -/
theorem canBeIndexed_member (ms : List Ty) (m : Ty) (hm : m ∈ ms) (w : wf (.multi ms) = true) (h : canBeIndexed (.multi ms) = true) :
    (∃ e, m = .arr e) ∨ m = .str := by
  obtain ⟨s1, s2⟩ := member_shape ms m hm w
  simp only [canBeIndexed, sub_multi_left] at h
  have : ∀ (l : List Ty), allMatch l (.multi [.str, .arr .any]) = true → m ∈ l → sub m (.multi [.str, .arr .any]) = true := by
    intro l
    induction l with
    | nil => intro _ h; cases h
    | cons a as ih =>
      intro hal hin
      rw [allMatch] at hal
      simp only [Bool.and_eq_true] at hal
      rcases List.mem_cons.mp hin with rfl | hin
      · exact hal.1
      · exact ih hal.2 hin
  have hs := this ms h hm
  cases m <;> simp [sub, anyMatch, eqv, allMatch, isMulti, isNever] at hs s1 s2 ⊢

end Ssl.CS
