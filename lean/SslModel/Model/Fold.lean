import SslModel.Model.Spec
/-!
  `Fold`: a model of the constant folding / constant propagation the implementation performs
  while it parses a program — the `Recreate` pass (`impl Recreate for …`, the
  `create_from_instructions*` functions) that `Code::parse` runs on every top-level statement,
  together with the one creation-time rule that matters to it (`LocalVariables::create_instructions`
  drops the constant statements of a block that are not its last statement).

  The model works on the surface syntax `Expr`: a *constant* (`Instruction::Variable(v)`) is a closed
  literal expression (`isConst`: scalar literals, array and tuple literals of constants); a name
  known to be bound to a constant (`LocalVariable::Variable`) is recorded in the environment
  `CEnv` and replaced by the constant where it is used.  `fold` answers
  * `ok e'`   — the folded program,
  * `exec e`  — the `ExecError` reported at parse time,
  * `unsup`   — a construct outside the modelled fragment.

  The fragment: literals, names, array / tuple literals, `[v; n]`, `mut`, prefix and binary
  operators, `&&` / `||`, assignment operators, indexing, tuple and field access, slices, calls,
  `if` / `else`, `if x: T = e`, `match`, blocks, `:=`, tuple destructuring, `loop`, `while`,
  `break`, `continue`, `return`, struct literals, the postfix iterator operators, `$`, `? T`.
  Function literals and declarations are folded as `Code::parse` folds them (the body with the
  constants of the enclosing scopes); the second folding at closure creation is not modelled.
  Outside: modules, constants that are arrays built by an operator (`a + b` on constant arrays, constant `[v; n]`).

  Sources: instruction.rs (`Recreate for Instruction`), bin_op.rs, bin_op/logic.rs,
  bin_op/math/{divide,modulo}.rs, bin_op/shift.rs, at.rs, array.rs, array_repeat.rs, tuple.rs,
  prefix_op.rs, unary_operation.rs, control_flow/{if_else,set_if_else,match,match_arm}.rs, block.rs,
  set.rs, destruct_tuple.rs, loop.rs, loop/while.rs, local_variable.rs.
-/
namespace Ssl.Fold
open Ssl Ssl.Spec

inductive FErr where
  | exec (e : ExecErr)
  | unsup (why : String)
  deriving Inhabited

abbrev R := Except FErr

def unsup {α} (why : String) : R α := .error (.unsup why)

/-- what the folding pass knows about a declared name: `none` — not a constant, `some c` — the
    constant `c` (`LocalVariable::Variable`); and whether the name was a constant already when the
    instruction tree was first built, before any operator was folded (`cr`: the right side of its
    declaration was a literal or such a name) — two creation-time rules look at that -/
abbrev CEnv := List (String × Option Expr × Bool)

def CEnv.lookup (x : String) : CEnv → Option (Option Expr × Bool)
  | [] => none
  | (y, c) :: g => if y == x then some c else CEnv.lookup x g

/-- a literal of the source text: `-1` and `-2.5` are the prefix operator applied to a literal -/
def isCreationLit : Expr → Bool
  | .litBool _ | .litStr _ | .litUnit => true
  | .litInt i => 0 ≤ i
  | .litFloat x => x.toNat < 2 ^ 63
  | _ => false

/-- `Instruction::Variable` when the tree is first built: a literal, a name declared as one, or a
    `while` whose condition is such a constant `false` (`while::create_instruction` answers `()`) -/
def crVal (g : CEnv) : Expr → Option Expr
  | .var y => (match g.lookup y with
    | some (some c, true) => some c
    | _ => none)
  | .while c _ =>
    (match c with
      | .litBool false => some .litUnit
      | .var y => (match g.lookup y with
        | some (some (.litBool false), true) => some .litUnit
        | _ => none)
      | _ => none)
  | e => if isCreationLit e then some e else none

def crConst (g : CEnv) (e : Expr) : Bool := (crVal g e).isSome

mutual
/-- closed literal expressions: what an `Instruction::Variable` can hold in this fragment -/
def isConst : Expr → Bool
  | .litBool _ | .litInt _ | .litFloat _ | .litStr _ | .litUnit => true
  | .array es => isConstL es
  | .tuple es => isConstL es
  | _ => false
def isConstL : List Expr → Bool
  | [] => true
  | e :: es => isConst e && isConstL es
end

mutual
/-- the value a constant denotes (what `eval` yields for it, in any environment and store) -/
def valOf : Expr → Val
  | .litBool b => .bool b
  | .litInt i => .int (BitVec.ofInt 64 i)
  | .litFloat x => .float x
  | .litStr s => .str s
  | .litUnit => .unit
  | .array es => Val.mkArray (valOfL es)
  | .tuple es => .tup (valOfL es)
  | _ => .unit
def valOfL : List Expr → List Val
  | [] => []
  | e :: es => valOf e :: valOfL es
end

mutual
/-- the constant that denotes a value; arrays are not converted back (their stored element type
    need not be the join of the element tags) -/
def exprOfVal : Val → Option Expr
  | .bool b => some (.litBool b)
  | .int i => some (.litInt i.toInt)
  | .float x => some (.litFloat x)
  | .str s => some (.litStr s)
  | .unit => some .litUnit
  | .tup vs => (exprOfValL vs).map .tuple
  | _ => none
def exprOfValL : List Val → Option (List Expr)
  | [] => some []
  | v :: vs => match exprOfVal v, exprOfValL vs with
    | some e, some es => some (e :: es)
    | _, _ => none
end

/-- the result of an operator's own `exec` on constants, as a constant -/
def ofExec (r : Except Sig Val) : R Expr :=
  match r with
  | .ok v => match exprOfVal v with
    | some e => .ok e
    | none => unsup "constant result that is not a literal"
  | .error (.err e) => .error (.exec e)
  | .error _ => unsup "operator applied to constants of the wrong kind"

def i64 (k : Int) : Int := (BitVec.ofInt 64 k).toInt

/-- operators whose `create_from_instructions` folds two constants (`**` and the iterator
    operators are rebuilt unfolded) -/
def foldsConst : BinOp → Bool
  | .pow | .map | .filter | .partition => false
  | _ => true

/-- `create_from_instructions` of one binary operator on already folded operands -/
def foldBin (op : BinOp) (a b : Expr) : R Expr :=
  if foldsConst op && isConst a && isConst b then ofExec (binScalar op (valOf a) (valOf b))
  else match op, b with
    | .div, .litInt k => if i64 k = 0 then .error (.exec .ZeroDivision) else .ok (.bin op a b)
    | .mod, .litInt k => if i64 k = 0 then .error (.exec .ZeroModulo) else .ok (.bin op a b)
    | .shl, .litInt k => if i64 k < 0 ∨ 63 < i64 k then .error (.exec .OverflowShift) else .ok (.bin op a b)
    | .shr, .litInt k => if i64 k < 0 ∨ 63 < i64 k then .error (.exec .OverflowShift) else .ok (.bin op a b)
    | _, _ => .ok (.bin op a b)

/-- `at::create_from_instructions` -/
def foldAt (a i : Expr) : R Expr :=
  match a, i with
  | .array es, .litInt k =>
    if isConstL es then
      match Seq.atIdx es.length (i64 k) with
      | some j => match es[j]? with
        | some c => .ok c
        | none => .error (.exec .IndexOutOfBounds)
      | none => .error (.exec .IndexOutOfBounds)
    else if -(es.length : Int) ≤ i64 k ∧ i64 k < es.length then .ok (.at a i)
    else .error (.exec .IndexOutOfBounds)
  | .litStr s, .litInt k => ofExec (atVal (.str s) (.int (BitVec.ofInt 64 k)))
  | _, _ => .ok (.at a i)

def foldPre (op : PreOp) (e : Expr) : R Expr :=
  match op with
  | .deref => .ok (.pre op e)
  | _ => if isConst e then ofExec (preScalar op (valOf e)) else .ok (.pre op e)

/-- what `Set::recreate` records for the declared name -/
def constOf (e : Expr) : Option Expr := if isConst e then some e else none

/-- `DestructTuple::insert_local_variables`: `e0` the right side as written, `e` folded -/
def destructBinds (g : CEnv) (xs : List String) (e0 e : Expr) : List (String × Option Expr × Bool) :=
  let crs : List Bool := match e0 with
    | .tuple es0 => es0.map (crConst g)
    | _ => []
  match e with
  | .tuple es => (List.zip xs (List.zip es (crs ++ List.replicate es.length false))).map
      fun (x, c, cr) => (x, constOf c, cr && isConst c)
  | _ => xs.map fun x => (x, none, false)

def bindAll (bs : List (String × Option Expr × Bool)) (g : CEnv) : CEnv := bs.foldl (fun g b => b :: g) g

/-- `function_layer(params)`: the parameters, later ones shadowing earlier ones, none of them a constant -/
def paramsEnv (ps : List (String × Ty)) (g : CEnv) : CEnv := ps.foldl (fun g p => (p.1, none, false) :: g) g

mutual
def fold : CEnv → Expr → R Expr
  | _, .litBool b => .ok (.litBool b)
  | _, .litInt i => .ok (.litInt i)
  | _, .litFloat x => .ok (.litFloat x)
  | _, .litStr s => .ok (.litStr s)
  | _, .litUnit => .ok .litUnit
  | g, .var x => match g.lookup x with
    | some (some c, _) => .ok c
    | _ => .ok (.var x)
  | g, .array es => do
    let es' ← foldList g es
    .ok (.array es')
  | g, .tuple es => do
    let es' ← foldList g es
    .ok (.tuple es')
  | g, .arrayRepeat v n => do
    let v' ← fold g v
    let n' ← fold g n
    match n' with
    | .litInt k =>
      if i64 k < 0 then .error (.exec .NegativeLength)
      else if isConst v' then unsup "constant [v; n]"
      else .ok (.arrayRepeat v' n')
    | _ => .ok (.arrayRepeat v' n')
  | g, .struct fs => do
    let fs' ← foldFields g fs
    .ok (.struct fs')
  | g, .mutE ty e => do
    let e' ← fold g e
    .ok (.mutE ty e')
  | g, .pre op e => do
    let e' ← fold g e
    foldPre op e'
  | g, .and a b => do
    let a' ← fold g a
    match a' with
    | .litBool true => fold g b
    | .litBool false => .ok (.litBool false)
    | _ =>
      if isConst a' then unsup "constant left operand of && that is not a bool"
      else do
        let b' ← fold g b
        .ok (.and a' b')
  | g, .or a b => do
    let a' ← fold g a
    match a' with
    | .litBool true => .ok (.litBool true)
    | .litBool false => fold g b
    | _ =>
      if isConst a' then unsup "constant left operand of || that is not a bool"
      else do
        let b' ← fold g b
        .ok (.or a' b')
  | g, .bin op a b => do
    let a' ← fold g a
    let b' ← fold g b
    foldBin op a' b'
  | g, .assign op t v => do
    let t' ← fold g t
    let v' ← fold g v
    .ok (.assign op t' v')
  | g, .at a i => do
    let a' ← fold g a
    let i' ← fold g i
    foldAt a' i'
  | g, .slice a none none none => fold g a       -- `a[:]`, `a[::]`: the operand itself
  | g, .slice a s e st => do
    let a' ← fold g a
    let s' ← foldOpt g s
    let e' ← foldOpt g e
    let st' ← foldOpt g st
    .ok (.slice a' s' e' st')
  | g, .call f args => do
    let f' ← fold g f
    let args' ← foldList g args
    .ok (.call f' args')
  | g, .tacc e n => do
    let e' ← fold g e
    .ok (.tacc e' n)
  | g, .facc e k => do
    let e' ← fold g e
    .ok (.facc e' k)
  | g, .tfilter e t => do
    let e' ← fold g e
    .ok (.tfilter e' t)
  | g, .post op e => do
    let e' ← fold g e
    .ok (.post op e')
  | g, .reduce it init f => do
    let it' ← fold g it
    let init' ← fold g init
    let f' ← fold g f
    .ok (.reduce it' init' f')
  | g, .block body => do
    let (body', _) ← foldSeq true g body
    .ok (.block body')
  | g, .ifElse c t e => do
    let c' ← fold g c
    match c' with
    | .litBool true => fold g t
    | .litBool false => (match e with
      | some e => fold g e
      | none => .ok .litUnit)
    | _ => do
      let t' ← fold g t
      let e' ← foldOpt g e
      .ok (.ifElse c' t' e')
  | g, .ifSet x ty e body els => do
    let e' ← fold g e
    let body' ← fold ((x, none, false) :: g) body
    let els' ← foldOpt g els
    .ok (.ifSet x ty e' body' els')
  | g, .matchE e arms => do
    let e' ← fold g e
    let arms' ← foldArms g arms
    .ok (.matchE e' arms')
  | g, .ret e => do
    let e' ← foldOpt g e
    .ok (.ret e')
  | g, .loop body => do
    let body' ← fold g body
    .ok (.loop body')
  | g, .while c body =>
    if crConst g c then do
      -- `while::create_instruction`: the condition was a constant when the tree was built
      let c' ← fold g c
      match c' with
      | .litBool true => do
        let body' ← fold g body
        .ok (.loop body')
      | .litBool false => .ok .litUnit
      | _ => unsup "constant while condition that is not a bool"
    else do
      let c' ← fold g c
      match c' with
      | .litBool true => do
        let body' ← fold g body
        .ok (.loop body')
      | .litBool false => .ok (.loop .brk)
      | _ => do
        let body' ← fold g body
        .ok (.loop (.ifElse c' body' (some .brk)))
  | _, .brk => .ok .brk
  | _, .cont => .ok .cont
  | g, .fn ps r body => do
    -- `AnonymousFunction::recreate`: the body is folded at parse time with the constants of the enclosing scopes
    -- (and again, with the captured VALUES, each time the closure is created: not modelled, finding F07)
    let (body', _) ← foldSeq true (paramsEnv ps g) body
    .ok (.fn ps r body')
  | _, .modE .. => unsup "module"
  | g, .whileSet x ty e body => do
    -- `loop { if x: T = e body else break }`: the scrutinee, then the body under the binder
    let e' ← fold g e
    let body' ← fold ((x, none, false) :: g) body
    .ok (.whileSet x ty e' body')
  | g, .forE x it body => do
    -- `{ $iter := it; loop { ($con, x) := $iter(); if $con body else break } }`
    let it' ← fold g it
    let body' ← fold ((x, none, false) :: ("$con", none, false) :: ("$iter", none, false) :: g) body
    .ok (.forE x it' body')
  | _, .set .. => unsup "declaration in expression position"
  | _, .destruct .. => unsup "declaration in expression position"
  | _, .fndecl .. => unsup "function declaration"
  | _, .native _ => unsup "native"

def foldOpt : CEnv → Option Expr → R (Option Expr)
  | _, none => .ok none
  | g, some e => do
    let e' ← fold g e
    .ok (some e')

def foldList : CEnv → List Expr → R (List Expr)
  | _, [] => .ok []
  | g, e :: es => do
    let e' ← fold g e
    let es' ← foldList g es
    .ok (e' :: es')

def foldFields : CEnv → List (String × Expr) → R (List (String × Expr))
  | _, [] => .ok []
  | g, (k, e) :: es => do
    let e' ← fold g e
    let es' ← foldFields g es
    .ok ((k, e') :: es')

def foldArms : CEnv → List Arm → R (List Arm)
  | _, [] => .ok []
  | g, .ty x t body :: rest => do
    let body' ← fold ((x, none, false) :: g) body
    let rest' ← foldArms g rest
    .ok (.ty x t body' :: rest')
  | g, .val cands body :: rest => do
    let cands' ← foldList g cands
    let body' ← fold g body
    let rest' ← foldArms g rest
    .ok (.val cands' body' :: rest')
  | g, .other body :: rest => do
    let body' ← fold g body
    let rest' ← foldArms g rest
    .ok (.other body' :: rest')

/-- a statement list in one scope; `blk`: the statements of a block (`create_instructions` drops
    its non-last constant statements), not the top level of a program -/
def foldSeq : Bool → CEnv → List Expr → R (List Expr × CEnv)
  | _, g, [] => .ok ([], g)
  | blk, g, s :: rest =>
    match s with
    | .set x e => do
      let e' ← fold g e
      let (rest', g') ← foldSeq blk ((x, constOf e', crConst g e && isConst e') :: g) rest
      .ok (.set x e' :: rest', g')
    | .destruct xs e => do
      let e' ← fold g e
      let (rest', g') ← foldSeq blk (bindAll (destructBinds g xs e e') g) rest
      .ok (.destruct xs e' :: rest', g')
    | .fndecl x ps r body => do
      -- `FunctionDeclaration::recreate`: the name is declared first (the body may call it), not as a constant
      let (body', _) ← foldSeq true (paramsEnv ps ((x, none, false) :: g)) body
      let (rest', g') ← foldSeq blk ((x, none, false) :: g) rest
      .ok (.fndecl x ps r body' :: rest', g')
    | s =>
      if blk && !rest.isEmpty && crConst g s then foldSeq blk g rest
      else do
        let s' ← fold g s
        let (rest', g') ← foldSeq blk g rest
        .ok (s' :: rest', g')
end

def foldProgram (prog : List Expr) : R (List Expr) := do
  let (p, _) ← foldSeq false [] prog
  .ok p

end Ssl.Fold
