"""C04 — constant folding and propagation are unobservable.  Proof: SslModel.Thm.C04 (every rewrite
rule of the folder is an equivalence of `Spec`; every error it may report at parse time is raised
whenever the operation is evaluated).  Decision for the running code: twin programs — each program P is
run next to hide(P), in which every literal is replaced by an opaque expression with the same value
(two devices the folder cannot see through: an identity call and a read of a fresh cell)."""
import random

import folddump
import progprop
import progstream as P
from gen import ast as A, foldgen
from gen.programs import INT, BOOL, STR, FLOAT, VOID, tup, fn, iter_of, arr, cell, multi
from props import c07
from vlib import driver_run, esc_field, harness_run, sexp_parse, sexp_str

THM_MODULES = ["SslModel.Thm.C04", "SslModel.Thm.C04Fold"]
TRANSLATE_PARTS = ["scalar", "errors"]
FOLDABLE = {"IndexOutOfBounds", "ZeroDivision", "ZeroModulo", "OverflowShift", "NegativeLength"}
I = lambda n: ("i", n)
V = lambda x: ("id", x)
ANY = ("any",)


def hide(stmts, device):
    """replace int / bool / float / string literals by opaque expressions of the same value"""
    def wrap(e):
        k = e[0]
        t = {"i": INT, "f": FLOAT, "s": STR, "true": BOOL, "false": BOOL}[k]
        if device == "call":
            return ("call", V({"i": "hc_i", "f": "hc_f", "s": "hc_s", "true": "hc_b", "false": "hc_b"}[k]), [e])
        return ("pre", "deref", ("mut", t, e))

    def h(e, in_type_pos=False):
        if isinstance(e, tuple):
            if e and e[0] in ("i", "f", "s", "true", "false"):
                return wrap(e)
            if e and e[0] == "tacc":
                return ("tacc", h(e[1]), e[2])
            if e and e[0] in ("mut", "tfilter", "ifset", "whileset") :
                # keep embedded types untouched (they are tuples too)
                if e[0] == "mut":
                    return ("mut", e[1], h(e[2]))
                if e[0] == "tfilter":
                    return ("tfilter", h(e[1]), e[2])
                if e[0] == "ifset":
                    return ("ifset", e[1], e[2], h(e[3]), h(e[4]), None if e[5] is None else h(e[5]))
                return ("whileset", e[1], e[2], h(e[3]), h(e[4]))
            if e and e[0] == "fn":
                return ("fn", e[1], e[2], [h(s) for s in e[3]])
            if e and e[0] == "fndecl":
                return ("fndecl", e[1], e[2], e[3], [h(s) for s in e[4]])
            if e and e[0] == "match":
                arms = []
                for a in e[2]:
                    if a[0] == "ty":
                        arms.append(("ty", a[1], a[2], h(a[3])))
                    elif a[0] == "val":
                        arms.append(("val", [h(c) for c in a[1]], h(a[2])))
                    else:
                        arms.append(("other", h(a[1])))
                return ("match", h(e[1]), arms)
            return tuple(h(x) for x in e)
        if isinstance(e, list):
            return [h(x) for x in e]
        return e
    pre = []
    if device == "call":
        for nm, t in (("hc_i", INT), ("hc_f", FLOAT), ("hc_s", STR), ("hc_b", BOOL)):
            pre.append(("fndecl", nm, [("v", t)], t, [("return", V("v"))]))
    return pre + [h(s) for s in stmts]


class Unknown(Exception):
    pass


class ConstErr(Exception):
    def __init__(self, kind):
        self.kind = kind


def find_constant_failure(stmts):
    """does the program contain an operation on constant operands that fails whenever it is evaluated
    (what the folder is entitled to report at parse time)?  A small constant evaluator over ints, bools
    and array literals with top-level constant propagation; conservative: returns the set of error kinds found."""
    found = set()
    M = 2**64

    def wrap(x):
        return (x + 2**63) % M - 2**63

    def ev(e, env):
        k = e[0]
        if k == "i":
            return e[1]
        if k == "true":
            return True
        if k == "false":
            return False
        if k == "id":
            if e[1] in env:
                return env[e[1]]
            raise Unknown()
        if k == "pre" and e[1] in ("neg", "not"):
            v = ev(e[2], env)
            if isinstance(v, bool):
                if e[1] == "not":
                    return not v
                raise Unknown()
            return wrap(-v) if e[1] == "neg" else wrap(~v)
        if k == "array":
            return [try_ev(x, env) for x in e[1]]
        if k == "at":
            a = try_ev(e[1], env)
            i = try_ev(e[2], env)
            if isinstance(a, list) and isinstance(i, int) and not isinstance(i, bool):
                if not (-len(a) <= i < len(a)):
                    found.add("IndexOutOfBounds")
                    raise ConstErr("IndexOutOfBounds")
                v = a[i]
                if v is None:
                    raise Unknown()
                return v
            raise Unknown()
        if k == "repeat":
            n = try_ev(e[2], env)
            if isinstance(n, int) and not isinstance(n, bool) and n < 0:
                found.add("NegativeLength")
                raise ConstErr("NegativeLength")
            if isinstance(n, int) and not isinstance(n, bool) and n <= 64:
                v = try_ev(e[1], env)
                return [v] * n
            raise Unknown()
        if k == "slice" and e[2] is None and e[3] is None and e[4] is None:
            return ev(e[1], env)          # `a[::]` is `a` itself already at creation
        if k == "bin":
            op = e[1]
            a = try_ev(e[2], env)
            b = try_ev(e[3], env)
            bi = isinstance(b, int) and not isinstance(b, bool)
            ai = isinstance(a, int) and not isinstance(a, bool)
            if op == "add" and isinstance(a, list) and isinstance(b, list):
                return a + b                         # concatenation of constant arrays is folded too
            if bi and op in ("div", "mod") and b == 0:
                found.add("ZeroDivision" if op == "div" else "ZeroModulo")
                raise ConstErr("div0")
            if bi and op in ("shl", "shr") and not 0 <= b <= 63:
                found.add("OverflowShift")
                raise ConstErr("shift")
            if ai and bi:
                from props import c08
                name = {"add": "add", "sub": "subtract", "mul": "multiply", "div": "divide", "mod": "modulo", "shl": "lshift",
                        "shr": "rshift", "band": "bitwise_and", "bor": "bitwise_or", "bxor": "xor", "gt": "greater",
                        "ge": "greater_equal", "lt": "lower", "le": "lower_equal"}.get(op)
                if name:
                    r = c08.spec(name, a, b)
                    if r.startswith("(i "):
                        return int(r[3:-1])
                    if r in ("true", "false"):
                        return r == "true"
                if op == "eq":
                    return a == b
                if op == "ne":
                    return a != b
            raise Unknown()
        raise Unknown()

    EXPR = ("bin", "at", "repeat", "pre", "array", "id", "i", "true", "false", "slice")

    def try_ev(e, env):
        try:
            return ev(e, env)
        except Unknown:
            scan_children(e, env)
            return None
        except ConstErr:
            return None

    def scan_children(e, env):
        for x in e[1:] if isinstance(e, tuple) else e:
            scan(x, env)

    def scan(x, env):
        if isinstance(x, tuple) and x and isinstance(x[0], str):
            k = x[0]
            if k in EXPR:
                try_ev(x, env)
            elif k in ("fn", "fndecl"):
                body = x[3] if k == "fn" else x[4]
                params = x[1] if k == "fn" else x[2]
                inner = dict(env)
                for pn, _ in params:
                    inner.pop(pn, None)
                seq(body, inner)
            elif k in ("block", "mod"):
                seq(x[1], dict(env))
            else:
                for y in x[1:]:
                    scan(y, env)
        elif isinstance(x, (list, tuple)):
            for y in x:
                scan(y, env)

    def seq(stmts, env):
        for s in stmts:
            if isinstance(s, tuple) and s and s[0] == "set" and isinstance(s[2], tuple):
                v = try_ev(s[2], env) if s[2][0] in EXPR else (scan(s[2], env) or None)
                if v is not None and not (isinstance(v, list) and any(y is None for y in v)):
                    env[s[1]] = v
                else:
                    env.pop(s[1], None)
            elif isinstance(s, tuple) and s and s[0] in ("destruct", "fndecl"):
                if s[0] == "destruct":
                    # the right-hand side still sees the old bindings of the names it re-declares
                    scan(s[2], env)
                    for n in s[1]:
                        env.pop(n, None)
                else:
                    env.pop(s[1], None)
                    scan(s, env)
            else:
                scan(s, env)

    seq(stmts, {})
    return found


def dead_branch_templates():
    """a constant (or captured-constant) condition whose dead branch holds an operation that would fail if it
    were folded or run: only the chosen branch is evaluated - at parse time, at closure creation, at run time"""
    T = []
    L = ("set", "log", ("mut", arr(ANY), ("array", [])))
    fin = lambda e: ("tuple", [e, ("pre", "deref", V("log"))])
    for cc in (("true",), ("false",)):
        dead = ("block", [("bin", "div", I(10), V("zero"))])
        live = ("block", [I(-1)])
        br = (live, dead) if cc == ("true",) else (dead, live)
        T.append([L, ("set", "zero", I(0)), ("set", "r", ("if", cc, br[0], br[1])), fin(V("r"))])
        T.append([L, ("set", "zero", I(0)), ("set", "r", ("if", ("bin", "eq" if cc == ("true",) else "ne", V("zero"), I(0)), br[0], br[1])), fin(V("r"))])
        T.append([L, ("fndecl", "mk", [("d", INT)], ("fn", (), INT), [("return", ("fn", [], INT, [
                      ("if", ("bin", "ne", V("d"), I(0)), ("block", [("return", ("bin", "div", I(10), V("d")))]), None), ("return", I(-1))]))]),
                  fin(("call", ("call", V("mk"), [I(0)]), []))])
        T.append([L, ("set", "a", ("repeat", I(1), I(0))), ("set", "n", ("mut", INT, I(0))),
                  ("while", ("bin", "gt", ("call", ("facc", V("std"), "len"), [V("a")]), I(0)), ("block", [("assign", "add", V("n"), ("at", V("a"), I(0)))])),
                  fin(("pre", "deref", V("n")))])
    return T


def templates():
    """constants planted in every position a constant can occupy"""
    T = []
    L = ("set", "log", ("mut", arr(ANY), ("array", [])))
    mark = lambda n: ("assign", "add", V("log"), ("array", [I(n)]))
    fin = lambda e: ("tuple", [e, ("pre", "deref", V("log"))])
    ops = ["add", "sub", "mul", "div", "mod", "shl", "shr", "band", "bor", "bxor", "eq", "ne", "lt", "le", "gt", "ge", "pow"]
    pairs = [(7, 2), (0, 0), (-9, 4), (5, 64), (1, -1), (2**62, 2), (-2**63, -1), (3, 63)]
    for op in ops:
        for a, b in pairs:
            T.append([L, fin(("bin", op, I(a), I(b)))])
            T.append([L, ("set", "x", I(a)), ("set", "y", I(b)), fin(("bin", op, V("x"), V("y")))])       # propagated through names
            T.append([L, ("fndecl", "f", [("p", INT)], ANY, [("return", ("bin", op, V("p"), I(b)))]), fin(("call", V("f"), [I(a)]))])  # partial constant
    for a in (True, False):
        for b in (True, False):
            for op in ("and", "or"):
                T.append([L, ("fndecl", "eff", [("v", BOOL)], BOOL, [mark(1), ("return", V("v"))]),
                          fin((op, (("true",) if a else ("false",)), ("call", V("eff"), [(("true",) if b else ("false",))])))])
    for c in (True, False):
        cc = ("true",) if c else ("false",)
        T.append([L, ("set", "r", ("if", cc, ("block", [mark(1), I(1)]), ("block", [mark(2), I(2)]))), fin(V("r"))])
        T.append([L, ("set", "n", ("mut", INT, I(0))), ("while", cc, ("block", [mark(1), ("assign", "add", V("n"), I(1)), ("if", ("bin", "gt", ("pre", "deref", V("n")), I(2)), ("block", [("break",)]), None)])), fin(("pre", "deref", V("n")))])
        # a constant condition guarding a failing operation that is never reached
        T.append([L, ("fndecl", "z", [], INT, [("return", I(0))]), ("set", "r", ("if", cc, ("block", [I(1)]), ("block", [("bin", "div", I(1), ("call", V("z"), []))]))), fin(V("r"))])
    for idx in (0, 2, -1, -3, 3, -4):
        T.append([L, fin(("at", ("array", [I(10), I(20), I(30)]), I(idx)))])
        T.append([L, ("fndecl", "e", [("v", INT)], INT, [mark(v_ := 1), ("return", V("v"))]), fin(("at", ("array", [("call", V("e"), [I(10)]), I(20), I(30)]), I(idx)))])
        T.append([L, ("set", "a", ("array", [I(10), I(20), I(30)])), fin(("at", V("a"), I(idx)))])
        T.append([L, fin(("at", ("s", "héllo"), I(idx)))])
    # a repeat array with a non-constant value and a constant length, indexed by a constant (every index -len..len-1 is valid)
    for idx in (0, 2, -1, -3, 3, -4):
        T.append([L, ("fndecl", "e", [("v", INT)], INT, [mark(1), ("return", V("v"))]), fin(("at", ("repeat", ("call", V("e"), [I(10)]), I(3)), I(idx)))])
        T.append([L, ("set", "m", ("mut", INT, I(7))), ("set", "n", I(3)), ("fndecl", "f", [], ANY, [("return", ("at", ("repeat", ("pre", "deref", V("m")), V("n")), I(idx)))]), fin(("call", V("f"), []))])
    for n in (0, 2, -1):
        T.append([L, fin(("repeat", I(7), I(n)))])
        T.append([L, ("fndecl", "e", [("v", INT)], INT, [mark(1), ("return", V("v"))]), fin(("repeat", ("call", V("e"), [I(7)]), I(n)))])
    for bs in ((0, 2, None), (None, None, -1), (1, None, 2), (5, 1, -2), (None, 0, 0)):
        T.append([L, fin(("slice", ("array", [I(1), I(2), I(3), I(4)]), *[None if b is None else I(b) for b in bs]))])
    # tuple / array / struct of constants, nested
    T.append([L, fin(("tuple", [I(1), ("array", [I(2), ("tuple", [("s", "a"), ("true",)])]), ("struct", [("k", I(3))])]))])
    # match scrutinee and value candidates constant
    for sc in (1, 2, 9):
        T.append([L, ("set", "r", ("match", I(sc), [("val", [I(1), I(2)], ("block", [mark(1), I(10)])), ("other", ("block", [mark(2), I(20)]))])), fin(V("r"))])
    # a constant scrutinee against value arms that mix constants with candidates that have an effect or fail: every candidate
    # up to the first equal one is evaluated, in order, whatever a folder can decide about the constants
    EFFC = ("fndecl", "e", [("v", INT)], INT, [mark(1), ("return", V("v"))])
    Z = ("fndecl", "z", [], INT, [("return", I(0))])
    for sc in (1, 2, 9):
        for cands in ([("call", V("e"), [I(7)]), I(2)], [I(2), ("call", V("e"), [I(7)])], [("call", V("e"), [I(2)]), I(2)], [I(1), ("call", V("e"), [I(9)]), I(2)],
                      [("bin", "div", I(1), ("call", V("z"), [])), I(2)]):
            T.append([L, EFFC, Z, ("set", "r", ("match", I(sc), [("val", [I(1)], ("block", [mark(5), I(10)])), ("val", cands, ("block", [mark(6), I(20)])),
                                                                   ("other", ("block", [mark(7), I(30)]))])), fin(V("r"))])
            T.append([L, EFFC, Z, ("set", "c", I(sc)), ("fndecl", "f", [], ANY, [("return", ("match", V("c"), [("val", cands, ("block", [I(20)])), ("other", ("block", [I(30)]))]))]),
                      fin(("call", V("f"), []))])
    # `if` as a value whose branches fold to the same constant: the condition's effects stay
    for br in ((I(7), I(7)), (("s", "ab"), ("bin", "add", ("s", "a"), ("s", "b")))):
        T.append([L, EFFC, ("set", "x", ("ifx", ("bin", "gt", ("call", V("e"), [I(3)]), I(1)), br[0], br[1])), fin(V("x"))])
        T.append([L, EFFC, fin(("if", ("bin", "gt", ("call", V("e"), [I(3)]), I(1)), ("block", [br[0]]), ("block", [br[1]])))])
    # captured constants and names re-declared after capture
    T.append([L, ("set", "x", I(5)), ("fndecl", "f", [], INT, [("return", ("bin", "add", V("x"), I(1)))]), ("set", "x", I(100)), fin(("tuple", [("call", V("f"), []), V("x")]))])
    T.append([L, ("set", "x", I(0)), ("fndecl", "f", [("p", INT)], INT, [("if", ("bin", "eq", V("p"), I(0)), ("block", [("return", I(-1))]), None), ("return", ("bin", "div", V("p"), V("p")))]),
              fin(("call", V("f"), [V("x")]))])
    # constant statements that are not last
    T.append([L, I(1), ("s", "x"), mark(1), I(2), fin(I(3))])
    # identity / absorbing constants next to an operand that has an effect, fails, or makes the operation
    # fail: algebraic simplifications (0 * x, 0 << x, x & 0, x ** 0, 1 ** x, x - 0 ..) must keep the other
    # operand's evaluation and the operation's own failure
    EFF = ("fndecl", "e", [("v", INT)], INT, [mark(1), ("return", V("v"))])
    for op in ops:
        for c in (0, 1, -1):
            for other in (3, 0, 70, -1):
                T.append([L, EFF, fin(("bin", op, I(c), ("call", V("e"), [I(other)])))])
                T.append([L, EFF, fin(("bin", op, ("call", V("e"), [I(other)]), I(c)))])
                T.append([L, EFF, ("set", "k", I(c)), ("fndecl", "g", [("p", INT)], ANY, [("return", ("bin", op, V("k"), ("call", V("e"), [V("p")])))]),
                          fin(("call", V("g"), [I(other)]))])
    # chains `x op c1 op c2` with a non-constant first operand and two constants: a folder that regroups the constants
    # (`x + (c1 + c2)`) changes float results (rounding), wrapped-int overflow points and which operation fails
    FL = lambda x: ("f", x)
    fchains = [(0.1, 0.2, 0.3), (1e16, 1.0, 1.0), (1e308, 1e308, -1e308), (1.0, 1e-16, 1e-16), (-0.0, 0.0, -0.0), (3.0, 1e300, 1e300)]
    for op in ("add", "sub", "mul", "div"):
        for a, c1, c2 in fchains:
            chain = lambda x: ("bin", op, ("bin", op, x, FL(c1)), FL(c2))
            rchain = lambda x: ("bin", op, FL(c1), ("bin", op, FL(c2), x))
            for mk in (chain, rchain):
                T.append([L, ("fndecl", "g", [("p", FLOAT)], FLOAT, [("return", mk(V("p")))]), fin(("call", V("g"), [FL(a)]))])
                T.append([L, ("set", "k1", FL(c1)), ("fndecl", "idf", [("v", FLOAT)], FLOAT, [("return", V("v"))]),
                          fin(mk(("call", V("idf"), [FL(a)])))])
    ichains = [(2**63 - 1, 1, -1), (-2**63, -1, 1), (7, 2**62, 2**62), (5, 0, 3), (2, 3, 4)]
    for op in ("add", "sub", "mul", "div", "mod", "shl", "shr", "pow", "band", "bor", "bxor"):
        for a, c1, c2 in ichains:
            T.append([L, ("fndecl", "g", [("p", INT)], INT, [("return", ("bin", op, ("bin", op, V("p"), I(c1)), I(c2)))]), fin(("call", V("g"), [I(a)]))])
    for a, c1, c2 in (("x", "a", "b"), ("", "", "z")):
        T.append([L, ("fndecl", "g", [("p", STR)], STR, [("return", ("bin", "add", ("bin", "add", V("p"), ("s", c1)), ("s", c2)))]), fin(("call", V("g"), [("s", a)]))])
    T.append([L, ("fndecl", "g", [("p", arr(INT))], arr(ANY), [("return", ("bin", "add", ("bin", "add", V("p"), ("array", [I(1)])), ("array", [("s", "z")])))]),
              fin(("call", V("g"), [("array", [I(0)])]))])
    # a constant name shadowed by a binder (if-set, while-set, match type arm, for, a block-local declaration, a parameter, a
    # destructuring in a block): after the construct the name is the outer constant again - folded, it trivially is; with the
    # constant hidden the name is looked up at run time and must still be the outer value
    for outer, other in ((I(5), 7), (I(0), 1)):
        ev = ("call", V("e"), [I(other)])
        after = fin(("tuple", [V("x"), ("bin", "add", V("x"), I(100))]))
        pre = [L, EFFC, ("set", "x", outer)]
        T.append(pre + [("ifset", "x", INT, ev, ("block", [mark(2)]), None), after])
        T.append(pre + [("ifset", "x", INT, ev, ("block", [mark(2), V("x")]), ("block", [I(0)])), after])
        T.append(pre + [("set", "n", ("mut", INT, I(0))), ("whileset", "x", INT, ev, ("block", [("assign", "add", V("n"), V("x")), ("break",)])), after])
        T.append(pre + [("match", ev, [("ty", "x", INT, ("block", [mark(3), V("x")]))]), after])
        T.append(pre + [("set", "r", ("match", ev, [("val", [I(99)], ("block", [I(0)])), ("ty", "x", INT, ("block", [V("x")]))])), after])
        T.append(pre + [("for", "x", ("post", "iter", ("array", [ev, I(other + 1)])), ("block", [mark(4)])), after])
        T.append(pre + [("block", [("set", "x", ev)]), after])
        T.append(pre + [("block", [("set", "x", ev), mark(5)]), after])
        T.append(pre + [("block", [("destruct", ["x", "y"], ("tuple", [ev, I(3)]))]), after])
        T.append(pre + [("if", ("bin", "gt", ev, I(-50)), ("block", [("set", "x", I(other))]), None), after])
        T.append(pre + [("fndecl", "p", [("x", INT)], INT, [("return", ("bin", "mul", V("x"), I(2)))]), ("set", "r", ("call", V("p"), [ev])), after])
        T.append(pre + [("set", "n", ("mut", INT, I(0))), ("while", ("bin", "lt", ("pre", "deref", V("n")), I(2)),
                                                      ("block", [("set", "x", ev), ("assign", "add", V("n"), I(1))])), after])
        # the same inside a function body (folded when the closure is created) and with a closure created after the construct
        T.append([L, EFFC, ("fndecl", "g", [], ANY, [("set", "x", outer), ("ifset", "x", INT, ev, ("block", [mark(2)]), None), ("return", V("x"))]), fin(("call", V("g"), []))])
        T.append(pre + [("ifset", "x", INT, ev, ("block", [mark(2)]), None), ("fndecl", "h", [], INT, [("return", V("x"))]), fin(("call", V("h"), []))])
    # a loop body that READS an outer constant and only later shadows the name, run for several iterations (each iteration
    # has a scope of its own: the read is the outer constant every time - folded, it trivially is); `loop`, `while true`
    # (folded to a plain loop), `while <run-time condition>`, with a closure created in the body
    for outer in (I(1), I(0)):
        cnt = [("set", "n", ("mut", INT, I(0))), ("set", "acc", ("mut", INT, I(0))), ("set", "x", outer)]
        body = [("assign", "add", V("acc"), ("bin", "add", V("x"), I(10))), ("set", "x", ("bin", "mul", ("pre", "deref", V("acc")), I(100))),
                ("assign", "add", V("n"), I(1)), ("if", ("bin", "ge", ("pre", "deref", V("n")), I(3)), ("block", [("break",)]), None)]
        fin2 = fin(("tuple", [("pre", "deref", V("acc")), V("x")]))
        T.append([L] + cnt + [("loop", ("block", body)), fin2])
        T.append([L] + cnt + [("while", ("true",), ("block", body)), fin2])
        T.append([L] + cnt + [("set", "go", ("true",)), ("while", V("go"), ("block", body)), fin2])
        T.append([L] + cnt + [("while", ("bin", "lt", ("pre", "deref", V("n")), I(3)), ("block", body[:3])), fin2])
        T.append([L] + cnt + [("set", "fs", ("mut", arr(ANY), ("array", []))),
                              ("loop", ("block", [("assign", "add", V("fs"), ("array", [("fn", [], INT, [("return", V("x"))])])), ("set", "x", I(50)),
                                                  ("assign", "add", V("n"), I(1)), ("if", ("bin", "ge", ("pre", "deref", V("n")), I(2)), ("block", [("break",)]), None)])),
                              fin(("tuple", [("call", ("at", ("pre", "deref", V("fs")), I(0)), []), ("call", ("at", ("pre", "deref", V("fs")), I(1)), [])]))])
    T += dead_branch_templates()
    # unary operators on constants
    for v in (0, 5, -2**63):
        T.append([L, fin(("tuple", [("pre", "neg", I(v)), ("pre", "not", I(v))]))])
    return T


def _first_order(p):
    """no module / import anywhere (the fragment of the folding model)"""
    def bad(e):
        if isinstance(e, tuple):
            if e and e[0] in ("mod", "import"):
                return True
            return any(bad(x) for x in e)
        if isinstance(e, list):
            return any(bad(x) for x in e)
        return False
    return not bad(p)


def _norm_loops(e):
    """`for` and `while x: T = e` are built as plain instructions (a block declaring `$iter` around a loop; a loop around an
    if-set): the converter of the dump prints what it sees, the model answers the surface forms - both are brought to the
    surface forms here before they are compared"""
    if not isinstance(e, list):
        return e
    e = [_norm_loops(x) for x in e]
    if (len(e) == 3 and e[0] == "block" and isinstance(e[1], list) and e[1][:2] == ["set", "$iter"] and isinstance(e[2], list)
            and len(e[2]) == 2 and e[2][0] == "loop" and isinstance(e[2][1], list) and len(e[2][1]) == 3 and e[2][1][0] == "block"):
        d, i = e[2][1][1], e[2][1][2]
        if (isinstance(d, list) and d[0] == "destruct" and len(d[1]) == 2 and d[1][0] == "$con" and d[2] == ["call", ["id", "$iter"]]
                and isinstance(i, list) and len(i) == 4 and i[0] == "if" and i[1] == ["id", "$con"] and i[3] == "break"):
            return ["for", d[1][1], e[1][2], i[2]]
    if (len(e) == 2 and e[0] == "loop" and isinstance(e[1], list) and len(e[1]) == 6 and e[1][0] == "ifset" and e[1][5] == "break"):
        return ["whileset", e[1][1], e[1][2], e[1][3], e[1][4]]
    return e


def fold_model(res, tier, seed, broken_model):
    """stream `fold-model`: the folded instruction trees the implementation builds (hook Code::verif_dump) against
    the program the Lean model of the folding pass (Model/Fold, proved semantics-preserving in Thm/C04Fold) answers,
    on programs mixing constants and run-time values; also the parse-time ExecErrors.  Returns the programs on which
    the two disagree (they are handed to the twin execution as candidates for a failing input)."""
    n = 1500 if tier == "quick" else 60000
    progs = foldgen.generate(seed, n)
    progs += [p for p in templates() if _first_order(p)]
    st = dict(programs=len(progs), agree_folded=0, agree_parse_time_error=0, outside_fragment=0, rejected_by_checker=0,
              folded_something=0, disagreements=0)
    if broken_model:
        res.streams["fold-model"] = dict(st, note="model not built")
        return []
    srcs = [A.program_src(p) for p in progs]
    sxs = [A.program_sexp(p) for p in progs]
    impl = harness_run(["dump\t\t%s" % esc_field(s) for s in srcs])
    model = driver_run(["fold %s" % s for s in sxs])
    suspects = []
    for p, src, sx, il, ml in zip(progs, srcs, sxs, impl, model):
        res.evaluations += 1
        ms = sexp_parse(ml)
        if not isinstance(ms, list) or not ms or ms[0] in ("bad-program", "bad-request"):
            res.broken.append("correspondence:fold-model: the model could not read `%s`: %s" % (src[:200], ml[:80]))
            continue
        if ms[0] == "unsup":
            st["outside_fragment"] += 1
            res.count("fold-unsup:" + str(ms[1])[:40])
            continue
        if il.startswith("(dump "):
            try:
                iv = ["folded"] + folddump.dump_to_wire(il[6:-1])
            except Exception as e:          # noqa: BLE001 - an unreadable dump is a broken tie, reported below
                iv = ["unreadable-dump", str(e)[:80]]
        else:
            ii = sexp_parse(il)
            if isinstance(ii, list) and ii and ii[0] == "rejected":
                if ii[1] not in FOLDABLE:
                    st["rejected_by_checker"] += 1      # the generator's doing (an ill-typed program); nothing to compare
                    continue
                iv = ["error", ii[1]]
            else:
                iv = ii
        ms, iv = _norm_loops(ms), _norm_loops(iv)
        if sexp_str(ms) == sexp_str(iv):
            if ms[0] == "error":
                st["agree_parse_time_error"] += 1
            else:
                st["agree_folded"] += 1
                if sexp_str(ms[1:]) != sexp_str(sexp_parse(sx)):
                    st["folded_something"] += 1
            res.nontrivial.add(("fold", src))
            res.traces_validated += 1
            continue
        st["disagreements"] += 1
        suspects.append(p)
        if st["disagreements"] <= 5:
            res.broken.append("correspondence:fold-model: `%s` folds to %s in the implementation, the model says %s"
                              % (src[:300], sexp_str(iv)[:300], sexp_str(ms)[:300]))
    res.streams["fold-model"] = st
    return suspects


def run(res, tier, seed, broken_model):
    rnd = random.Random(seed)
    suspects = fold_model(res, tier, seed, broken_model)
    n = 350 if tier == "quick" else 9000
    progs, stats = P.generate(seed, n, max_depth=3, features=dict(mark=0.25))
    T = templates() + c07.templates()[::5]
    base = T + progs + suspects[:40]
    variants = []
    for p in base:
        variants += [p, hide(p, "call"), hide(p, "cell")]
    recs = P.run_programs(variants, broken_model=True)      # implementation only; the model is consulted for P below
    mrecs = P.run_programs(base, broken_model=broken_model)
    res.streams["twins"] = dict(programs=len(base), templates=len(T), executions=len(variants))
    good = progprop.judge(res, mrecs, broken_model, label="P-vs-Spec", ntemplates=len(T))
    for k, p in enumerate(base):
        r0, r1, r2 = recs[3 * k], recs[3 * k + 1], recs[3 * k + 2]
        res.evaluations += 2

        def outcome(r):
            s = sexp_parse(r.impl)
            if isinstance(s, list) and s and s[0] == "accepted":
                o = s[2]
                if o[0] == "value":
                    return ("value", sexp_str(P.mask_junk(o[1])))
                if o[0] == "error":
                    return ("error", o[1])
                return (o[0], sexp_str(o))
            if isinstance(s, list) and s and s[0] == "rejected":
                return ("rejected", s[1])
            return ("other", r.impl[:60])
        o0, o1, o2 = outcome(r0), outcome(r1), outcome(r2)
        res.count("P:" + o0[0])
        for name, oh, rh in (("call", o1, r1), ("cell", o2, r2)):
            if oh[0] in ("rejected", "other", "panic", "fuel"):
                if oh[0] == "rejected" and o0[0] == "rejected":
                    continue
                if oh[0] == "rejected":
                    res.broken.append("generator: hidden twin (%s) rejected with %s: %s" % (name, oh[1], rh.src[:200]))
                continue
            res.nontrivial.add((r0.src, name))
            if o0[0] == "rejected":
                if o0[1] in FOLDABLE:
                    kinds = find_constant_failure(p)
                    if o0[1] in kinds:
                        res.count("parse-time-error-justified")
                        continue
                    res.violation("parse-time %s without an always-failing constant operation: `%s` (hidden twin: %s)" % (o0[1], r0.src[:400], oh),
                                  dict(program=r0.src, flags="std", impl=r0.impl, twin=rh.src, twin_outcome=rh.impl),
                                  dict(oracle="twin", cls="unjustified-parse-time-error", error=o0[1]))
                else:
                    res.violation("program with visible constants is rejected (%s) while its hidden twin is accepted: `%s`" % (o0[1], r0.src[:400]),
                                  dict(program=r0.src, flags="std", impl=r0.impl, twin=rh.src, twin_outcome=rh.impl),
                                  dict(oracle="twin", cls="rejected-only-with-visible-constants", error=o0[1]))
                continue
            if o0 == oh:
                res.traces_validated += 1
                continue
            if o0[0] == "error" and oh[0] == "value" and o0[1] in FOLDABLE:
                cls = "error-only-when-constants-visible"
            elif o0[0] == "value" and oh[0] == "error":
                cls = "error-only-when-constants-hidden"
                if oh[1] in FOLDABLE:
                    # finding F07 can also work this way round: hiding a literal keeps a branch alive whose
                    # operations are then folded with CAPTURED values when a closure is created.  That is the
                    # explanation iff hiding the captured operands as well restores the literal program's outcome
                    hc = ("fndecl", "hc", [("v", INT)], INT, [("return", V("v"))])
                    t3 = P.run_programs([[hc] + [progprop.hide_captured(x, False) for x in hide(p, "call")]], broken_model=True)[0]
                    if outcome(t3) == o0:
                        cls = "error-only-when-constants-hidden/closure-creation"
            elif o0[0] == "value" and oh[0] == "value":
                cls = "different-values"
            else:
                cls = "%s-vs-%s" % (o0[0], oh[0])
            res.violation("twins differ (%s): `%s` -> %s ; hidden (%s) -> %s" % (cls, r0.src[:300], o0, name, oh),
                          dict(program=r0.src, flags="std", impl=r0.impl, twin=rh.src, twin_outcome=rh.impl),
                          dict(oracle="twin", cls=cls, origin="template" if k < len(T) else "generated"))
    for r in recs[:3]:
        res.samples.append(dict(program=r.src[:400], impl=r.impl[:200]))
    res.rule = ("twin execution: templates planting constants in every position (17 operators x 8 operand pairs x {literal, "
                "propagated through names, one operand a parameter}, && / || with constant left operands and effectful right ones, "
                "constant if / while conditions, constant indices into literal / named arrays and strings, constant lengths and "
                "slice bounds, constant containers, match scrutinee / candidates, captured constants and re-declaration after "
                "capture, non-final constant statements) + marker templates + seeded programs; each P runs next to hide(P) with "
                "two hiding devices; non-trivial = distinct (program, device) pair whose hidden twin was accepted")
