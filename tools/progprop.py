"""Common driver for the properties decided on the `prog` stream (generated programs: implementation
vs. the Lean reference semantics `Spec`, plus the in-crate soundness monitor)."""
import random

import progstream as P
import shrink
from gen import ast as A
from vlib import sexp_str

FOLDABLE = {"IndexOutOfBounds", "ZeroDivision", "ZeroModulo", "OverflowShift", "NegativeLength"}


def root_of(r):
    """signature of the first monitor record: the earliest point at which a value left its static type"""
    if r.unsound:
        u = r.unsound[0]
        kind = u[1]
        static = sexp_str(u[3]) if len(u) > 3 and u[2] == "static=" else u[2].replace("static=", "")
        return "%s/%s" % (kind, static)
    return None


def root_class(r):
    """class of the earliest soundness violation the monitor recorded (None if it recorded nothing)"""
    if not r.unsound:
        return None
    u = r.unsound[0]
    kind = u[1]
    try:
        i = u.index("static=")
        static = u[i + 1]
        j = u.index("value=")
        value = u[j + 1]
    except (ValueError, IndexError):
        # atoms like static=never are single tokens
        static = next((x[7:] for x in u if isinstance(x, str) and x.startswith("static=") and len(x) > 7), None)
        value = None
        for k, x in enumerate(u):
            if x == "value=":
                value = u[k + 1]
            elif isinstance(x, str) and x.startswith("value=") and len(x) > 6:
                value = x[6:]
        if static is None:
            try:
                static = u[u.index("static=") + 1]
            except (ValueError, IndexError):
                static = "?"
    if (kind == "BinOperation:FunctionCall" and isinstance(static, list) and static[:2] == ["tup", "bool"]
            and isinstance(value, list) and value[:2] == ["tup", "false"]):
        # the known design-level finding is about element types without any value (`!` inside);
        # a placeholder outside an INHABITED element type is a different matter
        # (`()` as the placeholder is what `Variable::of_type(T).unwrap_or(Void)` yields for such a T, also
        # when the iterator is then used at a wider static type, e.g. `[]~ $||`)
        junk = "never" in sexp_str(static) or (len(value) > 2 and value[2] == "unit")
        return "exhausted-iterator-junk" if junk else "exhausted-iterator-placeholder"
    return "%s/%s" % (kind, sexp_str(static) if isinstance(static, list) else static)


def hide_constants(stmts):
    """the constant-hidden twin: every int literal n becomes hc(n), hc an identity function the folder
    cannot see through (calls are never folded)"""
    def h(e):
        if isinstance(e, tuple):
            if e and e[0] == "i":
                return ("call", ("id", "hc"), [e])
            if e and e[0] == "tacc":
                return ("tacc", h(e[1]), e[2])
            return tuple(h(x) for x in e)
        if isinstance(e, list):
            return [h(x) for x in e]
        return e
    hc = ("fndecl", "hc", [("v", ("int",))], ("int",), [("return", ("id", "v"))])
    return [hc] + [hide_captured(h(s), False) for s in stmts]


FALLIBLE_RHS = ("div", "mod", "shl", "shr", "pow")


def hide_captured(e, infn):
    """inside function bodies, a name read as the right operand of a fallible operator, as an index or as
    a repeat count is wrapped in hc(..) too: closure creation folds operations on CAPTURED values as well
    as on literals (finding F07), and a captured run-time value is not a literal"""
    if isinstance(e, list):
        return [hide_captured(x, infn) for x in e]
    if not isinstance(e, tuple) or not e:
        return e
    k = e[0]
    if k in ("fndecl", "fn"):
        return tuple(hide_captured(x, True) for x in e)
    w = lambda x: ("call", ("id", "hc"), [x]) if (infn and isinstance(x, tuple) and x and x[0] == "id") else hide_captured(x, infn)
    if k == "bin" and len(e) == 4 and e[1] in FALLIBLE_RHS:
        return ("bin", e[1], hide_captured(e[2], infn), w(e[3]))
    if k == "assign" and len(e) == 4 and e[1] in FALLIBLE_RHS:
        return ("assign", e[1], hide_captured(e[2], infn), w(e[3]))
    if k == "at" and len(e) == 3:
        return ("at", hide_captured(e[1], infn), w(e[2]))
    if k == "repeat" and len(e) == 3:
        return ("repeat", hide_captured(e[1], infn), w(e[2]))
    if k == "tacc":
        return ("tacc", hide_captured(e[1], infn), e[2])
    return tuple(hide_captured(x, infn) for x in e)


def excused_by_twin(r, broken_model):
    """is an `(error E)` of the implementation explained by eager folding (C04's known finding F07)?
    yes iff the constant-hidden twin of the same program agrees with the reference semantics"""
    if broken_model or not r.ivalue or not r.ivalue.startswith("(error "):
        return False
    if r.ivalue[7:-1] not in FOLDABLE:
        return False
    twin = P.run_programs([hide_constants(r.stmts)], flags=r.flags)[0]
    return twin.status in ("agree", "agree-content")


def shrink_rec(r, same, budget=120):
    try:
        def pred(st):
            rr = P.run_programs([st], flags=r.flags)[0]
            return same(rr)
        small = shrink.shrink(r.stmts, pred, budget=budget)
        return P.run_programs([small], flags=r.flags)[0]
    except Exception:
        return r


def judge(res, recs, broken_model, want_tags=False, label="prog", ntemplates=0):
    """common classification; returns list of records that agree (for property-specific oracles).
    The first `ntemplates` records come from hand-written templates (a fixed, seed-independent set): for those
    a listed finding only excuses the programs it names (see vlib.finish / `template_witnesses`)."""
    good = []
    origin_of = {id(r): ("template" if k < ntemplates else "generated") for k, r in enumerate(recs)}
    nshrunk = 0
    for r in recs:
        res.evaluations += 1
        res.count("%s:%s" % (label, r.status.split(":")[0] if r.status.startswith("rejected") else r.status))
        st = r.status
        if st.startswith("rejected"):
            res.count("rejected:" + st.split(":", 1)[1])
            continue
        if st in ("inconclusive-fuel", "no-model"):
            if st == "no-model":
                good.append(r)
            continue
        res.nontrivial.add(r.src)
        root = root_of(r)
        if st == "agree" or (st == "agree-content" and not want_tags):
            res.traces_validated += 1
            good.append(r)
            continue
        res.disagreements_checked += 1
        if st in ("differ", "agree-content"):
            if excused_by_twin(r, broken_model):
                res.count("excused:error-only-with-visible-constants")
                res.violation("implementation fails with %s only while constants are visible to the folder: `%s`" % (r.ivalue, r.src[:200]),
                              dict(program=r.src, flags=r.flags, impl=r.impl, model=r.model),
                              dict(oracle="twin", cls="error-only-when-constants-visible", origin=origin_of[id(r)]))
                continue
            rr = r
            if nshrunk < 3:
                nshrunk += 1
                key = (r.ivalue or "")[:6]
                rc0 = root_class(r)
                # a smaller program only stands for this one if the monitor classifies it the same way
                # (shrinking must not turn an unexplained difference into a listed finding, or vice versa)
                rr = shrink_rec(r, lambda x: x.status == st and (x.ivalue or "")[:6] == key and root_class(x) == rc0)
            res.violation("implementation and reference semantics differ on `%s`: impl %s, Spec %s" % (rr.src[:400], rr.ivalue, rr.mvalue),
                          dict(program=rr.src, flags=rr.flags, impl=rr.impl, model=rr.model, sexp=rr.sexp, original=r.src),
                          dict(oracle="spec-diff", root=root_of(rr) or root, rootcls=root_class(rr) or root_class(r), cls="tags" if st == "agree-content" else "value"))
        elif st == "exec-panic":
            rr = r
            if nshrunk < 3:
                nshrunk += 1
                at = r.panic_at
                rc0 = root_class(r)
                rr = shrink_rec(r, lambda x: x.status == "exec-panic" and x.panic_at == at and root_class(x) == rc0)
            res.violation("accepted program panics at %s: `%s`" % (rr.panic_at, rr.src[:400]),
                          dict(program=rr.src, flags=rr.flags, impl=rr.impl, model=rr.model, original=r.src),
                          dict(oracle="panic", root=root_of(rr) or root or ("site:" + str(rr.panic_at)), rootcls=root_class(rr) or root_class(r)))
        elif st == "parse-panic":
            rr = r
            if nshrunk < 3:
                nshrunk += 1
                key = r.impl[:60]
                rr = shrink_rec(r, lambda x: x.status == "parse-panic" and x.impl[:60] == key)
            res.violation("parsing panics (%s) on `%s`" % (rr.impl, rr.src[:400]),
                          dict(program=rr.src, flags=rr.flags, impl=rr.impl, original=r.src),
                          dict(oracle="parse-panic", site=rr.impl))
        elif st == "model-wrong":
            res.violation("reference semantics meets an operation on values of the wrong kind (%s) in an accepted program `%s` (impl: %s)" %
                          (r.model[:80], r.src[:300], (r.ivalue or r.impl)[:80]),
                          dict(program=r.src, flags=r.flags, impl=r.impl, model=r.model),
                          dict(oracle="model-wrong", root=root, rootcls=root_class(r)))
        else:
            res.violation("implementation crashed or hung (%s) on `%s`" % (r.impl[:60], r.src[:300]),
                          dict(program=r.src, flags=r.flags, impl=r.impl), dict(oracle="crash", cls=r.impl[:20]))
    return good


def stream(res, tier, seed, broken_model, n_quick, n_thorough, features=None, templates=(), depth=3,
           stmts=(3, 8), want_tags=False, label="prog", flags="std"):
    n = n_quick if tier == "quick" else n_thorough
    progs, stats = P.generate(seed, n, max_depth=depth, stmts=stmts, features=features)
    progs = list(templates) + progs
    recs = P.run_programs(progs, flags=flags, broken_model=broken_model)
    for k, v in stats.items():
        res.dist["gen:" + k] = res.dist.get("gen:" + k, 0) + v
    res.streams[label] = dict(programs=len(progs), templates=len(templates))
    good = judge(res, recs, broken_model, want_tags=want_tags, label=label, ntemplates=len(templates))
    for r in recs[len(templates):len(templates) + 2] + recs[:1]:
        if len(res.samples) < 4:
            res.samples.append(dict(program=r.src[:600], impl=r.impl[:300], model=r.model[:300]))
    return recs, good
