/-! S-expressions: the wire format of the correspondence (DESIGN Appendix B). -/
namespace Ssl

inductive Sexp where
  | atom (s : String)
  | str (s : String)
  | list (l : List Sexp)
  deriving Repr, Inhabited, BEq

namespace Sexp

def hexVal (c : Char) : Option Nat :=
  if '0' ≤ c ∧ c ≤ '9' then some (c.toNat - '0'.toNat)
  else if 'a' ≤ c ∧ c ≤ 'f' then some (c.toNat - 'a'.toNat + 10)
  else if 'A' ≤ c ∧ c ≤ 'F' then some (c.toNat - 'A'.toNat + 10)
  else none

/-- reads a string literal body after the opening quote; returns (content, rest) -/
def readStr : Nat → List Char → List Char → Option (List Char × List Char)
  | 0, _, _ => none
  | _ + 1, [], _ => none
  | _ + 1, '"' :: rest, acc => some (acc.reverse, rest)
  | f + 1, '\\' :: 'u' :: '{' :: rest, acc =>
    let hex := rest.takeWhile (· != '}')
    let rest' := (rest.dropWhile (· != '}')).drop 1
    match hex.foldl (fun a c => match a, hexVal c with
        | some a, some d => some (a * 16 + d) | _, _ => none) (some 0) with
    | some n => readStr f rest' (Char.ofNat n :: acc)
    | none => none
  | f + 1, '\\' :: c :: rest, acc => readStr f rest (c :: acc)
  | f + 1, c :: rest, acc => readStr f rest (c :: acc)

def isDelim (c : Char) : Bool := c == '(' || c == ')' || c == ' ' || c == '"' || c == '\t'

mutual
def parseOne : Nat → List Char → Option (Sexp × List Char)
  | 0, _ => none
  | _ + 1, [] => none
  | f + 1, ' ' :: rest => parseOne f rest
  | f + 1, '(' :: rest => parseList f rest []
  | _ + 1, ')' :: _ => none
  | f + 1, '"' :: rest =>
    match readStr (f + 1) rest [] with
    | some (cs, rest') => some (.str (String.ofList cs), rest')
    | none => none
  | _ + 1, cs =>
    let a := cs.takeWhile (fun c => !isDelim c)
    some (.atom (String.ofList a), cs.dropWhile (fun c => !isDelim c))
def parseList : Nat → List Char → List Sexp → Option (Sexp × List Char)
  | 0, _, _ => none
  | _ + 1, [], _ => none
  | f + 1, ' ' :: rest, acc => parseList f rest acc
  | _ + 1, ')' :: rest, acc => some (.list acc.reverse, rest)
  | f + 1, cs, acc =>
    match parseOne f cs with
    | some (x, rest) => parseList f rest (x :: acc)
    | none => none
end

def parse (s : String) : Option Sexp :=
  let cs := s.toList
  match parseOne (2 * cs.length + 2) cs with
  | some (x, _) => some x
  | none => none

/-- all top-level s-expressions of a line -/
def parseMany (s : String) : List Sexp :=
  let cs := s.toList
  let rec go (fuel : Nat) (cs : List Char) (acc : List Sexp) : List Sexp :=
    match fuel with
    | 0 => acc.reverse
    | fuel + 1 =>
      match parseOne (2 * cs.length + 2) cs with
      | some (x, rest) => go fuel rest (x :: acc)
      | none => acc.reverse
  go (cs.length + 1) cs []

def hexDigit (n : Nat) : Char := if n < 10 then Char.ofNat (48 + n) else Char.ofNat (87 + n)

def toHex (n : Nat) : String :=
  if n == 0 then "0" else
  let rec go (fuel n : Nat) (acc : List Char) : List Char :=
    match fuel with
    | 0 => acc
    | fuel + 1 => if n == 0 then acc else go fuel (n / 16) (hexDigit (n % 16) :: acc)
  String.ofList (go 16 n [])

/-- canonical string rendering: printable ASCII raw (quote and backslash escaped), the rest `\u{hex}` -/
def quote (s : String) : String :=
  "\"" ++ String.join (s.toList.map fun c =>
    if c == '"' then "\\\"" else if c == '\\' then "\\\\"
    else if ' ' ≤ c ∧ c ≤ '~' then String.singleton c
    else "\\u{" ++ toHex c.toNat ++ "}") ++ "\""

partial def render : Sexp → String
  | .atom s => s
  | .str s => quote s
  | .list l => "(" ++ " ".intercalate (l.map render) ++ ")"

end Sexp
end Ssl
