"""C02 — accepted programs do not go wrong.  Proof: SslModel.Thm.C02 (operators, indexing, slicing
and prefix operators are never `wrong` on admitted operand kinds; signals are contained; the error
enumeration).  Decision for the running code: panic hook + catch_unwind + worker exit status on
generated programs, iterator-heavy programs and host calls (admissible and inadmissible vectors)."""
import random

import progprop
import progstream as P
from props import c01, c06, c11, c12, c13

THM_MODULES = ["SslModel.Thm.C02"]
TRANSLATE_PARTS = ["scalar", "errors"]


def run(res, tier, seed, broken_model):
    rnd = random.Random(seed + 7)
    feats = dict(mark=0.1, weights=dict(useriter=16, fndecl=14, capture=8))
    recs, good = progprop.stream(res, tier, seed + 7, broken_model, 700, 25000, features=feats,
                                 templates=c06.templates()[:40] + c12.templates()[::6], label="programs", depth=3)
    n = 200 if tier == "quick" else 6000
    pipes = [c11.Pipe(rnd).build() for _ in range(n)] + [c13.history(rnd, rnd.randint(3, 20)) for _ in range(n // 2)]
    precs = P.run_programs(pipes, broken_model=broken_model)
    res.streams["pipelines+histories"] = dict(programs=len(pipes))
    progprop.judge(res, precs, broken_model, label="pipes")
    c01.host_calls(res, rnd, 80 if tier == "quick" else 2000, broken_model, "C02")
    fuel = sum(1 for r in recs + precs if r.status == "inconclusive-fuel")
    res.count("inconclusive-fuel", fuel)
    res.rule = ("seeded type-directed programs (all statement and expression forms, user-written iterators that declare names, "
                "recursion by name, break / continue / return at depth), scoping and control-flow templates, iterator pipelines, "
                "assignment histories with failing operators, host calls with admissible and inadmissible argument vectors; the "
                "oracle is: no panic, no crash; fuel exhaustion is counted as inconclusive; non-trivial = distinct accepted program that ran")
