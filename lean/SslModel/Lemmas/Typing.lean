import SslModel.Model.Typing
import SslModel.Lemmas.Ty
/-! Lemmas about value-in-type membership (`Val.hasTy`). -/
set_option linter.unusedSimpArgs false
set_option linter.unusedVariables false
namespace Ssl.Val
open Ssl Ssl.Ty

theorem hasTy_any (v : Val) : hasTy v .any = true := by cases v <;> simp [hasTy]
theorem hasTy_never (v : Val) : hasTy v .never = false := by cases v <;> simp [hasTy]
theorem hasTy_multi (v : Val) (ms : List Ty) : hasTy v (.multi ms) = hasTyAny v ms := by
  cases v <;> simp [hasTy]

theorem hasTyAny_iff (v : Val) (ms : List Ty) :
    hasTyAny v ms = true ↔ ∃ m ∈ ms, hasTy v m = true := by
  induction ms with
  | nil => simp [hasTyAny]
  | cons m ms ih => rw [hasTyAny]; simp [ih]

theorem allHasTy_iff (vs : List Val) (t : Ty) :
    allHasTy vs t = true ↔ ∀ v ∈ vs, hasTy v t = true := by
  induction vs with
  | nil => simp [allHasTy]
  | cons v vs ih => rw [allHasTy]; simp [ih]

theorem hasTy_arr (t : Ty) (es : List Val) (e : Ty) : hasTy (.arr t es) (.arr e) = allHasTy es e := by
  simp [hasTy]
theorem hasTy_tup (vs : List Val) (ts : List Ty) : hasTy (.tup vs) (.tup ts) = hasTyL vs ts := by
  simp [hasTy]
theorem hasTy_struct (fs : List (String × Val)) (fts : List (String × Ty)) :
    hasTy (.struct fs) (.struct fts) = hasFields fs fts := by simp [hasTy]

/- first-order, cell-free values: no function and no cell anywhere inside -/
mutual
def fo : Val → Bool
  | .arr _ es => foL es
  | .tup es => foL es
  | .struct fs => foF fs
  | .fn .. => false
  | .cell .. => false
  | _ => true
def foL : List Val → Bool
  | [] => true
  | v :: vs => fo v && foL vs
def foF : List (String × Val) → Bool
  | [] => true
  | (_, v) :: fs => fo v && foF fs
end

theorem foL_mem {vs : List Val} (h : foL vs = true) {x : Val} (hx : x ∈ vs) : fo x = true := by
  induction vs with
  | nil => cases hx
  | cons v vs ih =>
    simp only [foL, Bool.and_eq_true] at h
    rcases List.mem_cons.mp hx with rfl | hx
    · exact h.1
    · exact ih h.2 hx

/-- shape of a value of array / tuple / struct type -/
theorem arr_of_hasTy {v : Val} {e : Ty} (h : hasTy v (.arr e) = true) : ∃ t es, v = .arr t es := by
  cases v <;> simp [hasTy] at h; exact ⟨_, _, rfl⟩
theorem tup_of_hasTy {v : Val} {ts : List Ty} (h : hasTy v (.tup ts) = true) : ∃ vs, v = .tup vs := by
  cases v <;> simp [hasTy] at h; exact ⟨_, rfl⟩
theorem struct_of_hasTy {v : Val} {fts : List (String × Ty)} (h : hasTy v (.struct fts) = true) :
    ∃ fs, v = .struct fs := by
  cases v <;> simp [hasTy] at h; exact ⟨_, rfl⟩

/-- for the catch-all arm of `matches`: when `A == B` holds between two types neither of which is
    handled by an earlier arm, a first-order value of `A` is a value of `B` -/
theorem hasTy_of_eqv_base (v : Val) (a b : Ty) (hv : fo v = true)
    (ha : a = .bool ∨ a = .int ∨ a = .float ∨ a = .str ∨ a = .void)
    (he : eqv a b = true) (h : hasTy v a = true) : hasTy v b = true := by
  rcases ha with rfl | rfl | rfl | rfl | rfl <;> cases b <;> simp [eqv] at he <;> exact h

theorem sub_regular_never (a : Ty) (h1 : isMulti a = false) (h2 : isNever a = false) : sub a .never = false := by
  cases a <;> first | (simp [isMulti] at h1; done) | (simp [isNever] at h2; done) | (rw [sub] <;> first | (simp [eqv]; done) | (intros; simp_all))

theorem sub_base_right (a b : Ty) (hb : b = .bool ∨ b = .int ∨ b = .float ∨ b = .str ∨ b = .void)
    (h1 : isMulti a = false) (h2 : isNever a = false) (h : sub a b = true) : a = b := by
  rcases hb with rfl | rfl | rfl | rfl | rfl <;> cases a <;>
    first
      | rfl
      | (simp [isMulti] at h1; done)
      | (simp [isNever] at h2; done)
      | (exfalso; revert h; rw [sub] <;> first | (simp [eqv]; done) | (intros; simp_all))

theorem sub_shape_right (a b : Ty) (h1 : isMulti a = false) (h2 : isNever a = false) (h : sub a b = true) :
    (∀ ps r, b = .fn ps r → ∃ ps' r', a = .fn ps' r') ∧
    (∀ e, b = .cell e → ∃ e', a = .cell e') ∧
    (∀ e, b = .arr e → ∃ e', a = .arr e') ∧
    (∀ ts, b = .tup ts → ∃ ts', a = .tup ts') ∧
    (∀ fs, b = .struct fs → ∃ fs', a = .struct fs') := by
  refine ⟨?_, ?_, ?_, ?_, ?_⟩ <;> intros <;> subst_vars <;> cases a <;>
    first
      | exact ⟨_, _, rfl⟩
      | exact ⟨_, rfl⟩
      | (simp [isMulti] at h1; done)
      | (simp [isNever] at h2; done)
      | (exfalso; revert h; rw [sub] <;> first | (simp [eqv]; done) | (intros; simp_all))

theorem foF_mem {fs : List (String × Val)} (h : foF fs = true) {p : String × Val} (hp : p ∈ fs) : fo p.2 = true := by
  induction fs with
  | nil => cases hp
  | cons q fs ih =>
    obtain ⟨k, v⟩ := q
    simp only [foF, Bool.and_eq_true] at h
    rcases List.mem_cons.mp hp with rfl | hp
    · exact h.1
    · exact ih h.2 hp

theorem hasField_mono (fs : List (String × Val)) (k : String) (t1 t2 : Ty)
    (himp : ∀ p ∈ fs, hasTy p.2 t1 = true → hasTy p.2 t2 = true) (h : hasField fs k t1 = true) :
    hasField fs k t2 = true := by
  induction fs with
  | nil => simp [hasField] at h
  | cons q fs ih =>
    obtain ⟨k', v⟩ := q
    rw [hasField] at h ⊢
    split
    · next hk => simp [hk] at h; exact himp (k', v) List.mem_cons_self h
    · next hk => simp [hk] at h; exact ih (fun p hp => himp p (List.mem_cons_of_mem _ hp)) h

theorem hasFields_mem (fs : List (String × Val)) (fa : List (String × Ty)) (h : hasFields fs fa = true) :
    ∀ p ∈ fa, hasField fs p.1 p.2 = true := by
  induction fa with
  | nil => intro p hp; cases hp
  | cons q fa ih =>
    obtain ⟨k, t⟩ := q
    rw [hasFields, Bool.and_eq_true] at h
    intro p hp
    rcases List.mem_cons.mp hp with rfl | hp
    · exact h.1
    · exact ih h.2 p hp

theorem fieldMatches_mem (fa : List (String × Ty)) (k : String) (t2 : Ty) (h : fieldMatches fa k t2 = true) :
    ∃ p ∈ fa, (k == p.1) = true ∧ sub p.2 t2 = true := by
  induction fa with
  | nil => simp [fieldMatches] at h
  | cons q fa ih =>
    obtain ⟨k', t1⟩ := q
    rw [fieldMatches] at h
    split at h
    · next hk => exact ⟨(k', t1), List.mem_cons_self, hk, h⟩
    · obtain ⟨p, hp, h1, h2⟩ := ih h
      exact ⟨p, List.mem_cons_of_mem _ hp, h1, h2⟩

theorem hasField_key_congr (fs : List (String × Val)) (k k' : String) (t : Ty) (hk : (k == k') = true) :
    hasField fs k' t = hasField fs k t := by
  have : k = k' := by simpa using hk
  subst this; rfl

theorem matches_sound_aux : ∀ n : Nat, ∀ (v : Val) (A B : Ty), Ty.size A + Ty.size B ≤ n → fo v = true →
    sub A B = true → hasTy v A = true → hasTy v B = true := by
  intro n
  induction n with
  | zero => intro v A B h; have := Ty.size_pos A; omega
  | succ n ih =>
    intro v A B hs hfo hsub hA
    by_cases hn : isNever A = true
    · cases A <;> simp [isNever] at hn
      rw [hasTy_never] at hA; cases hA
    by_cases hm : isMulti A = true
    · cases A <;> simp [isMulti] at hm
      rename_i ms
      rw [hasTy_multi, hasTyAny_iff] at hA
      obtain ⟨m, hmem, hm⟩ := hA
      rw [sub_multi_left, allMatch_eq, List.all_eq_true] at hsub
      have := hsub m hmem
      simp only [Ty.size] at hs
      exact ih v m B (by have := size_lt_sizeL hmem; omega) hfo (by simpa using this) hm
    have hn' : isNever A = false := by simpa using hn
    have hm' : isMulti A = false := by simpa using hm
    cases B with
    | any => exact hasTy_any v
    | never => rw [sub_regular_never A hm' hn'] at hsub; cases hsub
    | multi ms =>
      rw [sub_multi_right A ms hm' hn', anyMatch_eq, List.any_eq_true] at hsub
      obtain ⟨m, hmem, hm2⟩ := hsub
      rw [hasTy_multi, hasTyAny_iff]
      simp only [Ty.size] at hs
      exact ⟨m, hmem, ih v A m (by have := size_lt_sizeL hmem; omega) hfo hm2 hA⟩
    | bool => have := sub_base_right A .bool (by simp) hm' hn' hsub; subst this; exact hA
    | int => have := sub_base_right A .int (by simp) hm' hn' hsub; subst this; exact hA
    | float => have := sub_base_right A .float (by simp) hm' hn' hsub; subst this; exact hA
    | str => have := sub_base_right A .str (by simp) hm' hn' hsub; subst this; exact hA
    | void => have := sub_base_right A .void (by simp) hm' hn' hsub; subst this; exact hA
    | fn ps r =>
      obtain ⟨ps', r', rfl⟩ := (sub_shape_right A _ hm' hn' hsub).1 ps r rfl
      cases v <;> simp [hasTy] at hA
      simp [fo] at hfo
    | arr e =>
      obtain ⟨a, rfl⟩ := (sub_shape_right A _ hm' hn' hsub).2.2.1 e rfl
      obtain ⟨t, es, rfl⟩ := arr_of_hasTy hA
      rw [sub_arr] at hsub
      rw [hasTy_arr, allHasTy_iff] at hA ⊢
      simp only [fo] at hfo
      simp only [Ty.size] at hs
      intro x hx
      exact ih x a e (by omega) (foL_mem hfo hx) hsub (hA x hx)
    | tup ts =>
      obtain ⟨as, rfl⟩ := (sub_shape_right A _ hm' hn' hsub).2.2.2.1 ts rfl
      obtain ⟨vs, rfl⟩ := tup_of_hasTy hA
      rw [sub_tup] at hsub
      rw [hasTy_tup] at hA ⊢
      simp only [fo] at hfo
      simp only [Ty.size] at hs
      -- pointwise, by induction on the three lists together
      have key : ∀ (vs : List Val) (as ts : List Ty), Ty.sizeL as + Ty.sizeL ts ≤ n → foL vs = true →
          matchesL as ts = true → hasTyL vs as = true → hasTyL vs ts = true := by
        intro vs
        induction vs with
        | nil =>
          intro as ts _ _ hm hh
          cases as with
          | nil => cases ts with
            | nil => simp [hasTyL]
            | cons t ts => simp [matchesL] at hm
          | cons a as => simp [hasTyL] at hh
        | cons v vs ihv =>
          intro as ts hsz hf hm hh
          cases as with
          | nil => simp [hasTyL] at hh
          | cons a as =>
            cases ts with
            | nil => simp [matchesL] at hm
            | cons t ts =>
              rw [matchesL_cons, Bool.and_eq_true] at hm
              rw [hasTyL, Bool.and_eq_true] at hh ⊢
              simp only [foL, Bool.and_eq_true] at hf
              simp only [Ty.sizeL] at hsz
              exact ⟨ih v a t (by omega) hf.1 hm.1 hh.1, ihv as ts (by omega) hf.2 hm.2 hh.2⟩
      exact key vs as ts (by omega) hfo hsub hA
    | cell e =>
      obtain ⟨e', rfl⟩ := (sub_shape_right A _ hm' hn' hsub).2.1 e rfl
      cases v <;> simp [hasTy] at hA
      simp [fo] at hfo
    | struct fts =>
      obtain ⟨fa, rfl⟩ := (sub_shape_right A _ hm' hn' hsub).2.2.2.2 fts rfl
      obtain ⟨fs, rfl⟩ := struct_of_hasTy hA
      rw [sub_struct] at hsub
      rw [hasTy_struct] at hA ⊢
      simp only [fo] at hfo
      simp only [Ty.size] at hs
      have hmem := hasFields_mem fs fa hA
      -- every field demanded by the supertype
      have key : ∀ (fts : List (String × Ty)), Ty.sizeF fts ≤ n - Ty.sizeF fa - 1 → structMatches fa fts = true →
          hasFields fs fts = true := by
        intro fts
        induction fts with
        | nil => intro _ _; rw [hasFields]
        | cons q fts ihf =>
          obtain ⟨k, t2⟩ := q
          intro hsz hm
          rw [structMatches, Bool.and_eq_true] at hm
          rw [hasFields, Bool.and_eq_true]
          simp only [Ty.sizeF] at hsz
          refine ⟨?_, ihf (by omega) hm.2⟩
          obtain ⟨p, hp, hk, hsub1⟩ := fieldMatches_mem fa k t2 hm.1
          have h1 := hmem p hp
          rw [hasField_key_congr fs k p.1 p.2 hk] at h1
          refine hasField_mono fs k p.2 t2 ?_ h1
          intro pv hpv hty
          have hlt := Ty.size_lt_sizeF (k := p.1) (x := p.2) (fs := fa) hp
          exact ih pv.2 p.2 t2 (by omega) (foF_mem hfo hpv) hsub1 hty
      exact key fts (by omega) hsub

end Ssl.Val
