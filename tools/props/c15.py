"""C15 — types survive printing and re-parsing.  Proof: SslModel.Thm.C15 (where Display puts
parentheses and what it prints bare; round trip of base types and `()` in any context; the full round
trip is not yet proved).  Correspondence, both directions: the implementation's prints (several hash
orders) read by the model parser; the model's prints (the instance's own order and shuffled orders) read
by the implementation; the implementation's own oracle from_str(to_string(t)) == t; and the internal
re-parse path of `it ? T` through generated programs."""
import random

import progprop
import progstream as P
from gen import types as T
from gen.programs import INT, BOOL, STR, FLOAT, VOID, tup, fn, iter_of, arr, cell, multi
from vlib import driver_run, esc_field, harness_run, sexp_parse, sexp_str

THM_MODULES = ["SslModel.Thm.C15"]
TRANSLATE_PARTS = []
I = lambda n: ("i", n)
V = lambda x: ("id", x)
ANY = ("any",)


def shuffle_type(rnd, t):
    k = t[0]
    if k == "multi":
        ms = [shuffle_type(rnd, m) for m in t[1]]
        rnd.shuffle(ms)
        return ("multi", tuple(ms))
    if k == "struct":
        fs = [(f, shuffle_type(rnd, x)) for f, x in t[1]]
        rnd.shuffle(fs)
        return ("struct", tuple(fs))
    if k == "fn":
        return ("fn", tuple(shuffle_type(rnd, p) for p in t[1]), shuffle_type(rnd, t[2]))
    if k in ("arr", "cell"):
        return (k, shuffle_type(rnd, t[1]))
    if k == "tup":
        return ("tup", tuple(shuffle_type(rnd, e) for e in t[1]))
    return t


def ordered_sexp(t):
    """s-expression that keeps the member / field order of the tuple form"""
    k = t[0]
    if k in T.BASE:
        return k
    if k == "fn":
        return "(fn (%s) %s)" % (" ".join(ordered_sexp(p) for p in t[1]), ordered_sexp(t[2]))
    if k in ("arr", "cell"):
        return "(%s %s)" % (k, ordered_sexp(t[1]))
    if k == "tup":
        return "(tup %s)" % " ".join(ordered_sexp(e) for e in t[1])
    if k == "multi":
        return "(multi %s)" % " ".join(ordered_sexp(m) for m in t[1])
    if not t[1]:
        return "(struct)"
    return "(struct %s)" % " ".join("(%s %s)" % (f, ordered_sexp(x)) for f, x in t[1])


def systematic():
    """every tricky shape in every position, two levels deep: where the printer parenthesises (a union as parameter, result,
    content, element; a function type as a union member) and where the grammar has to choose between `(` .. `)` readings
    (a parenthesised union, a parameter list, a tuple, the unit type)"""
    I_, F_, S_ = ("int",), ("float",), ("str",)
    U = ("multi", (I_, F_))
    fn_ = lambda ps, r: ("fn", tuple(ps), r)
    inner = [I_, U, ("void",), fn_([], I_), fn_([U], I_), fn_([I_], I_), fn_([U, I_], I_), fn_([U], U), fn_([fn_([U], I_)], I_), fn_([], U),
             ("tup", (U, I_)), ("tup", (I_, I_)), ("arr", U), ("cell", U), ("cell", fn_([U], I_)), fn_([("tup", (I_, I_))], I_), fn_([("void",)], I_)]
    ctx = [lambda x: x, lambda x: ("cell", x), lambda x: fn_([], x), lambda x: fn_([I_], x), lambda x: ("arr", x), lambda x: ("tup", (x, I_)),
           lambda x: fn_([x], I_), lambda x: fn_([I_, x], S_), lambda x: ("struct", (("a", x),)),
           lambda x: x if x[0] == "multi" else ("multi", (x, S_))]
    out = []
    for x in inner:
        for c1 in ctx:
            for c2 in ctx:
                t = c2(c1(x))
                if t not in out:
                    out.append(t)
    # unions nested three deep: an outer union with a member that contains a second union, which has a member that prints
    # in an order of its own (a third union, a struct of several fields) - equality of the outer union must not depend on
    # how the inner ones happen to print
    B_, V_ = ("bool",), ("void",)
    U3 = ("multi", (I_, S_, F_))
    S3 = ("struct", (("a", I_), ("b", F_), ("c", S_)))
    wraps = [lambda x: ("arr", x), lambda x: ("cell", x), lambda x: fn_([], x), lambda x: ("tup", (x, I_)), lambda x: fn_([x], I_)]
    for inner in (U3, S3, ("multi", (I_, S_)), ("struct", (("a", I_), ("b", F_)))):
        for c1 in wraps:
            m1 = ("multi", (c1(inner), B_))
            for c2 in wraps:
                for t in (("multi", (c2(m1), V_)), c2(m1), ("multi", (c2(m1), S_, ("tup", (I_, I_))))):
                    if t not in out:
                        out.append(t)
    return out


def run(res, tier, seed, broken_model):
    rnd = random.Random(seed)
    depth = 3 if tier == "quick" else 4
    n = 700 if tier == "quick" else 25000
    K = 5 if tier == "quick" else 20
    g = T.TypeGen(rnd, max_depth=depth)
    types = list(T.HAND) + systematic() + [g.gen() for _ in range(n)]
    # 1. implementation: the instance's own order + text; K prints re-parsed (its own oracle)
    lines = []
    for t in types:
        lines.append("type\tshow\t" + esc_field(T.src(t)))
        lines.append("type\trt\t%s\t%d" % (esc_field(T.src(t)), K))
    out = harness_run(lines)
    mreq, mmeta = [], []
    for k, t in enumerate(types):
        res.evaluations += 1
        show, rt = sexp_parse(out[2 * k]), sexp_parse(out[2 * k + 1])
        c = T.canon(t)
        if not (isinstance(show, list) and show and show[0] == "show" and isinstance(rt, list) and rt and rt[0] == "rt"):
            res.violation("Type API failed on `%s`: %s / %s" % (T.src(t), out[2 * k][:100], out[2 * k + 1][:100]),
                          dict(type=T.src(t), impl=out[2 * k] + " " + out[2 * k + 1]), dict(oracle="type-api", cls=out[2 * k][:20]))
            continue
        res.nontrivial.add(c)
        bad = rt[3][1:]
        if bad:
            res.violation("printing and re-parsing changes the type: `%s`: %s" % (T.src(t), sexp_str(bad[0])[:300]),
                          dict(type=T.src(t), impl=out[2 * k + 1]), dict(oracle="roundtrip", cls=bad[0][0]))
        prints = [p for p in rt[2][1:]]
        res.count("prints-per-type:%d" % min(len(prints), 4))
        # 2. model printer on the instance's own order must give the instance's text
        mreq.append("ty print %s" % sexp_str(show[1])); mmeta.append(("print", t, show[2]))
        # 3. model parser on every implementation print
        for p in prints + [show[2]]:
            mreq.append("ty parse %s" % p); mmeta.append(("parse", t, p))
    model = driver_run(mreq) if not broken_model else []
    back = []
    for (kind, t, x), ml in zip(mmeta, model):
        res.evaluations += 1
        if kind == "print":
            if ml != x:
                res.disagreements_checked += 1
                res.broken.append("correspondence:type print: impl %s model %s" % (x, ml))
            else:
                res.traces_validated += 1
        else:
            s = sexp_parse(ml)
            got = sexp_str(s[1]) if isinstance(s, list) and s and s[0] == "some" else ml
            if got != T.canon(t):
                res.disagreements_checked += 1
                res.broken.append("correspondence:type parse %s: model reads %s, type is %s" % (x, got, T.canon(t)))
            else:
                res.traces_validated += 1
    # 4. model prints in shuffled orders, read by the implementation
    sh_req, sh_meta = [], []
    for t in types:
        for _ in range(2):
            st = shuffle_type(rnd, t)
            sh_req.append("ty print %s" % ordered_sexp(st)); sh_meta.append(t)
    sh_out = driver_run(sh_req) if not broken_model else []
    lines2, meta2 = [], []
    for t, txt in zip(sh_meta, sh_out):
        s = sexp_parse(txt)
        if not isinstance(s, str) or not s.startswith('"'):
            continue
        text = bytes(s[1:-1], "utf-8").decode("unicode_escape") if "\\\\" in s else s[1:-1].replace('\\"', '"')
        lines2.append("type\trel\t%s\t%s" % (esc_field(text), esc_field(T.src(t)))); meta2.append((t, text))
    out2 = harness_run(lines2)
    for (t, text), o in zip(meta2, out2):
        res.evaluations += 1
        s = sexp_parse(o)
        if isinstance(s, list) and s and s[0] == "rel" and s[3] == "eq=1":
            res.traces_validated += 1
        else:
            res.violation("a print of `%s` in another member order, `%s`, does not read back as an equal type: %s" % (T.src(t), text, o[:200]),
                          dict(type=T.src(t), printed=text, impl=o), dict(oracle="roundtrip", cls="shuffled-print"))
    # 5. the internal re-parse path: `it ? T`
    vals = [I(1), ("s", "a"), ("true",), ("f", 1.5), ("unit",), ("array", [I(1)]), ("array", [("s", "x")]), ("tuple", [I(1), ("s", "b")]),
            ("struct", [("a", I(1)), ("b", ("s", "z"))]), ("array", []), ("tuple", [("true",), I(2)])]
    progs = []
    first_order = [t for t in types if "fn" not in T.canon(t) and "cell" not in T.canon(t)]
    for t in rnd.sample(first_order, min(len(first_order), 150 if tier == "quick" else 4000)):
        vs = rnd.sample(vals, rnd.randint(2, 6))
        progs.append([("set", "r", ("post", "collect", ("tfilter", ("post", "iter", ("array", vs)), t))), V("r")])
    recs = P.run_programs(progs, broken_model=broken_model)
    res.streams["type-filter"] = dict(programs=len(progs))
    progprop.judge(res, recs, broken_model, label="tfilter")
    res.streams["types"] = dict(types=len(types), prints_each=K)
    res.dist.update({"gen:" + k: v for k, v in g.counts.items()})
    res.samples.append(dict(type=T.src(types[len(T.HAND)]), impl=out[2 * len(T.HAND)][:300], reparsed=out[2 * len(T.HAND) + 1][:300]))
    res.rule = ("types closed under all 13 constructors to depth %d + hand families; each printed by the implementation %d times "
                "from fresh parses (fresh hash orders) and re-parsed by it, every print read by the model parser, the model "
                "printer checked on the instance's own member order and its prints in 2 shuffled orders read by the "
                "implementation; `it ? T $]` programs for first-order T against Spec; non-trivial = distinct type" % (depth, K))
