"""Programs for the folding-model correspondence (C04, stream `fold-model`): type-directed, closed, with names
bound to constants and names bound to run-time values side by side, so that every rule of the folding pass
(two constants, one constant, constant conditions, constants reached through names and scopes, constant
containers and indices, constant statements inside blocks) meets both kinds of operand.  The programs are
only parsed (and folded), never run, so loops need not terminate."""
import random

INT, BOOL, STR, FLOAT = ("int",), ("bool",), ("str",), ("float",)
ARR = ("arr", INT)
UIS = ("multi", (INT, STR))
UIF = ("multi", (INT, FLOAT))
UALL = ("multi", (INT, STR, FLOAT))
TUP = ("tup", (INT, BOOL))
I = lambda n: ("i", n)
V = lambda x: ("id", x)
INTS = [0, 1, 1, 2, 2, 3, 3, 5, 7, 1, 2, 4, 6, -1, -2, 63, 64, -9, 2**62, 2**63 - 1, -2**63, 100, 1, 2, 3]
IDX = [0, 0, 0, 1, -1, 0, 1, 2, -2, 3, -4]
ARITH = ["add", "sub", "mul", "div", "mod", "shl", "shr", "band", "bor", "bxor", "pow"]
CMP = ["lt", "le", "gt", "ge", "eq", "ne"]


class FoldGen:
    def __init__(self, rnd, typed_mut=False, allow_for=True):
        self.r = rnd
        self.n = 0
        self.typed_mut = typed_mut          # `mut T e` only (the checker models do not cover the inferred form)
        self.allow_for = allow_for          # `for x in a~` uses a built-in iterator operator

    def fresh(self, p="v"):
        self.n += 1
        return "%s%d" % (p, self.n)

    # env: list of (name, type, is_cell)
    def names(self, env, t, cell=False):
        seen = set()
        out = []
        for x, tt, c in reversed(env):
            if x in seen:
                continue
            seen.add(x)
            if tt == t and c == cell:
                out.append(x)
        return out

    def lit(self, t):
        r = self.r
        if t == INT:
            return I(r.choice(INTS))
        if t == BOOL:
            return (r.choice(["true", "false"]),)
        if t == STR:
            return ("s", r.choice(["", "a", "ab", "héj", "x y"]))
        if t == FLOAT:
            return ("f", r.choice([0.0, 1.5, -2.25, 1e300, 0.1]))
        if t == ARR:
            return ("array", [I(r.choice(INTS)) for _ in range(r.randint(1, 3))])
        if t == TUP:
            return ("tuple", [self.lit(INT), self.lit(BOOL)])
        raise ValueError(t)

    def expr(self, env, t, d):
        r = self.r
        ns = self.names(env, t)
        if d <= 0 or r.random() < 0.15:
            if ns and r.random() < 0.6:
                return V(r.choice(ns))
            cs = self.names(env, t, cell=True)
            if cs and r.random() < 0.5:
                return ("pre", "deref", V(r.choice(cs)))
            return self.lit(t)
        k = r.random()
        if t == INT:
            if k < 0.45:
                op = r.choice(ARITH)
                rhs = self.expr(env, INT, d - 1)
                if op in ("div", "mod", "shl", "shr", "pow") and r.random() < 0.6:
                    rhs = I(r.choice([1, 2, 3, 5, 7]))
                return ("bin", op, self.expr(env, INT, d - 1), rhs)
            if k < 0.55:
                return ("pre", r.choice(["neg", "not"]), self.expr(env, INT, d - 1))
            if k < 0.75:
                ix = I(r.choice(IDX)) if r.random() < 0.7 else self.expr(env, INT, d - 1)
                return ("at", self.expr(env, ARR, d - 1), ix)
            if k < 0.85:
                return ("tacc", self.expr(env, TUP, d - 1), 0)
            return self.expr(env, INT, 0)
        if t == BOOL:
            if k < 0.3:
                return ("bin", r.choice(CMP), self.expr(env, INT, d - 1), self.expr(env, INT, d - 1))
            if k < 0.45:
                tt = r.choice([INT, BOOL, STR, ARR, TUP, FLOAT])
                return ("bin", r.choice(["eq", "ne"]), self.expr(env, tt, d - 1), self.expr(env, tt, d - 1))
            if k < 0.7:
                return (r.choice(["and", "or"]), self.expr(env, BOOL, d - 1), self.expr(env, BOOL, d - 1))
            if k < 0.8:
                return ("pre", "not", self.expr(env, BOOL, d - 1))
            if k < 0.88:
                return ("bin", r.choice(["band", "bor", "bxor"]), self.expr(env, BOOL, d - 1), self.expr(env, BOOL, d - 1))
            if k < 0.94:
                return ("tacc", self.expr(env, TUP, d - 1), 1)
            return self.expr(env, BOOL, 0)
        if t == STR:
            if k < 0.4:
                return ("bin", "add", self.expr(env, STR, d - 1), self.expr(env, STR, d - 1))
            if k < 0.6:
                return ("at", self.expr(env, STR, d - 1), self.expr(env, INT, d - 1))
            return self.expr(env, STR, 0)
        if t == FLOAT:
            if k < 0.5:
                return ("bin", r.choice(["add", "sub", "mul", "div"]), self.expr(env, FLOAT, d - 1), self.expr(env, FLOAT, d - 1))
            if k < 0.6:
                return ("pre", "neg", self.expr(env, FLOAT, d - 1))
            return self.expr(env, FLOAT, 0)
        if t == ARR:
            if k < 0.6:
                return ("array", [self.expr(env, INT, d - 1) for _ in range(r.randint(1, 3))])
            if k < 0.75:
                return ("repeat", self.expr(env, INT, d - 1), self.expr(env, INT, d - 1))
            if k < 0.85:
                return ("slice", self.expr(env, ARR, d - 1), self.expr(env, INT, d - 1) if r.random() < 0.6 else None,
                        self.expr(env, INT, d - 1) if r.random() < 0.4 else None, None)
            return self.expr(env, ARR, 0)
        if t == TUP:
            if k < 0.7:
                return ("tuple", [self.expr(env, INT, d - 1), self.expr(env, BOOL, d - 1)])
            return self.expr(env, TUP, 0)
        raise ValueError(t)

    def body(self, env, d, in_loop):
        """a block: its own scope"""
        env = list(env)
        n = self.r.randint(1, 4)
        out = []
        for _ in range(n):
            out.append(self.stmt(env, d, in_loop))
        return ("block", out)

    def value_stmt(self, env, t, d, in_loop):
        """the right side of `:=`: an expression, an `if` or a block yielding a value of type t"""
        r = self.r
        k = r.random()
        if d > 0 and k < 0.2:
            return ("if", self.expr(env, BOOL, d - 1), ("block", [self.expr(env, t, d - 1)]), ("block", [self.expr(env, t, d - 1)]))
        if d > 0 and k < 0.3:
            inner = list(env)
            stmts = [self.stmt(inner, d - 1, in_loop) for _ in range(r.randint(0, 3))]
            return ("block", stmts + [self.expr(inner, t, d - 1)])
        return self.expr(env, t, d)

    def stmt(self, env, d, in_loop):
        r = self.r
        k = r.random()
        t = r.choice([INT, INT, BOOL, STR, FLOAT, ARR, TUP])
        if k < 0.3:
            x = self.fresh() if r.random() < 0.7 or not env else r.choice(env)[0]
            e = self.value_stmt(env, t, d, in_loop)
            env.append((x, t, False))
            return ("set", x, e)
        if k < 0.38:
            x = self.fresh("c")
            e = self.expr(env, t, d)
            env.append((x, t, True))
            return ("set", x, ("mut", None if (r.random() < 0.5 and not self.typed_mut) else t, e))
        if k < 0.46:
            cs = [(x, tt) for x, tt, c in env if c and tt in (INT, STR)]
            if cs:
                x, tt = r.choice(cs)
                op = r.choice(["set", "add"] if tt == STR else ["set", "add", "sub", "mul", "div", "mod", "shl", "band"])
                return ("assign", op, V(x), self.expr(env, tt, d))
        if k < 0.52:
            a, b = self.fresh(), self.fresh()
            e = self.expr(env, TUP, d)
            env.append((a, INT, False))
            env.append((b, BOOL, False))
            return ("destruct", [a, b], e)
        if d > 0 and k < 0.62:
            return ("if", self.expr(env, BOOL, d - 1), self.body(env, d - 1, in_loop),
                    self.body(env, d - 1, in_loop) if r.random() < 0.6 else None)
        if d > 0 and k < 0.70:
            c = self.expr(env, BOOL, d - 1)
            if c[0] in ("true", "false"):
                c = ("bin", "eq", c, ("true",))
            return ("while", c, self.body(env, d - 1, True))
        if d > 0 and k < 0.73:
            return ("loop", self.body(env, d - 1, True))
        if d > 0 and k < 0.755 and self.allow_for:
            x = self.fresh("q")
            it = ("post", "iter", self.expr(env, ARR, d - 1))
            return ("for", x, it, self.body(env + [(x, INT, False)], d - 1, True))
        if d > 0 and k < 0.78:
            x = self.fresh("u")
            return ("whileset", x, INT, self.expr(env, INT, d - 1), self.body(env + [(x, INT, False)], d - 1, True))
        if in_loop and k < 0.81:
            return (r.choice(["break", "continue"]),)
        if d > 0 and k < 0.84:
            arms = []
            if r.random() < 0.7:
                arms.append(("val", [self.expr(env, INT, d - 1) for _ in range(r.randint(1, 2))], self.body(env, d - 1, in_loop)))
            if r.random() < 0.5:
                x = self.fresh("m")
                arms.append(("ty", x, INT, self.body(env + [(x, INT, False)], d - 1, in_loop)))
            else:
                arms.append(("other", self.body(env, d - 1, in_loop)))
            return ("match", self.expr(env, INT, d - 1), arms)
        if d > 0 and k < 0.88:
            x = self.fresh("w")
            if r.random() < 0.5:
                # a scrutinee of union type against a binder type that is narrower, wider, overlapping or disjoint
                bt = r.choice([INT, STR, FLOAT, UIS, UIF, UALL])
                benv = env + [(x, bt, False)] if bt in (INT, STR, FLOAT) else env
                return ("ifset", x, bt, V("du"), self.body(benv, d - 1, in_loop), self.body(env, d - 1, in_loop) if r.random() < 0.5 else None)
            return ("ifset", x, INT, self.expr(env, INT, d - 1), self.body(env + [(x, INT, False)], d - 1, in_loop),
                    self.body(env, d - 1, in_loop) if r.random() < 0.5 else None)
        if k < 0.92:
            return self.lit(r.choice([INT, BOOL, STR]))          # a constant statement (dropped inside blocks)
        return self.expr(env, t, d)

    def program(self, depth=3):
        self.n = 0
        env = []
        out = []
        # run-time (opaque) values and cells next to constants
        out.append(("set", "d0", ("pre", "deref", ("mut", INT, I(self.r.choice(INTS))))))
        env.append(("d0", INT, False))
        out.append(("set", "db", ("pre", "deref", ("mut", BOOL, (self.r.choice(["true", "false"]),)))))
        env.append(("db", BOOL, False))
        out.append(("set", "da", ("array", [V("d0"), I(4)])))
        env.append(("da", ARR, False))
        out.append(("set", "du", ("pre", "deref", ("mut", UIS, I(1)))))
        for _ in range(self.r.randint(3, 8)):
            out.append(self.stmt(env, depth, False))
        return out


def generate(seed, n, depth=3, typed_mut=False, allow_for=True):
    rnd = random.Random(seed * 7919 + 17)
    g = FoldGen(rnd, typed_mut=typed_mut, allow_for=allow_for)
    return [g.program(depth if rnd.random() < 0.7 else depth - 1) for _ in range(n)]
