"""C20 — literal values survive printing and re-parsing.  Proof: SslModel.Thm.C20 (integer literal
forms denote their mathematical value or overflow; underscores are ignored; escape / unescape round trip
of the modelled character class).  Correspondence: nested first-order values — the implementation's
`{:?}` text vs. the model printer, the text read back by Variable::from_str vs. the model reader, and
the text run as a program; integer literal forms vs. their mathematical value computed in Python."""
import math, random, re

from gen import ast as A
from vlib import driver_run, esc_field, harness_run, sexp_parse, sexp_str, strip_tags

THM_MODULES = ["SslModel.Thm.C20", "SslModel.Thm.C20Values"]
TRANSLATE_PARTS = []
MIN, MAX = -2**63, 2**63 - 1
CHARS = ['a', 'Z', '0', '7', ' ', '"', '\\', "'", '/', '{', '}', '\n', '\t', '\r', '\x00', '\x01', '\x07', '\x08', '\x0c', '\x1b', '\x1f',
         '\x7f', 'é', 'ż', '中', '\U0001F600', 'u', 'x', 'n']


def gen_value(rnd, d, floats=True):
    c = rnd.random()
    if d <= 0 or c < 0.5:
        k = rnd.choice("iisbuf" if floats else "iisbu")
        if k == "i":
            return ("i", rnd.choice([0, 1, -1, 7, 10, 255, MAX, MIN, MIN + 1, 2**32, -2**31, rnd.randint(MIN, MAX)]))
        if k == "s":
            return ("s", "".join(rnd.choice(CHARS) for _ in range(rnd.randint(0, 5))))
        if k == "b":
            return (rnd.choice(["true", "false"]),)
        if k == "u":
            return ("unit",)
        return ("f", rnd.choice([0.0, -0.0, 1.5, -2.25, 1e308, 5e-324, 1e16, 1e15, 0.1, 1e-7, 123456789.125, 2.2250738585072014e-308]))
    if c < 0.75:
        return ("array", [gen_value(rnd, d - 1, floats) for _ in range(rnd.randint(0, 3))])
    return ("tuple", [gen_value(rnd, d - 1, floats) for _ in range(rnd.randint(2, 3))])


def has(v, kind):
    if v[0] == kind:
        return True
    if v[0] in ("array", "tuple"):
        return any(has(x, kind) for x in v[1])
    return False


def has_min(v):
    if v[0] == "i":
        return v[1] == MIN
    if v[0] in ("array", "tuple"):
        return any(has_min(x) for x in v[1])
    return False


def lit_src(v):
    """source text producing the value (strings with unescaper escapes for non-printables)"""
    k = v[0]
    if k == "s":
        out = '"'
        for ch in v[1]:
            if ch in '"\\':
                out += "\\" + ch
            elif ord(ch) < 32 or ord(ch) == 127:
                out += "\\u{%x}" % ord(ch)
            else:
                out += ch
        return out + '"'
    if k == "array":
        return "[" + ", ".join(lit_src(x) for x in v[1]) + "]"
    if k == "tuple":
        return "(" + ", ".join(lit_src(x) for x in v[1]) + ")"
    if k == "f" and v[1] == 0.0 and math.copysign(1.0, v[1]) < 0:
        # negative zero is built WITHOUT unary minus, so that the value under test does not depend on the very route
        # (the text `-0.0` run as a program) whose result is being compared with it
        return "(0.0 * (0.0 - 1.0))"
    return A.src(v)


def floats_of(v):
    if v[0] == "f":
        return [A.fbits(v[1])]
    if v[0] in ("array", "tuple"):
        return [b for x in v[1] for b in floats_of(x)]
    return []


def int_forms(rnd, n):
    out = []
    def us(digits):
        res = ""
        for ch in digits:
            res += ch
            if rnd.random() < 0.25:
                res += "_" * rnd.randint(1, 2)
        return res
    for _ in range(n):
        v = rnd.choice([0, 1, 255, MAX, MAX + 1, 2**64, 2**63 - 2, rnd.randint(0, 2**64), rnd.randint(0, 2**40), rnd.randint(2**62, 2**63 + 5)])
        radix = rnd.choice([10, 2, 8, 16])
        digs = {10: "%d", 2: "{0:b}", 8: "%o", 16: rnd.choice(["%x", "%X"])}[radix]
        d = digs.format(v) if "{" in digs else digs % v
        pre = {10: "", 2: "0b", 8: "0o", 16: "0x"}[radix]
        lead = "_" * rnd.randint(0, 1) if radix != 10 else ""
        text = pre + lead + us(d)
        out.append((text, v))
    out += [("0", 0), ("00", 0), ("1_", 1), ("0b1", 1), ("0x_F", 15), ("0o7_7", 63), ("9223372036854775807", MAX), ("9223372036854775808", MAX + 1),
            ("0xFFFFFFFFFFFFFFFF", 2**64 - 1), ("0x7FFF_FFFF_FFFF_FFFF", MAX), ("0b" + "1" * 63, MAX), ("0b1" + "0" * 63, 2**63)]
    return out


def run(res, tier, seed, broken_model):
    rnd = random.Random(seed)
    n = 600 if tier == "quick" else 20000
    vals = [gen_value(rnd, 4) for _ in range(n)] + [("s", c + d) for c in CHARS for d in ("", "1", "a")] + \
        [("s", c + d) for c in CHARS for d in CHARS] + \
        [("s", "\\" + c + d) for c in ('\\', '0', 'u', 'x', 'n', '"', '\x00') for d in ('0', '{', '7', '\\', 'a')] + \
        [("array", [("s", "\\0")]), ("tuple", [("s", "a\\0b"), ("i", 0)])]
    lines = ["value\trt\t" + esc_field(lit_src(v)) for v in vals]
    out = harness_run(lines)
    mreq, mmeta = [], []
    for v, o in zip(vals, out):
        res.evaluations += 1
        s = sexp_parse(o)
        if not (isinstance(s, list) and s and s[0] == "rt"):
            res.violation("could not build the value from `%s`: %s" % (lit_src(v)[:200], o[:150]), dict(program=lit_src(v), impl=o),
                          dict(oracle="value-api", cls=o[:25]))
            continue
        value, text, back, prog = s[1], s[2], s[3], s[4]
        if re.findall(r"\(f ([0-9a-f]{16})\)", sexp_str(value)) != floats_of(v):
            res.violation("the source `%s` did not build the intended floats: %s" % (lit_src(v)[:200], sexp_str(value)[:200]),
                          dict(program=lit_src(v), impl=o), dict(oracle="value-api", cls="float-bits"))
            continue
        res.nontrivial.add(sexp_str(value))
        res.count("depth-kind:" + v[0])
        # besides `==` (for which -0.0 and 0.0 are equal) the read-back value must be the same value bit for bit:
        # the canonical forms (floats as bit patterns) are compared
        okb = isinstance(back, list) and back[0] == "parsed" and back[2] == "eq=1" and back[3] == "sametype=1" and \
            sexp_str(strip_tags(back[1])) == sexp_str(strip_tags(value))
        if not okb:
            res.violation("the printed text %s does not read back as the value (from_str): %s" % (text[:200], sexp_str(back)[:200]),
                          dict(program=lit_src(v), text=text, impl=o), dict(oracle="roundtrip", route="from_str", cls=back[0] if isinstance(back, list) else "?"))
        okp = isinstance(prog, list) and prog[0] == "ran" and prog[2] == "eq=1" and prog[3] == "sametype=1" and \
            sexp_str(strip_tags(prog[1])) == sexp_str(strip_tags(value))
        if not okp and not has_min(v):
            res.violation("the printed text %s does not evaluate to the value as a program: %s" % (text[:200], sexp_str(prog)[:200]),
                          dict(program=lit_src(v), text=text, impl=o), dict(oracle="roundtrip", route="program", cls=prog[0] if isinstance(prog, list) else "?"))
        if okb and (okp or has_min(v)):
            res.traces_validated += 1
        if not has(v, "f"):
            mreq.append("valdebug (%s)" % A.sx(v)); mmeta.append(("debug", text, v))
            mreq.append("valparse %s" % text); mmeta.append(("parse", sexp_str(value), v))
    model = driver_run(mreq) if not broken_model else []
    for (kind, want, v), ml in zip(mmeta, model):
        res.evaluations += 1
        if kind == "debug":
            if ml != want:
                if any(ord(ch) > 127 for ch in ml + want):
                    res.count("model:non-ascii-not-compared")
                    continue
                res.disagreements_checked += 1
                res.broken.append("correspondence:value debug: impl %s model %s" % (want[:100], ml[:100]))
            else:
                res.traces_validated += 1
        else:
            s = sexp_parse(ml)
            got = sexp_str(s[1]) if isinstance(s, list) and s and s[0] == "parsed" else ml
            if got != want:
                res.disagreements_checked += 1
                res.broken.append("correspondence:value parse: impl value %s model reads %s" % (want[:100], got[:100]))
            else:
                res.traces_validated += 1
    # integer literal forms
    forms = int_forms(rnd, 300 if tier == "quick" else 10000)
    lines = []
    for text, v in forms:
        lines.append("value\tparse\t" + esc_field(text))
        lines.append("prog\t\t" + esc_field(text))
    out = harness_run(lines)
    mo = driver_run(["valparse \"%s\"" % t for t, _ in forms]) if not broken_model else ["(no-model)"] * len(forms)
    for k, (text, v) in enumerate(forms):
        res.evaluations += 1
        a, b = out[2 * k], out[2 * k + 1]
        want = "(i %d)" % v if v <= MAX else None
        res.nontrivial.add(text)
        res.count("int-form:" + ("overflow" if v > MAX else "ok"))
        ga = sexp_parse(a)
        gb = sexp_parse(b)
        got_a = sexp_str(ga[1]) if isinstance(ga, list) and ga[0] == "parsed" else ("overflow" if "IntegerOverflow" in a else a)
        got_b = (sexp_str(gb[2][1]) if isinstance(gb, list) and gb[0] == "accepted" and gb[2][0] == "value" else ("overflow" if "IntegerOverflow" in b else b))
        for route, got in (("from_str", got_a), ("program", got_b)):
            if (want is not None and got != want) or (want is None and got != "overflow"):
                res.violation("integer literal `%s` (= %d) gives %s through %s" % (text, v, got, route),
                              dict(literal=text, value=v, impl=a + " | " + b), dict(oracle="int-literal", route=route, cls="overflow" if v > MAX else "value"))
        if not broken_model:
            m = mo[k]
            mg = sexp_parse(m)
            got_m = sexp_str(mg[1]) if isinstance(mg, list) and mg[0] == "parsed" else "overflow"
            if got_m != got_a:
                res.broken.append("correspondence:int literal `%s`: impl %s model %s" % (text, got_a, got_m))
    res.streams["values"] = dict(values=len(vals), int_forms=len(forms))
    res.samples.append(dict(program=lit_src(vals[0])[:300], impl=out[0][:300] if out else ""))
    res.rule = ("nested values to depth 4 from bool, boundary / random ints incl. MIN and MAX, floats (-0.0, subnormal, 1e308, the 1e16/1e15 "
                "switch-over), strings over quotes, backslashes, all classes of C0 controls, DEL, escape-like letters, non-ASCII letters and a "
                "non-BMP character, (), arrays, tuples; every single character followed by a digit / letter, every ordered pair of the character classes, backslash-led triples; both routes (Variable::from_str "
                "and Code::parse + exec; MIN_INT exempt on the second); integer literals in the four radixes with underscores around 2^63 and "
                "2^64 vs. their mathematical value; non-trivial = distinct value / literal")
