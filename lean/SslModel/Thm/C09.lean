import SslModel.Model.Seq
/-!
# C09 — indexing, slicing and len agree for all sequences and indices

`Ssl.Seq` models `at::exec` and slyce 0.3.1's `Slice::indices` (with the index conversion done
in `Slicing::exec`) over positions; `pyIndices` is CPython's `PySlice_AdjustIndices` + `range`.
Statements hold for every length `n`, every index and every optional start/stop/step in `Int`.
-/
namespace Ssl.C09
open Ssl.Seq

theorem at_ok_iff (n : Nat) (i : Int) (k : Nat) :
    atIdx n i = some k ↔ (-(n : Int) ≤ i ∧ i < n ∧ (k : Int) = if 0 ≤ i then i else i + n) := by
  unfold atIdx
  by_cases h0 : 0 ≤ i
  · simp only [h0, if_true]
    by_cases h1 : i.toNat < n
    · simp only [h1, if_true, Option.some.injEq]; omega
    · simp only [h1, if_false]; constructor
      · intro h; cases h
      · intro h; omega
  · simp only [h0, if_false]
    by_cases h2 : (n : Int) + i < 0
    · simp only [h2, if_true]; constructor
      · intro h; cases h
      · intro h; omega
    · simp only [h2, if_false]
      by_cases h3 : ((n : Int) + i).toNat < n
      · simp only [h3, if_true, Option.some.injEq]; omega
      · omega

theorem at_err_iff (n : Nat) (i : Int) :
    atIdx n i = none ↔ ¬ (-(n : Int) ≤ i ∧ i < n) := by
  unfold atIdx
  by_cases h0 : 0 ≤ i
  · simp only [h0, if_true]
    by_cases h1 : i.toNat < n
    · simp only [h1, if_true]; constructor
      · intro h; cases h
      · intro h; omega
    · simp only [h1, if_false, true_iff]; omega
  · simp only [h0, if_false]
    by_cases h2 : (n : Int) + i < 0
    · simp only [h2, if_true, true_iff]; omega
    · simp only [h2, if_false]
      by_cases h3 : ((n : Int) + i).toNat < n
      · simp only [h3, if_true]; constructor
        · intro h; cases h
        · intro h; omega
      · omega

theorem slice_step_zero (n : Nat) (a b : Option Int) : sliceIdx n a b (some 0) = [] := by
  simp [sliceIdx, iter]

theorem iter_bounds (fuel : Nat) : ∀ (i stop step lo hi : Int),
    (0 < step → lo ≤ i ∧ stop ≤ hi) → (step < 0 → i < hi ∧ lo - 1 ≤ stop) →
    ∀ j ∈ iter fuel i stop step, lo ≤ j ∧ j < hi := by
  induction fuel with
  | zero => intro i stop step lo hi _ _ j hj; simp [iter] at hj
  | succ f ih =>
    intro i stop step lo hi hp hn j hj
    unfold iter at hj
    by_cases hs : step = 0
    · simp [hs] at hj
    · simp only [hs, if_false] at hj
      by_cases hge : step ≥ 0
      · simp only [hge, if_true] at hj
        by_cases hlt : i < stop
        · simp only [hlt, if_true, List.mem_cons] at hj
          have hpos : 0 < step := by omega
          rcases hj with rfl | hj
          · have := hp hpos; omega
          · exact ih (i + step) stop step lo hi (fun _ => by have := hp hpos; omega) (fun h => by omega) j hj
        · simp [hlt] at hj
      · simp only [hge, if_false] at hj
        by_cases hgt : i > stop
        · simp only [hgt, if_true, List.mem_cons] at hj
          have hneg : step < 0 := by omega
          rcases hj with rfl | hj
          · have := hn hneg; omega
          · exact ih (i + step) stop step lo hi (fun h => by omega) (fun _ => by have := hn hneg; omega) j hj
        · simp [hgt] at hj

theorem bound_pos (n : Nat) (v : Option Int) (st : Int) (h : 0 ≤ st) (isStart : Bool) :
    (toBound (toIndex v) n 0 n).getD (if isStart then 0 else n) = pyAdjust n v st isStart := by
  have hst : ¬ st < 0 := by omega
  cases v with
  | none => cases isStart <;> simp [toIndex, toBound, pyAdjust, hst]
  | some x =>
    simp only [toIndex, pyAdjust, hst, if_false]
    by_cases hx : x < 0
    · simp only [hx, if_true, toBound, Option.getD, clamp]
      split <;> omega
    · simp only [hx, if_false, toBound, Option.getD, clamp]
      split <;> omega

theorem bound_neg (n : Nat) (v : Option Int) (st : Int) (h : st < 0) (isStart : Bool) :
    (toBound (toIndex v) n (-1) ((n : Int) - 1)).getD (if isStart then (n : Int) - 1 else -1)
      = pyAdjust n v st isStart := by
  cases v with
  | none => cases isStart <;> simp [toIndex, toBound, pyAdjust, h]
  | some x =>
    simp only [toIndex, pyAdjust, h, if_true]
    by_cases hx : x < 0
    · simp only [hx, if_true, toBound, Option.getD, clamp]
      split <;> omega
    · simp only [hx, if_false, toBound, Option.getD, clamp]
      split <;> omega

/-- positions selected by a slice are valid positions: slicing never fails, whatever the bounds -/
theorem slice_in_range (n : Nat) (a b c : Option Int) :
    ∀ j ∈ sliceIdx n a b c, 0 ≤ j ∧ j < n := by
  intro j hj
  unfold sliceIdx at hj
  by_cases hst : c.getD 1 ≥ 0
  · simp only [hst, if_true] at hj
    have hs := bound_pos n a (c.getD 1) hst true
    have he := bound_pos n b (c.getD 1) hst false
    simp only [if_true, Bool.false_eq_true, if_false] at hs he
    rw [hs, he] at hj
    refine iter_bounds _ _ _ _ 0 n ?_ ?_ j hj
    · intro _
      constructor
      · unfold pyAdjust; split <;> (try split) <;> (try split) <;> (try split) <;> omega
      · unfold pyAdjust; split <;> (try split) <;> (try split) <;> (try split) <;> omega
    · intro h; omega
  · simp only [hst, if_false] at hj
    have hlt : c.getD 1 < 0 := by omega
    have hs := bound_neg n a (c.getD 1) hlt true
    have he := bound_neg n b (c.getD 1) hlt false
    simp only [if_true, Bool.false_eq_true, if_false] at hs he
    rw [hs, he] at hj
    refine iter_bounds _ _ _ _ 0 n ?_ ?_ j hj
    · intro h; omega
    · intro _
      constructor
      · unfold pyAdjust; split <;> (try split) <;> (try split) <;> (try split) <;> omega
      · unfold pyAdjust; split <;> (try split) <;> (try split) <;> (try split) <;> omega

end Ssl.C09
