import SslModel.Thm.C08
import SslModel.Thm.C11Pipe
/-!
# C11 — `a~` enumerates the array `a`

The closure text of unary_operation/iter.rs (`iterBody`: a cursor cell `i`, started at -1, incremented BEFORE each
test `*i < len`, the element read by `array[*i]`) run by the reference evaluator: from a cursor holding `j - 1` one call
stores `j` and returns `(true, a[j])` when `j < len a` (`iter_call_some`), `(false, default)` when `len a ≤ j`
(`iter_call_none`) - 64-bit wrap-around, the signed comparison and the index normalisation of `at` are discharged with
the operator theorems of `Thm/C08` (`add_wraps`, `lt_signed`) for every array shorter than 2^63.  Hence `Pulls (a~) … (a.drop j)`
for every start `j` (`iter_pulls`, induction on the remaining length), `a~ $]` from a fresh cursor is `a`
(`iter_collect`), and the whole expression `e~ $]` evaluates to the array `e` evaluates to (`iter_then_collect`).
-/
namespace Ssl.C11
open Ssl Ssl.Spec

theorem eval_assign_add (f : Nat) (env : Env) (t v : Expr) : eval (f + 1) env (.assign .add t v) =
    (do let c ← eval f env t
        let v ← eval f env v
        match c with
          | Val.cell loc _ => do
              let cur ← readCell loc
              let r ← liftE (binScalar BinOp.add cur v)
              writeCell loc r
              pure r
          | _ => wrong "assignment to a non-cell") := by
  simp only [eval, assignBase]; rfl
theorem eval_lt (f : Nat) (env : Env) (a b : Expr) : eval (f + 1) env (.bin .lt a b) =
    (do let x ← eval f env a
        let y ← eval f env b
        liftE (binScalar BinOp.lt x y)) := by first | (simp only [eval]; done) | (simp only [eval]; rfl)
theorem eval_deref (f : Nat) (env : Env) (a : Expr) : eval (f + 1) env (.pre .deref a) =
    (do let v ← eval f env a
        match v with
          | Val.cell loc _ => readCell loc
          | _ => wrong "indirection of a non-cell") := by first | (simp only [eval]; done) | (simp only [eval]; rfl)
theorem eval_at (f : Nat) (env : Env) (a b : Expr) : eval (f + 1) env (.at a b) =
    (do let x ← eval f env a
        let y ← eval f env b
        liftE (atVal x y)) := by first | (simp only [eval]; done) | (simp only [eval]; rfl)
theorem eval_litInt (f : Nat) (env : Env) (i : Int) : eval (f + 1) env (.litInt i) = pure (Val.int (BitVec.ofInt 64 i)) := by
  simp only [eval]

def arrIter (id loc : Nat) (t ty : Ty) (es : List Val) (dflt : Val) : Val :=
  .fn id [] (.tup [.bool, t]) iterBody
    [("i", .cell loc .int), ("len", .int (BitVec.ofNat 64 es.length)), ("array", .arr ty es), ("default", dflt)] none

theorem bmod_small (j : Int) (h0 : 0 ≤ j) (h1 : j < 2 ^ 63) : j.bmod M64 = j := by
  exact Int.bmod_eq_of_le_mul_two (by simp only [M64]; omega) (by simp only [M64]; omega)

theorem step_cell (c : I64) (j : Nat) (hj : c.toInt = (j : Int) - 1) (h1 : (j : Int) < 2 ^ 63) :
    ∃ x : I64, binScalar .add (.int c) (.int 1#64) = .ok (.int x) ∧ x.toInt = j := by
  obtain ⟨x, hx, hv⟩ := C08.add_wraps c 1#64
  refine ⟨x, ?_, ?_⟩
  · simp only [binScalar, hx, ofScalar]
  · have e1 : (1#64 : I64).toInt = 1 := by decide
    rw [hv, hj, e1]
    have : (j : Int) - 1 + 1 = j := by omega
    rw [this]
    exact bmod_small j (by omega) h1

theorem len_toInt (n : Nat) (hn : (n : Int) < 2 ^ 63) : (BitVec.ofNat 64 n).toInt = n := by
  rw [BitVec.toInt_ofNat']
  exact Int.bmod_eq_of_le_mul_two (by omega) (by omega)

theorem lt_cell (x : I64) (j n : Nat) (hx : x.toInt = j) (hn : (n : Int) < 2 ^ 63) :
    binScalar .lt (.int x) (.int (BitVec.ofNat 64 n)) = .ok (.bool (decide (j < n))) := by
  have h := C08.lt_signed x (BitVec.ofNat 64 n)
  unfold IsBool at h
  simp only [binScalar, h, ofScalar, hx, len_toInt n hn]
  congr 2
  simp

theorem at_cell (ty : Ty) (es : List Val) (x : I64) (j : Nat) (v : Val) (hx : x.toInt = j) (hv : es[j]? = some v) :
    atVal (.arr ty es) (.int x) = .ok v := by
  have hjn : j < es.length := by
    rcases Nat.lt_or_ge j es.length with h1 | h1
    · exact h1
    · rw [List.getElem?_eq_none h1] at hv; cases hv
  simp only [atVal, Seq.atIdx, hx]
  have : (0 : Int) ≤ (j : Int) := by omega
  have e : es[j] = v := by
    have h2 := List.getElem?_eq_getElem hjn
    rw [h2] at hv; exact Option.some.inj hv
  simp [this, hjn, e]

def setCell (σ : St) (loc : Nat) (v : Val) : St := { σ with cells := σ.cells.set! loc v }

theorem setCell_get (σ : St) (loc : Nat) (v w : Val) (h : σ.cells[loc]? = some w) :
    (setCell σ loc v).cells[loc]? = some v := by
  have hl : loc < σ.cells.size := by
    rcases Nat.lt_or_ge loc σ.cells.size with h1 | h1
    · exact h1
    · rw [Array.getElem?_eq_none h1] at h; cases h
  simp [setCell, hl]

theorem iter_call_some (f id loc : Nat) (t ty : Ty) (es : List Val) (dflt v : Val) (σ : St) (c : I64) (j : Nat)
    (hc : σ.cells[loc]? = some (.int c)) (hj : c.toInt = (j : Int) - 1) (hn : (es.length : Int) < 2 ^ 63)
    (hv : es[j]? = some v) :
    ∃ x : I64, x.toInt = j ∧
      callFn (f + 20) (arrIter id loc t ty es dflt) [] σ = (.ok (.tup [.bool true, v]), setCell σ loc (.int x)) := by
  have hjn : j < es.length := by
    rcases Nat.lt_or_ge j es.length with h1 | h1
    · exact h1
    · rw [List.getElem?_eq_none h1] at hv; cases hv
  obtain ⟨x, hx, hxv⟩ := step_cell c j hj (by omega)
  have hl : loc < σ.cells.size := by
    rcases Nat.lt_or_ge loc σ.cells.size with h1 | h1
    · exact h1
    · rw [Array.getElem?_eq_none h1] at hc; cases hc
  refine ⟨x, hxv, ?_⟩
  have hget := setCell_get σ loc (.int x) _ hc
  simp only [arrIter, callFn, iterBody, calleeEnv, bind_def, tryCatchS, evalSeq, evalStmt, eval_assign_add, eval_var, eval_litInt]
  simp [Env.lookup, frameLookup, pure_def, bind_def, readCell, hc]
  simp only [liftE, hx, writeCell, hl, if_true]
  simp only [eval_if, eval_lt, eval_deref, eval_var, bind_def, eval_block, evalSeq, evalStmt, eval_ret, eval_tuple, evalList,
    eval_at, eval_litBool, E_true, E_false]
  have hg2 : (σ.cells.setIfInBounds loc (.int x))[loc]? = some (.int x) := by simp [hl]
  have hlt := lt_cell x j es.length hxv hn
  have hat := at_cell ty es x j v hxv hv
  simp [Env.lookup, frameLookup, pure_def, bind_def, readCell, hg2, liftE, hlt, hjn, asBool, hat, throwS, setCell]

theorem iter_call_none (f id loc : Nat) (t ty : Ty) (es : List Val) (dflt : Val) (σ : St) (c : I64) (j : Nat)
    (hc : σ.cells[loc]? = some (.int c)) (hj : c.toInt = (j : Int) - 1) (hn : (es.length : Int) < 2 ^ 63)
    (hjn : es.length ≤ j) (hj2 : (j : Int) < 2 ^ 63) :
    ∃ x : I64, x.toInt = j ∧
      callFn (f + 20) (arrIter id loc t ty es dflt) [] σ = (.ok (.tup [.bool false, dflt]), setCell σ loc (.int x)) := by
  obtain ⟨x, hx, hxv⟩ := step_cell c j hj hj2
  have hl : loc < σ.cells.size := by
    rcases Nat.lt_or_ge loc σ.cells.size with h1 | h1
    · exact h1
    · rw [Array.getElem?_eq_none h1] at hc; cases hc
  refine ⟨x, hxv, ?_⟩
  simp only [arrIter, callFn, iterBody, calleeEnv, bind_def, tryCatchS, evalSeq, evalStmt, eval_assign_add, eval_var, eval_litInt]
  simp [Env.lookup, frameLookup, pure_def, bind_def, readCell, hc]
  simp only [liftE, hx, writeCell, hl, if_true]
  simp only [eval_if, eval_lt, eval_deref, eval_var, bind_def, eval_block, evalSeq, evalStmt, eval_ret, eval_tuple, evalList,
    eval_at, eval_litBool, E_true, E_false]
  have hg2 : (σ.cells.setIfInBounds loc (.int x))[loc]? = some (.int x) := by simp [hl]
  have hlt := lt_cell x j es.length hxv hn
  have hnl : ¬ j < es.length := by omega
  simp [Env.lookup, frameLookup, pure_def, bind_def, readCell, hg2, liftE, hlt, hnl, asBool, throwS, setCell]

theorem pull_of_call {it : Val} {f : Nat} {σ σ' : St} {x : Val}
    (h : callFn f it [] σ = (.ok (.tup [.bool true, x]), σ')) : pull (f + 1) it σ = (.ok (some x), σ') := by
  simp only [pull, bind_def, h]; rfl

theorem pull_of_call_none {it : Val} {f : Nat} {σ σ' : St} {rest : List Val}
    (h : callFn f it [] σ = (.ok (.tup (.bool false :: rest)), σ')) : pull (f + 1) it σ = (.ok none, σ') := by
  simp only [pull, bind_def, h]; rfl

/-- `a~` enumerates `a`: from a cursor cell holding `j - 1` the iterator yields `a[j], a[j+1], …` to the end, each
    element once, in order, and then reports exhaustion; the cursor then holds `len a` -/
theorem iter_pulls (id loc : Nat) (t ty : Ty) (es : List Val) (dflt : Val) (hn : (es.length : Int) < 2 ^ 63) :
    ∀ (k j : Nat) (σ : St) (c : I64), j + k = es.length → σ.cells[loc]? = some (.int c) → c.toInt = (j : Int) - 1 →
      ∃ σ', Pulls (arrIter id loc t ty es dflt) (22 + k) σ (es.drop j) σ' := by
  intro k
  induction k with
  | zero =>
    intro j σ c hjk hc hj
    obtain ⟨x, _, hcall⟩ := iter_call_none 0 id loc t ty es dflt σ c j hc hj hn (by omega) (by omega)
    refine ⟨setCell σ loc (.int x), ?_⟩
    have hd : es.drop j = [] := List.drop_eq_nil_of_le (by omega)
    rw [hd]
    exact Pulls.done (pull_of_call_none hcall)
  | succ k ih =>
    intro j σ c hjk hc hj
    have hjn : j < es.length := by omega
    obtain ⟨x, hxv, hcall⟩ := iter_call_some 0 id loc t ty es dflt es[j] σ c j hc hj hn (List.getElem?_eq_getElem hjn)
    have hget := setCell_get σ loc (.int x) _ hc
    obtain ⟨σ', hp⟩ := ih (j + 1) (setCell σ loc (.int x)) x (by omega) hget (by rw [hxv]; omega)
    refine ⟨σ', ?_⟩
    have hd : es.drop j = es[j] :: es.drop (j + 1) := List.drop_eq_getElem_cons hjn
    rw [hd]
    exact Pulls.more (pull_lift (22 + k) (pull_of_call hcall) (by omega)) hp

/-- `a~ $]` from a fresh cursor is `a` -/
theorem iter_collect (id loc : Nat) (t ty : Ty) (es : List Val) (dflt : Val) (hn : (es.length : Int) < 2 ^ 63)
    (σ : St) (hc : σ.cells[loc]? = some (.int (BitVec.ofInt 64 (-1)))) :
    ∃ σ', collectGo (22 + es.length) (arrIter id loc t ty es dflt) [] σ = (.ok es, σ') := by
  obtain ⟨σ', hp⟩ := iter_pulls id loc t ty es dflt hn es.length 0 σ _ (by omega) hc (by decide)
  exact ⟨σ', by simpa using collectGo_spec _ _ _ _ _ [] hp⟩

theorem eval_iter (f : Nat) (env : Env) (e : Expr) (σ σ1 : St) (ty : Ty) (es : List Val)
    (he : eval f env e σ = (.ok (.arr ty es), σ1)) :
    eval (f + 1) env (.post .iter e) σ =
      (.ok (arrIter σ1.nextId σ1.cells.size ty ty es ((ofType ty).getD .unit)),
       { cells := σ1.cells.push (.int (BitVec.ofInt 64 (-1))), nextId := σ1.nextId + 1 }) := by
  simp only [eval, bind_def, he, newCell, freshId, arrIter]; rfl

theorem eval_collect (f : Nat) (env : Env) (e : Expr) : eval (f + 1) env (.post .collect e) =
    (do let it ← eval f env e
        let vs ← collectGo f it []
        pure (Val.mkArray vs)) := by first | (simp only [eval]; done) | (simp only [eval]; rfl)

theorem eval_lift {env : Env} {e : Expr} {σ σ' : St} {v : Val} {f : Nat} (g : Nat)
    (h : eval f env e σ = (.ok v, σ')) (hle : f ≤ g) : eval g env e σ = (.ok v, σ') :=
  lift_eq ((monoAt_le f g hle).eval env e) h (by intro σ0 h0; cases h0)

/-- the whole expression: `e~ $]` evaluates to the array `e` evaluates to (same elements, same order; the element type
    tag is recomputed by `mkArray`), whatever its length below 2^63 -/
theorem iter_then_collect (f : Nat) (env : Env) (e : Expr) (σ σ1 : St) (ty : Ty) (es : List Val)
    (he : eval f env e σ = (.ok (.arr ty es), σ1)) (hn : (es.length : Int) < 2 ^ 63) :
    ∃ σ', eval (f + 24 + es.length) env (.post .collect (.post .iter e)) σ = (.ok (Val.mkArray es), σ') := by
  have he' := eval_lift (f + 22 + es.length) he (by omega)
  have hi := eval_iter (f + 22 + es.length) env e σ σ1 ty es he'
  have hcell : ({ cells := σ1.cells.push (.int (BitVec.ofInt 64 (-1))), nextId := σ1.nextId + 1 } : St).cells[σ1.cells.size]? =
      some (.int (BitVec.ofInt 64 (-1))) := by simp
  obtain ⟨σ', hc⟩ := iter_collect σ1.nextId σ1.cells.size ty ty es ((ofType ty).getD .unit) hn _ hcell
  have hc' := lift_eq ((monoAt_le (22 + es.length) (f + 22 + es.length + 1) (by omega)).collectGo _ []) hc
    (by intro σ0 h0; cases h0)
  refine ⟨σ', ?_⟩
  have e1 : f + 24 + es.length = (f + 22 + es.length + 1) + 1 := by omega
  rw [e1]
  rw [eval_collect]
  simp only [bind_def, hi, hc']
  rfl

/-! ## end to end: `a~ @ g $]` is `map g a`, `a~ ? p $]` is `filter p a` -/

/-- the run of `a~ @ g` for a mapper that computes `h` (at every fuel from `f0` on, leaving the store alone) -/
theorem iter_mapRun (id loc : Nat) (t ty : Ty) (es : List Val) (dflt g : Val) (h : Val → Val) (f0 : Nat)
    (hn : (es.length : Int) < 2 ^ 63) (hg : ∀ k x σ, f0 ≤ k → callFn k g [x] σ = (.ok (h x), σ)) :
    ∀ (k j : Nat) (σ : St) (c : I64), j + k = es.length → σ.cells[loc]? = some (.int c) → c.toInt = (j : Int) - 1 →
      ∃ σ', MapRun (arrIter id loc t ty es dflt) g (f0 + 20) σ ((es.drop j).map h) σ' := by
  intro k
  induction k with
  | zero =>
    intro j σ c hjk hc hj
    obtain ⟨x, _, hcall⟩ := iter_call_none f0 id loc t ty es dflt σ c j hc hj hn (by omega) (by omega)
    refine ⟨setCell σ loc (.int x), ?_⟩
    have hd : es.drop j = [] := List.drop_eq_nil_of_le (by omega)
    rw [hd]
    exact MapRun.done hcall
  | succ k ih =>
    intro j σ c hjk hc hj
    have hjn : j < es.length := by omega
    obtain ⟨x, hxv, hcall⟩ := iter_call_some f0 id loc t ty es dflt es[j] σ c j hc hj hn (List.getElem?_eq_getElem hjn)
    have hget := setCell_get σ loc (.int x) _ hc
    obtain ⟨σ', hp⟩ := ih (j + 1) (setCell σ loc (.int x)) x (by omega) hget (by rw [hxv]; omega)
    refine ⟨σ', ?_⟩
    have hd : es.drop j = es[j] :: es.drop (j + 1) := List.drop_eq_getElem_cons hjn
    rw [hd, List.map_cons]
    exact MapRun.more hcall (hg (f0 + 20) es[j] _ (by omega)) hp

/-- `a~ @ g $]` is `map g a` -/
theorem iter_map_collect (id id2 loc : Nat) (t ty r : Ty) (es : List Val) (dflt dflt2 g : Val) (h : Val → Val) (f0 : Nat)
    (hn : (es.length : Int) < 2 ^ 63) (hg : ∀ k x σ, f0 ≤ k → callFn k g [x] σ = (.ok (h x), σ))
    (σ : St) (hc : σ.cells[loc]? = some (.int (BitVec.ofInt 64 (-1)))) :
    ∃ σ', collectGo (f0 + 20 + 21 + (es.map h).length) (mapped id2 r (arrIter id loc t ty es dflt) g dflt2) [] σ =
      (.ok (es.map h), σ') := by
  obtain ⟨σ', hr⟩ := iter_mapRun id loc t ty es dflt g h f0 hn hg es.length 0 σ _ (by omega) hc (by decide)
  exact ⟨σ', by simpa using map_collect id2 r _ g dflt2 (f0 + 20) σ σ' _ [] hr⟩

theorem FilterRun.mono {it p : Val} {f N N' : Nat} {σ σ' : St} {xs : List Val} (hNN : N ≤ N')
    (h : FilterRun it p f N σ xs σ') : FilterRun it p f N' σ xs σ' := by
  induction h with
  | done hl hn => exact .done hl (by omega)
  | more hl hn _ ih => exact .more hl (by omega) ih

theorem FilterRun.skip_head {it p : Val} {f N : Nat} {σ σ1 σ2 σ' : St} {x : Val} {xs : List Val}
    (hs : callFn f it [] σ = (.ok (.tup [.bool true, x]), σ1)) (hp : callFn f p [x] σ1 = (.ok (.bool false), σ2))
    (h : FilterRun it p f N σ2 xs σ') : FilterRun it p f (N + 1) σ xs σ' := by
  cases h with
  | done hl hn => exact .done (.skip hs hp hl) (by omega)
  | more hl hn tl => exact .more (.skip hs hp hl) (by omega) (tl.mono (by omega))

/-- the run of `a~ ? p` for a predicate that computes the test `q` -/
theorem iter_filterRun (id loc : Nat) (t ty : Ty) (es : List Val) (dflt p : Val) (q : Val → Bool) (f0 : Nat)
    (hn : (es.length : Int) < 2 ^ 63) (hq : ∀ k x σ, f0 ≤ k → callFn k p [x] σ = (.ok (.bool (q x)), σ)) :
    ∀ (k j : Nat) (σ : St) (c : I64), j + k = es.length → σ.cells[loc]? = some (.int c) → c.toInt = (j : Int) - 1 →
      ∃ σ', FilterRun (arrIter id loc t ty es dflt) p (f0 + 20) k σ ((es.drop j).filter q) σ' := by
  intro k
  induction k with
  | zero =>
    intro j σ c hjk hc hj
    obtain ⟨x, _, hcall⟩ := iter_call_none f0 id loc t ty es dflt σ c j hc hj hn (by omega) (by omega)
    refine ⟨setCell σ loc (.int x), ?_⟩
    have hd : es.drop j = [] := List.drop_eq_nil_of_le (by omega)
    rw [hd]
    exact FilterRun.done (.done hcall) (Nat.le_refl 0)
  | succ k ih =>
    intro j σ c hjk hc hj
    have hjn : j < es.length := by omega
    obtain ⟨x, hxv, hcall⟩ := iter_call_some f0 id loc t ty es dflt es[j] σ c j hc hj hn (List.getElem?_eq_getElem hjn)
    have hget := setCell_get σ loc (.int x) _ hc
    obtain ⟨σ', hp⟩ := ih (j + 1) (setCell σ loc (.int x)) x (by omega) hget (by rw [hxv]; omega)
    refine ⟨σ', ?_⟩
    have hd : es.drop j = es[j] :: es.drop (j + 1) := List.drop_eq_getElem_cons hjn
    rw [hd]
    have hpx := hq (f0 + 20) es[j] (setCell σ loc (.int x)) (by omega)
    cases hqx : q es[j]
    · rw [hqx] at hpx
      simp only [List.filter, hqx]
      exact FilterRun.skip_head hcall hpx hp
    · rw [hqx] at hpx
      simp only [List.filter, hqx]
      exact FilterRun.more (n := 0) (.keep hcall hpx) (by omega) (hp.mono (by omega))

/-- `a~ ? p $]` is `filter p a` -/
theorem iter_filter_collect (id id2 loc : Nat) (t ty r : Ty) (es : List Val) (dflt p : Val) (q : Val → Bool) (f0 : Nat)
    (hn : (es.length : Int) < 2 ^ 63) (hq : ∀ k x σ, f0 ≤ k → callFn k p [x] σ = (.ok (.bool (q x)), σ))
    (σ : St) (hc : σ.cells[loc]? = some (.int (BitVec.ofInt 64 (-1)))) :
    ∃ σ', collectGo (f0 + 20 + 27 + es.length + (es.filter q).length) (filtered id2 r (arrIter id loc t ty es dflt) p) [] σ =
      (.ok (es.filter q), σ') := by
  obtain ⟨σ', hr⟩ := iter_filterRun id loc t ty es dflt p q f0 hn hq es.length 0 σ _ (by omega) hc (by decide)
  exact ⟨σ', by simpa using filter_collect id2 r _ p (f0 + 20) es.length σ σ' _ [] hr⟩

/-! non-vacuity: a name bound to a two-element array -/
example : ∃ σ', eval (1 + 24 + 2) [[("a", .arr .int [.int 1#64, .int 2#64])]] (.post .collect (.post .iter (.var "a"))) {} =
    (.ok (Val.mkArray [.int 1#64, .int 2#64]), σ') := by
  have he : eval 1 [[("a", Val.arr .int [.int 1#64, .int 2#64])]] (.var "a") {} = (.ok (.arr .int [.int 1#64, .int 2#64]), {}) := by
    simp [eval_var, Env.lookup, frameLookup, pure_def]
  exact iter_then_collect 1 _ _ {} {} _ _ he (by decide)

end Ssl.C11
