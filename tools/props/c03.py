"""C03 — parsing and checking is total: any text yields a program or an error, never a panic.

Proof: SslModel.Thm.C03 — for all well-formed types, each static query the checker unwraps after an
admissibility test answers (return_type / is_function, mut_element_type, mut_assign_type / is_mut,
min_tuple_len, flatten_tuple / is_tuple + tuple_len, field_type / has_field, index_result / can_be_indexed
except on the never type, which passes the matches-based tests unanswered); every grammar rule the crate
matches on (regenerated list) is a non-silent rule of the regenerated grammar; the grammar is closed.
What is not modelled — every other unwrap / unreachable / index in parser glue, instruction construction
and constant folding — is searched here, on the implementation, with catch_unwind around Code::parse
(+ return_type), Variable::from_str and Type::from_str:
  * matrix: every binary operator x every ordered pair of 45 operand types (parameters, so nothing folds),
    and 60 unary / postfix / statement templates x every type (thorough: all; quick: a seeded sample);
  * constants: every binary operator x pairs of 30 literals, and the templates on literals — the operands
    fold while parsing, failing folds must come back as errors;
  * tokens: every sequence of up to 2 (thorough: 3) tokens of a 56-token alphabet, random longer ones;
  * text: arbitrary Unicode / control / near-keyword text, and character- and token-level mutations of
    generated valid programs;
  * docs: every construct of docs/*.md in well- and ill-formed variants: match with value and type arms,
    modules, struct / tuple / field forms, imports of missing / directory / non-UTF-8 / ill-formed /
    ill-typed / failing-fold / good files."""
import itertools
import os
import random
import shutil

from gen import ast as A
from vlib import CACHE, esc_field, harness_run
import progstream as P

THM_MODULES = ["SslModel.Thm.C03"]
TRANSLATE_PARTS = ["grammar", "ruleuse"]

TYPES = ["int", "float", "string", "bool", "()", "any", "!", "[int]", "[any]", "[!]", "[int|string]", "[[int]]", "(int, string)",
         "(int, (float, bool))", "(int, int)|(string, string)", "(int, int)|(int, int, int)", "() -> int", "(int) -> int",
         "(int, string) -> bool", "() -> (bool, int)", "() -> (bool, any)", "() -> ((bool, int)|(bool, string))",
         "(() -> (bool, int))|(() -> (bool, float))", "() -> (bool, !)", "() -> !", "() -> (!, int)", "mut int", "mut (int|string)",
         "mut [int]", "mut !", "(mut int)|(mut string)", "struct{a: int}", "struct{a: int, b: string}", "struct{a: int}|struct{a: string}",
         "struct{a: int}|struct{b: int}", "struct{}", "int|string", "int|float", "int|()", "[int]|string", "[int]|[string]",
         "((int) -> int)|((string) -> string)", "mut () -> int", "(int, !)", "(any) -> !"]
BINOPS = ["+", "-", "*", "/", "%", "**", "==", "!=", ">", ">=", "<", "<=", "&&", "||", "&", "|", "^", "<<", ">>", "?", "@", "=", "+=", "-=",
          "*=", "/=", "%=", "<<=", ">>=", "&=", "|=", "^=", "**=", "\\"]
TEMPLATES = ["-a", "!a", "*a", "a~", "a $+", "a $*", "a $&&", "a $||", "a $&", "a $|", "a $]", "a()", "a(b)", "a(b, b)", "a(a, b, a)",
             "a[b]", "a[b:b]", "a[:b]", "a[b:]", "a[::b]", "a[b:b:b]", "a[::]", "a.0", "a.1", "a.7", "a.a", "a.b", "a.a.a", "a ? int",
             "a ? string", "a ? [int]", "a ? !", "a ? mut int", "a ? () -> int", "a ? struct{a: int}", "a $b a", "a $0 b", "a $b b",
             "(x, y) := a; x", "(x, y, z) := a; x", "for y in a { y }", "for y in a { break; }", "if a { 1 } else { 2 }", "if a { 1 }",
             "while a { break; }", "match a { y: int => {1} => {2} }", "match a { 1 => {1} => {2} }", "match a { b => {1} => {2} }",
             "match a { y: int => {1} z: string => {2} }", "match a { 1, 2 => {1} \"x\" => {2} => {3} }", "match a { }",
             "if y: int = a { y } else { 0 }", "if y: string = a { y }", "[a; b]", "[a; 3]", "[a, b]", "[a, a]", "(a, b)", "struct{p := a, q := b}",
             "mut a", "mut int a", "mut [any] a", "y: int = a; y", "y: [int] = a; y", "y: any = a; y", "a = b; a", "loop { a; break; }",
             "a @ b", "a ? b", "a \\ b", "(a @ b) $]", "a~ ? int", "a~ @ b", "a~ $]", "(a~)()", "a.0.0", "a[0][0]", "a[b][b]", "*a[0]",
             "(*a)[0]", "*a = b", "*a += 1", "a.a = b", "a[0] = b", "return a", "a; b", "{ a }", "{ a; b }", "g := (p: int) -> int { return a; }; g",
             "g := () -> any { return a; }; g()", "a(a)", "a(b)(b)", "a == b", "[a] + [b]", "a + a", "a && (b || a)"]
LITERALS = ["0", "1", "-1", "2", "63", "64", "-64", "9223372036854775807", "(0 - 9223372036854775807 - 1)", "1.5", "0.0", "-0.0", "1e308",
            "\"\"", "\"ab\"", "\"é\"", "true", "false", "()", "[1; 0]", "[1, 2, 3]", "[1, \"a\"]", "[[1], [2]]", "(1, \"a\")", "(1, (2, 3))",
            "struct{a := 1}", "[1, 2]~", "mut 1", "(x: int) -> int { return x; }", "() -> (bool, int) { return (false, 0); }"]
TOKENS = ["x", "y", "1", "1.5", "\"s\"", "true", "()", "(", ")", "[", "]", "{", "}", ",", ";", ":", ":=", "=", "+", "-", "*", "/", "!", "~", "$",
          "@", "?", "|", "->", ".", "=>", "_", "&&", "**", "<<", "==", "$]", "\\", "if", "else", "while", "for", "in", "return", "break",
          "loop", "match", "mut", "struct", "mod", "import", "int", "0x", "continue", "$+", "+="]


def wrap_params(expr):
    return expr


def matrix(rnd, thorough):
    progs = []
    pairs = list(itertools.product(TYPES, TYPES))
    if not thorough:
        pairs = rnd.sample(pairs, 260) + [(t, t) for t in TYPES]
    for ta, tb in pairs:
        for op in BINOPS:
            progs.append("f := (a: %s, b: %s) -> any { return a %s b; }; 1" % (ta, tb, op))
    tpairs = list(itertools.product(TYPES, TYPES)) if thorough else [(t, rnd.choice(TYPES)) for t in TYPES for _ in range(3)]
    for ta, tb in tpairs:
        for tm in (TEMPLATES if thorough else rnd.sample(TEMPLATES, 40)):
            progs.append("f := (a: %s, b: %s) -> any { return %s; }; 1" % (ta, tb, tm))
            progs.append("f := (a: %s, b: %s) -> any { z := %s; return 1; }; 1" % (ta, tb, tm))
    return progs


def constants(rnd, thorough):
    progs = []
    pairs = list(itertools.product(LITERALS, LITERALS))
    if not thorough:
        pairs = rnd.sample(pairs, 300)
    for a, b in pairs:
        for op in BINOPS:
            progs.append("%s %s %s" % (a, op, b))
            progs.append("a := %s; b := %s; a %s b" % (a, b, op))
    for a in LITERALS:
        for b in (LITERALS if thorough else rnd.sample(LITERALS, 5)):
            for tm in TEMPLATES:
                progs.append("a := %s; b := %s; %s" % (a, b, tm))
    # folds that fail, in every position a constant can stand
    bad = ["1 / 0", "1 % 0", "1 << 64", "1 >> -1", "2 ** -1", "[1][5]", "[1][-2]", "\"a\"[3]", "[1, 2][0:5]", "[1, 2][::0]", "[1; -1]", "(1, 2).5"]
    holes = ["%s", "x := %s; x", "[%s]", "[%s; 2]", "[1; %s]", "(%s, 1)", "struct{a := %s}", "mut %s", "-(%s)", "(%s) + 1", "f := () -> any { return %s; }; f()",
             "if true { %s } else { 0 }", "if %s == 1 { 1 } else { 0 }", "while false { %s }", "loop { %s; break; }", "match 1 { 1 => {%s} => {0} }",
             "match %s { 1 => {1} => {0} }", "for y in [1]~ { %s }", "g := (p: int) -> int { return p; }; g(%s)", "[1, 2][%s]", "[1, 2][%s:]",
             "x := mut 1; x = %s", "x := mut 1; x += %s", "[1, 2]~ @ (p: int) -> int { return %s; }", "return %s", "mod { x := %s }", "y: int = %s; y",
             "if y: int = %s { y } else { 0 }", "(p, q) := (%s, 1); p", "[1, 2] $0 (a: int, c: int) -> int { return %s; }"]
    for b in bad:
        for h in holes:
            progs.append(h % b)
    return progs


def token_sequences(rnd, thorough):
    seqs = [[]]
    for n in (1, 2):
        seqs += [list(t) for t in itertools.product(TOKENS, repeat=n)]
    if thorough:
        seqs += [list(t) for t in itertools.product(TOKENS, repeat=3)]
    else:
        seqs += [[rnd.choice(TOKENS) for _ in range(3)] for _ in range(6000)]
    for _ in range(60000 if thorough else 8000):
        seqs.append([rnd.choice(TOKENS) for _ in range(rnd.randint(4, 12))])
    return [" ".join(s) for s in seqs] + ["".join(s) for s in seqs[:4000]]


WEIRD = ["\x00", "\x0b", "\x0c", "\x1b", "\x7f", "\u0085", " ", "​", " ", "﻿", "é", "中", "\U0001F600", "\\", "\"", "'", "`", "#", "//", "/*",
         "*/", "0x", "0b", "0o", "1e", "1e+", "1.", ".5", "1_", "_1", "0x_", "9223372036854775808", "99999999999999999999", "1e999", "\\u{110000}", "\\u{d800}",
         "\\x", "\\", "\"\\", "\"\\u{", "iff", "truex", "mutx", "returnx", "$$", "~~", "!!", "--", "**=", "<<=", "=>", "->", "..", "::", ":=:=", "$]$]"]


def texts(rnd, seed, thorough):
    out = []
    for _ in range(30000 if thorough else 4000):
        n = rnd.randint(0, 12)
        out.append("".join(rnd.choice(WEIRD + TOKENS + [" ", "\n", "\t"]) for _ in range(n)))
    for _ in range(10000 if thorough else 1500):
        out.append("".join(chr(rnd.choice([rnd.randint(0, 0x7f), rnd.randint(0x80, 0x7ff), rnd.randint(0x800, 0xd7ff), rnd.randint(0x10000, 0x10ffff)]))
                           for _ in range(rnd.randint(1, 20))))
    progs, _ = P.generate(seed, 1200 if thorough else 150, max_depth=3, features=dict(mark=0.1))
    for p in progs:
        src = A.program_src(p)
        out.append(src)
        toks = src.split(" ")
        for _ in range(12):
            t = list(toks)
            k = rnd.random()
            i = rnd.randrange(len(t))
            if k < 0.25:
                del t[i]
            elif k < 0.5:
                t.insert(i, rnd.choice(TOKENS + WEIRD))
            elif k < 0.75:
                t[i] = rnd.choice(TOKENS + LITERALS)
            else:
                j = rnd.randrange(len(t))
                t[i], t[j] = t[j], t[i]
            out.append(" ".join(t))
        for _ in range(6):
            i = rnd.randrange(len(src) + 1)
            k = rnd.random()
            if k < 0.4 and i < len(src):
                out.append(src[:i] + src[i + 1:])
            elif k < 0.8:
                out.append(src[:i] + rnd.choice(WEIRD + list("()[]{},;:=+-*/!~$@?|.<>&^%\\\"")) + src[i:])
            else:
                out.append(src[:i])
    return out


BASE_FORMS = []


def whitespace(rnd, thorough):
    """the documented forms with the blank between two tokens replaced by other white space the grammar skips (a tab, a
    line break, a comment) or removed: code that looks at the source text of a rule must not depend on how tokens are spaced"""
    out = []
    for form in BASE_FORMS:
        idx = [i for i, c in enumerate(form) if c == " "]
        for sub in ("\t", "\n", "/* c */", "  ", " // c\n", ""):
            out.append(form.replace(" ", sub if sub else " ") if sub else form)
            picks = idx if (thorough or len(idx) <= 6) else rnd.sample(idx, 6)
            for i in picks:
                out.append(form[:i] + sub + form[i + 1:])
    return sorted(set(out))


def union_queries():
    """operands whose static type is a UNION of tuple / struct / function / indexable types that differ in length, fields
    or arity, used through the operators whose admissibility is decided by a query over the members (`.N`, destructuring,
    `.field`, calls, indexing): every index / arity from below the shortest member to beyond the longest"""
    out = []
    shapes = [
        ("(int, int)|(int, int, int)", "(1, 2)", "(1, 2, 3)"),
        ("(int, int)|(string, int, int)|(int, int, int, int)", "(1, 2)", "(\"s\", 2, 3)"),
        ("struct{a: int}|struct{a: int, b: int}", "struct{a := 1}", "struct{a := 1, b := 2}"),
        ("(int) -> int|(int, int) -> int", "(x: int) -> int { return x }", "(x: int, y: int) -> int { return x }"),
        ("[int]|string", "[1]", "\"a\""),
        ("[(int, int)]|[(int, int, int)]", "[(1, 2)]", "[(1, 2, 3)]"),
    ]
    uses = ["p.0", "p.1", "p.2", "p.3", "p.4", "(a, b) := p; a", "(a, b, c) := p; c", "(a, b, c, d) := p; d", "p.a", "p.b", "p.c", "p(1)", "p(1, 2)",
            "p(1, 2, 3)", "p()", "p[0]", "p[0].2", "p[0].1", "p[0:1]", "p.0 + 1", "p.2 + 1", "for e in p { e }", "p ~", "*p", "p = 1"]
    for ty, v1, v2 in shapes:
        for u in uses:
            out.append("f := (p: %s) -> any { %s }" % (ty, u if ";" in u or u.startswith("for") else "return " + u))
            out.append("g := () -> %s { return %s }; p := g(); %s" % (ty, v1, u))
            out.append("c := *(mut true); p := if c { %s } else { %s }; %s" % (v1, v2, u))
    return out


def union_operands():
    """operators BOTH of whose operands have the same static UNION type while each folds to a constant of one member: the
    admissibility test sees (U, U), the folding pass the two constants - every operator x every pair of members x every
    way of giving an expression that type while its value is known to the folder"""
    out = []
    unions = [("int|float", "1", "2.5"), ("int|string", "1", "\"a\""), ("int|bool", "1", "true"), ("float|string", "1.5", "\"a\""),
              ("[int]|string", "[1]", "\"a\""), ("[int]|[float]", "[1]", "[2.5]"), ("int|[int]", "1", "[1]")]
    ops = ["+", "-", "*", "/", "%", "**", "<<", ">>", "&", "|", "^", "<", "<=", ">", ">=", "==", "!=", "&&", "||"]
    for ty, a, b in unions:
        for i in (0, 1):
            for pre in ("-", "!"):
                out.append("%s [%s, %s][%d]" % (pre, a, b, i))
                out.append("x := if %s { %s } else { %s }; %s x" % ("true" if i == 0 else "false", a, b, pre))
            for j in (0, 1):
                for op in ops:
                    out.append("[%s, %s][%d] %s [%s, %s][%d]" % (a, b, i, op, a, b, j))
                    out.append("a := [%s, %s]; a[%d] %s a[%d]" % (b, a, i, op, j))
                    out.append("x := if %s { %s } else { %s }; y := if %s { %s } else { %s }; x %s y" %
                               ("true" if i == 0 else "false", a, b, "true" if j == 0 else "false", a, b, op))
                    out.append("t := (%s, %s); u := [t.0, t.1]; u[%d] %s u[%d]" % (a, b, i, op, j))
        for op in ops:
            out.append("f := (x: %s, y: %s) -> any { return x %s y }" % (ty, ty, op))
            out.append("m := mut %s %s; m %s= [%s, %s][1]" % (ty, a, op, a, b) if op not in ("<", "<=", ">", ">=", "==", "!=", "&&", "||") else
                       "f := (x: %s) -> any { return x %s x }" % (ty, op))
    return out


def literal_spacing():
    """value and type literals (what `Variable::from_str` / `Type::from_str` read, also valid program text) with every gap
    between two tokens - also the one after a sign, where the text has no blank - filled with white space the grammar
    skips: a tab, a line break, a comment"""
    import re
    forms = ["-1.5", "-7", "- 2.5e3", "[1, -2.5, (3, -4)]", "(1, -2.0, -0x1F)", "struct{a := -1.5, b := [-1]}", '("s", -0.0)', "[-1_000, -0b101]",
             "() -> int", "[int|float]", "mut (int, string)", "struct{a: int, b: [float]}", "(int, () -> (bool, int))", "mut [int]|string",
             '[[], [()], ([-1.0],)]', "-inf", "- NaN", "true", '"a\tb"']
    tok = re.compile(r'"(?:\\.|[^"\\])*"|[A-Za-z_0-9.]+|->|:=|[^\sA-Za-z_0-9]')
    out = []
    for f in forms:
        ts = tok.findall(f)
        out.append(f)
        for sub in ("\t", "\n", "/* c */", " ", " // c\n", "\r\n"):
            out.append(sub.join(ts))
            for i in range(1, len(ts)):
                out.append(" ".join(ts[:i]) + sub + " ".join(ts[i:]))
                out.append("".join(ts[:i]) + sub + "".join(ts[i:]))
    return sorted(set(out))


def docs(base):
    os.makedirs(base, exist_ok=True)
    files = {"good.ssl": "x := 5; f := (a: int) -> int { return a + x; }", "syntax.ssl": "x := := 5", "types.ssl": "x := 1 + \"a\"",
             "fold.ssl": "x := 1 / 0", "empty.ssl": "", "panicky.ssl": "f := (x: !) -> any { return x[0]; }", "nested.ssl": "m := import \"%s/good.ssl\"; y := m.x" % base,
             "stmt.ssl": "return 5", "brk.ssl": "break"}
    for n, t in files.items():
        with open(os.path.join(base, n), "w", encoding="utf-8") as f:
            f.write(t)
    with open(os.path.join(base, "bin.ssl"), "wb") as f:
        f.write(b"x := \xff\xfe")
    os.makedirs(os.path.join(base, "dir.ssl"), exist_ok=True)
    progs = []
    for n in list(files) + ["bin.ssl", "dir.ssl", "missing.ssl", "", "nul\x00.ssl", "x" * 300]:
        path = os.path.join(base, n) if n else ""
        lit = "\"" + path.replace("\\", "\\\\").replace("\"", "\\\"").replace("\x00", "\\u{0}") + "\""
        for h in ["import %s", "m := import %s; m", "m := import %s; m.x", "m := import %s; m.f(1)", "m := import %s; m.nope", "(import %s).x",
                  "f := () -> any { return import %s; }; f()", "[import %s]", "mod { m := import %s }", "import %s; import %s"]:
            progs.append(h.replace("%s", lit))
    progs += ["import", "import 5", "import x", "import \"a\" \"b\"", "import [\"a\"]", "x := \"a\"; import x"]
    # statements.md / operators.md / iterators.md constructs, well- and ill-formed
    global BASE_FORMS
    BASE_FORMS = base_forms = [
        "match 5 { 5 => {1} => {0} }", "match 5 { 1, 2, 5 => {1} => {0} }", "match \"a\" { \"a\" => {1} \"b\" => {2} => {0} }", "match 5 { x: int => {x} => {0} }",
        "match 5 { x: int => {x} y: string => {0} }", "match 5 { x: string => {0} }", "match 5 { => {0} }", "match 5 { }", "match 5 { 5 => 1 }", "match 5 { 5 => {1} 5 => {2} }",
        "match (1, 2) { (1, 2) => {1} => {0} }", "match [1] { [1] => {1} => {0} }", "match 5 { 1.5 => {1} => {0} }", "match 5 { x => {1} }", "match 5 { x: => {1} }",
        "match 5 { : int => {1} }", "match 5 { x: int, y: int => {1} }", "match 5 { 1 => {break;} => {0} }", "match 5 { 1 => {return 1;} => {0} }",
        "x := match 5 { 5 => {1} => {\"a\"} }; x", "match mut 5 { x: mut int => {*x} => {0} }", "match 5 { 1 / 0 => {1} => {0} }", "match 1 / 0 { 1 => {1} => {0} }",
        "mod { }", "mod { x := 5 }", "m := mod { x := 5; f := () -> int { return x; } }; m.f()", "m := mod { x := 5 }; m.y", "mod { return 5 }", "mod { break }",
        "m := mod { n := mod { x := 1 } }; m.n.x", "mod { x := 1 / 0 }", "mod mod { }", "mod { x := 5 } . x", "mod 5", "mod",
        "struct{}", "struct{a := 1}", "struct{a := 1, a := 2}", "struct{a := 1}.a", "struct{a := 1}.b", "struct{a: int}", "struct{a := }", "struct{:= 1}", "struct{1 := 1}",
        "s := struct{a := 1}; s.a = 2", "s := struct{a := mut 1}; s.a = 2; *s.a", "struct", "struct{a := 1,}", "struct{a := 1} == struct{a := 1}",
        "(1, 2).0", "(1, 2).2", "(1, 2).-1", "(1, 2).x", "(1,).0", "(1).0", "().0", "(1, 2).99999999999999999999", "(1, 2).0x1", "(1, 2) . 0", "(1, (2, 3)).1.0",
        "x := (1, 2); (a, b) := x; a", "(a, b) := (1, 2, 3); a", "(a) := (1, 2); a", "(a, a) := (1, 2); a", "(a, b) := 5; a", "(a, (b, c)) := (1, (2, 3)); b", "() := (); 1",
        "if true { 1 }", "if true { 1 } else { 2 }", "if true 1 else 2", "if 1 { 1 }", "if true { 1 } else if false { 2 } else { 3 }", "if { 1 }", "if true { 1 } else", "else { 1 }",
        "if x: int = 5 { x } else { 0 }", "if x: string = 5 { x } else { \"\" }", "if x: int = { 1 }", "if x: = 5 { 1 }", "if x: int 5 { 1 }", "if x: ! = 5 { 1 }",
        "while x: int = 5 { break; }", "while x: string = 5 { }", "while x: int = { }", "while x: = 5 { }", "while x: int 5 { }", "while x: int|string = 5 { break }",
        "i := mut 0; while x: int = *i { i += 1; if x > 2 { break } }", "while x: ! = 5 { }", "for x in [1]~ { while y: int = x { break } }",
        "while true { break; }", "while false { }", "while 1 { }", "while { }", "while true break", "loop { break; }", "loop break", "loop { continue; }", "loop", "break", "continue",
        "break 5", "return", "return 5", "return return 5", "f := () -> int { return; }; f()", "f := () -> int { }; f()", "f := () -> int { return \"a\"; }; f()",
        "for x in [1, 2]~ { x }", "for x in [1, 2] { x }", "for in [1]~ { }", "for x [1]~ { }", "for x in { }", "for 5 in [1]~ { }", "for x in [1]~ { break; continue; }",
        "for (a, b) in [(1, 2)]~ { a }", "x := 5", "x := ", ":= 5", "5 := 5", "x : int = 5", "x: int = \"a\"", "x: = 5", "x: int|string = 5; x", "x: (int) = 5", "mut := 5",
        "x := mut 5; x = 6", "x := 5; x = 6", "5 = 6", "x := mut 5; x = \"a\"", "x := mut int|string 5; x = \"a\"", "x := mut 5; *x = 6", "x := mut 5; **x", "*5", "mut", "mut int", "mut int|string \"a\"",
        "f := (x: int) -> int { return x; }; f(1)", "f := (x: int) -> int { return x; }; f()", "f := (x: int) -> int { return x; }; f(1, 2)", "f := (x: int) -> int { return x; }; f(\"a\")",
        "f := (x: int, x: int) -> int { return x; }; f(1, 2)", "f := (x) -> int { return 1; }", "f := (x: int) -> { return 1; }", "f := (x: int) int { return 1; }", "f := (x: int) -> int return 1",
        "f := () -> int { return f(); }; 1", "f := (g: () -> int) -> int { return g(); }; f(() -> int { return 1; })", "(() -> int { return 1; })()", "() -> int { return 1; }()",
        "[1, 2, 3]", "[]", "[,]", "[1,]", "[1 2]", "[1; 2]", "[1; -1]", "[1; \"a\"]", "[; 2]", "[1;]", "[1, \"a\", ()]", "[[], [1]]", "[][0]", "[1][0]", "[1][1]", "[1][-1]", "[1][\"a\"]", "[1][0.0]",
        "[1, 2][0:1]", "[1, 2][:]", "[1, 2][::]", "[1, 2][::-1]", "[1, 2][::0]", "[1, 2][0:1:2:3]", "[1, 2][:::]", "\"ab\"[0:1]", "5[0]", "5[0:1]",
        "[1, 2]~", "[1, 2]~~", "5~", "[1, 2]~ $+", "[1, 2] $+", "[1, 2]~ $]", "[1, 2]~ $", "[1, 2]~ $0", "[1, 2]~ $0 (a: int, c: int) -> int { return a + c; }",
        "[1, 2]~ $\"a\" (a: int, c: int) -> int { return a + c; }", "[1, 2]~ $0 (a: int) -> int { return a; }", "[1, 2]~ $0 5", "[1, 2]~ @ (x: int) -> int { return x; }",
        "[1, 2]~ @ (x: string) -> int { return 1; }", "[1, 2]~ @ 5", "[1, 2]~ ? (x: int) -> bool { return true; }", "[1, 2]~ ? (x: int) -> int { return 1; }", "[1, 2]~ ? int", "[1, 2]~ ? !",
        "[1, 2]~ ? struct{a: int}", "[1, 2]~ ? mut int", "[1, 2]~ \\ (x: int) -> bool { return true; }", "[1, 2]~ \\ 5", "[1, \"a\"]~ ? int $+", "[1, 2]~ $&&", "[true]~ $&&", "[1]~ $&", "[true]~ $||",
        "1 + ", "+ 1", "1 + + 1", "1 +* 1", "(1 + 1", "1 + 1)", "((((1))))", "- - 1", "-!1", "!-1", "1 ? 2 : 3", "1 ++ 1", "x++", "1 = = 1", "a.b.c", ".a", "a.", "1.a", "1..2", "1.0.0",
    ]
    return progs + base_forms


def name_coincidences():
    """declarations in which two binders carry the SAME name (a function and one of its parameters, a parameter and an outer
    variable, a binder and its scrutinee, a loop variable and its iterator, repeated names in one destructuring / struct
    literal / parameter list), each followed by every way of mentioning the name afterwards: the checker resolves names in
    two passes (creation, folding) and both must find what the other declared"""
    decls = [
        "f := (f: int) -> int { return f + 1 }",
        "f := (a: int, f: int) -> int { return a + f }",
        "f := (f: () -> int) -> int { return f() }",
        "f := (f: int) -> int { if f > 0 { return f - 1 }; return 0 }",
        "f := (x: int) -> int { f := x + 1; return f }",
        "f := (x: int) -> int { return x }; f := (f: int) -> int { return f }",
        "f := 5; f := (f: int) -> int { return f }",
        "g := (f: int) -> int { return f }; f := (g: int) -> int { return g }",
        "f := (x: int, x: int) -> int { return x }",
        "f := () -> int { f := () -> int { return 1 }; return f() }",
        "f := (v: int) -> int { return v }; f := f",
        "f := mod { f := (f: int) -> int { return f } }",
        "m := mod { f := (f: int) -> int { return f }; g := f }; f := m.f",
        "f := { f := (f: int) -> int { return f }; f }",
        "(f, f) := (1, 2)",
        "f := [1, 2]~; for f in f { f }",
        "f := *(mut int|string 1); if f: int = f { f }",
        "f := *(mut int|string 1); match f { f: int => { f }, f: string => { 0 }, }",
        "f := struct{f := 1, f := 2}",
        "f := 1; f := struct{f}",
    ]
    mentions = ["", "f", "f(2)", "f(f)", "struct{f}", "g := f", "[f]", "(f, 1)", "h := () -> any { return f }", "h := () -> any { return f }; h()",
                "{ f }", "if true { f }", "mod { g := f }", "f := f", "x := mut f", "f == f", "[f] ~ $]", "match 1 { 1 => { f }, => { f }, }"]
    out = []
    for d in decls:
        for m in mentions:
            out.append(d + ("; " + m if m else ""))
            out.append("w := () -> any { " + d + ("; " + m if m else "") + " }")
    return out


def run(res, tier, seed, broken_model):
    rnd = random.Random(seed)
    thorough = tier == "thorough"
    base = os.path.join(CACHE, "c03-scratch", str(os.getpid()))
    shutil.rmtree(base, ignore_errors=True)
    streams = [("matrix", matrix(rnd, thorough), "c"), ("constants", constants(rnd, thorough), "c"), ("docs", docs(base), "a"),
               ("names", name_coincidences(), "c"), ("literal-spacing", literal_spacing(), "a"), ("union-queries", union_queries(), "c"), ("union-operands", union_operands(), "c"),
               ("whitespace", None, "a"), ("tokens", token_sequences(rnd, thorough), "a"), ("text", texts(rnd, seed, thorough), "a")]
    total = {}
    for name, progs, which in streams:
        if progs is None:
            progs = whitespace(rnd, thorough)          # after `docs` has listed the documented forms
        lines = ["parse3\t%s\t%s" % (which, esc_field(p)) for p in progs]
        out = harness_run(lines, timeout_per_chunk=900)
        total[name] = len(progs)
        seen_loc = set()
        for p, o in zip(progs, out):
            res.evaluations += 1
            if "code=ok" in o:
                res.count(name + ":accepted")
            elif "code=(err" in o:
                res.count(name + ":" + ("rejected-by-parser" if "code=(err Parsing)" in o else "rejected-by-checker"))
                if "code=(err Parsing)" not in o:
                    res.nontrivial.add(p)
            if "(panic" in o and "library/alloc/" in o:
                # `[x; 9223372036854775807]` and the like: size exhaustion is outside the property
                res.count(name + ":out-of-claim-allocation")
                continue
            if "(panic" in o or not o.startswith("(parse3"):
                loc = o[o.index("(panic"):].split(")")[0] + ")" if "(panic" in o else o[:40]
                entry = "Code::parse" if "code=(panic" in o else ("Variable::from_str" if "value=(panic" in o else ("Type::from_str" if "type=(panic" in o else "harness"))
                res.count(name + ":PANIC")
                if loc in seen_loc and len(seen_loc) > 0 and sum(1 for v in res.violations if v["signature"].get("loc") == loc) >= 3:
                    continue
                seen_loc.add(loc)
                res.violation("%s panics instead of returning an error on `%s`: %s" % (entry, p[:200].replace("\n", "\\n"), loc),
                              dict(text=p, entry=entry, impl=o[:300], stream=name), dict(oracle="no-panic", cls="parse-panic", loc=loc))
            else:
                res.traces_validated += 1
            if "code=ok" in o:
                res.nontrivial.add(p)
    shutil.rmtree(base, ignore_errors=True)
    res.streams["inputs"] = total
    res.samples.append(dict(request="parse3 c  f := (a: !, b: int) -> any { return a[b]; }; 1", answer="(parse3 code=(err CannotIndexInto))"))
    res.assumptions += [
        "inputs whose nesting depth or literal sizes exhaust stack or memory are outside the property; generated inputs nest to depth <= 6",
        "pest 2.7 (the PEG engine) and the `unescaper` crate are trusted not to panic on the token streams they are given",
        "only Code::parse (+ return_type of the result), Variable::from_str and Type::from_str are entered; nothing is executed",
    ]
    res.rule = ("operator matrix over 45 operand types incl. never, any, unions with / of never, cells, iterators, structs (all 34 binary operators x "
                "ordered type pairs; ~100 unary / postfix / statement templates x types); the same operators and templates over 30 literals "
                "(operands fold during parsing) and 12 failing folds in 30 positions; all token sequences up to length 2 (thorough 3) over 56 "
                "tokens + random ones to length 12, spaced and glued; random Unicode / control / near-token text; token- and character-level "
                "mutations of generated valid programs; ~300 doc constructs in well- and ill-formed variants incl. imports of 14 file states; "
                "non-trivial = distinct input that gets past the parser (accepted, or rejected by the checker)")
