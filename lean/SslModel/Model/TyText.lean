import SslModel.Model.Ty
/-!
  Text of types: `Display for Type` (type.rs, function_type.rs, multi_type.rs, struct_type.rs) and
  the `type` rules of simplesl.pest read by `Type::from(Pair)`.
  The printer works on the member / field order it is given (the hash order of one run).
  The parser is token based: `lex` splits the text the way the scannerless PEG would on printed
  types, `parseTy` is a recursive-descent transcription of the ordered choices of the grammar.
-/
namespace Ssl.TyText
open Ssl

inductive Tok where
  | word (s : String)          -- bool int float string any mut struct, field names
  | lp | rp | lb | rb | lc | rc | comma | bar | colon | bang | arrow
  deriving DecidableEq, Repr, Inhabited

/-! ### printing -/

def isNeverLike (t : Ty) : Bool := Ty.sub t .never

mutual
/-- token form of `Display` -/
def toks : Ty → List Tok
  | .bool => [.word "bool"] | .int => [.word "int"] | .float => [.word "float"]
  | .str => [.word "string"] | .void => [.lp, .rp] | .any => [.word "any"] | .never => [.bang]
  | .fn ps r => [.lp] ++ toksSep ps ++ [.rp, .arrow] ++
      (match r with
       | .multi _ => [.lp] ++ toks r ++ [.rp]
       | _ => toks r)
  | .arr e => if isNeverLike e then [.lb, .rb] else [.lb] ++ toks e ++ [.rb]
  | .tup es => [.lp] ++ toksSep es ++ [.rp]
  | .multi ms => toksBar ms
  | .cell e => [.word "mut"] ++
      (match e with
       | .multi _ => [.lp] ++ toks e ++ [.rp]
       | _ => toks e)
  | .struct fs => [.word "struct", .lc] ++ toksFields fs ++ [.rc]
/-- `join(items, ", ")` -/
def toksSep : List Ty → List Tok
  | [] => []
  | [t] => toks t
  | t :: ts => toks t ++ [.comma] ++ toksSep ts
/-- `join(members, "|")` -/
def toksBar : List Ty → List Tok
  | [] => []
  | [t] => toks t
  | t :: ts => toks t ++ [.bar] ++ toksBar ts
def toksFields : List (String × Ty) → List Tok
  | [] => []
  | [(k, t)] => [.word k, .colon] ++ toks t
  | (k, t) :: fs => [.word k, .colon] ++ toks t ++ [.comma] ++ toksFields fs
end

/-- text of a token; `sp` = whether `Display` puts a space after it -/
def Tok.text : Tok → String
  | .word s => s | .lp => "(" | .rp => ")" | .lb => "[" | .rb => "]" | .lc => "{" | .rc => "}"
  | .comma => ", " | .bar => "|" | .colon => ": " | .bang => "!" | .arrow => "->"

/-- `Display`: `mut` is followed by a space, `,` and `:` by one space, nothing else is spaced -/
def render : List Tok → String
  | [] => ""
  | .word "mut" :: rest => "mut " ++ render rest
  | t :: rest => t.text ++ render rest

def print (t : Ty) : String := render (toks t)

/-! ### lexing -/

def isWordChar (c : Char) : Bool := c.isAlphanum || c == '_'

def lexGo : Nat → List Char → List Tok → Option (List Tok)
  | 0, _, _ => none
  | _ + 1, [], acc => some acc.reverse
  | f + 1, c :: cs, acc =>
    if c == ' ' || c == '\t' || c == '\n' || c == '\r' then lexGo f cs acc
    else if c == '(' then lexGo f cs (.lp :: acc)
    else if c == ')' then lexGo f cs (.rp :: acc)
    else if c == '[' then lexGo f cs (.lb :: acc)
    else if c == ']' then lexGo f cs (.rb :: acc)
    else if c == '{' then lexGo f cs (.lc :: acc)
    else if c == '}' then lexGo f cs (.rc :: acc)
    else if c == ',' then lexGo f cs (.comma :: acc)
    else if c == '|' then lexGo f cs (.bar :: acc)
    else if c == ':' then lexGo f cs (.colon :: acc)
    else if c == '!' then lexGo f cs (.bang :: acc)
    else if c == '-' then
      match cs with
      | '>' :: rest => lexGo f rest (.arrow :: acc)
      | _ => none
    else if isWordChar c then
      let w := (c :: cs).takeWhile isWordChar
      lexGo f ((c :: cs).dropWhile isWordChar) (.word (String.ofList w) :: acc)
    else none

def lex (s : String) : Option (List Tok) := lexGo (s.length + 1) s.toList []

/-! ### parsing (ordered choices of the grammar; `Type::from(Pair)` builds unions with `concat`) -/

def restricted : List String :=
  ["true", "false", "mut", "return", "loop", "while", "for", "struct", "mod", "break", "continue"]

/-- `HashMap` semantics of struct fields: a later duplicate key overwrites an earlier one -/
def dedupFields (fs : List (String × Ty)) : List (String × Ty) :=
  fs.foldl (fun acc (k, t) => (acc.filter (fun p => p.1 != k)) ++ [(k, t)]) []

mutual
/-- `type = multi | standard_types` -/
def parseTy : Nat → List Tok → Option (Ty × List Tok)
  | 0, _ => none
  | f + 1, ts =>
    match parseStd f ts with
    | none => none
    | some (t, rest) =>
      match rest with
      | .bar :: _ => parseMore f rest [t]       -- multi = standard_types ("|" standard_types)+
      | _ => some (t, rest)
/-- the tail `("|" standard_types)+`; the members are joined left to right with `concat` -/
def parseMore : Nat → List Tok → List Ty → Option (Ty × List Tok)
  | 0, _, _ => none
  | f + 1, ts, acc =>
    match ts with
    | .bar :: rest =>
      (match parseStd f rest with
       | some (t, rest') => parseMore f rest' (acc ++ [t])
       | none =>
         -- "|" not followed by a type: the repetition stops before it
         if acc.length ≥ 2 then some (Ty.concatL acc, ts) else
         match acc with | [t] => some (t, ts) | _ => none)
    | _ => if acc.length ≥ 2 then some (Ty.concatL acc, ts) else
           match acc with | [t] => some (t, ts) | _ => none
/-- `standard_types`, alternatives in grammar order -/
def parseStd : Nat → List Tok → Option (Ty × List Tok)
  | 0, _ => none
  | f + 1, ts =>
    match ts with
    | .word "bool" :: rest => some (.bool, rest)
    | .word "int" :: rest => some (.int, rest)
    | .word "float" :: rest => some (.float, rest)
    | .word "string" :: rest => some (.str, rest)
    | .lp :: rest =>
      -- function_type first: "(" (type ("," type)*)? ")" "->" return_type
      let asFn : Option (Ty × List Tok) :=
        match parseList f rest with
        | some (ps, .rp :: .arrow :: rest') =>
          (match parseRet f rest' with
           | some (r, rest'') => some (.fn ps r, rest'')
           | none => none)
        | _ => none
      match asFn with
      | some r => some r
      | none =>
        -- void = "()"
        match rest with
        | .rp :: rest' => some (.void, rest')
        | _ =>
          -- tuple_type = "(" type ("," type)+ ")"
          match parseList f rest with
          | some (es, .rp :: rest') => if es.length ≥ 2 then some (.tup es, rest') else none
          | _ => none
    | .lb :: .rb :: rest => some (.arr .never, rest)
    | .lb :: rest =>
      (match parseTy f rest with
       | some (e, .rb :: rest') => some (.arr e, rest')
       | _ => none)
    | .word "any" :: rest => some (.any, rest)
    | .bang :: rest => some (.never, rest)
    | .word "mut" :: rest =>
      (match parseRet f rest with
       | some (e, rest') => some (.cell e, rest')
       | none => none)
    | .word "struct" :: .lc :: .rc :: rest => some (.struct [], rest)
    | .word "struct" :: .lc :: rest =>
      (match parseFields f rest with
       | some (fs, .rc :: rest') => some (.struct (dedupFields fs), rest')
       | _ => none)
    | _ => none
/-- `return_type = standard_types | "(" multi ")"` -/
def parseRet : Nat → List Tok → Option (Ty × List Tok)
  | 0, _ => none
  | f + 1, ts =>
    match parseStd f ts with
    | some r => some r
    | none =>
      match ts with
      | .lp :: rest =>
        (match parseTy f rest with
         | some (t@(.multi _), .rp :: rest') => some (t, rest')
         | some (t, .rp :: rest') =>
           -- "(" multi ")" needs at least one "|": a union that `concat` collapsed still qualifies
           some (t, rest')
         | _ => none)
      | _ => none
/-- `(type ("," type)*)?` -/
def parseList : Nat → List Tok → Option (List Ty × List Tok)
  | 0, _ => none
  | f + 1, ts =>
    match parseTy f ts with
    | none => some ([], ts)
    | some (t, .comma :: rest) =>
      (match parseList f rest with
       | some (more, rest') => if more.isEmpty then none else some (t :: more, rest')
       | none => none)
    | some (t, rest) => some ([t], rest)
/-- `ident_type ("," ident_type)*` -/
def parseFields : Nat → List Tok → Option (List (String × Ty) × List Tok)
  | 0, _ => none
  | f + 1, ts =>
    match ts with
    | .word k :: .colon :: rest =>
      if restricted.contains k then none else
      (match parseTy f rest with
       | some (t, .comma :: rest') =>
         (match parseFields f rest' with
          | some (more, rest'') => some ((k, t) :: more, rest'')
          | none => none)
       | some (t, rest') => some ([(k, t)], rest')
       | none => none)
    | _ => none
end

/-- `Type::from_str`: parse a prefix of the text (the rule is not anchored at the end of input) -/
def parse (s : String) : Option Ty :=
  match lex s with
  | none => none
  | some ts => (parseTy (12 * ts.length + 2) ts).map (·.1)   -- fuel: enough for every printed type (C15.size_le_toks)

end Ssl.TyText
