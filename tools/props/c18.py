"""C18 — standard library functions honour their declared signatures.

Proof: SslModel.Thm.C18 over the export table and the TypeOf table regenerated from src/stdlib*.rs and
src/variable/type_of.rs (results inhabit the declared type, argument import cannot fail, bit counting /
swap / reverse / ilog facts).  Tie and correspondence:
  * `stdsig`: the signature the model derives for every export = the type of the member of the real
    `std` value; nothing is exported that the table does not list and vice versa;
  * calls: every exported function on boundary x random arguments of its declared parameter types, through
    the host API (`Function::create_call`) and through a generated program; the result must be a value
    (no panic, no error) whose tag and contents lie in the declared result type; integer helpers are compared
    with the Lean model, string / conversion / float helpers with an independent Python oracle written from
    docs/stdlib.md;
  * io: what `print` / `print_array` write, `cgetline` on prepared stdin states (lines, CRLF, no newline,
    invalid UTF-8, a directory, a closed descriptor);
  * fs: every function on prepared directory states and on faults (missing, directory instead of file,
    file instead of directory, non-empty directory, existing target, NUL in path, over-long name,
    /dev/full, invalid UTF-8 content) with post-conditions on the returned value and on the resulting tree."""
import math
import os
import random
import shutil
import struct
from decimal import Decimal

from props.c20 import lit_src
from vlib import CACHE, driver_run, esc_field, harness_run, sexp_parse, sexp_str, strip_tags

THM_MODULES = ["SslModel.Thm.C18"]
TRANSLATE_PARTS = ["stdsig"]
MIN, MAX = -2**63, 2**63 - 1
MODS = {"Len": "std", "Convert": "convert", "FS": "fs", "IO": "io", "Math": "math", "String": "string"}
ERR_T = "(struct (error_code int) (msg str))"

INTS = [0, 1, -1, 2, 3, 7, 8, 10, 100, 255, 256, 1000, 2**31 - 1, 2**31, 2**32, 2**62, 2**62 + 1, MAX, MAX - 1, MIN, MIN + 1,
        -2, -8, -255, 0x00FF00FF00FF00FF, 0x0123456789ABCDEF, -0x0123456789ABCDEF, 10**18, 10**18 - 1, 999, 1 << 52, 9, 99, 27, 81]
FBITS = [0x0000000000000000, 0x8000000000000000, 0x3FF0000000000000, 0xBFF0000000000000, 0x3FE0000000000000, 0xBFE0000000000000,
         0x3FF8000000000000, 0xC004000000000000, 0x4004000000000000, 0x3FDFFFFFFFFFFFFF, 0x7FF0000000000000, 0xFFF0000000000000,
         0x7FF8000000000000, 0xFFF8000000000000, 0x7FF0000000000001, 0x0000000000000001, 0x000FFFFFFFFFFFFF, 0x0010000000000000,
         0x7FEFFFFFFFFFFFFF, 0xFFEFFFFFFFFFFFFF, 0x43E0000000000000, 0xC3E0000000000000, 0x43DFFFFFFFFFFFFF, 0x4330000000000000,
         0x4330000000000001, 0x4340000000000000, 0x400921FB54442D18, 0x4005BF0A8B145769, 0x3FB999999999999A, 0x4024000000000000,
         0x4059000000000000, 0x4000000000000000, 0x3E7AD7F29ABCAF48, 0x4415AF1D78B58C40, 0x3FD5555555555555]
STRS = ["", "a", "abc", "a b", " a ", "\ta\n", "  ", "a,b,,c", ",", "aaa", "aXbXc", "é", "żółw", "中文", "\U0001F600", "a\U0001F600b",
        "ß", "İ", "ΣΑΣ", "ǅ", " x ", " y ", "\x1cz\x1c", "\u0085w", "12", "-12", "+12", "1_0", " 12", "1.5", "1e3",
        ".5", "5.", "inf", "-inf", "NaN", "nan", "infinity", "1e400", "0x10", "9223372036854775807", "9223372036854775808",
        "-9223372036854775808", "-9223372036854775809", "e5", ".", "-", "+", "1e", "--1", "١٢", "AbC", "HELLO", "​", "a\x00b"]


def f2b(x):
    return struct.unpack("<Q", struct.pack("<d", x))[0]


def b2f(b):
    return struct.unpack("<d", struct.pack("<Q", b & (2**64 - 1)))[0]


def sgn(b):
    return b - 2**64 if b >= 2**63 else b


# ------------------------------------------------------------------------------- argument / value rendering

def src_of(v):
    k = v[0]
    if k == "i":
        return "std.math.MIN_INT" if v[1] == MIN else str(v[1])
    if k == "f":
        return "std.math.from_bits(%s)" % src_of(("i", sgn(v[1])))
    if k == "s":
        return lit_src(v)
    if k == "b":
        return "true" if v[1] else "false"
    if k == "unit":
        return "()"
    if k == "arr":
        if not v[2]:
            return "[%s; 0]" % {"int": "0", "str": '""', "float": "0.0"}.get(v[1], "0")
        return "[" + ", ".join(src_of(x) for x in v[2]) + "]"
    if k == "tup":
        return "(" + ", ".join(src_of(x) for x in v[1]) + ")"
    raise ValueError(v)


def cstr(s):
    out = '"'
    for ch in s:
        if ch == '"':
            out += '\\"'
        elif ch == "\\":
            out += "\\\\"
        elif " " <= ch <= "~":
            out += ch
        else:
            out += "\\u{%x}" % ord(ch)
    return out + '"'


def canon(v):
    """canonical text of an oracle value, in the harness's format with array tags stripped"""
    k = v[0]
    if k == "i":
        return "(i %d)" % v[1]
    if k == "f":
        b = v[1]
        if (b & 0x7FF0000000000000) == 0x7FF0000000000000 and (b & 0x000FFFFFFFFFFFFF):
            b = 0x7FF8000000000000
        return "(f %016x)" % b
    if k == "s":
        return "(s %s)" % cstr(v[1])
    if k == "b":
        return "true" if v[1] else "false"
    if k == "unit":
        return "unit"
    if k == "arr":
        return "(arr" + "".join(" " + canon(x) for x in v[2]) + ")"
    if k == "tup":
        return "(tup" + "".join(" " + canon(x) for x in v[1]) + ")"
    raise ValueError(v)


def I(n):
    return ("i", n)


def F(x):
    return ("f", f2b(x) if isinstance(x, float) else x)


def S(s):
    return ("s", s)


def B(b):
    return ("b", bool(b))


UNIT = ("unit",)


def opt(x, mk):
    return UNIT if x is None else mk(x)


# ------------------------------------------------------------------------------- oracles (from docs/stdlib.md)

WHITE = set(map(chr, [9, 10, 11, 12, 13, 32, 0x85, 0xA0, 0x1680, 0x2028, 0x2029, 0x202F, 0x205F, 0x3000] + list(range(0x2000, 0x200B))))


def trim_start(s):
    i = 0
    while i < len(s) and s[i] in WHITE:
        i += 1
    return s[i:]


def trim_end(s):
    j = len(s)
    while j > 0 and s[j - 1] in WHITE:
        j -= 1
    return s[:j]


def o_split(s, pat):
    if pat == "":
        return [""] + list(s) + [""]
    return s.split(pat)


def o_parse_int(s):
    import re
    if not re.fullmatch(r"[+-]?[0-9]+", s) or not s.isascii():
        return None
    v = int(s)
    return v if MIN <= v <= MAX else None


def o_parse_float(s):
    import re
    if not s.isascii():
        return None
    m = re.fullmatch(r"([+-]?)(inf|infinity|nan|(?:[0-9]+\.?[0-9]*|\.[0-9]+)(?:[eE][+-]?[0-9]+)?)", s, re.I)
    if not m:
        return None
    body = m.group(2).lower()
    if body in ("inf", "infinity", "nan"):
        return float(m.group(1) + body)
    return float(s)


def o_to_int(v):
    if v[0] == "i":
        return v[1]
    x = b2f(v[1])
    if x != x:
        return 0
    if x >= 2.0**63:
        return MAX
    if x <= -2.0**63:
        return MIN
    return int(x)


def o_display_float(x):
    if x != x:
        return "NaN"
    if x in (math.inf, -math.inf):
        return "inf" if x > 0 else "-inf"
    s = format(Decimal(repr(x)), "f")
    if "." in s:
        s = s.rstrip("0").rstrip(".")
    return s


def o_debug(v):
    k = v[0]
    if k == "i":
        return str(v[1])
    if k == "s":
        return '"' + v[1] + '"'           # only plain ASCII strings are generated below the top level
    if k == "b":
        return "true" if v[1] else "false"
    if k == "unit":
        return "()"
    if k == "arr":
        return "[" + ", ".join(o_debug(x) for x in v[2]) + "]"
    if k == "tup":
        return "(" + ", ".join(o_debug(x) for x in v[1]) + ")"
    raise ValueError(v)


def o_display(v):
    if v[0] == "s":
        return v[1]
    if v[0] == "f":
        return o_display_float(b2f(v[1]))
    return o_debug(v)


def signed_zero(r, x):
    return math.copysign(0.0, x) if r == 0 else r


def o_trunc(x):
    if x != x or x in (math.inf, -math.inf) or x == 0:
        return x
    return signed_zero(float(math.trunc(x)), x)


def o_floor(x):
    if x != x or x in (math.inf, -math.inf) or x == 0:
        return x
    return signed_zero(float(math.floor(x)), x)


def o_ceil(x):
    if x != x or x in (math.inf, -math.inf) or x == 0:
        return x
    return signed_zero(float(math.ceil(x)), x)


def o_round(x):
    if x != x or x in (math.inf, -math.inf) or x == 0:
        return x
    t = float(math.trunc(x))
    if abs(x - t) >= 0.5:
        t += math.copysign(1.0, x)
    return signed_zero(t, x)


def o_round_even(x):
    if x != x or x in (math.inf, -math.inf) or x == 0:
        return x
    return signed_zero(float(round(x)), x)


def o_fract(x):
    if x != x:
        return x
    if x in (math.inf, -math.inf):
        return math.nan
    return x - o_trunc(x)


def popcount(n):
    return bin(n & (2**64 - 1)).count("1")


def lz(n):
    n &= 2**64 - 1
    return 64 - n.bit_length()


def tz(n):
    n &= 2**64 - 1
    return 64 if n == 0 else (n & -n).bit_length() - 1


def o_ilog(n, b):
    if n <= 0 or b < 2:
        return None
    r = 0
    while n >= b:
        n //= b
        r += 1
    return r


def inv64(n):
    return sgn((~n) & (2**64 - 1))


EXACT = {
    # name: (oracle on python values, arg kinds)
    "count_ones": lambda a: I(popcount(a)), "count_zeros": lambda a: I(64 - popcount(a)),
    "leading_zeroes": lambda a: I(lz(a)), "trailing_zeroes": lambda a: I(tz(a)),
    "leading_ones": lambda a: I(lz(inv64(a))), "trailing_ones": lambda a: I(tz(inv64(a))),
    "swap_bytes": lambda a: I(int.from_bytes((a & (2**64 - 1)).to_bytes(8, "little"), "big", signed=True)),
    "reverse_bits": lambda a: I(sgn(int(format(a & (2**64 - 1), "064b")[::-1], 2))),
    "ilog": lambda a, b: opt(o_ilog(a, b), I), "ilog2": lambda a: opt(o_ilog(a, 2), I), "ilog10": lambda a: opt(o_ilog(a, 10), I),
    "to_bits": lambda x: I(sgn(f2b(x))) if x == x else None, "from_bits": lambda a: F(a & (2**64 - 1)),
    "floor": lambda x: F(o_floor(x)), "ceil": lambda x: F(o_ceil(x)), "round": lambda x: F(o_round(x)),
    "round_ties_even": lambda x: F(o_round_even(x)), "trunc": lambda x: F(o_trunc(x)), "fract": lambda x: F(o_fract(x)),
    "is_nan": lambda x: B(x != x), "is_infinite": lambda x: B(x in (math.inf, -math.inf)),
    "is_finite": lambda x: B(x == x and x not in (math.inf, -math.inf)),
    "is_normal": lambda x: B(x == x and x not in (math.inf, -math.inf) and abs(x) >= 2.2250738585072014e-308),
    "is_subnormal": lambda x: B(x == x and x != 0 and abs(x) < 2.2250738585072014e-308),
    "is_sign_positive": lambda x: B(math.copysign(1.0, x) > 0), "is_sign_negative": lambda x: B(math.copysign(1.0, x) < 0),
    "parse_int": lambda s: opt(o_parse_int(s), I), "parse_float": lambda s: opt(o_parse_float(s), F),
    "replace": lambda s, a, b: S(s.replace(a, b)), "contains": lambda s, p: B(p in s),
    "starts_with": lambda s, p: B(s.startswith(p)), "ends_with": lambda s, p: B(s.endswith(p)),
    "split": lambda s, p: ("arr", "str", [S(x) for x in o_split(s, p)]), "chars": lambda s: ("arr", "str", [S(c) for c in s]),
    "bytes": lambda s: ("arr", "int", [I(b) for b in s.encode("utf-8")]),
    "to_lowercase": lambda s: S(s.lower()), "to_uppercase": lambda s: S(s.upper()),
    "trim": lambda s: S(trim_end(trim_start(s))), "trim_start": lambda s: S(trim_start(s)), "trim_end": lambda s: S(trim_end(s)),
}
LIBM = {"ln": math.log, "log2": math.log2, "log10": math.log10, "sin": math.sin, "cos": math.cos, "tan": math.tan, "asin": math.asin,
        "acos": math.acos, "atan": math.atan, "exp_m1": math.expm1, "ln_1p": math.log1p, "sinh": math.sinh, "cosh": math.cosh,
        "tanh": math.tanh, "asinh": math.asinh, "acosh": math.acosh, "atanh": math.atanh}
LEAN_INT = ["count_ones", "count_zeros", "leading_zeroes", "trailing_zeroes", "leading_ones", "trailing_ones", "swap_bytes",
            "reverse_bits", "ilog2", "ilog10"]


def pyval(v):
    if v[0] == "f":
        return b2f(v[1])
    if v[0] in ("i", "s", "b"):
        return v[1]
    if v[0] == "arr":
        return [pyval(x) for x in v[2]]
    return None


def doc_class(name, args):
    """result class demanded by docs/stdlib.md for the log family and the inverse trig functions"""
    x = args[0]
    if name in ("ln", "log2", "log10", "log"):
        if x != x:
            return "nan"
        if name == "log" and (args[1] != args[1]):
            return "nan"
        if name == "log":
            return None
        if x < 0:
            return "nan"
        if x == 0:
            return "-inf"
    if name in ("asin", "acos") and (x != x or abs(x) > 1):
        return "nan"
    if name == "ln_1p":
        if x != x or x < -1:
            return "nan"
        if x == -1:
            return "-inf"
    return None


# ------------------------------------------------------------------------------- argument generation

def args_for(rnd, ty, n):
    """n values of a declared parameter type (S-expression text of the type)"""
    out = []
    for _ in range(n):
        out.append(one_arg(rnd, ty))
    return out


def one_arg(rnd, ty, depth=0):
    if ty == "int":
        return I(rnd.choice(INTS) if rnd.random() < 0.7 else rnd.randint(MIN, MAX))
    if ty == "float":
        if rnd.random() < 0.7:
            return ("f", rnd.choice(FBITS))
        return ("f", rnd.getrandbits(64)) if rnd.random() < 0.5 else F(rnd.uniform(-1e3, 1e3))
    if ty == "str":
        return S(rnd.choice(STRS) if rnd.random() < 0.8 else "".join(rnd.choice("ab ,X\té中") for _ in range(rnd.randint(0, 6))))
    if ty == "(arr int)":
        c = rnd.random()
        if c < 0.15:
            return ("arr", "int", [])
        if c < 0.5:
            return ("arr", "int", [I(b) for b in rnd.choice(STRS).encode("utf-8")])
        if c < 0.75:
            return ("arr", "int", [I(rnd.choice([0xff, 0xc3, 0x28, 0x80, 0xe2, 0x82, 0xf0, 0x9f, 0x41, 0xed, 0xa0, 0x80, 0xc0, 0xaf]))
                                   for _ in range(rnd.randint(1, 5))])
        return ("arr", "int", [I(rnd.choice([256, -1, 300, 65, MIN, MAX, 0x141, -191])) for _ in range(rnd.randint(1, 4))])
    if ty == "(arr any)":
        c = rnd.random()
        if c < 0.2:
            return ("arr", "int", [])
        if c < 0.6:
            return ("arr", "int", [I(rnd.choice(INTS)) for _ in range(rnd.randint(1, 4))])
        return ("arr", "any", [rnd.choice([I(1), S("a"), B(True), UNIT, ("tup", [I(1), S("x")]), ("arr", "int", [I(2)])])
                               for _ in range(rnd.randint(1, 4))])
    if ty == "(multi float int)":
        return one_arg(rnd, rnd.choice(["int", "float"]))
    if ty == "(multi (arr any) str)":
        return one_arg(rnd, rnd.choice(["(arr any)", "str"]))
    if ty == "any":
        return rnd.choice([one_arg(rnd, "int"), one_arg(rnd, "float"), one_arg(rnd, "str"), B(rnd.random() < 0.5), UNIT,
                           ("arr", "int", [I(1), I(2)]), ("arr", "str", [S("a"), S("b c")]), ("tup", [I(1), S("x")]),
                           ("arr", "int", []), ("tup", [("arr", "int", [I(1)]), B(False)])])
    raise KeyError(ty)


def parse_outcome(line):
    """-> (kind, value sexp or text, flags dict, stdout or None)"""
    g = sexp_parse("(" + line + ")")
    stdout = None
    for item in g:
        if isinstance(item, list) and item and item[0] == "stdout":
            stdout = item[1]
    head = g[0]
    if isinstance(head, list) and head and head[0] in ("call-accepted", "accepted"):
        run = head[-1] if head[0] == "accepted" else head[3]
        ty = head[1]
        # the run part follows as (value ..)|(error ..)|(panic ..) inside head for both forms
        for item in head:
            if isinstance(item, list) and item and item[0] in ("value", "error", "panic", "fuel"):
                run = item
        if run[0] == "value":
            flags = {x.split("=")[0]: x.split("=")[1] for x in run[2:] if isinstance(x, str) and "=" in x}
            return "value", run[1], flags, stdout, sexp_str(ty)
        return run[0], sexp_str(run), {}, stdout, sexp_str(ty)
    return "other", line, {}, stdout, ""


def unstr(tok):
    """decode a canonical string token"""
    assert tok.startswith('"') and tok.endswith('"'), tok
    s = tok[1:-1]
    out = []
    i = 0
    while i < len(s):
        if s[i] == "\\":
            if s[i + 1] == "u":
                j = s.index("}", i)
                out.append(chr(int(s[i + 3:j], 16)))
                i = j + 1
                continue
            out.append(s[i + 1])
            i += 2
            continue
        out.append(s[i])
        i += 1
    return "".join(out)


def is_err_struct(v):
    return (isinstance(v, list) and v and v[0] == "struct" and len(v) == 3 and v[1][0] == "error_code" and v[2][0] == "msg"
            and v[1][1][0] == "i" and int(v[1][1][1]) >= 0 and v[2][1][0] == "s" and len(unstr(v[2][1][1])) > 0)


# ------------------------------------------------------------------------------- the streams

def sig_stream(res, broken_model):
    impl = sexp_parse(harness_run(["stdsig"])[0])
    real = {}
    for ent in impl[1:]:
        real[(ent[0], ent[1])] = (sexp_str(ent[2]), ent[3])
    sigs = {}
    if broken_model:
        res.notes.append("model does not build: signatures are taken from the implementation only")
        for (m, n), (t, k) in real.items():
            if m != "operators":
                g = sexp_parse(t)
                sigs[(m, n)] = ([sexp_str(p) for p in g[1]], sexp_str(g[2])) if isinstance(g, list) and g[0] == "fn" else None
        return real, sigs
    model = sexp_parse("(" + driver_run(["std-sig"])[0] + ")")
    seen = set()
    for ent in model:
        mod, name, kind, params, ret = ent
        key = (MODS.get(mod, mod), name)
        seen.add(key)
        res.evaluations += 1
        res.nontrivial.add("sig:" + name)
        res.count("signature")
        want = sexp_str(["fn", params, ret]) if kind == "fn" else sexp_str(ret)
        if key not in real:
            res.broken.append("correspondence:stdsig %s.%s is in the export table but not in std" % key)
            continue
        got = real[key][0]
        if got != want:
            res.broken.append("correspondence:stdsig %s.%s declared %s, model derives %s" % (key[0], key[1], got, want))
        sigs[key] = ([sexp_str(p) for p in params], sexp_str(ret)) if kind == "fn" else None
    for key in real:
        if key not in seen and key[0] != "operators":
            res.broken.append("correspondence:stdsig %s.%s is in std but not in the export table" % key)
    return real, sigs


def path_of(key):
    return "std.%s" % key[1] if key[0] == "std" else "std.%s.%s" % key


def judge_common(res, key, args, line, route, declared):
    """no panic, no error, value in the declared type; -> value sexp or None"""
    kind, val, flags, stdout, ty = parse_outcome(line)
    name = key[1]
    what = "%s(%s) via %s" % (path_of(key), ", ".join(src_of(a) for a in args), route)
    rep = dict(call=path_of(key), args=[src_of(a) for a in args], route=route, impl=line[:600])
    if kind != "value":
        res.violation("%s does not return a value: %s" % (what, str(val)[:200]), rep,
                      dict(oracle="no-raise", fn=name, cls=kind))
        return None
    if flags.get("tag") != "1" or flags.get("content") != "1" or flags.get("tags") != "1":
        res.violation("%s returns %s outside its declared result type %s" % (what, sexp_str(val)[:200], declared), rep,
                      dict(oracle="declared-type", fn=name))
        return None
    return val


def pure_stream(res, rnd, n_per, real, sigs, broken_model):
    cases = []
    for key, sig in sorted(sigs.items()):
        if sig is None or key[0] in ("fs", "io"):
            continue
        params, ret = sig
        k = n_per if params else 1
        for _ in range(k):
            cases.append((key, [one_arg(rnd, p) for p in params], ret))
        # boundary sweeps for one- and two-argument integer / float helpers
        if params == ["int"]:
            cases += [(key, [I(x)], ret) for x in INTS]
        if params == ["float"]:
            cases += [(key, [("f", b)], ret) for b in FBITS]
        if params == ["int", "int"]:
            cases += [(key, [I(a), I(b)], ret) for a in INTS[:20] for b in (-1, 0, 1, 2, 3, 10, MAX, MIN)]
        if params == ["str"]:
            cases += [(key, [S(s)], ret) for s in STRS]
        if params == ["str", "str"]:
            # a second string whose BYTE length ends inside a multi-byte character of the first (and the other way round)
            MB = ["żółw", "€uro", "a€", "中文x", "é", "a\U0001F600b", "xż"]
            SH = ["z", "eu", "ab", "a", "ż", "", "中", "x", "€", "abc", "\U0001F600"]
            cases += [(key, [S(a), S(b)], ret) for a in MB for b in SH] + [(key, [S(b), S(a)], ret) for a in MB[:3] for b in SH[:5]]
        if params == ["str", "str", "str"]:
            cases += [(key, [S(a), S(b), S(c)], ret) for a in ("żółw", "a€a", "中文") for b in ("z", "a", "€", "", "ó") for c in ("", "Q", "ż")]
    lines = []
    for key, args, _ in cases:
        asrc = "[" + ", ".join(src_of(a) for a in args) + "]" if args else "[0; 0]"
        lines.append("call\tstd\t%s\t%s" % (esc_field(path_of(key)), esc_field(asrc)))
        lines.append("prog\tstd\t" + esc_field("%s(%s)" % (path_of(key), ", ".join(src_of(a) for a in args))))
    out = harness_run(lines)
    lean_req, lean_idx = [], []
    for i, (key, args, _) in enumerate(cases):
        if key[1] in LEAN_INT:
            lean_req.append("std1 %s %d" % (key[1], args[0][1]))
            lean_idx.append(i)
        elif key[1] == "ilog":
            lean_req.append("std2 ilog %d %d" % (args[0][1], args[1][1]))
            lean_idx.append(i)
    lean_out = dict(zip(lean_idx, driver_run(lean_req))) if (lean_req and not broken_model) else {}
    for i, (key, args, ret) in enumerate(cases):
        name = key[1]
        res.evaluations += 1
        res.count("call:" + key[0])
        res.nontrivial.add(name + ":" + ",".join(src_of(a) for a in args)[:80])
        vals = []
        for route, line in (("host", out[2 * i]), ("program", out[2 * i + 1])):
            v = judge_common(res, key, args, line, route, ret)
            vals.append(None if v is None else sexp_str(strip_tags(v)))
        if vals[0] is None or vals[1] is None:
            continue
        got = vals[0]
        rep = dict(call=path_of(key), args=[src_of(a) for a in args], impl=out[2 * i][:400])
        if vals[0] != vals[1]:
            res.violation("%s: host call gives %s, program gives %s" % (path_of(key), vals[0][:120], vals[1][:120]), rep,
                          dict(oracle="routes-agree", fn=name))
        if i in lean_out and lean_out[i] != got:
            res.broken.append("correspondence:std %s%s: impl %s model %s" % (name, [a[1] for a in args], got, lean_out[i]))
        want = None
        pa = [pyval(a) for a in args]
        if name in EXACT:
            w = EXACT[name](*pa)
            want = None if w is None else canon(w)
        elif name == "len":
            want = canon(I(len(pa[0])))
        elif name == "to_int":
            want = canon(I(o_to_int(args[0])))
        elif name == "to_float":
            want = canon(F(float(pa[0]))) if args[0][0] == "i" else canon(args[0])
        elif name == "to_string":
            want = canon(S(o_display(args[0]))) if printable(args[0]) else None
        elif name == "str_from_utf8" or name == "str_from_utf8_lossy":
            raw = bytes(x & 0xFF for x in pa[0])
            if name == "str_from_utf8":
                try:
                    want = canon(S(raw.decode("utf-8")))
                except UnicodeDecodeError:
                    want = "unit"
            else:
                want = canon(S(raw.decode("utf-8", errors="replace")))
        elif name in LIBM or name in ("log", "atan2"):
            res.count("libm")
            cls = doc_class(name, pa)
            g = sexp_parse(got)
            gb = int(g[1], 16)
            gx = b2f(gb)
            if cls == "nan" and gx == gx:
                res.violation("%s(%s) = %r, docs/stdlib.md says NaN" % (name, pa, gx), rep, dict(oracle="doc", fn=name, cls="nan"))
            if cls == "-inf" and gx != -math.inf:
                res.violation("%s(%s) = %r, docs/stdlib.md says negative infinity" % (name, pa, gx), rep, dict(oracle="doc", fn=name, cls="-inf"))
            continue
        if want is not None:
            res.count("oracle-compared")
            if want != got:
                res.violation("%s(%s) = %s, docs/stdlib.md says %s" % (path_of(key), ", ".join(src_of(a) for a in args)[:160], got[:160], want[:160]),
                              rep, dict(oracle="doc", fn=name))
    return len(cases)


def printable(v):
    """values whose Display text the oracle models: scalars at the top, plain ASCII below"""
    if v[0] in ("i", "b", "unit", "f", "s"):
        return True
    return nested_plain(v)


def nested_plain(v):
    if v[0] in ("i", "b", "unit"):
        return True
    if v[0] == "s":
        return all(" " <= c <= "~" and c not in '"\\' for c in v[1])
    if v[0] == "arr":
        return all(nested_plain(x) for x in v[2])
    if v[0] == "tup":
        return all(nested_plain(x) for x in v[1])
    return False


def const_stream(res, real):
    want = {"MIN_INT": "(i %d)" % MIN, "MAX_INT": "(i %d)" % MAX, "E": "(f %016x)" % f2b(math.e), "PI": "(f %016x)" % f2b(math.pi)}
    tys = {"MIN_INT": "int", "MAX_INT": "int", "E": "float", "PI": "float"}
    for name, w in want.items():
        res.evaluations += 1
        res.count("const")
        got = real.get(("math", name))
        if got is None or not (isinstance(got[1], list) and got[1][0] == "const"):
            res.violation("std.math.%s is not a constant" % name, dict(name=name), dict(oracle="const", fn=name))
            continue
        if got[0] != tys[name] or sexp_str(got[1][1]) != w:
            res.violation("std.math.%s is %s : %s, docs/stdlib.md says %s : %s" % (name, sexp_str(got[1][1]), got[0], w, tys[name]),
                          dict(name=name), dict(oracle="const", fn=name))


def operators_stream(res, rnd, n):
    ops = [("bitand_reduce", "$&", "int"), ("bitor_reduce", "$|", "int"), ("all", "$&&", "bool"), ("any", "$||", "bool"),
           ("int_product", "$*", "int"), ("float_product", "$*", "float"), ("int_sum", "$+", "int"), ("float_sum", "$+", "float"),
           ("string_sum", "$+", "str")]
    cases = []
    for name, op, ty in ops:
        for _ in range(n):
            k = rnd.randint(0, 4)
            if ty == "int":
                xs = [I(rnd.choice(INTS)) for _ in range(k)]
                empty = "[0; 0]"
            elif ty == "float":
                xs = [F(rnd.choice([0.0, 1.5, -2.25, 1e308, 3.0, 0.1])) for _ in range(k)]
                empty = "[0.0; 0]"
            elif ty == "bool":
                xs = [B(rnd.random() < 0.6) for _ in range(k)]
                empty = "[true; 0]"
            else:
                xs = [S(rnd.choice(["", "a", "bc", "é"])) for _ in range(k)]
                empty = '[""; 0]'
            arr = "[" + ", ".join(src_of(x) for x in xs) + "]" if xs else empty
            cases.append((name, op, arr))
    lines = []
    for name, op, arr in cases:
        lines.append("prog\tstd\t" + esc_field("std.operators.%s(%s~)" % (name, arr)))
        lines.append("prog\tstd\t" + esc_field("%s~ %s" % (arr, op)))
    out = harness_run(lines)
    for i, (name, op, arr) in enumerate(cases):
        res.evaluations += 1
        res.count("call:operators")
        res.nontrivial.add(name + arr)
        key = ("operators", name)
        a = judge_common(res, key, [], out[2 * i], "program", "declared")
        kb, vb, _, _, _ = parse_outcome(out[2 * i + 1])
        if a is None:
            continue
        if kb == "value" and sexp_str(a) != sexp_str(vb):
            res.violation("std.operators.%s(%s~) = %s but %s~ %s = %s" % (name, arr, sexp_str(a), arr, op, sexp_str(vb)),
                          dict(program=lines[2 * i], builtin=lines[2 * i + 1], impl=out[2 * i] + " | " + out[2 * i + 1]),
                          dict(oracle="doc", fn=name))
    return len(cases)


def io_stream(res, rnd, n):
    lines, exp = [], []
    for _ in range(n):
        v = one_arg(rnd, "any")
        if not printable(v):
            continue
        lines.append("call\tstd\tstd.io.print\t" + esc_field("[%s]" % src_of(v)))
        exp.append(("print", [v], o_display(v) + "\n"))
        xs = [rnd.choice([I(rnd.choice(INTS)), S(rnd.choice(["a", "b c", "", "é"])), B(True), UNIT]) for _ in range(rnd.randint(0, 4))]
        sep = rnd.choice(["", ", ", "-", "\n", "é"])
        arr = ("arr", "any", xs)
        lines.append("call\tstd\tstd.io.print_array\t" + esc_field("[%s, %s]" % (src_of(arr) if xs else "[0; 0]", src_of(S(sep)))))
        exp.append(("print_array", [arr, S(sep)], sep.join(o_display(x) for x in xs) + "\n"))
    out = harness_run(lines)
    for (name, args, want), line in zip(exp, out):
        res.evaluations += 1
        res.count("io:" + name)
        res.nontrivial.add(name + str(args)[:60])
        key = ("io", name)
        v = judge_common(res, key, args, line, "host", "void")
        if v is None:
            continue
        _, _, _, stdout, _ = parse_outcome(line)
        got = unstr(stdout) if stdout else ""
        if sexp_str(v) != "unit" or got != want:
            res.violation("std.io.%s(%s) returned %s and wrote %r, expected () and %r" % (name, ", ".join(src_of(a) for a in args), sexp_str(v), got, want),
                          dict(call=name, args=[src_of(a) for a in args], impl=line[:400]), dict(oracle="doc", fn=name))
    # cgetline on prepared stdin states
    scen = []
    for raw in [b"hello\n", b"hi\nrest\n", b"no newline", b"", b"\n", b"a\r\n", "zażółć\n".encode(), b"\xff\xfe\n", b"ok\xc3\n", b" spaced \n",
                b"x" * 10000 + b"\n", b"\x00\n"]:
        scen.append(("hex:" + raw.hex(), raw))
    scen += [("dir", None), ("closed", b"")]
    lines = ["stdin\t%s\tcall\tstd\tstd.io.cgetline\t[0; 0]" % s for s, _ in scen]
    # several reads from one stream, through a program
    multi = b"one\ntwo\n\nlast"
    lines.append("stdin\thex:%s\tprog\tstd\t%s" % (multi.hex(), esc_field(
        "a := std.io.cgetline(); b := std.io.cgetline(); c := std.io.cgetline(); d := std.io.cgetline(); e := std.io.cgetline(); (a, b, c, d, e)")))
    out = harness_run(lines)
    for (s, raw), line in zip(scen, out):
        res.evaluations += 1
        res.count("io:cgetline")
        res.nontrivial.add("cgetline:" + s[:40])
        v = judge_common(res, ("io", "cgetline"), [], line + " ", "host stdin=" + s[:40], "string | " + ERR_T)
        if v is None:
            continue
        if raw is None:
            ok = is_err_struct(v)
            want = "the error struct (stdin is a directory)"
        else:
            first = raw.split(b"\n")[0] + (b"\n" if b"\n" in raw else b"")
            try:
                text = first.decode("utf-8")
                want = canon(S(text.replace("\n", "")))
                ok = sexp_str(v) == want
            except UnicodeDecodeError:
                ok = is_err_struct(v)
                want = "the error struct (invalid UTF-8)"
        if not ok:
            res.violation("std.io.cgetline() with stdin %s returned %s, expected %s" % (s[:60], sexp_str(v)[:200], want[:200]),
                          dict(stdin=s, impl=line[:400]), dict(oracle="doc", fn="cgetline"))
    res.evaluations += 1
    kind, v, _, _, _ = parse_outcome(out[-1])
    want = canon(("tup", [S("one"), S("two"), S(""), S("last"), S("")]))
    if kind != "value" or sexp_str(v) != want:
        res.violation("five cgetline() calls on 'one\\ntwo\\n\\nlast' gave %s, expected %s" % (sexp_str(v) if kind == "value" else v, want),
                      dict(impl=out[-1][:400]), dict(oracle="doc", fn="cgetline"))
    return len(exp) + len(scen) + 1


# ---- file system

def snapshot(root):
    snap = {}
    for d, dirs, files in os.walk(root):
        rel = os.path.relpath(d, root)
        snap[rel] = "dir"
        for f in files:
            p = os.path.join(d, f)
            with open(p, "rb") as fh:
                snap[os.path.normpath(os.path.join(rel, f))] = fh.read()
    return snap


def fs_stream(res, rnd, rounds):
    base = os.path.join(CACHE, "fs-scratch", str(os.getpid()))
    shutil.rmtree(base, ignore_errors=True)
    os.makedirs(base)
    cases = []

    def fresh(i):
        root = os.path.join(base, "c%d" % i)
        os.makedirs(os.path.join(root, "d_empty"))
        os.makedirs(os.path.join(root, "d_full", "sub"))
        with open(os.path.join(root, "f.txt"), "w", encoding="utf-8") as f:
            f.write("zażółć\nline2\n")
        with open(os.path.join(root, "empty.txt"), "w"):
            pass
        with open(os.path.join(root, "bin.dat"), "wb") as f:
            f.write(b"\xff\xfe\x00bad")
        with open(os.path.join(root, "d_full", "inner.txt"), "w") as f:
            f.write("inner")
        with open(os.path.join(root, "d_full", "sub", "deep.txt"), "w") as f:
            f.write("deep")
        return root

    names = ["f.txt", "empty.txt", "bin.dat", "d_empty", "d_full", "d_full/inner.txt", "d_full/sub", "missing", "missing/x", "f.txt/x",
             "d_empty/new", "d_full/sub/deep.txt", "n" * 300, "nul\x00byte", "d_empty/a/b/c", "d_full/sub/deep.txt/y"]
    fns1 = ["file_read_to_string", "remove_file", "remove_dir", "remove_dir_all", "create_dir", "create_dir_all"]
    fns2 = ["write_to_file", "copy_file", "rename"]
    i = 0
    for _ in range(rounds):
        for fn in fns1:
            for nm in names:
                cases.append((i, fn, [nm]))
                i += 1
        for fn in fns2:
            for nm in names:
                if fn == "write_to_file":
                    cases.append((i, fn, [nm, rnd.choice(["", "new contents", "ünï\n"])]))
                    i += 1
                else:
                    for other in rnd.sample(names, 6):
                        if other != nm:
                            cases.append((i, fn, [nm, other]))
                            i += 1
    # device faults (absolute paths)
    extra = [("write_to_file", ["/dev/full", "x"]), ("file_read_to_string", ["/proc/self/mem"]), ("copy_file", ["f.txt", "/dev/full"]),
             ("file_read_to_string", ["/dev/null"]), ("write_to_file", ["/dev/null", "gone"]), ("remove_dir", ["/proc"]),
             ("create_dir", ["/proc/newdir"]), ("rename", ["f.txt", "/proc/f.txt"])]
    for fn, a in extra:
        cases.append((i, fn, a))
        i += 1
    lines, roots, befores = [], [], []
    for idx, fn, a in cases:
        root = fresh(idx)
        roots.append(root)
        befores.append(snapshot(root))

        def ab(p):
            return p if p.startswith("/") else os.path.join(root, p)
        if fn == "write_to_file":
            argv = [S(ab(a[0])), S(a[1])]
        else:
            argv = [S(ab(x)) for x in a]
        lines.append("call\tstd\tstd.fs.%s\t%s" % (fn, esc_field("[" + ", ".join(src_of(x) for x in argv) + "]")))
    out = harness_run(lines)
    for (idx, fn, a), root, before, line in zip(cases, roots, befores, out):
        res.evaluations += 1
        res.count("fs:" + fn)
        res.nontrivial.add(fn + ":" + "|".join(a)[:60])
        after = snapshot(root)
        ret = "string | " + ERR_T if fn == "file_read_to_string" else "() | " + ERR_T
        v = judge_common(res, ("fs", fn), [S(x) for x in a], line, "host", ret)
        if v is None:
            continue
        err = is_err_struct(v)
        okv = sexp_str(v)
        rep = dict(fn=fn, args=a, state_before={k: (x if x == "dir" else x.decode("latin1")) for k, x in before.items()}, impl=line[:400])
        if not err and not (okv == "unit" or (fn == "file_read_to_string" and isinstance(v, list) and v[0] == "s")):
            res.violation("std.fs.%s(%s) returned %s: neither the success value nor struct{error_code, msg}" % (fn, a, okv[:200]), rep,
                          dict(oracle="error-struct", fn=fn))
            continue
        res.count("fs-outcome:" + ("error" if err else "ok"))
        external = any(x.startswith("/") for x in a[:1 if fn == "write_to_file" else 2])
        bad_path = any(("\x00" in x or len(x) >= 300) for x in a[:1 if fn == "write_to_file" else 2])
        p0 = os.path.normpath(a[0]) if a[0] and not a[0].startswith("/") else None

        def kind_of(snap, rel):
            if rel is None or rel not in snap:
                return None
            return "dir" if snap[rel] == "dir" else "file"

        def parent_is_dir(snap, rel):
            par = os.path.normpath(os.path.dirname(rel)) if os.path.dirname(rel) else "."
            return snap.get(par) == "dir"
        problem = None
        expect_ok = None
        if bad_path:
            expect_ok = False
        elif external:
            expect_ok = None
        elif fn == "file_read_to_string":
            k = kind_of(before, p0)
            if k == "file":
                try:
                    text = before[p0].decode("utf-8")
                    expect_ok = True
                    if not err and okv != canon(S(text)):
                        problem = "returned %s, the file contains %r" % (okv[:100], text)
                except UnicodeDecodeError:
                    expect_ok = False
            else:
                expect_ok = False
        elif fn == "write_to_file":
            k = kind_of(before, p0)
            expect_ok = (k == "file") or (k is None and parent_is_dir(before, p0))
            if not err and after.get(p0) != a[1].encode("utf-8"):
                problem = "reported success but the file holds %r" % (after.get(p0),)
        elif fn == "remove_file":
            expect_ok = kind_of(before, p0) == "file"
            if not err and p0 in after:
                problem = "reported success but the file is still there"
        elif fn == "remove_dir":
            k = kind_of(before, p0)
            empty = k == "dir" and not any(x != p0 and x.startswith(p0 + "/") for x in before)
            expect_ok = empty
            if not err and p0 in after:
                problem = "reported success but the directory is still there"
        elif fn == "remove_dir_all":
            k = kind_of(before, p0)
            expect_ok = True if k == "dir" else (False if k is None else None)
            if not err and p0 in after:
                problem = "reported success but the path is still there"
        elif fn == "create_dir":
            expect_ok = kind_of(before, p0) is None and parent_is_dir(before, p0)
            if not err and after.get(p0) != "dir":
                problem = "reported success but there is no directory"
        elif fn == "create_dir_all":
            parts = p0.split("/")
            through_file = any(kind_of(before, "/".join(parts[:j])) == "file" for j in range(1, len(parts) + 1))
            expect_ok = not through_file
            if not err and after.get(p0) != "dir":
                problem = "reported success but there is no directory"
        elif fn in ("copy_file", "rename"):
            p1 = os.path.normpath(a[1]) if a[1] and not a[1].startswith("/") else None
            ext1 = a[1].startswith("/")
            k0, k1 = kind_of(before, p0), kind_of(before, p1)
            nested = p1 is not None and p0 is not None and (p1 + "/").startswith(p0 + "/")
            if fn == "copy_file":
                if k0 != "file":
                    expect_ok = False
                elif ext1:
                    expect_ok = None
                elif k1 == "dir" or not parent_is_dir(before, p1):
                    expect_ok = False
                else:
                    expect_ok = True
                if not err and not ext1 and after.get(p1) != before.get(p0):
                    problem = "reported success but the target does not hold the source's contents"
                if not err and after.get(p0) != before.get(p0):
                    problem = "the source changed"
            else:
                if k0 is None:
                    expect_ok = False
                elif ext1 or nested:
                    expect_ok = None if ext1 else False
                elif not parent_is_dir(before, p1):
                    expect_ok = False
                elif k1 is None:
                    expect_ok = True
                elif k0 == "file" and k1 == "file":
                    expect_ok = True
                elif k0 == "dir" and k1 == "dir":
                    expect_ok = not any(x.startswith(p1 + "/") for x in before)
                else:
                    expect_ok = False
                if not err and not ext1:
                    moved_ok = (p0 not in after) and (after.get(p1) == before.get(p0))
                    if not moved_ok:
                        problem = "reported success but the tree does not show the move"
        if err and not external and after != before and problem is None:
            problem = "reported an error but changed the tree"
        if problem is None and expect_ok is not None and expect_ok != (not err):
            problem = ("returned the error struct %s where docs/stdlib.md promises success" % okv[:160]) if err else \
                "reported success where the operating system must refuse"
        if problem:
            res.violation("std.fs.%s(%s): %s" % (fn, ", ".join(repr(x) for x in a), problem), rep, dict(oracle="fs-postcondition", fn=fn))
    shutil.rmtree(base, ignore_errors=True)
    return len(cases)


def run(res, tier, seed, broken_model):
    rnd = random.Random(seed)
    thorough = tier == "thorough"
    real, sigs = sig_stream(res, broken_model)
    const_stream(res, real)
    n1 = pure_stream(res, rnd, 60 if thorough else 12, real, sigs, broken_model)
    n2 = operators_stream(res, rnd, 40 if thorough else 8)
    n3 = io_stream(res, rnd, 120 if thorough else 30)
    n4 = fs_stream(res, rnd, 3 if thorough else 1)
    res.streams["std"] = dict(signatures=len(sigs), pure_calls=n1, operator_calls=n2, io_cases=n3, fs_cases=n4)
    res.samples.append(dict(call="std.math.ilog(1000, 10)", expect="(i 3)"))
    res.assumptions += [
        "the operating system, libm and Rust's std (str::to_lowercase, f64 parsing, fs::*) are not modelled; their results are judged "
        "by post-conditions and an independent oracle on generated calls",
        "functions whose result type is given by #[return_type] (split, chars, bytes) are judged on generated calls only",
    ]
    res.rule = ("every function of the regenerated export table x (boundary sweep of its parameter type: 35 ints incl. MIN/MAX/powers, 35 float "
                "bit patterns incl. +-0, subnormals, +-inf, quiet/signalling/negative NaN, 2^63 edges; 55 strings incl. empty, multi-byte, "
                "non-BMP, Unicode white space, numeric look-alikes, NUL; byte arrays valid / invalid UTF-8 / out-of-byte-range ints) + random "
                "arguments, through Function::create_call and through a program; nine std.operators functions vs. the built-in reductions on "
                "arrays of length 0-4; print / print_array with captured stdout; cgetline on 14 stdin states; nine fs functions x 17 path "
                "shapes (x 6 second paths) on a fresh tree each + device faults; non-trivial = distinct (function, arguments / state)")
