/-!
  IEEE-754 binary64 values as bit patterns.  Equality and ordering are *defined* here on the
  bits (so they can be reasoned about); arithmetic goes through Lean's `Float`, which — like Rust's
  `f64` — is the platform double and is opaque to the kernel.
-/
namespace Ssl

abbrev F64 := UInt64

namespace F64

def expBits (b : F64) : Nat := b.toNat / 2 ^ 52 % 2 ^ 11
def mantBits (b : F64) : Nat := b.toNat % 2 ^ 52
def signBit (b : F64) : Bool := b.toNat / 2 ^ 63 == 1
def magnitude (b : F64) : Nat := b.toNat % 2 ^ 63

def isNaN (b : F64) : Bool := expBits b == 2047 && mantBits b != 0
def isZero (b : F64) : Bool := magnitude b == 0

/-- IEEE `==`: NaN is unequal to everything, `+0 == -0`, otherwise same bits -/
def feq (a b : F64) : Bool := !isNaN a && !isNaN b && (a.toNat == b.toNat || (isZero a && isZero b))

/-- order key of a non-NaN value: sign-magnitude to integer (−0 and +0 both 0) -/
def key (b : F64) : Int := if signBit b then -(magnitude b : Int) else (magnitude b : Int)

/-- IEEE `<` / `<=`: false when either side is NaN -/
def flt (a b : F64) : Bool := !isNaN a && !isNaN b && decide (key a < key b)
def fle (a b : F64) : Bool := !isNaN a && !isNaN b && decide (key a ≤ key b)

/-- Rust's unary minus on `f64` flips the sign bit (also of NaN and zero) -/
def fneg (a : F64) : F64 := a ^^^ (0x8000000000000000 : UInt64)

def ofFloat (f : Float) : F64 := f.toBits
def toFloat (b : F64) : Float := Float.ofBits b

def fadd (a b : F64) : F64 := (toFloat a + toFloat b).toBits
def fsub (a b : F64) : F64 := (toFloat a - toFloat b).toBits
def fmul (a b : F64) : F64 := (toFloat a * toFloat b).toBits
def fdiv (a b : F64) : F64 := (toFloat a / toFloat b).toBits
def fpow (a b : F64) : F64 := (Float.pow (toFloat a) (toFloat b)).toBits

def zero : F64 := 0
def one : F64 := 0x3ff0000000000000

end F64
end Ssl
