import SslModel.Gen.StdSig
import SslModel.Model.Typing
/-!
  The standard library, as far as it is logic rather than operating system:
  * how `#[export]` (macros/src/export.rs) turns a Rust signature into a SimpleSL signature
    (`TypeOf`, src/variable/type_of.rs), how arguments are imported (`TryFrom<&Variable>`,
    src/variable/try_from.rs) and how results are converted (`From<_> for Variable`,
    src/variable.rs);
  * the pure integer helpers of src/stdlib/math.rs and `len` of src/stdlib.rs.
-/
namespace Ssl
namespace Std
open Ssl.Gen

/-! ### signatures -/

def ioErrorTy : Ty := .struct [("error_code", .int), ("msg", .str)]

/-- `<R as TypeOf>::type_of()`; `none` where no impl exists (then `#[export]` does not compile
    unless the type is overridden by an attribute) -/
def typeOf : RustTy → Option Ty
  | .ioResult t =>
    if resultRule then
      match typeOf t, typeOfTable.lookup .ioError with
      | some ok, some err => some (Ty.concat ok err)
      | _, _ => none
    else none
  | r => typeOfTable.lookup r

/-- declared type of one parameter: the `#[var_type]` attribute wins over `TypeOf` -/
def paramTy (p : String × RustTy × Option Ty) : Option Ty :=
  match p.2.2 with
  | some t => some t
  | none => typeOf p.2.1

def retTy (e : StdExport) : Option Ty :=
  match e.retOverride with
  | some t => some t
  | none => typeOf e.ret

/-- Rust-side results of exported functions -/
inductive RustVal where
  | unit
  | bool (b : Bool)
  | i64 (i : I64)
  | u32 (n : BitVec 32)
  | usize (n : BitVec 64)
  | f64 (x : F64)
  | str (s : String)
  | none
  | some (v : RustVal)
  | ok (v : RustVal)
  | err (kind : I64) (msg : String)

def RustVal.hasTy : RustVal → RustTy → Bool
  | .unit, .unit => true
  | .bool _, .bool => true
  | .i64 _, .i64 => true
  | .u32 _, .u32 => true
  | .usize _, .usize => true
  | .f64 _, .f64 => true
  | .str _, .strRef | .str _, .string | .str _, .arcStr => true
  | .none, .option _ => true
  | .some v, .option t => v.hasTy t
  | .ok v, .ioResult t => v.hasTy t
  | .err _ _, .ioResult _ => true
  | _, _ => false

/-- `impl From<_> for Variable` (src/variable.rs): `u32` widens, `usize` is cast, `Option`
    maps `None` to `()`, `io::Error` becomes `struct{error_code := kind as int, msg}` -/
def conv : RustVal → Val
  | .unit => .unit
  | .bool b => .bool b
  | .i64 i => .int i
  | .u32 n => .int (n.setWidth 64)
  | .usize n => .int n
  | .f64 x => .float x
  | .str s => .str s
  | .none => .unit
  | .some v => conv v
  | .ok v => conv v
  | .err k m => .struct [("error_code", .int k), ("msg", .str m)]

/-- `TryFrom<&Variable> for R` succeeds (the `.try_into().unwrap()` of the generated import) -/
def accepts : RustTy → Val → Bool
  | .i64, .int _ => true
  | .f64, .float _ => true
  | .bool, .bool _ => true
  | .strRef, .str _ => true
  | .arcStr, .str _ => true
  | .slice, .arr _ _ => true
  | .arrayRef, .arr _ _ => true
  | .arcArray, .arr _ _ => true
  | .varRef, _ => true
  | .variable, _ => true
  | _, _ => false

/-! ### integer helpers (src/stdlib/math.rs) -/

def countOnes (x : I64) : Nat := x.cpopNatRec 64 0
def countZeros (x : I64) : Nat := (~~~x).cpopNatRec 64 0
/-- number of leading zero bits, scanning from bit 63 down -/
def leadingZerosFrom (x : I64) : Nat → Nat
  | 0 => 0
  | n + 1 => if x.getLsbD n then 0 else 1 + leadingZerosFrom x n
def leadingZeros (x : I64) : Nat := leadingZerosFrom x 64
def leadingOnes (x : I64) : Nat := leadingZeros (~~~x)
def trailingZeros (x : I64) : Nat := leadingZeros x.reverse
def trailingOnes (x : I64) : Nat := leadingZeros (~~~x).reverse
def reverseBits (x : I64) : I64 := x.reverse
/-- byte `k` of `x` moved to byte position `j` -/
def byteTo (x : I64) (k j : Nat) : I64 := ((x >>> (8 * k)) &&& 0xFF#64) <<< (8 * j)
def swapBytes (x : I64) : I64 :=
  byteTo x 0 7 ||| byteTo x 1 6 ||| byteTo x 2 5 ||| byteTo x 3 4 |||
  byteTo x 4 3 ||| byteTo x 5 2 ||| byteTo x 6 1 ||| byteTo x 7 0

/-- `i64::checked_ilog`: `None` unless `0 < n` and `2 ≤ b`, else the largest `r` with `b^r ≤ n` -/
def ilogNat (b : Nat) : Nat → Nat → Nat
  | 0, _ => 0
  | fuel + 1, n => if n < b then 0 else 1 + ilogNat b fuel (n / b)

def ilog (n b : I64) : Option Nat :=
  if n.toInt ≤ 0 ∨ b.toInt ≤ 1 then none else some (ilogNat b.toInt.toNat 64 n.toInt.toNat)

/-- `len` (src/stdlib.rs): elements of an array, `char`s of a string -/
def len : Val → Option Nat
  | .arr _ es => some es.length
  | .str s => some s.length
  | _ => none

/-- `to_int` on an int, `to_float` is not modelled (float rounding) -/
def toIntOfInt (v : Val) : Option I64 := match v with | .int i => some i | _ => none

end Std
end Ssl
