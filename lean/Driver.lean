import SslModel.Model.Int64
import SslModel.Gen.ScalarOps
import SslModel.Model.Pratt
import SslModel.Gen.PrattTable
import SslModel.Model.Seq
import SslModel.Model.TyIO
import SslModel.Model.SpecIO
import SslModel.Model.TyText
import SslModel.Model.ValText
import SslModel.Model.StdLib
import SslModel.Model.Conc
import SslModel.Model.Check
import SslModel.Model.CheckF
import SslModel.Model.CheckS
import SslModel.Model.FoldIO
/-! Model side of the correspondence: one request per line on stdin, one canonical answer per
    line on stdout.  Import-free apart from the model, so it links as a native executable. -/
open Ssl

def scalarOp (name : String) : Option IntOp :=
  match name with
  | "add" => some Gen.add | "subtract" => some Gen.subtract | "multiply" => some Gen.multiply
  | "divide" => some Gen.divide | "modulo" => some Gen.modulo | "pow" => some Gen.pow
  | "lshift" => some Gen.lshift | "rshift" => some Gen.rshift
  | "bitwise_and" => some Gen.bitwise_and | "bitwise_or" => some Gen.bitwise_or
  | "xor" => some Gen.xor | "greater" => some Gen.greater
  | "greater_equal" => some Gen.greater_equal | "lower" => some Gen.lower
  | "lower_equal" => some Gen.lower_equal
  | _ => none

def showScalar : Except ExecErr Scalar → String
  | .ok (.int v) => s!"(i {v.toInt})"
  | .ok (.bool b) => if b then "true" else "false"
  | .error e => s!"(error {e.name})"

/-- the mathematical specification of C08, computed with unbounded integers -/
def specScalar (name : String) (a b : Int) : String :=
  let wrap (x : Int) : Int := x.bmod (2 ^ 64)
  let int (x : Int) := s!"(i {wrap x})"
  let bool (x : Bool) := if x then "true" else "false"
  match name with
  | "add" => int (a + b) | "subtract" => int (a - b) | "multiply" => int (a * b)
  | "divide" => if b = 0 then "(error ZeroDivision)" else int (a.tdiv b)
  | "modulo" => if b = 0 then "(error ZeroModulo)" else int (a.tmod b)
  | "pow" => if b < 0 then "(error NegativeExponent)" else
      -- modular exponentiation (b may be as large as 2^63-1)
      let m : Nat := 2 ^ 64
      let rec go (fuel : Nat) (acc base : Nat) (e : Nat) : Nat :=
        match fuel with
        | 0 => acc
        | fuel + 1 => if e = 0 then acc else
            go fuel (if e % 2 = 1 then acc * base % m else acc) (base * base % m) (e / 2)
      int (go 64 1 (a % (m : Int)).toNat b.toNat)
  | "lshift" => if b < 0 || b > 63 then "(error OverflowShift)" else int (a * 2 ^ b.toNat)
  | "rshift" => if b < 0 || b > 63 then "(error OverflowShift)" else int (a / 2 ^ b.toNat)
  | "bitwise_and" => int (Nat.land (a % (2:Int) ^ 64).toNat (b % (2:Int) ^ 64).toNat)
  | "bitwise_or" => int (Nat.lor (a % (2:Int) ^ 64).toNat (b % (2:Int) ^ 64).toNat)
  | "xor" => int (Nat.xor (a % (2:Int) ^ 64).toNat (b % (2:Int) ^ 64).toNat)
  | "greater" => bool (a > b) | "greater_equal" => bool (a ≥ b)
  | "lower" => bool (a < b) | "lower_equal" => bool (a ≤ b)
  | _ => "(bad-op)"

def hexVal (c : Char) : Option Nat :=
  if '0' ≤ c ∧ c ≤ '9' then some (c.toNat - '0'.toNat)
  else if 'a' ≤ c ∧ c ≤ 'f' then some (c.toNat - 'a'.toNat + 10)
  else none

def parseHex (s : String) : Option UInt64 :=
  s.toList.foldl (fun acc c => match acc, hexVal c with
    | some a, some d => some (a * 16 + d)
    | _, _ => none) (some 0) |>.map UInt64.ofNat

def hexDigit (n : Nat) : Char := if n < 10 then Char.ofNat (48 + n) else Char.ofNat (87 + n)

def showBits (f : Float) : String :=
  if f.isNaN then "7ff8000000000000" else
  let b := f.toBits.toNat
  String.ofList ((List.range 16).map fun i => hexDigit ((b >>> (4 * (15 - i))) % 16))

def showBool (b : Bool) : String := if b then "true" else "false"

/-- float arms, named as the translator names them; comparisons are the bit-level IEEE definitions
    of Model/F64.lean, arithmetic is the platform double -/
def floatOp (name : String) (a b : F64) : Option String :=
  -- `==` / `!=` on floats go through the value equality (IEEE: NaN is unequal to everything, +0 == -0), not through a math arm
  if name == "equal" then some (showBool (F64.feq a b)) else
  if name == "not_equal" then some (showBool (!F64.feq a b)) else
  match (List.lookup name Gen.floatArms).bind (·.1) with
  | some "fadd" => some s!"(f {Spec.floatBits (F64.fadd a b)})"
  | some "fsub" => some s!"(f {Spec.floatBits (F64.fsub a b)})"
  | some "fmul" => some s!"(f {Spec.floatBits (F64.fmul a b)})"
  | some "fdiv" => some s!"(f {Spec.floatBits (F64.fdiv a b)})"
  | some "powf" => some s!"(f {Spec.floatBits (F64.fpow a b)})"
  | some "flt" => some (showBool (F64.flt a b))
  | some "fle" => some (showBool (F64.fle a b))
  | some "fgt" => some (showBool (F64.flt b a))
  | some "fge" => some (showBool (F64.fle b a))
  | _ => none

def prattTable : Pratt.Table := Pratt.mkTable Gen.prattLevels

def prattToks (rules : List String) : List Pratt.Tok :=
  let rec go (rs : List String) (n : Nat) : List Pratt.Tok :=
    match rs with
    | [] => []
    | r :: rest =>
      if (prattTable.get r).isNone then ⟨r, n + 1⟩ :: go rest (n + 1) else ⟨r, 0⟩ :: go rest n
  go rules 0

def showPrattTree : Pratt.Tree → String
  | .prim t => s!"{t.rule}{t.id}"
  | .pre op r => s!"({op.rule} {showPrattTree r})"
  | .post l op => s!"({showPrattTree l} {op.rule})"
  | .bin l op r => s!"({showPrattTree l} {op.rule} {showPrattTree r})"

def handlePratt (rules : List String) : String :=
  match Pratt.parse prattTable (prattToks rules) with
  | .ok t => showPrattTree t
  | .panicEmpty => "(panic empty)" | .panicNud t => s!"(panic nud {t.rule})"
  | .panicLed t => s!"(panic led {t.rule})" | .panicLbp t => s!"(panic lbp {t.rule})"
  | .fuel => "(fuel)"

def optInt (s : String) : Option (Option Int) :=
  if s == "_" then some none else s.toInt?.map some

def showInts (l : List Int) : String := "[" ++ " ".intercalate (l.map toString) ++ "]"

def b01 (b : Bool) : String := if b then "1" else "0"
def optN : Option Nat → String
  | some n => s!"(some {n})" | none => "none"

def handleTy (rest : String) : String :=
  match Sexp.parseMany rest with
  | [.atom "rel", a, b] =>
    match Ty.ofSexp a, Ty.ofSexp b with
    | some a, some b =>
      s!"eq={b01 (Ty.eqv a b)} ab={b01 (Ty.sub a b)} ba={b01 (Ty.sub b a)} {(Ty.concat a b).render} {(Ty.conjoin a b).render}"
    | _, _ => "(bad-type)"
  | [.atom "q", a] =>
    match Ty.ofSexp a with
    | some a =>
      s!"(index_result {Ty.showOpt a.indexResult}) (element_type {Ty.showOpt a.elementType}) (return_type {Ty.showOpt a.returnType}) (params {Ty.showOptL a.params}) (mut_element_type {Ty.showOpt a.mutElementType}) (mut_assign_type {Ty.showOpt a.mutAssignType}) (is_function {a.isFunction}) (is_tuple {a.isTuple}) (is_mut {a.isMut}) (tuple_len {optN a.tupleLen}) (min_tuple_len {optN a.minTupleLen}) (flatten_tuple {Ty.showOptL a.flattenTuple}) (iter_element {Ty.showOpt a.iterElement}) (tuple_element_at0 {Ty.showOpt (a.tupleElementAt 0)}) (tuple_element_at1 {Ty.showOpt (a.tupleElementAt 1)}) (field_type_a {Ty.showOpt (a.fieldType "a")}) (field_type_b {Ty.showOpt (a.fieldType "b")}) (has_field_a {a.hasField "a"}) (can_be_indexed {a.canBeIndexed}) (is_iterator {a.isIterator}) (is_struct {a.isStruct})"
    | none => "(bad-type)"
  | [.atom "print", a] =>
    match Ty.ofSexp a with
    | some a => Sexp.quote (TyText.print a)
    | none => "(bad-type)"
  | [.atom "parse", .str text] =>
    match TyText.parse text with
    | some t => "(some " ++ t.render ++ ")"
    | none => "none"
  | [.atom "wf", a] =>
    match Ty.ofSexp a with
    | some a => b01 a.wf
    | none => "(bad-type)"
  | _ => "(bad-request)"

/-- `prog <flags> <fuel> (S*)` : run a statement list through the reference semantics -/
def handleProg (rest : String) : String :=
  match Sexp.parseMany rest with
  | [.atom flags, .atom fuel, .list stmts] =>
    match stmts.mapM Spec.exprOf, fuel.toNat? with
    | some ss, some fuel => Spec.runProgram fuel (flags == "std") ss
    | _, _ => "(bad-program)"
  | _ => "(bad-request)"

/-- `fold (S*)` : the folded program the model of the Recreate pass answers -/
def handleFold (rest : String) : String :=
  match Sexp.parseMany rest with
  | [.list stmts] =>
    match stmts.mapM Spec.exprOf with
    | some ss => Fold.showResult (Fold.foldProgram ss)
    | none => "(bad-program)"
  | _ => "(bad-request)"

/-- `tyof ((x T)*) (S*)` : the static type the checker model assigns to a statement list of the first-order fragment
    whose free variables have the given types -/
def handleTyOf (rest : String) : String :=
  match Sexp.parseMany rest with
  | [.list binds, .list stmts] =>
    let g := binds.mapM fun (b : Sexp) => match b with
      | Sexp.list [Sexp.atom x, t] => (Ty.ofSexp t).map fun t => (x, t)
      | _ => none
    match g, stmts.mapM Spec.exprOf with
    | some g, some ss =>
      match (Check.tyOfSeq g.reverse ss) with
      | .ok (t, _) => "(ok " ++ t.render ++ ")"
      | .ill => "(ill)"
      | .unsup => "(unsup)"
    | _, _ => "(bad-program)"
  | _ => "(bad-request)"

/-- `tyoff ((x T)*) (S*)` : the same with the function-extended checker model -/
def handleTyOfF (rest : String) : String :=
  match Sexp.parseMany rest with
  | [.list binds, .list stmts] =>
    let g := binds.mapM fun (b : Sexp) => match b with
      | Sexp.list [Sexp.atom x, t] => (Ty.ofSexp t).map fun t => (x, t)
      | _ => none
    match g, stmts.mapM Spec.exprOf with
    | some g, some ss =>
      match (CheckF.tyFProgram g.reverse ss) with
      | .ok t => "(ok " ++ t.render ++ ")"
      | .ill => "(ill)"
      | .unsup => "(unsup)"
    | _, _ => "(bad-program)"
  | _ => "(bad-request)"

/-- `tyofs ((x T)*) (S*)` : the same with the checker model that also knows cells and loops -/
def handleTyOfS (rest : String) : String :=
  match Sexp.parseMany rest with
  | [.list binds, .list stmts] =>
    let g := binds.mapM fun (b : Sexp) => match b with
      | Sexp.list [Sexp.atom x, t] => (Ty.ofSexp t).map fun t => (x, t)
      | _ => none
    match g, stmts.mapM Spec.exprOf with
    | some g, some ss =>
      match (CheckS.tySProgram g.reverse ss) with
      | .ok t => "(ok " ++ t.render ++ ")"
      | .ill => "(ill)"
      | .unsup => "(unsup)"
    | _, _ => "(bad-program)"
  | _ => "(bad-request)"

/-- `tyfold (S*)` : the verdict of the checker model on the program as written, and the type it assigns to the program
    the folding model answers (what the implementation reports: it checks first, folds, and answers the type of the result) -/
def handleTyFold (rest : String) : String :=
  match Sexp.parseMany rest with
  | [.list stmts] =>
    match stmts.mapM Spec.exprOf with
    | some ss =>
      let show1 := fun (r : Check.Res Ty) => match r with
        | .ok t => "(ok " ++ t.render ++ ")"
        | .ill => "(ill)"
        | .unsup => "(unsup)"
      let v0 := show1 (CheckS.tySProgram [] ss)
      match Fold.foldProgram ss with
      | .ok p => "(tyfold " ++ v0 ++ " " ++ show1 (CheckS.tySProgram [] p) ++ ")"
      | .error (.exec e) => "(tyfold " ++ v0 ++ s!" (error {e.name}))"
      | .error (.unsup why) => "(tyfold " ++ v0 ++ " (fold-unsup " ++ Sexp.quote why ++ "))"
    | none => "(bad-program)"
  | _ => "(bad-request)"

/-- `repl <flags> <fuel> (name*) (S*)*` -/
def handleRepl (rest : String) : String :=
  match Sexp.parseMany rest with
  | .atom flags :: .atom fuel :: .list names :: chunks =>
    let names := names.filterMap fun (n : Sexp) => match n with | Sexp.atom a => some a | _ => none
    let cs := chunks.mapM fun (c : Sexp) => match c with
      | Sexp.list ss => ss.mapM Spec.exprOf
      | _ => none
    match cs, fuel.toNat? with
    | some cs, some fuel => Spec.runRepl fuel (flags == "std") names cs
    | _, _ => "(bad-program)"
  | _ => "(bad-request)"

/-- `valdebug (S*)`: run a literal program in Spec and print its value the way the REPL would;
    `valparse "text"`: the value-literal reader -/
def handleVal (line : String) : String :=
  if line.startsWith "valdebug " then
    match Sexp.parseMany ((line.drop 9).trimAscii.toString) with
    | [.list stmts] =>
      match stmts.mapM Spec.exprOf with
      | some ss =>
        match Spec.evalSeq 2000 [[]] ss {} with
        | (.ok (v, _), _) => match ValText.debugVal v with
          | some cs => Sexp.quote (String.ofList cs)
          | none => "(not-modelled)"
        | (.error s, _) => Spec.showSig s
      | none => "(bad-program)"
    | _ => "(bad-request)"
  else
    match Sexp.parseMany ((line.drop 9).trimAscii.toString) with
    | [.str text] =>
      match ValText.parseVal text with
      | some v => "(parsed " ++ Spec.showVal {} 0 v ++ ")"
      | none => "(unparsable)"
    | _ => "(bad-request)"

/-! `conc-all <cells> <init,…> <thread>;<thread>;…` with thread = `cell:op:rhs,…` (or `cell:read`):
    the set of (final cells, per-thread outputs) over ALL interleavings; `conc-seq` the one of
    running the threads one after the other -/
def parseAOp : String → Option Conc.AOp
  | "set" => some .set | "add" => some .add | "sub" => some .sub | "mul" => some .mul | "div" => some .div
  | "mod" => some .mod | "shl" => some .shl | "shr" => some .shr | "band" => some .band | "bor" => some .bor
  | "xor" => some .xor | "pow" => some .pow | _ => none

def parseConcOp (s : String) : Option Conc.Op :=
  match s.splitOn ":" with
  | [c, "read"] => c.toNat?.map Conc.Op.read
  | [c, o, r] =>
    match c.toNat?, parseAOp o, r.toInt? with
    | some c, some o, some r => some (.assign c o (BitVec.ofInt 64 r))
    | _, _, _ => none
  | _ => none

def showOut : Conc.Out → String
  | .ok v => s!"{v.toInt}"
  | .error e => "E:" ++ reprStr e

def showOutcome (o : List I64 × List (List Conc.Out)) : String :=
  "[" ++ ",".intercalate (o.1.map fun v => s!"{v.toInt}") ++ "]/" ++
    "|".intercalate (o.2.map fun t => ",".intercalate (t.map showOut))

def handleConc (all : Bool) (ncells inits threads : String) : String :=
  match ncells.toNat? with
  | none => "(bad-request)"
  | some n =>
    let iv := (inits.splitOn ",").filterMap (·.toInt?)
    let store : Conc.Store := fun k => BitVec.ofInt 64 (iv.getD k 0)
    let progs := (threads.splitOn ";").map fun t =>
      if t.isEmpty then some [] else (t.splitOn ",").mapM parseConcOp
    match progs.mapM id with
    | none => "(bad-request)"
    | some ps =>
      let c := Conc.Cfg.init store ps
      let cells := List.range n
      let total := (ps.map List.length).foldl (· + ·) 0
      if all then
        let outs := (Conc.allRuns cells (total + 1) c).map showOutcome
        let uniq := outs.foldl (fun acc o => if acc.contains o then acc else o :: acc) []
        " ".intercalate (uniq.toArray.qsort (· < ·)).toList
      else
        let sched := (List.range ps.length).flatMap fun i => List.replicate ((ps.getD i []).length) i
        let f := c.run sched
        showOutcome (cells.map f.store, f.threads.map (·.seen.reverse))

def handle (line : String) : String :=
  if line.startsWith "valdebug " || line.startsWith "valparse " then handleVal line else
  if line.startsWith "repl " then handleRepl ((line.drop 5).trimAscii.toString) else
  if line.startsWith "tyfold " then handleTyFold ((line.drop 7).trimAscii.toString) else
  if line.startsWith "fold " then handleFold ((line.drop 5).trimAscii.toString) else
  if line.startsWith "tyofs " then handleTyOfS ((line.drop 6).trimAscii.toString) else
  if line.startsWith "tyoff " then handleTyOfF ((line.drop 6).trimAscii.toString) else
  if line.startsWith "tyof " then handleTyOf ((line.drop 5).trimAscii.toString) else
  if line.startsWith "prog " then handleProg ((line.drop 5).trimAscii.toString) else
  if line.startsWith "ty " then handleTy ((line.drop 3).trimAscii.toString) else
  match line.trimAscii.toString.splitOn " " with
  | "pratt" :: rules => handlePratt rules
  | ["seq-at", n, i] =>
    match n.toNat?, i.toInt? with
    | some n, some i => match Seq.atIdx n i with
      | some k => s!"{k}" | none => "(error IndexOutOfBounds)"
    | _, _ => "(bad-request)"
  | ["seq-slice", n, a, b, c] =>
    match n.toNat?, optInt a, optInt b, optInt c with
    | some n, some a, some b, some c =>
      let m := Seq.sliceIdx n a b c
      let p := Seq.pyIndices n a b c
      showInts m ++ (if m == p then " py=same" else " py=" ++ showInts p)
    | _, _, _, _ => "(bad-request)"
  | ["scalar", op, a, b] =>
    match scalarOp op, a.toInt?, b.toInt? with
    | some o, some x, some y => showScalar (o.interp (BitVec.ofInt 64 x) (BitVec.ofInt 64 y))
    | _, _, _ => "(bad-request)"
  | ["scalar-spec", op, a, b] =>
    match a.toInt?, b.toInt? with
    | some x, some y => specScalar op x y
    | _, _ => "(bad-request)"
  | ["scalar1", op, a] =>
    match a.toInt? with
    | some x =>
      let v := BitVec.ofInt 64 x
      match op with
      | "unary_minus" => s!"(i {(Gen.unary_minus.eval v).toInt})"
      | "not" => s!"(i {(Gen.not.eval v).toInt})"
      | _ => "(bad-op)"
    | none => "(bad-request)"
  | ["conc-all", n, inits, threads] => handleConc true n inits threads
  | ["conc-seq", n, inits, threads] => handleConc false n inits threads
  | ["std1", f, a] =>
    match a.toInt? with
    | some x =>
      let v : I64 := BitVec.ofInt 64 x
      match f with
      | "count_ones" => s!"(i {Std.countOnes v})"
      | "count_zeros" => s!"(i {Std.countZeros v})"
      | "leading_zeroes" => s!"(i {Std.leadingZeros v})"
      | "trailing_zeroes" => s!"(i {Std.trailingZeros v})"
      | "leading_ones" => s!"(i {Std.leadingOnes v})"
      | "trailing_ones" => s!"(i {Std.trailingOnes v})"
      | "swap_bytes" => s!"(i {(Std.swapBytes v).toInt})"
      | "reverse_bits" => s!"(i {(Std.reverseBits v).toInt})"
      | "ilog2" => match Std.ilog v 2#64 with | some r => s!"(i {r})" | none => "unit"
      | "ilog10" => match Std.ilog v 10#64 with | some r => s!"(i {r})" | none => "unit"
      | _ => "(bad-op)"
    | none => "(bad-request)"
  | ["std2", "ilog", a, b] =>
    match a.toInt?, b.toInt? with
    | some x, some y =>
      match Std.ilog (BitVec.ofInt 64 x) (BitVec.ofInt 64 y) with | some r => s!"(i {r})" | none => "unit"
    | _, _ => "(bad-request)"
  | ["std-sig"] =>
    -- declared signature of every export, as the model derives it from the generated tables
    " ".intercalate (Gen.stdExports.map fun e =>
      "(" ++ e.module ++ " " ++ e.name ++ " " ++ (if e.isConst then "const" else "fn") ++ " (" ++
        " ".intercalate (e.params.map fun p => match Std.paramTy p with
          | some t => Ty.render t | none => "?") ++ ") " ++
        (match Std.retTy e with | some t => Ty.render t | none => "?") ++ ")")
  | ["fscalar", op, a, b] =>
    match parseHex a, parseHex b with
    | some x, some y => (floatOp op x y).getD "(bad-op)"
    | _, _ => "(bad-request)"
  | ["scalar1-spec", op, a] =>
    match a.toInt? with
    | some x =>
      match op with
      | "unary_minus" => s!"(i {(-x).bmod (2 ^ 64)})"
      | "not" => s!"(i {-x - 1})"
      | _ => "(bad-op)"
    | none => "(bad-request)"
  | _ => "(bad-request)"

partial def loop (h : IO.FS.Stream) (out : IO.FS.Stream) : IO Unit := do
  let line ← h.getLine
  if line.isEmpty then return ()
  out.putStrLn (handle line)
  loop h out

def main : IO Unit := do
  let out ← IO.getStdout
  loop (← IO.getStdin) out
  out.flush
