#!/usr/bin/env python3
"""Regenerates MANIFEST.json from the table below (kept next to the checks so they cannot drift)."""
import json, os
V = os.path.dirname(os.path.dirname(os.path.abspath(__file__)))
TITLES = {}
for l in open(os.path.join(V, "properties.jsonl")):
    p = json.loads(l); TITLES[p["id"]] = p["title"]

SPEC_NOTE = 'Lean kernel; `Spec` (reference semantics) is hand-written: its agreement with the Rust evaluator is established only by the differential stream, whose generators bound what is seen; theorems are about Spec, not directly about the Rust code.'
CLAIMED = {
 "C08": dict(
  text="Lean 4 theorems over all BitVec-64 operand pairs (wrap of + - * neg, truncating / and %, MIN/-1, exponentiation by "
       "squaring = power mod 2^64 for every non-negative exponent, shift range, bitwise, signed comparisons, exact error "
       "conditions, one semantics on the run-time / folding / compound-assignment paths) stated over operator tables that "
       "translate.py regenerates from the Rust sources on every run; tied additionally by a differential stream "
       "(implementation vs. model vs. big-integer spec) on a boundary grid x 3 syntactic forms. Floats: structural only.",
  note="Lean kernel; axioms {propext, Quot.sound, Classical.choice} at most; translator's token-level recognisers for the "
       "operator files; IEEE-754 behaviour of rustc's f64 and Lean's Float (both the platform double) is assumed, compared bit-for-bit.",
  technique="Lean 4 proof over translated operator tables + differential correspondence", ref="DESIGN.md §6 C08"),
 "C14": dict(
  text="Lean 4 theorems, discharged by kernel `decide` over the complete finite quantifier (all 35^2 ordered pairs AND all 35^3 = 42 875 "
       "ordered triples of binary operators, every prefix x binary, prefix x postfix, binary x postfix combination): the model of pest 2.7.14's Pratt loop "
       "run on the operator table regenerated from parser/src/lib.rs groups each as the 14-level table regenerated from "
       "docs/operators.md prescribes; table = doc table level by level with associativity; grammar alternatives are all in the "
       "table with the right affix; ordered choices never split a multi-character operator; Rule->BinOperator map total, injective, "
       "display = grammar literal. UNBOUNDED (Thm/C14Gen): for an operand / binary-operator chain of ANY length the Pratt loop answers a tree within the fuel `parse` gives it and without reaching one of its panics (parse_chain_total), the tree reads "
       "back as the chain, and at EVERY node `l o r` of the tree an operator at the root of `l` binds tighter than `o` or equally tight on a "
       "left-associative level, one at the root of `r` tighter or equally tight on a right-associative level, and that tree is the ONLY tree of operand leaves and binary nodes over the chain with this property (parse_chain_unique: pc_global turns the node-local condition into one about all operators below a node, pc_unique shows two such trees split the chain at the same operator) (parse_chain_flatten, "
       "parse_chain_grouping: induction over the loop with the invariants `the next operator does not bind tighter than rbp` and `the root binds "
       "tighter than rbp`, for any table whose levels have one associativity - table_uniform discharges that for the regenerated table). "
       "Tied by running the real PRATT_PARSER (tree-building closures) against the model and an "
       "independent doc-table parser on pairs, triples and random operator strings, and by values of unparenthesised expressions.",
  note="Lean kernel; translator readers for the .op(...) chain, the pest grammar, the Markdown table; hand model of pest's "
       "pratt_parser.rs pinned by version + SHA-256 (a dependency bump breaks the tie); the triple theorem takes ~2 min of kernel evaluation when a table changes (cached otherwise).",
  technique="Lean 4 proof (decide over translated operator/doc tables; induction over the Pratt loop for chains of any length) + differential correspondence", ref="DESIGN.md §6 C14"),
 "C09": dict(
  text="Lean 4 theorems for every length, index and optional (start, stop, step) in Int: s[i] succeeds iff -n <= i < n and then "
       "selects position i (mod n), otherwise IndexOutOfBounds; the slyce index algorithm as driven by Slicing::exec only ever "
       "selects valid positions (slicing cannot fail), selects nothing for step 0, and its clamped bounds equal CPython's "
       "PySlice_AdjustIndices bounds for both step signs, and the *list* of positions it selects is exactly CPython's "
       "range(start', stop', step) for every n and every optional start / stop / step (slice_eq_python: slyce's iteration is the "
       "arithmetic progression of CPython's computed length). Tied by a differential stream "
       "over an exhaustive index/triple grid on arrays and multi-byte strings in folded and run-time form, plus std.len.",
  note="Lean kernel; hand model of at.rs and slyce 0.3.1 tied by correspondence only; CPython's slicing is the direct oracle; "
       "`as isize` assumed to be the identity (64-bit target).",
  technique="Lean 4 proof over a hand model of at.rs/slyce + differential correspondence against CPython slicing", ref="DESIGN.md §6 C09"),
 "C10": dict(
  text="Lean 4 theorems over a hand model of Type::matches / == / concat / conjoin (arms in source order, unions as sets, "
       "structs as maps), for all well-formed types, by induction on type size - EVERY clause of the property: matches is "
       "reflexive and transitive (matches_trans, through unions on either side, any, function contravariance, struct width / "
       "depth, cell invariance); ! is least and any greatest; arrays, tuples and struct fields covariant, function parameters "
       "contravariant and results covariant, mut invariant; a union is an upper bound of its members and lies below exactly the "
       "types all its members lie below; the meet used to intersect parameter types (conjoin) is a lower bound of its arguments "
       "and well-formed (meet_lower_bound); the join concat is the least upper bound of its operands and well-formed; == is an "
       "equivalence relation (refl, symm by counting modulo ==, trans), implies matches, and matches respects it; whenever A "
       "matches B every value of A is a value of B (C01.matches_sound, all values). The model is tied to the code by a "
       "differential stream over eq / matches / concat / conjoin and all 20 type queries, evaluated on the member order the "
       "implementation actually had, and the same laws are evaluated on the real Type API for generated pairs and triples.",
  note="Lean kernel; the Ty model is hand-written (tied by correspondence only, ~18k queries per quick run); types outside wf "
       "(built through public constructors that bypass normalisation) are out of scope; nested unions answer `none` in the model's queries.",
  technique="Lean 4 proof of all laws over a hand model of the type algebra + differential correspondence + law oracle", ref="DESIGN.md §6 C10"),
 "C06": dict(
  text="Lean 4 theorems about the reference semantics Spec (an executable big-step evaluator of the whole language in which "
       "expressions cannot return an environment): a name denotes the nearest preceding declaration and declaring one name leaves "
       "all others unchanged; inner frames shadow and are dropped; a function value stores a snapshot that resolves every name "
       "exactly as the environment did at creation (capture by value; cells are locations, so they stay shared); the body of a "
       "callee runs in an environment built only from captured values, its own name and its parameters; a call depends on the "
       "caller's environment only through the values of callee and arguments; blocks, modules, if-set bodies, type arms and for "
       "bodies bind only inside; a module exports exactly the names of its own top frame. The implementation is tied to Spec by "
       "differential execution of ~100 scoping templates (every iterator consumer x colliding names, binder kind x scope kind, "
       "capture/redeclare, returned and passed closures) and seeded type-directed programs, with shrinking.",
  note="Lean kernel; Spec is hand-written: its agreement with the Rust evaluator (two environments, capture by substitution) is "
       "established only by the differential stream, whose generator bounds what is seen; imports are not modelled.",
  technique="Lean 4 proof over a reference semantics + differential program correspondence", ref="DESIGN.md §6 C06"),
 "C07": dict(
  text="Lean 4 theorems about the reference semantics Spec, in which every effect is a transformation of the store threaded through "
       "a state monad: for binary operators (explicit stores: left operand, then right, each once; a failing left operand leaves "
       "the right one unevaluated), && / || short-circuit in both directions, expression lists, struct fields, calls (function, "
       "then arguments), array / tuple / repeat, index, slice (operand then start, stop, step), assignment (target, value, "
       "read-compute-write), reduce, if (only the chosen branch), match (scrutinee once; value candidates left to right until "
       "the first hit; unselected arms not evaluated). LISTS OF ANY LENGTH (Thm/C07Seq): evalList IS the run that evaluates element k "
       "once, in the store element k-1 left (evalList_run and its converse run_of_evalList: the order is THE order, not one possible "
       "order); a failing element ends the list with its failure and nothing after it is evaluated (evalList_stops); the same for struct "
       "fields and statement lists (evalFields_run, evalSeq_run). Tied to the implementation by 152 marker-log templates (every operator "
       "and position, foldable and hidden operands) and marker-dense generated programs compared log-for-log.",
  note=SPEC_NOTE, technique="Lean 4 proof over a reference semantics (one-step order equations; lists, fields and statement lists of any length as runs) + differential marker-log correspondence", ref="DESIGN.md §6 C07"),
 "C11": dict(
  text="Lean 4 theorems about Spec for ANY iterator value, described only by the results of its successive pulls (inductive "
       "relation Pulls, store-changing pulls allowed): `$]` returns exactly the pulled elements in order; `$+ $* $& $|` are "
       "left folds from 0 / 1 / all-ones / 0 (units for the empty sequence); `$&&` / `$||` stop at the first deciding element "
       "(PullsUntil); per-element step equations of `$ init f`, `\\`, `for`; creating `@`, `?`, `? T` pulls and calls nothing. "
       "PIPELINES of any length (Thm/C11Pipe): the closure texts of map.rs and filter.rs run by the reference evaluator - one pull of "
       "`it @ g` is ONE call of the source and, only if it yielded x, ONE call of g on x, in that order, yielding g(x) "
       "(map_pull_some / map_pull_none); one pull of `it ? p` calls source then predicate per element until the first accepted one or "
       "exhaustion and passes the source's tuple on unchanged (filter_pull over FilterLoop, any number of rejected elements); hence for "
       "every run (any effects on the store, threaded in order) the mapped / filtered iterator yields exactly g(x1)..g(xn) / the accepted "
       "xi in order (map_pulls, filter_pulls) and `$]` of it is that array (map_collect, filter_collect); `it ? T` likewise yields exactly the elements "
       "whose run-time type is below T, unchanged and in order (tfilter_pulls, TFLoop.matches); `it $ init g` is foldl of the function the callback "
       "computes and `it \\ p` is (filter q, filter (not q)) in source order, for sources of any length (reduce_fn_spec, reduce_run, partition_spec). "
       "THE ARRAY ITERATOR (Thm/C11Iter): the closure text of iter.rs with its cursor cell - from a cursor holding j-1 the iterator yields a[j], a[j+1], .. to the end, "
       "each once, in order, then exhaustion, for every array shorter than 2^63 (iter_pulls; wrap-around, signed comparison and index normalisation discharged by the C08 "
       "operator theorems); `e~ $]` evaluates to the array e evaluates to (iter_then_collect); end to end, `a~ @ g $]` is map g a and `a~ ? p $]` is filter p a for callbacks computing g / p (iter_map_collect, iter_filter_collect). "
       "PIPELINES OF ANY LENGTH (Thm/C11Chain): an invariant every stage preserves - LL it f xs: called repeatedly, `it` returns the elements of xs in order and then an "
       "end marker - holds of `a~` with a (iter_LL) and is carried through `@ g`, `? p`, `? T` to map h / filter q / filter (type test) of the list (map_LL, filter_LL, tfilter_LL); by "
       "induction over the list of stages, `a~ s1 .. sn` pulls exactly spec_n(..(spec_1 a)) and `.. $]` is that array, for every number and order of stages and callbacks that "
       "compute the named functions without touching the store (pipeline_LL, pipeline_pulls, pipeline_collect); a built-in reducer or `$ init g` over such a pipeline is the fold over the composed list (pipeline_reduce, pipeline_fold; pipeline_partition for the ordered split); at the level of the expression, `e~ @ g $]` evaluates to the array of map h es and `e~ ? p $]` to that of filter q es (iter_map_collect_expr, iter_filter_collect_expr; iter_tfilter_collect_expr for `? T`). "
       "Tied to the implementation by operator pipelines over array-derived and user-written sources with logging callbacks, "
       "compared three ways: implementation, Spec, and an independent Python simulation of list semantics (value and log).",
  note=SPEC_NOTE + " The three closure texts and the array iterator are proved for runs of any length; pipelines of any length are proved for store-independent callbacks (pipeline_collect); with effectful callbacks they are composed step by step (call-level theorems).",
  technique="Lean 4 proof over a reference semantics (consumers as folds of any pull sequence; the array iterator enumerates its array; map, filter and type-filter closures yield the mapped / accepted elements for runs of any length; reduce and partition as list functions) + differential pipelines + list-semantics oracle", ref="DESIGN.md §6 C11"),
 "C12": dict(
  text="Lean 4 theorems about Spec: a function call never lets break / continue / return escape (all other signals pass), turns "
       "`return v` of its body into its value and falling off the end into (); loop bodies catch break / continue and propagate "
       "return; a loop never lets break / continue out and evaluates to () (induction on fuel); if / if-set / while-set select by "
       "the condition / the run-time type; match arms are tried top to bottom (type arm by run-time tag, value arm by equality, "
       "other arm), an uncovered match is `wrong`; blocks evaluate to their last statement; and over the model of "
       "Match::is_covering_type / MatchArm::covers: a match the checker accepts always has an arm for the value it meets "
       "(coverage_sound: if the arms cover the static type T, then for every run-time type R below T some arm's run-time test "
       "succeeds - through unions member by member and, for type arms, by transitivity of matches). LOOPS OF ANY NUMBER OF ITERATIONS "
       "(Thm/C12Loops): `while`, `while x: T = e` and `loop` are their runs - condition / type test before every iteration in the store the "
       "previous one left, the body exactly while it holds, the end at the first false condition or `break`, value () (while_run, "
       "whileSet_run, loop_run, with the iteration count in the statement); a return / error in iteration n+1 leaves the loop with that signal "
       "after n complete iterations (while_escapes); `for` likewise (C11.for_run). MATCH WITH ANY NUMBER OF ARMS: the arms before the first covering one "
       "are tried top to bottom - a type arm that does not match is skipped without evaluating anything, a value arm evaluates all its candidates left to "
       "right - and the first covering arm's body runs (with the binder in its own frame); the candidates after the first equal one and all later arms are "
       "never evaluated (arms_skipped, match_first_type_arm / _value_arm / _other_arm, cand_hit, cand_miss). Tied to the implementation by 248 "
       "systematic templates (4 loops x 7 enclosing constructs x 3 signals, nested loops, all arm orders, 13 array-tag provenances).",
  note=SPEC_NOTE, technique="Lean 4 proof over a reference semantics (signal containment, selection, coverage; loops of any number of iterations and matches of any number of arms as runs) + differential control-flow templates", ref="DESIGN.md §6 C12"),
 "C13": dict(
  text="Lean 4 theorems about the store of Spec: `mut` allocates a location different from all existing ones holding the initial "
       "value and changes no other cell; read-after-write, writes leave other locations unchanged; `*` reads the location whatever "
       "copy of the cell value is used; `c = v` stores and yields v; `c op= v` reads the content after v was evaluated, stores and "
       "yields the result, and leaves the cell unchanged when op fails; the 11 compound operators are their base operators. HISTORIES "
       "(Thm/C13Hist): the store driven by `mut` / writes through any copies refines the abstract map location -> last value written, for "
       "every operation sequence (run_refines); a read through any copy returns the last value written through any copy, or the initial "
       "one (read_last_write); writes never change the number of cells, `mut` never reuses a location (run_size, alloc_fresh). Tied to "
       "the implementation by random assignment/read histories over aliasing graphs (arrays, structs, tuples, closures, cells of "
       "cells, parameters; unions and any) compared with Spec, plus a recursive content-in-declared-type walk over the result. "
       "TYPED CONTENT (Thm/C01StD, shared with C01): for every program the checker model with cells and loops (Model/CheckS: `mut T e`, `*c`, "
       "`c = v`, all eleven `c op= v`, cells passed to and captured by functions, loops) types, every store the evaluation passes "
       "through respects a store typing - cells_keep_their_types: after any typed expression, each cell holds a value of its "
       "declared type by tag and by contents (induction on fuel over the whole evaluator, the store typing only ever extended).",
  note=SPEC_NOTE + " The typed-content invariant is proved for the checker-model fragment (declared content types, non-union cell operands; cells in structs and inferred `mut e` are outside it) and checked beyond it by the harness walk and the monitor.",
  technique="Lean 4 proof over a reference semantics (store lemmas; refinement of the store to the last-write map for every history; typed content) + differential assignment histories", ref="DESIGN.md §6 C13"),
 "C19": dict(
  text="Lean 4 theorems about Spec.veq (total model of PartialEq for Variable) and F64.feq (IEEE equality defined on bit patterns): "
       "values of different kinds are unequal; bool/int/string/() by value; floats by IEEE equality (symmetric, reflexive "
       "except NaN, NaN unequal to everything, +0 == -0); arrays and tuples element-wise, independent of the stored element "
       "type (whatever the provenance); structs as maps; functions and cells by identity; != is the negation of ==; == is "
       "reflexive on values without NaN (induction on value size) and SYMMETRIC on all values whose structs have distinct keys "
       "(veq_symm; maps by a pigeonhole argument on the key lists; for struct-free left operands no hypothesis is needed). Tied to the implementation by value pairs built along 12 provenance "
       "paths and viewed through exact / any static types, ==, != and match value arms, compared with Spec and with content "
       "equality computed in Python.",
  note=SPEC_NOTE, technique="Lean 4 proof over a total model of value equality + differential provenance pairs + content-equality oracle", ref="DESIGN.md §6 C19"),
 "C01": dict(
  text="Lean 4 theorems (stage 1 of the soundness proof): value-in-type membership by contents (hasTy) for the whole type "
       "language; soundness of the subtype relation — if A matches B every value of A is a value of B, for ALL values incl. "
       "functions and cells nested anywhere and all well-formed A, B (matches_sound: induction on type size through all arms of "
       "Type::matches, unions on both sides, struct width/depth, tuples, arrays; functions by transitivity of matches, cells by "
       "transitivity of ==; also without any well-formedness hypothesis for first-order cell-free values); "
       "union / array membership; every integer arm regenerated from the sources yields an int, comparisons a bool, float and "
       "string operators their kind; indexing yields a member of the element type. STAGE 2 (Thm/C01Eval), the evaluator-level "
       "statement for the FIRST-ORDER EXPRESSION FRAGMENT: a model of the checker (Model/Check: the admissibility tests and "
       "return_type of literals, variables, array / tuple literals, prefix ! and -, && / ||, all 17 scalar binary operators, "
       "indexing, slicing and tuple access on non-union operands, `[v; n]`, if / else, `if x: T = e` with its else branch, `match` with type, value "
       "and default arms and the coverage test, blocks, `:=` with shadowing) and the theorem eval_sound / "
       "program_sound: whenever the model types an expression or statement list, EVERY value the reference evaluator produces for "
       "it - any fuel, any store, any environment respecting the static types - has a run-time TAG below that type (Type::matches: "
       "what `match` and `if x: T = e` test at run time) and inhabits it BY CONTENTS (mutual induction on fuel over expressions, "
       "lists, statements, sequences and match arms, carrying the invariant that stored array tags are well-formed and lie "
       "above their elements' tags; unions through concat's upper-bound / least laws, transitivity of matches and matches_sound). "
       "The checker model is tied to the implementation by its own stream: 3000 generated fragment programs per quick run over "
       "16 opaque free variables (`p := *(mut T v)`, so nothing folds; control flow hoisted into statement positions, where the grammar has it), "
       "half of them ill-typed, a third with match / if-set - same verdict and == static type. STAGE 3 (Thm/C01Fn) adds FUNCTIONS: the model Model/CheckF (anonymous functions, declarations "
       "recursive through their own name, calls on operands of a function type with the argument test, `return` with the "
       "WrongReturn and MissingReturn rules; its own correspondence stream of 2500 programs with functions) and ONE theorem "
       "for soundness, return typing and progress - eval_outcome / program_outcome: the evaluator ends in a value whose tag "
       "lies below the static type (hence in the type by contents), a documented error, fuel exhaustion, or a `return` of a "
       "value of the enclosing function's result type; never `wrong`, never an escaping break / continue. The value invariant "
       "is an inductive predicate under which a function value is good when the model accepted its body in some static "
       "environment its captured values respect; calls use contravariance of matches on parameters, the callee environment "
       "lemma, and the fact that a statement of type `!` yields no value (so a body falls off its end only when () is a result). "
       "STAGE 4 (Thm/C01StA..D) adds MUTABLE CELLS AND LOOPS: the model Model/CheckS (`mut T e`, `*c`, `c = v`, the eleven `c op= v`, "
       "`loop`, `while`, `while x: T = e`, `break` / `continue` only inside a loop body and never across a function boundary; stream of 2500 "
       "programs with cells, loops, for, destructuring and union-typed operands) and the outcome theorem over a STORE TYPING: from any store that respects a store typing S, a typed "
       "expression ends with a store that respects an extension of S and a value of its type (by tag and by contents), or in a documented error, "
       "fuel, a well-typed `return`, or - inside a loop body only - break / continue (eval_outcome); every cell of the final store holds a value "
       "of the cell's declared type (cells_keep_their_types); whole programs from the empty store (program_outcome). The proof uses that cell "
       "types are invariant under matches, so a cell reached at static type `mut c` has a declared type == c. "
       "STAGES 5-6 add `for x in it body` over iterators `() -> (bool, T)`, tuple destructuring, and the operators on operands of a UNION "
       "type through the implementation's type queries: `u[i]` (index_result), `u.N` (tuple_element_at), `*u` (mut_element_type), `u(args)` "
       "(arguments against params(), result return_type()), `u = v` (mut_assign_type), `(a, b) := u` (tuple_len, flatten_tuple), slices of unions of indexable types, `it $]` (collecting a "
       "hand-written iterator), struct literals (a repeated field name keeps its last initialiser) and field access, also on unions of struct "
       "types (Thm/C01StS: the literal's value tag matches its type field by field; a value of a struct type has every field the type demands). "
       "Thm/C01StU proves, for unions of any number of members, "
       "that a join-folded query answers above every member's answer and the meet-folded params() / mut_assign_type() below every member's, and "
       "that a good value of a union type is a value of one member; each union case of the outcome theorem reduces to the member's case. "
       "Outside the fragment (the built-in iterator operators - blocked by the open finding F14 -, modules, inferred `mut e`, compound assignment on unions) the "
       "evaluator-level statement is NOT proved: for the "
       "running code it is decided by the in-crate monitor (feature `verif`), which judges the result of every executed "
       "instruction (~140k per quick run) against that instruction's own return_type() by tag and by contents, on generated "
       "programs, iterator pipelines pulled past exhaustion and host calls; the Spec correspondence runs on the same programs. COMPOSED TIE (stream fold-types): on 1200 generated programs per quick run that are FULL of constants, the static type the implementation reports (it checks the program as written, folds it, and answers the type of the result) equals the type the checker model assigns to the program the FOLDING model (Model/Fold, proved semantics-preserving in Thm/C04Fold) answers, and the verdicts on the program as written agree; this carries the checker-model tie from constant-free programs to programs with constants and closes the chain implementation type = tyS (fold p), value = Spec p = Spec (fold p), which lies in tyS (fold p) - the last two steps are the theorem folded_program_sound (Thm/C01Fold: foldProgram_correct composed with program_outcome).",
  note="Lean kernel; stage-1 theorems are about the hand models Ty / Val.hasTy / Spec.binScalar (tied by the type, scalar and prog "
       "streams); functions and cells are outside matches_sound_partial; the monitor is code added to /repo under the guard and "
       "exempts the three placeholder-typed helper closures (MAP, FILTER, ITER bodies).",
  technique="Lean 4 proof (value typing, subtype soundness, evaluator-level soundness of a checker model for expressions, functions, mutable cells and loops) + checker-model correspondence + in-crate soundness monitor on generated programs", ref="DESIGN.md §6 C01"),
 "C02": dict(
  text="Lean 4 theorems about Spec, where everything the implementation can only answer with a panic is the outcome `wrong`: on "
       "the operand kinds the checker admits, no binary / prefix operator, index or slice is `wrong` (only the documented errors); "
       "break / continue / return never escape a call, loops never let break / continue out; the error enumeration equals the "
       "variants of ExecError in the source. STAGE 2 (Thm/C02Eval), PROGRESS FOR THE FIRST-ORDER FRAGMENT: for every expression / "
       "statement list the checker model (Model/Check, tied to the implementation by C01's fragment-types stream) types - "
       "literals, variables, arrays, tuples, prefix and all scalar binary operators, && / ||, index, slices, `[v; n]`, tuple access, if / else, "
       "`if x: T = e`, match, blocks, `:=` - the reference evaluator never reaches `wrong`, whatever the fuel, the store and the "
       "type-respecting environment (eval_not_wrong / program_not_wrong: mutual induction on fuel, using the evaluator-level "
       "soundness theorem for the operands' kinds and, for match, coverage_sound: an accepted match has an arm whose run-time test "
       "succeeds on the scrutinee's tag). STAGE 3 (Thm/C01Fn, shared with C01) extends this to FUNCTIONS - declarations, recursion, "
       "calls, `return`: eval_outcome states that a typed program ends in a value of its type, a documented error, fuel "
       "exhaustion or a well-typed `return`, and NOTHING else: no `wrong` (no panic), no break / continue escaping a function. "
       "STAGE 4 (Thm/C01StD, shared with C01) extends it to MUTABLE CELLS AND LOOPS over a store typing (program_outcome): no read or write of "
       "a cell that does not exist, no assignment to a non-cell, no compound assignment whose operator meets operands of the wrong kind, no "
       "break / continue outside a loop - a typed program ends in a value of its type, a documented error or fuel exhaustion; with `for` over "
       "hand-written iterators, tuple destructuring, and index / tuple access / `*` / call / `=` on operands of union types (no call of a "
       "non-function, no index into a non-indexable member, no store of a value the selected cell does not admit). "
       "Progress outside the fragment (built-in iterator operators, modules) is NOT "
       "proved: for the running code it is decided "
       "by panic hook + catch_unwind + worker exit status on generated programs, scoping / control-flow templates, iterator "
       "pipelines, assignment histories and host calls (admissible vectors must run, inadmissible ones must be rejected).",
  note="Lean kernel; Spec is hand-written (tied by the prog stream); resource exhaustion is outside the claim and ends runs as "
       "`inconclusive` through the fuel hook; panics inside third-party crates are observed, not modelled (except slyce's index conversion).",
  technique="Lean 4 proof (no-wrong lemmas, signal containment, progress of the fragment with functions, cells and loops incl. match coverage) + panic oracle on generated programs and host calls", ref="DESIGN.md §6 C02"),
 "C04": dict(
  text="Lean 4, in two layers. (1) A MODEL OF THE FOLDING PASS (Model/Fold: `Recreate` of every instruction kind of the fragment, the "
       "`create_from_instructions*` rules, and the creation-time rules it depends on - constant statements dropped inside blocks, `while` "
       "on a constant condition, names that were constants when the tree was first built) working on the surface syntax, and the theorem "
       "foldProgram_correct / fold_correct (Thm/C04Fold): whenever the model answers a folded program, then in every environment that agrees "
       "with the constants the pass recorded, for every store and every amount of fuel, an evaluation of the ORIGINAL program under the "
       "reference semantics `Spec` that does not run out of fuel ends exactly as the FOLDED program does with enough fuel - same value and "
       "final environment or same error / signal, same store. Covered: literals, names (constant propagation through `:=` and tuple "
       "destructuring, scopes of blocks, if-set and match binders), array / tuple / struct literals, `[v; n]`, mut, all prefix and binary "
       "operators (two constants folded through the operator's own exec, `&&` / `||` with a constant left side), assignment operators, "
       "indexing (constant index into a constant or partly constant literal), slices, tuple and field access, calls, the iterator "
       "operators, if / else (pruned on a constant condition), if-set, match, blocks (dropping of non-last constant statements), loop, "
       "`while` (constant true / false conditions; the general form `loop { if c body else break }` for conditions that are expression "
       "forms), break / continue / return. The proof rests on the fuel monotonicity of Spec (Lemmas/Mono: all twenty mutually recursive "
       "evaluator functions), on a simulation-up-to-fuel calculus (Lemmas/FoldSim) and on the fact that condition expressions never end in "
       "break / continue (Lemmas/NoCtl). foldBin_error_justified / foldAt_error_justified: an ExecError the model reports at parse time is the "
       "operator's own answer on the constant operands, or its answer for EVERY int left operand / every array of that length; foldProgram_error_source: these rules (plus the negative constant length of `[v; n]`) are the ONLY source of parse-time errors of a whole program, whatever its shape. NOT covered by the theorem: "
       "function literals and declarations (modelled and tied, not proved: the folded program's closures have other bodies, a value relation would be needed; the pass "
       "run again at closure creation is the open finding F07, stated as a witness: f07_fold_at_creation_reports_an_error), modules, `a[:]`, "
       "constants that are arrays built by an operator. `for` and `while x: T = e` are covered. (2) The rule-level theorems of Thm/C04 (each rewrite rule is a Spec equivalence). "
       "TIE: stream `fold-model` - the implementation's folded instruction trees (hook Code::verif_dump) against the model's answer, and the "
       "parse-time ExecErrors, on 1500 generated programs per quick run mixing constants and run-time values plus the first-order "
       "templates; a disagreement is handed to the twin execution as a candidate failing input. For the running code: twin execution of each "
       "program next to two constant-hidden variants (identity call, read of a fresh cell); a parse-time error must be justified by an "
       "always-failing constant operation found by an independent constant evaluator.",
  note=SPEC_NOTE + " The folding model is hand-written; it is tied to the code by the fold-model stream (generator: tools/gen/foldgen.py; "
       "converter of the Debug dump: tools/folddump.py) - what the generator does not reach (functions, modules, for, while-set) is seen by the twin oracle only.",
  technique="Lean 4 proof (semantics preservation of a model of the folding pass, by simulation up to fuel over the reference evaluator) + model-vs-implementation correspondence on folded instruction trees + twin-program execution", ref="DESIGN.md §6 C04, §12.9"),
 "C17": dict(
  text="Lean 4 theorem about Spec: for every split xs ++ ys of a statement list, the batch run equals running xs and then ys in the "
       "environment and store xs left (induction on xs; fuel spelled out exactly as the batch run spends it), i.e. REPL = batch at "
       "every boundary; evaluation is a function of program, environment and store; a host call admits an argument vector exactly "
       "when the in-language call on those constants does. Oracles on the real API: every split of generated statement sequences "
       "through Code::parse + exec_unscoped on one interpreter vs. one batch parse of each prefix (last result and all top-level "
       "values at each boundary); interpreter bindings before / after exec and three executions of one Code; "
       "Function::create_call vs. the in-language call (admissibility and result).",
  note=SPEC_NOTE + " The incremental route may accept more programs (it sees values): only boundaries where both routes complete are compared.",
  technique="Lean 4 proof (batch = incremental for every split) + REPL/batch, re-exec and host-call oracles", ref="DESIGN.md §6 C17"),
 "C05": dict(
  text="Lean 4 theorems over the Ty model, where the order of a union's member list / a struct's field list stands for the hash "
       "iteration order of one instance: == gives `true` between a well-formed union (struct) and every permutation of it; "
       "matches is invariant under permutation of union members on either side; equal unions / structs have equal sizes and key "
       "sets (what their Hash implementations feed to the hasher); the all-based queries are order independent; the queries that "
       "join the members' answers with concat (index_result, element_type, return_type, mut_element_type, field_type) give, "
       "for every order of the members, no answer in both orders or answers that match each other both ways (from concat being a "
       "least upper bound). params / flatten_tuple and program-level determinism are NOT proved: for the running code they are "
       "decided by repetition - K+1 fresh parses per type (pairwise ==, matches, one HashSet entry, mut-wrapped match, the 13 "
       "static queries structurally equal; 32 three-member subsumption families) and K parse+run repetitions of each "
       "program in one process plus two more processes, outcomes canonicalised, on 8 hash-order-sensitive program families "
       "and general generated programs; the error VALUES of K+3 parses of one rejected text are compared pairwise with == "
       "(errors embed types). PROGRAM LEVEL (Thm/C05Fuel): the reference semantics assigns a program at most one outcome whatever fuel it is run with - two completed runs of a statement list, an expression or a call with different amounts of fuel end in the same value, environment, error or signal and store (program_outcome_unique, from the fuel monotonicity of all twenty evaluator functions), so the fixed fuel of the correspondence streams cannot change a verdict other than to `inconclusive`.",
  note="Lean kernel; the Ty model is hand-written (tied by the C10 type stream); only hash order is addressed as a source of nondeterminism "
       "(the language has no clock / random source besides std I/O); repetition samples hash seeds, it does not enumerate them.",
  technique="Lean 4 proof (permutation invariance of the type algebra) + repetition oracle in and across processes", ref="DESIGN.md §6 C05"),
 "C15": dict(
  text="Lean 4 model of Display for Type (token printer on the given member order + renderer) and of the grammar's type rules "
       "(lexer + recursive-descent parser building unions with concat). Proved: unions are parenthesised exactly as function "
       "results and as mut contents and printed bare as array elements, parameters and struct fields; `[]` <-> array of `!`; "
       "separators; and THE ROUND TRIP FOR ALL TYPES, on tokens (roundtrip_tokens) and on TEXT (roundtrip_text: parse (print t) = t, "
       "lexer included): for every well-formed printable type t "
       "(any nesting of the thirteen constructors; tuples with >= 2 components, struct keys not reserved words) the parser run on the "
       "printer's tokens for t, followed by anything not starting with `->` or `|`, returns exactly t and that remainder - through the "
       "grammar's ordered choices (function type before `()` before tuple; a parenthesised union is not a standard type) and concat's "
       "rebuilding of unions (which needs == symmetric: eqv_symm); the character level is lex_render (lexing the rendered text "
       "gives the printed tokens back: two words never meet except after `mut`, which is printed with a space; struct keys are "
       "identifiers) and size_le_toks (the fuel the parser takes from the token count suffices). The text route is checked in both directions between model and implementation on generated types - the "
       "implementation's prints (several hash orders) read by the model parser, the model's print checked on each instance's own "
       "order and its shuffled-order prints read by the implementation - plus the implementation's own oracle "
       "from_str(to_string(t)) == t and the internal re-parse path of `it ? T`.",
  note="Lean kernel; printer / parser models are hand-written (tied by the two-way correspondence); 0- and 1-tuples have no syntax; the model "
       "lexer rejects characters outside the printed alphabet where the scannerless grammar would stop (only printed types are compared).",
  technique="Lean 4 proof of the print/parse round trip for all types (tokens and text) + two-way print/parse text correspondence", ref="DESIGN.md §6 C15"),
 "C20": dict(
  text="Lean 4 theorems over the model of parse_int_with_radix and of the `{:?}` / unescaper 0.1.5 pair: an integer literal in any of "
       "the four radixes denotes its positional value when that is <= 2^63 - 1 (<= 2^63 behind a minus sign, so MIN_INT reads back) "
       "and is rejected otherwise, whatever underscores it contains (with boundary instances); each escape the printer emits for "
       "the modelled (ASCII) class is read back as the character it stands for, checked exhaustively over all 128 code points with "
       "digit / letter / empty continuations (kernel `decide`), and every ASCII STRING is read back from its escaped form "
       "(ascii_string_roundtrip: unescape (escape s) = s by induction, with a per-character lemma for an arbitrary remaining text); and THE "
       "ROUND TRIP OF WHOLE VALUES (value_roundtrip / literal_value_roundtrip): for every value built from bool, int (MIN and MAX "
       "included: the decimal text Lean's / Rust's integer printer emits is read back digit by digit), ASCII strings, () and any nesting of arrays "
       "and tuples (>= 2 components), the model of Variable::from_str run on the model of the `{:?}` text returns the value as a "
       "literal builds it (each array's stored element type recomputed from its elements - norm, a projection) - by induction on the "
       "value, through the reader's ordered alternatives, its white-space skipping, `, ` separators and fuel. NOT proved: floats "
       "(opaque tokens), non-ASCII characters and the program route (the text run through Code::parse). All of it is also checked "
       "on generated values in both directions between model and implementation - the implementation's debug text vs. the model "
       "printer, the text read by Variable::from_str vs. the model reader and run as a program (bit-exact, -0.0 included) - and integer "
       "literal forms are compared with their mathematical value computed in Python.",
  note="Lean kernel; float text is an opaque token (Rust's guarantee that `{:?}` of a finite f64 re-parses to the same value is assumed and "
       "sampled); characters outside ASCII are covered by the oracle only (Rust's grapheme-extend / printable tables are not modelled); "
       "structs are outside the property.",
  technique="Lean 4 proof (integer literals, escapes, print/read round trip of all float-free ASCII values) + two-way text correspondence + literal-value oracle", ref="DESIGN.md §6 C20"),
 "C18": dict(
  text="Lean 4 theorems over the export table and the TypeOf table, both regenerated from src/stdlib.rs, src/stdlib/*.rs and "
       "src/variable/type_of.rs on every run: for every exported function whose result type is derived from its Rust return type, every Rust "
       "value of that type converts (From<_> for Variable) to a SimpleSL value inhabiting the declared result type; every value of a "
       "declared parameter type is accepted by the TryFrom<&Variable> conversion the generated wrapper unwraps, and [int] arrays hold "
       "ints (so the unwraps of the argument import cannot fail); count_ones + count_zeros = 64, leading/trailing counts are bounded and "
       "locate the first set bit, leading_zeros = 64 iff 0, reverse_bits and swap_bytes are involutions, ilog is the floor logarithm, is () "
       "exactly for num <= 0 or base < 2, and fits its u32. NOT proved: what the Rust bodies of string, float, fs and io functions compute - "
       "these are judged on generated calls (host API and programs): declared signature of the real `std` value = the model's, no panic / "
       "error, result inside the declared type (tag and contents), integer helpers = Lean model, string / conversion / exact float helpers and "
       "constants = an oracle written from docs/stdlib.md, print output, cgetline on prepared stdin states, fs post-conditions on fresh trees "
       "and device faults.",
  note="Lean kernel; the translator's reading of #[export] items and of `impl TypeOf` (fails closed on anything it cannot read); Rust std, libm "
       "and the operating system are not modelled; the three #[return_type] overrides (split, chars, bytes) are claims about Rust bodies "
       "and are covered by the call stream only.",
  technique="Lean 4 proof over regenerated signature tables and integer helpers + call correspondence with doc oracle and fs/stdin fault states", ref="DESIGN.md §6 C18"),
 "C16": dict(
  text="Lean 4 theorems over a model in which every assignment (plain and each compound op=) is ONE atomic step on the store, as "
       "assign::exec / try_exec perform it under a single write guard: for ALL schedules - every complete run applies a permutation of all "
       "threads' operations, each exactly once (final_store_of_complete_run); when the operations commute pairwise the final store is "
       "the same for every schedule and equals running the threads one after another (schedule_independent; += -= *= &= |= ^= commute "
       "with themselves, += with -=, operations on different cells always; += and *= proved NOT to commute); N concurrent `c += d` add "
       "exactly the sum (increments_exact); a thread whose cells no other thread touches sees under every schedule exactly what it sees "
       "alone, errors included (private_thread_sequential); in the refinement with explicit acquire / release steps every reachable "
       "unfinished configuration has an enabled thread (no_deadlock). The atomic-step assumption is tied to the source on every run: "
       "Gen.LockShape (regenerated: both assign functions take one write guard and read and store through it; the complete list of "
       "lock acquisitions, lock-like calls and unsafe blocks of the crate) and Gen.assignTable are fixed by theorems lock_shape and "
       "assign_table. Real threads sample the implementation: counters (final value and returned values vs. model / closed form), "
       "mixed operators on shared cells (every observed outcome must be in the model's set over all interleavings), private cells, "
       "one parsed Code run from 8 threads, with a deadlock watchdog.",
  note="Lean kernel; Rust's RwLock / Arc / thread primitives and the OS scheduler are trusted (the implementation's schedules are sampled "
       "under a start barrier on 16 cores, not enumerated); the translator's reading of assign.rs; memory safety is rustc's (no unsafe in the "
       "crate, checked by Gen.LockShape).",
  technique="Lean 4 proof over an atomic-step concurrency model + lock-shape translator + real-thread correspondence against all interleavings of the model", ref="DESIGN.md §6 C16"),
 "C03": dict(
  text="Lean 4 theorems, for ALL well-formed types of the type model (whose agreement with src/variable/type.rs is checked by C10's "
       "correspondence): every static query the checker unwraps after an admissibility test answers - return_type after is_function, "
       "mut_element_type and mut_assign_type after is_mut, min_tuple_len after is_tuple, flatten_tuple (of the right length) whenever "
       "tuple_len answers, field_type after has_field, index_result after can_be_indexed on every type other than never; the never "
       "type is proved to pass the matches-based tests while the queries answer None on it (the defect recorded as F22/F23, found at "
       "exactly the point this hypothesis excludes); iterator shapes the reductions accept have an element type. Over the regenerated "
       "grammar and the regenerated list of `Rule::x` mentions in the crate: every rule the walking code matches on is a non-silent rule "
       "(a silent rule never produces a pair, so an arm on it is dead), start rules exist, the grammar is closed. NOT proved: that no other "
       "unwrap / unreachable / index in parser glue, instruction construction and folding can fire - searched on the implementation with "
       "catch_unwind around Code::parse (+ return_type), Variable::from_str and Type::from_str: operator x operand-type matrix over 45 "
       "types (all 34 binary operators, ~100 templates), the same over literals (folding) and failing folds in 30 positions, exhaustive "
       "short token sequences, random text, mutations of valid programs, doc constructs incl. imports of 14 file states.",
  note="Lean kernel; pest and unescaper are trusted; the translator's reading of the grammar and of Rule:: mentions; inputs that exhaust "
       "stack or memory are outside the property (allocation-size panics on `[x; MAX_INT]` are counted, not reported).",
  technique="Lean 4 proof of guarded-query totality over the type model and of grammar / walker consistency + exhaustive and generated no-panic search on the three parse entry points", ref="DESIGN.md §6 C03"),
}
NOT_YET = "machinery for this property is not built yet in this round (planned, see DESIGN.md §6)"

import subprocess
def _hook_commits():
    out = subprocess.run(["git", "-C", "/repo", "log", "--reverse", "--format=%H %s"], capture_output=True, text=True).stdout
    return [l.split()[0] for l in out.splitlines() if " verif:" in l]
HOOK_COMMITS = _hook_commits()

def main():
    checks = []
    for pid, c in sorted(CLAIMED.items()):
        checks.append(dict(
            property_id=pid,
            quick_cmd="python3 tools/check.py %s --tier quick" % pid,
            thorough_cmd="python3 tools/check.py %s --tier thorough" % pid,
            evidence_file="/verif/evidence/%s.json" % pid,
            replay_cmd_template="python3 tools/check.py %s --replay {path}" % pid,
            engine="lean4-model+correspondence",
            level_claimed=dict(category="proof", text=c["text"], design_ref=c["ref"]),
            level_note=c["note"], technique=c["technique"]))
    na = [dict(property_id=p, reason=NOT_YET) for p in sorted(TITLES) if p not in CLAIMED]
    m = dict(
        version=1,
        setup_cmd="python3 tools/setup.py",
        hooks=dict(guard="cargo feature `verif`", enable="harness/Cargo.toml depends on /repo with features = [\"verif\"]: src/verif.rs (type-soundness monitor after every Instruction::exec, fuel in Loop::exec / Function::exec, helper-closure marks in map.rs/filter.rs/iter.rs); src/code.rs Code::verif_dump (Debug form of the folded instruction trees, read by the fold-model stream of C04)",
                   baseline_off_cmd="cd /repo && cargo test --workspace --no-fail-fast --offline",
                   source_commits=HOOK_COMMITS, add_only=True),
        engines=[dict(name="lean4-model+correspondence", path="/verif/lean, /verif/harness, /verif/tools",
                      serves_properties=sorted(CLAIMED),
                      kind_free_text="Lean 4 model + theorems (lake build, #print axioms audit), source->Lean translator for table-like code, Rust harness / Lean driver differential correspondence")],
        checks=checks, not_applicable=na,
        notes="Fix commits in /repo and open findings are listed in /verif/known_findings.json; see DESIGN.md.")
    json.dump(m, open(os.path.join(V, "MANIFEST.json"), "w"), indent=1)
    print("MANIFEST.json: %d claimed, %d not claimed" % (len(checks), len(na)))

if __name__ == "__main__":
    main()
