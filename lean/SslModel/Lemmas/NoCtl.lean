import SslModel.Lemmas.FoldSim
import SslModel.Thm.C12
/-!
  Expressions of the forms the grammar allows as a `while` condition never end in `break` or
  `continue` (those signals come from statements only; calls contain them): `noCtl_all`.
-/
set_option linter.unusedSimpArgs false
set_option linter.unusedVariables false
namespace Ssl.Fold
open Ssl Ssl.Spec

def isCtl : Sig → Bool
  | .brk | .cont => true
  | _ => false

def NoCtl {α} (m : M α) : Prop := ∀ σ s σ', m σ = (.error s, σ') → isCtl s = false

theorem NoCtl.pure {α} (a : α) : NoCtl (pure a : M α) := by
  intro σ s σ' h; cases h

theorem NoCtl.throw {α} (s : Sig) (h : isCtl s = false) : NoCtl (throwS s : M α) := by
  intro σ s' σ' hm; cases hm; exact h

theorem NoCtl.wrong {α} (w : String) : NoCtl (Spec.wrong w : M α) := NoCtl.throw _ rfl

theorem NoCtl.bind {α β} {m : M α} {k : α → M β} (h : NoCtl m) (hk : ∀ a, NoCtl (k a)) : NoCtl (m >>= k) := by
  intro σ s σ' hm
  rw [bindM_def] at hm
  cases hr : m σ with
  | mk r σ1 =>
    rw [hr] at hm
    cases r with
    | error e => cases hm; exact h σ _ _ hr
    | ok a => exact hk a σ1 s σ' hm

theorem NoCtl.liftE {α} (r : Except Sig α) (h : ∀ s, r = .error s → isCtl s = false) : NoCtl (liftE r) := by
  intro σ s σ' hm
  cases r with
  | ok a => cases hm
  | error e => cases hm; exact h _ rfl

theorem ofScalar_noCtl (r : Except ExecErr Scalar) (s : Sig) (h : ofScalar r = .error s) : isCtl s = false := by
  unfold ofScalar at h
  split at h <;> first | (cases h; done) | (cases h; rfl)

theorem binScalar_noCtl (op : BinOp) (x y : Val) (s : Sig) (h : binScalar op x y = .error s) : isCtl s = false := by
  unfold binScalar at h
  split at h <;> first
    | exact ofScalar_noCtl _ _ h
    | (cases h; done)
    | (cases h; rfl)

theorem preScalar_noCtl (op : PreOp) (x : Val) (s : Sig) (h : preScalar op x = .error s) : isCtl s = false := by
  unfold preScalar at h
  split at h <;> first | (cases h; done) | (cases h; rfl)

theorem atVal_noCtl (x y : Val) (s : Sig) (h : atVal x y = .error s) : isCtl s = false := by
  unfold atVal at h
  repeat' (first | (cases h; done) | (cases h; rfl) | split at h | (dsimp only at h))

theorem asBool_noCtl (x : Val) (s : Sig) (h : asBool x = .error s) : isCtl s = false := by
  unfold asBool at h
  split at h <;> first | (cases h; done) | (cases h; rfl)

theorem callFn_noCtl (f : Nat) (fv : Val) (args : List Val) : NoCtl (callFn f fv args) := by
  intro σ s σ' h
  have := C12.call_contains_signals f fv args σ σ' s h
  cases s <;> simp [C12.isEscape] at this <;> rfl

theorem readCell_noCtl (loc : Nat) : NoCtl (readCell loc) := by
  intro σ s σ' h
  unfold readCell at h
  split at h <;> first | (cases h; done) | (cases h; rfl)

theorem writeCell_noCtl (loc : Nat) (v : Val) : NoCtl (writeCell loc v) := by
  intro σ s σ' h
  unfold writeCell at h
  split at h <;> first | (cases h; done) | (cases h; rfl)

theorem newCell_noCtl (t : Ty) (v : Val) : NoCtl (newCell t v) := by
  intro σ s σ' h; cases h

theorem freshId_noCtl : NoCtl freshId := by
  intro σ s σ' h; cases h

theorem optIdx_noCtl (o : Option Val) (s : Sig) (h : optIdx o = .error s) : isCtl s = false := by
  unfold optIdx at h
  split at h <;> first | (cases h; done) | (cases h; rfl)

theorem sliceVal_noCtl (x : Val) (a b c : Option Val) (s : Sig) (h : sliceVal x a b c = .error s) : isCtl s = false := by
  unfold sliceVal at h
  cases ha : optIdx a with
  | error e => rw [ha] at h; cases h; exact optIdx_noCtl a _ ha
  | ok a' =>
    cases hb : optIdx b with
    | error e => rw [ha, hb] at h; cases h; exact optIdx_noCtl b _ hb
    | ok b' =>
      cases hc : optIdx c with
      | error e => rw [ha, hb, hc] at h; cases h; exact optIdx_noCtl c _ hc
      | ok c' =>
        rw [ha, hb, hc] at h
        simp only [bind, Except.bind] at h
        split at h <;> first | (cases h; done) | (cases h; rfl)

attribute [local irreducible] NoCtl

mutual
/-- the expression forms covered: everything the grammar's `expr` can be, except function literals and modules -/
def condForm : Expr → Bool
  | .litBool _ | .litInt _ | .litFloat _ | .litStr _ | .litUnit | .var _ => true
  | .array es => condFormL es
  | .tuple es => condFormL es
  | .struct fs => condFormF fs
  | .arrayRepeat v n => condForm v && condForm n
  | .mutE _ e => condForm e
  | .pre _ e => condForm e
  | .and a b => condForm a && condForm b
  | .or a b => condForm a && condForm b
  | .bin _ a b => condForm a && condForm b
  | .assign _ t v => condForm t && condForm v
  | .at a i => condForm a && condForm i
  | .slice a s e st => condForm a && condFormO s && condFormO e && condFormO st
  | .tacc e _ => condForm e
  | .facc e _ => condForm e
  | .tfilter e _ => condForm e
  | .post _ e => condForm e
  | .reduce it init f => condForm it && condForm init && condForm f
  | .call f args => condForm f && condFormL args
  | _ => false
def condFormO : Option Expr → Bool
  | none => true
  | some e => condForm e
def condFormL : List Expr → Bool
  | [] => true
  | e :: es => condForm e && condFormL es
def condFormF : List (String × Expr) → Bool
  | [] => true
  | (_, e) :: es => condForm e && condFormF es
end

structure NoCtlAt (f : Nat) : Prop where
  eval : ∀ env e, condForm e = true → NoCtl (eval f env e)
  evalList : ∀ env es, condFormL es = true → NoCtl (evalList f env es)
  evalOpt : ∀ env e, condFormO e = true → NoCtl (evalOpt f env e)
  evalFields : ∀ env fs, condFormF fs = true → NoCtl (evalFields f env fs)
  pull : ∀ it, NoCtl (pull f it)
  collectGo : ∀ it acc, NoCtl (collectGo f it acc)
  partitionGo : ∀ it p l r, NoCtl (partitionGo f it p l r)
  reduceGo : ∀ it acc g, NoCtl (reduceGo f it acc g)
  boolGo : ∀ it u, NoCtl (boolGo f it u)

syntax "noctl_step" ident : tactic
set_option hygiene false in
macro_rules
  | `(tactic| noctl_step $ih:ident) => `(tactic| first
      | exact NoCtl.pure _
      | exact NoCtl.wrong _
      | exact NoCtl.throw _ rfl
      | exact callFn_noCtl _ _ _
      | exact readCell_noCtl _
      | exact writeCell_noCtl _ _
      | exact newCell_noCtl _ _
      | exact freshId_noCtl
      | exact NoCtl.liftE _ (sliceVal_noCtl _ _ _ _)
      | exact ($ih).pull _
      | exact ($ih).collectGo _ _
      | exact ($ih).partitionGo _ _ _ _
      | exact ($ih).reduceGo _ _ _
      | exact ($ih).boolGo _ _
      | (apply ($ih).evalOpt; first | assumption | (simp only [hc]; done))
      | (apply ($ih).evalFields; first | assumption | (simp only [hc]; done))
      | exact NoCtl.liftE _ (binScalar_noCtl _ _ _)
      | exact NoCtl.liftE _ (preScalar_noCtl _ _)
      | exact NoCtl.liftE _ (atVal_noCtl _ _)
      | exact NoCtl.liftE _ (asBool_noCtl _)
      | (apply ($ih).eval; first | assumption | (simp only [hc]; done))
      | (apply ($ih).evalList; first | assumption | (simp only [hc]; done))
      | apply NoCtl.bind
      | intro _
      | (split <;> try simp only []))

theorem noCtlAt_zero : NoCtlAt 0 := by
  constructor <;> intros <;>
    simp only [eval, evalList, evalOpt, evalFields, pull, collectGo, partitionGo, reduceGo, boolGo] <;>
    exact NoCtl.throw _ rfl

theorem noCtlAt_succ (f : Nat) (ih : NoCtlAt f) : NoCtlAt (f + 1) := by
  constructor
  · intro env e hc
    cases e
    case pre op e =>
      simp only [condForm] at hc
      cases op <;> simp only [eval] <;> repeat (any_goals (noctl_step ih))
    case bin op a b =>
      simp only [condForm, Bool.and_eq_true] at hc
      cases op <;> simp only [eval] <;> repeat (any_goals (noctl_step ih))
    case post op e =>
      simp only [condForm] at hc
      cases op <;> simp only [eval] <;> repeat (any_goals (noctl_step ih))
    all_goals
      first
      | (simp [condForm] at hc; done)
      | (simp only [condForm, Bool.and_eq_true] at hc
         simp only [eval]
         repeat (any_goals (noctl_step ih)))
  · intro env es hc
    cases es with
    | nil => simp only [evalList]; exact NoCtl.pure _
    | cons e es =>
      simp only [condFormL, Bool.and_eq_true] at hc
      simp only [evalList]
      repeat (any_goals (noctl_step ih))
  · intro env e hc
    cases e with
    | none => simp only [evalOpt]; exact NoCtl.pure _
    | some e =>
      simp only [condFormO] at hc
      simp only [evalOpt]
      repeat (any_goals (noctl_step ih))
  · intro env fs hc
    cases fs with
    | nil => simp only [evalFields]; exact NoCtl.pure _
    | cons p fs =>
      obtain ⟨k, e⟩ := p
      simp only [condFormF, Bool.and_eq_true] at hc
      simp only [evalFields]
      repeat (any_goals (noctl_step ih))
  · intro it; simp only [pull]; repeat (any_goals (noctl_step ih))
  · intro it acc; simp only [collectGo]; repeat (any_goals (noctl_step ih))
  · intro it p l r; simp only [partitionGo]; repeat (any_goals (noctl_step ih))
  · intro it acc g; simp only [reduceGo]; repeat (any_goals (noctl_step ih))
  · intro it u; simp only [boolGo]; repeat (any_goals (noctl_step ih))

theorem noCtl_all : ∀ f, NoCtlAt f
  | 0 => noCtlAt_zero
  | f + 1 => noCtlAt_succ f (noCtl_all f)

end Ssl.Fold
