import SslModel.Model.Conc
import SslModel.Gen.LockShape
/-!
# C16 — parsed code and values are safe to share between threads

Over the model of `SslModel.Model.Conc` (every assignment is one atomic step on the store, because
`assign::exec` / `try_exec` read, compute and write under ONE write guard — checked against the
source by the translator's `Gen.LockShape` and by running real threads):

* `final_store_of_complete_run` — whatever the schedule, when all threads are through, the store
  is the result of applying *some permutation* of all their operations, each exactly once;
* `schedule_independent` — if the operations commute pairwise, the final store is the same for all
  complete schedules, namely that of running the threads one after the other;
* `increments_exact` — N concurrent `c += d` steps add exactly the sum of the `d`s (wrapping), for
  any schedule; `commute_*` — which assignment operators commute;
* `private_thread_sequential` — a thread none of whose cells is touched by another thread sees,
  under every schedule, exactly what it sees when run alone;
* `no_deadlock` — in the finer model with explicit acquire / release steps, every reachable
  configuration that is not finished has an enabled thread.
-/
set_option linter.unusedSimpArgs false
set_option linter.unusedVariables false
namespace Ssl.C16
open Ssl Ssl.Conc

/-! ## the shape of the source the model stands on (regenerated on every run) -/

/-- `assign::exec` and `assign::try_exec` each take the write guard once, never a read guard, and
    read the old value and store the new one through that guard; and these — with the read in
    `*cell` and the one in `Mut::string` — are all the lock acquisitions, lock-like calls and
    `unsafe` blocks of the crate -/
theorem lock_shape :
    Gen.assignLockFns = [("exec", 0, 1, true), ("try_exec", 0, 1, true)] ∧
    Gen.lockSites = [("src/instruction/bin_op/assign.rs", 0, 2, 0, 0),
                     ("src/instruction/prefix_op.rs", 1, 0, 0, 0),
                     ("src/variable/mut.rs", 1, 0, 0, 0)] := by decide

/-- the twelve assignment operators of `BinOperation::exec` and the scalar operation each applies -/
theorem assign_table : Gen.assignTable =
    [("Assign", "<rhs>"), ("AssignAdd", "add"), ("AssignSubtract", "subtract"), ("AssignMultiply", "multiply"),
     ("AssignDivide", "divide"), ("AssignModulo", "modulo"), ("AssignLShift", "lshift"), ("AssignRShift", "rshift"),
     ("AssignBitwiseAnd", "bitwise_and"), ("AssignBitwiseOr", "bitwise_or"), ("AssignXor", "xor"), ("AssignPow", "pow")] := by
  decide

/-! ## operations that cannot fail -/

def Op.total : Op → Bool
  | .read _ => true
  | .assign _ o _ =>
    match o with
    | .set | .add | .sub | .mul | .band | .bor | .xor => true
    | _ => false

def apply (s : Store) (op : Op) : Store := (step s op).1

theorem step_total (s : Store) (op : Op) (h : Op.total op = true) : ∃ v, (step s op).2 = .ok v := by
  cases op with
  | read c => exact ⟨_, rfl⟩
  | assign c o rhs =>
    cases o <;> simp [Op.total] at h <;>
      simp [step, AOp.apply, AOp.scalar, Gen.add, Gen.subtract, Gen.multiply, Gen.bitwise_and, Gen.bitwise_or,
        Gen.xor, IntOp.interp, firstError, IntExpr.eval]

def Thread.Ok (t : Thread) : Prop :=
  (∀ o ∈ t.seen, ∃ v, o = Except.ok v) ∧ (∀ op ∈ t.todo, Op.total op = true)

theorem runnable_of_ok (t : Thread) (h : Thread.Ok t) : t.runnable = !t.todo.isEmpty := by
  unfold Thread.runnable
  cases ht : t.todo with
  | nil => simp
  | cons op rest =>
    cases hs : t.seen with
    | nil => simp
    | cons o os =>
      obtain ⟨v, hv⟩ := h.1 o (by simp [hs])
      subst hv; simp

/-- one step of an OK thread: either nothing to do, or it executes its next operation -/
theorem advance_ok (t : Thread) (s : Store) (h : Thread.Ok t) :
    (t.todo = [] ∧ t.advance s = (t, s)) ∨
    (∃ op rest, t.todo = op :: rest ∧ (t.advance s).2 = apply s op ∧ (t.advance s).1.todo = rest ∧
      Thread.Ok (t.advance s).1) := by
  cases ht : t.todo with
  | nil => left; simp [Thread.advance, ht]
  | cons op rest =>
    right
    refine ⟨op, rest, rfl, ?_⟩
    have hr : t.runnable = true := by rw [runnable_of_ok t h]; simp [ht]
    obtain ⟨v, hv⟩ := step_total s op (h.2 op (by simp [ht]))
    have hadv : t.advance s = ({ todo := rest, seen := (step s op).2 :: t.seen }, (step s op).1) := by
      simp [Thread.advance, ht, hr]
    rw [hadv]
    refine ⟨rfl, rfl, ?_, ?_⟩
    · intro o ho
      simp only [List.mem_cons] at ho
      rcases ho with rfl | ho
      · exact ⟨v, hv⟩
      · exact h.1 o ho
    · intro op' hop'
      exact h.2 op' (by simp [ht, hop'])

/-! ## the operations still to be executed -/

def todoAll (ts : List Thread) : List Op := ts.flatMap (·.todo)

theorem todoAll_set (ts : List Thread) (i : Nat) (t t' : Thread) (op : Op) (rest : List Op)
    (hi : ts[i]? = some t) (ht : t.todo = op :: rest) (ht' : t'.todo = rest) :
    List.Perm (todoAll ts) (op :: todoAll (ts.set i t')) := by
  induction ts generalizing i with
  | nil => simp at hi
  | cons x xs ih =>
    cases i with
    | zero =>
      simp at hi; subst hi
      simp [todoAll, ht, ht']
    | succ i =>
      simp at hi
      have := ih i hi
      simp only [todoAll, List.flatMap_cons, List.set_cons_succ] at this ⊢
      calc x.todo ++ List.flatMap (·.todo) xs
          |>.Perm (x.todo ++ (op :: List.flatMap (·.todo) (xs.set i t'))) := List.Perm.append_left _ this
        _ |>.Perm (op :: (x.todo ++ List.flatMap (·.todo) (xs.set i t'))) := List.perm_middle

def AllOk (c : Cfg) : Prop := ∀ t ∈ c.threads, Thread.Ok t

theorem mem_set_iff_aux {α} (l : List α) (i : Nat) (a x : α) (h : x ∈ l.set i a) : x = a ∨ x ∈ l := by
  induction l generalizing i with
  | nil => simp at h
  | cons y ys ih =>
    cases i with
    | zero => simp at h; rcases h with h | h; exact Or.inl h; exact Or.inr (by simp [h])
    | succ i =>
      simp at h
      rcases h with h | h
      · exact Or.inr (by simp [h])
      · rcases ih i h with h | h
        · exact Or.inl h
        · exact Or.inr (by simp [h])

/-- a scheduler choice either changes nothing or executes exactly one pending operation -/
theorem pick_spec (c : Cfg) (i : Nat) (h : AllOk c) :
    AllOk (c.pick i) ∧
    ((c.pick i).store = c.store ∧ todoAll (c.pick i).threads = todoAll c.threads ∨
     ∃ op, (c.pick i).store = apply c.store op ∧
       List.Perm (todoAll c.threads) (op :: todoAll (c.pick i).threads)) := by
  unfold Cfg.pick
  cases hi : c.threads[i]? with
  | none => exact ⟨h, Or.inl ⟨rfl, rfl⟩⟩
  | some t =>
    have hmem : t ∈ c.threads := List.mem_of_getElem? hi
    have hok := h t hmem
    simp only
    rcases advance_ok t c.store hok with ⟨hnil, hadv⟩ | ⟨op, rest, ht, hs, htodo, hok'⟩
    · rw [hadv]
      simp only
      have hset : c.threads.set i t = c.threads := by
        apply List.ext_getElem?
        intro k
        by_cases hk : k = i
        · subst hk
          rw [hi]
          have hlt : k < c.threads.length := by
            rcases List.getElem?_eq_some_iff.mp hi with ⟨hl, _⟩; exact hl
          simp [List.getElem?_set, hlt]
        · simp [List.getElem?_set, Ne.symm hk]
      rw [hset]
      exact ⟨h, Or.inl (by simp)⟩
    · constructor
      · intro x hx
        rcases mem_set_iff_aux _ _ _ _ hx with rfl | hx
        · exact hok'
        · exact h x hx
      · right
        exact ⟨op, hs, todoAll_set c.threads i t _ op rest hi ht htodo⟩

/-- **whatever the schedule**: the store after a run is the initial store with some of the
    pending operations applied, each once, the rest still pending -/
theorem run_spec (sched : List Nat) : ∀ c : Cfg, AllOk c →
    AllOk (c.run sched) ∧
    ∃ done : List Op, (c.run sched).store = done.foldl apply c.store ∧
      List.Perm (todoAll c.threads) (done ++ todoAll (c.run sched).threads) := by
  induction sched with
  | nil => intro c h; exact ⟨h, [], rfl, by simp [Cfg.run]⟩
  | cons i rest ih =>
    intro c h
    obtain ⟨hok1, hcase⟩ := pick_spec c i h
    obtain ⟨hok2, done, hstore, hperm⟩ := ih (c.pick i) hok1
    have hrun : c.run (i :: rest) = (c.pick i).run rest := by simp [Cfg.run]
    rw [hrun]
    refine ⟨hok2, ?_⟩
    rcases hcase with ⟨hs, ht⟩ | ⟨op, hs, hp⟩
    · exact ⟨done, by rw [hstore, hs], by rw [← ht]; exact hperm⟩
    · refine ⟨op :: done, by rw [hstore, hs]; rfl, ?_⟩
      exact hp.trans (by simpa using List.Perm.cons op hperm)

theorem finished_todo_nil (c : Cfg) (h : AllOk c) (hf : c.finished = true) : todoAll c.threads = [] := by
  unfold Cfg.finished at hf
  simp only [List.all_eq_true] at hf
  unfold todoAll
  rw [List.flatMap_eq_nil_iff]
  intro t ht
  have := hf t ht
  rw [runnable_of_ok t (h t ht)] at this
  simpa using this

/-- **every complete run applies a permutation of all operations**, each exactly once -/
theorem final_store_of_complete_run (c : Cfg) (sched : List Nat) (h : AllOk c)
    (hf : (c.run sched).finished = true) :
    ∃ done : List Op, List.Perm (todoAll c.threads) done ∧ (c.run sched).store = done.foldl apply c.store := by
  obtain ⟨hok, done, hs, hp⟩ := run_spec sched c h
  rw [finished_todo_nil _ hok hf, List.append_nil] at hp
  exact ⟨done, hp, hs⟩

/-! ## commuting operations -/

def Commute (a b : Op) : Prop := ∀ s : Store, apply (apply s a) b = apply (apply s b) a

/-- **schedule independence**: with pairwise commuting operations every complete schedule ends in
    the store obtained by running the threads one after the other -/
theorem schedule_independent (c : Cfg) (sched : List Nat) (h : AllOk c)
    (hc : ∀ a ∈ todoAll c.threads, ∀ b ∈ todoAll c.threads, Commute a b)
    (hf : (c.run sched).finished = true) :
    (c.run sched).store = (todoAll c.threads).foldl apply c.store := by
  obtain ⟨done, hp, hs⟩ := final_store_of_complete_run c sched h hf
  rw [hs]
  exact (List.Perm.foldl_eq' hp (fun x hx y hy z => hc x hx y hy z) c.store).symm

theorem set_set_ne (s : Store) (c d : Nat) (v w : I64) (h : c ≠ d) :
    (s.set c v).set d w = (s.set d w).set c v := by
  funext k
  simp only [Store.set]
  by_cases h1 : k = c <;> by_cases h2 : k = d <;> simp_all

theorem apply_read (s : Store) (c : Nat) : apply s (.read c) = s := rfl

theorem apply_assign (s : Store) (c : Nat) (o : AOp) (r : I64) :
    apply s (.assign c o r) = match o.apply (s c) r with | .ok v => s.set c v | .error _ => s := by
  simp only [apply, step]; split <;> simp_all

theorem apply_other (s : Store) (op : Op) (k : Nat) (h : k ≠ op.cell) : apply s op k = s k := by
  cases op with
  | read c => rfl
  | assign c o r =>
    rw [apply_assign]
    split
    · simp [Store.set]; intro hk; exact absurd hk h
    · rfl

/-- operations on different cells commute -/
theorem commute_diff_cells (a b : Op) (h : a.cell ≠ b.cell) : Commute a b := by
  intro s
  cases a with
  | read c => rfl
  | assign c o r =>
    cases b with
    | read d => rfl
    | assign d o2 r2 =>
      simp only [Op.cell] at h
      simp only [apply_assign]
      have e1 : ∀ v, (s.set c v) d = s d := by intro v; simp [Store.set, Ne.symm h]
      have e2 : ∀ v, (s.set d v) c = s c := by intro v; simp [Store.set, h]
      cases ha : o.apply (s c) r <;> cases hb : o2.apply (s d) r2 <;> simp [e1, e2, ha, hb]
      exact set_set_ne s c d _ _ h

theorem set_set_same (s : Store) (c : Nat) (v w : I64) : (s.set c v).set c w = s.set c w := by
  funext k; simp only [Store.set]; by_cases h : k = c <;> simp [h]

theorem apply_total_fn (c : Nat) (o : AOp) (r : I64) (f : I64 → I64)
    (hf : ∀ x, o.apply x r = .ok (f x)) (s : Store) : apply s (.assign c o r) = s.set c (f (s c)) := by
  rw [apply_assign, hf]

theorem commute_of_fn (c : Nat) (o1 o2 : AOp) (r1 r2 : I64) (f g : I64 → I64)
    (hf : ∀ x, o1.apply x r1 = .ok (f x)) (hg : ∀ x, o2.apply x r2 = .ok (g x))
    (hfg : ∀ x, g (f x) = f (g x)) : Commute (.assign c o1 r1) (.assign c o2 r2) := by
  intro s
  rw [apply_total_fn c o1 r1 f hf, apply_total_fn c o2 r2 g hg, apply_total_fn c o2 r2 g hg,
    apply_total_fn c o1 r1 f hf]
  simp [Store.set, set_set_same, hfg]

theorem add_fn (r x : I64) : AOp.apply .add x r = .ok (x + r) := by
  simp [AOp.apply, AOp.scalar, Gen.add, IntOp.interp, firstError, IntExpr.eval]
theorem sub_fn (r x : I64) : AOp.apply .sub x r = .ok (x - r) := by
  simp [AOp.apply, AOp.scalar, Gen.subtract, IntOp.interp, firstError, IntExpr.eval]
theorem mul_fn (r x : I64) : AOp.apply .mul x r = .ok (x * r) := by
  simp [AOp.apply, AOp.scalar, Gen.multiply, IntOp.interp, firstError, IntExpr.eval]
theorem band_fn (r x : I64) : AOp.apply .band x r = .ok (x &&& r) := by
  simp [AOp.apply, AOp.scalar, Gen.bitwise_and, IntOp.interp, firstError, IntExpr.eval]
theorem bor_fn (r x : I64) : AOp.apply .bor x r = .ok (x ||| r) := by
  simp [AOp.apply, AOp.scalar, Gen.bitwise_or, IntOp.interp, firstError, IntExpr.eval]
theorem xor_fn (r x : I64) : AOp.apply .xor x r = .ok (x ^^^ r) := by
  simp [AOp.apply, AOp.scalar, Gen.xor, IntOp.interp, firstError, IntExpr.eval]

/-- `+=` and `-=` on one cell commute with each other -/
theorem commute_add_add (c : Nat) (a b : I64) : Commute (.assign c .add a) (.assign c .add b) :=
  commute_of_fn c _ _ a b (· + a) (· + b) (add_fn a) (add_fn b) (by intro x; simp only [BitVec.add_assoc, BitVec.add_comm a b])
theorem commute_add_sub (c : Nat) (a b : I64) : Commute (.assign c .add a) (.assign c .sub b) :=
  commute_of_fn c _ _ a b (· + a) (· - b) (add_fn a) (sub_fn b) (by
    intro x; simp only [BitVec.sub_eq_add_neg, BitVec.add_assoc, BitVec.add_comm a (-b)])
theorem commute_sub_sub (c : Nat) (a b : I64) : Commute (.assign c .sub a) (.assign c .sub b) :=
  commute_of_fn c _ _ a b (· - a) (· - b) (sub_fn a) (sub_fn b) (by
    intro x; simp only [BitVec.sub_eq_add_neg, BitVec.add_assoc, BitVec.add_comm (-a) (-b)])
theorem commute_mul_mul (c : Nat) (a b : I64) : Commute (.assign c .mul a) (.assign c .mul b) :=
  commute_of_fn c _ _ a b (· * a) (· * b) (mul_fn a) (mul_fn b) (by
    intro x; simp only [BitVec.mul_assoc, BitVec.mul_comm a b])
theorem commute_and_and (c : Nat) (a b : I64) : Commute (.assign c .band a) (.assign c .band b) :=
  commute_of_fn c _ _ a b (· &&& a) (· &&& b) (band_fn a) (band_fn b) (by
    intro x; simp only [BitVec.and_assoc, BitVec.and_comm a b])
theorem commute_or_or (c : Nat) (a b : I64) : Commute (.assign c .bor a) (.assign c .bor b) :=
  commute_of_fn c _ _ a b (· ||| a) (· ||| b) (bor_fn a) (bor_fn b) (by
    intro x; simp only [BitVec.or_assoc, BitVec.or_comm a b])
theorem commute_xor_xor (c : Nat) (a b : I64) : Commute (.assign c .xor a) (.assign c .xor b) :=
  commute_of_fn c _ _ a b (· ^^^ a) (· ^^^ b) (xor_fn a) (xor_fn b) (by
    intro x; simp only [BitVec.xor_assoc, BitVec.xor_comm a b])

/-- an assignment that leaves every value as it is commutes with every operation -/
theorem apply_id (c : Nat) (o : AOp) (r : I64) (hid : ∀ x, o.apply x r = .ok x) (s : Store) :
    apply s (.assign c o r) = s := by
  rw [apply_assign, hid]
  funext k
  simp only [Store.set]
  split
  · rename_i h; rw [h]
  · rfl

theorem commute_of_id (c : Nat) (o : AOp) (r : I64) (hid : ∀ x, o.apply x r = .ok x) (b : Op) :
    Commute (.assign c o r) b := by
  intro s
  rw [apply_id c o r hid, apply_id c o r hid]

/-- `/= 1`, `<<= 0`, `>>= 0` are such assignments (they go through `try_exec`) -/
theorem div_one_id (x : I64) : AOp.apply .div x 1#64 = .ok x := by
  simp [AOp.apply, AOp.scalar, Gen.divide, IntOp.interp, firstError, Guard.holds, IntExpr.eval, BitVec.sdiv_one]
theorem shl_zero_id (x : I64) : AOp.apply .shl x 0#64 = .ok x := by
  simp [AOp.apply, AOp.scalar, Gen.lshift, IntOp.interp, firstError, Guard.holds, IntExpr.eval, BitVec.slt]
theorem shr_zero_id (x : I64) : AOp.apply .shr x 0#64 = .ok x := by
  simp [AOp.apply, AOp.scalar, Gen.rshift, IntOp.interp, firstError, Guard.holds, IntExpr.eval, BitVec.slt]

/-- so `k` threads doing `c += 1` next to threads doing `c /= 1`, `c <<= 0`, `c >>= 0` still add exactly -/
theorem commute_add_div_one (c : Nat) (a : I64) : Commute (.assign c .div 1#64) (.assign c .add a) :=
  commute_of_id c .div 1#64 div_one_id _

/-- `+=` and `*=` do NOT commute: mixed families are judged against the set of interleavings -/
example : ¬ Commute (.assign 0 .add 1#64) (.assign 0 .mul 2#64) := by
  intro h
  have := congrFun (h (fun _ => 0#64)) 0
  simp [apply_assign, add_fn, mul_fn, Store.set] at this

/-! ## N concurrent increments add exactly N -/

theorem foldl_add_acc (ds : List I64) (acc : I64) : ds.foldl (· + ·) acc = acc + ds.foldl (· + ·) 0 := by
  induction ds generalizing acc with
  | nil => simp
  | cons e es ihe => simp only [List.foldl_cons]; rw [ihe (acc + e), ihe (0 + e)]; simp [BitVec.add_assoc]

theorem foldl_add (c : Nat) (ds : List I64) (s : Store) :
    (ds.map (fun d => Op.assign c .add d)).foldl apply s c = s c + ds.foldl (· + ·) 0 := by
  induction ds generalizing s with
  | nil => simp
  | cons d ds ih =>
    simp only [List.map_cons, List.foldl_cons]
    rw [ih, apply_total_fn c .add d (· + d) (add_fn d), foldl_add_acc ds (0 + d)]
    simp [Store.set, BitVec.add_assoc]

theorem todoAll_init (s : Store) (progs : List (List Op)) : todoAll (Cfg.init s progs).threads = progs.flatten := by
  simp only [Cfg.init, todoAll, List.flatMap_map]
  induction progs with
  | nil => rfl
  | cons p ps ih => simp [List.flatMap_cons, ih]

/-- **increments are never lost**: threads that only do `c += d` (any `d`s, any number each),
    run under any complete schedule, leave `c` at its initial value plus the sum of all `d`s -/
theorem increments_exact (s : Store) (c : Nat) (progs : List (List I64)) (sched : List Nat)
    (hf : ((Cfg.init s (progs.map (·.map (fun d => Op.assign c .add d)))).run sched).finished = true) :
    ((Cfg.init s (progs.map (·.map (fun d => Op.assign c .add d)))).run sched).store c =
      s c + progs.flatten.foldl (· + ·) 0 := by
  have hall : todoAll (Cfg.init s (progs.map (·.map (fun d => Op.assign c .add d)))).threads =
      progs.flatten.map (fun d => Op.assign c .add d) := by
    rw [todoAll_init, List.map_flatten]
  have hok : AllOk (Cfg.init s (progs.map (·.map (fun d => Op.assign c .add d)))) := by
    intro t ht
    simp only [Cfg.init, List.mem_map] at ht
    obtain ⟨p, ⟨q, _, rfl⟩, rfl⟩ := ht
    constructor
    · intro o ho; simp at ho
    · intro op hop
      simp only [List.mem_map] at hop
      obtain ⟨d, _, rfl⟩ := hop
      rfl
  rw [schedule_independent _ sched hok ?_ hf, hall]
  · exact foldl_add c progs.flatten s
  · intro a ha b hb
    rw [hall] at ha hb
    simp only [List.mem_map] at ha hb
    obtain ⟨d1, _, rfl⟩ := ha
    obtain ⟨d2, _, rfl⟩ := hb
    exact commute_add_add c d1 d2

/-- non-vacuity: two threads of two increments each, one particular interleaving -/
example : ((Cfg.init (fun _ => 10#64) [[.assign 0 .add 1#64, .assign 0 .add 1#64],
    [.assign 0 .add 1#64, .assign 0 .add 1#64]]).run [0, 1, 1, 0]).store 0 = 14#64 := by decide

/-! ## a thread whose cells nobody else touches runs as if alone -/

theorem advance_todo_subset (t : Thread) (s : Store) : ∀ op ∈ (t.advance s).1.todo, op ∈ t.todo := by
  intro op h
  unfold Thread.advance at h
  cases ht : t.todo with
  | nil => simp [ht] at h
  | cons o rest =>
    simp only [ht] at h
    split at h
    · simp at h; simp [h]
    · simp [ht] at h; simpa using h

theorem step_congr (S : Nat → Prop) (op : Op) (s1 s2 : Store) (hc : S op.cell)
    (hag : ∀ k, S k → s1 k = s2 k) :
    (step s1 op).2 = (step s2 op).2 ∧ ∀ k, S k → (step s1 op).1 k = (step s2 op).1 k := by
  cases op with
  | read c => exact ⟨by simp [step, hag c hc], fun k hk => hag k hk⟩
  | assign c o r =>
    have hcc : s1 c = s2 c := hag c hc
    simp only [step, hcc]
    cases o.apply (s2 c) r with
    | ok v =>
      refine ⟨rfl, ?_⟩
      intro k hk
      simp only [Store.set]
      split
      · rfl
      · exact hag k hk
    | error e => exact ⟨rfl, fun k hk => hag k hk⟩

theorem advance_congr (S : Nat → Prop) (t : Thread) (s1 s2 : Store) (hS : ∀ op ∈ t.todo, S op.cell)
    (hag : ∀ k, S k → s1 k = s2 k) :
    (t.advance s1).1 = (t.advance s2).1 ∧ ∀ k, S k → (t.advance s1).2 k = (t.advance s2).2 k := by
  unfold Thread.advance
  cases ht : t.todo with
  | nil => exact ⟨rfl, hag⟩
  | cons op rest =>
    simp only
    obtain ⟨h1, h2⟩ := step_congr S op s1 s2 (hS op (by simp [ht])) hag
    split
    · exact ⟨by simp [h1], h2⟩
    · exact ⟨rfl, hag⟩

theorem solo_congr (S : Nat → Prop) (n : Nat) : ∀ (t : Thread) (s1 s2 : Store), (∀ op ∈ t.todo, S op.cell) →
    (∀ k, S k → s1 k = s2 k) →
    (solo s1 t n).1 = (solo s2 t n).1 ∧ ∀ k, S k → (solo s1 t n).2 k = (solo s2 t n).2 k := by
  induction n with
  | zero => intro t s1 s2 _ hag; exact ⟨rfl, hag⟩
  | succ n ih =>
    intro t s1 s2 hS hag
    obtain ⟨h1, h2⟩ := advance_congr S t s1 s2 hS hag
    simp only [solo]
    have hS' : ∀ op ∈ (t.advance s1).1.todo, S op.cell := fun op h => hS op (advance_todo_subset t s1 op h)
    have := ih (t.advance s1).1 (t.advance s1).2 (t.advance s2).2 hS' h2
    rw [← h1]
    exact this

theorem advance_store_other (t : Thread) (s : Store) (k : Nat) (h : ∀ op ∈ t.todo, op.cell ≠ k) :
    (t.advance s).2 k = s k := by
  unfold Thread.advance
  cases ht : t.todo with
  | nil => rfl
  | cons op rest =>
    simp only
    split
    · exact apply_other s op k (fun hk => h op (by simp [ht]) hk.symm)
    · rfl

/-- the premises of the theorem below, as one invariant of the configuration -/
def Private (c : Cfg) (i : Nat) (S : Nat → Prop) : Prop :=
  ∀ j u, c.threads[j]? = some u → ∀ op ∈ u.todo, (j = i → S op.cell) ∧ (j ≠ i → ¬ S op.cell)

theorem pick_private (c : Cfg) (i j : Nat) (S : Nat → Prop) (h : Private c i S) : Private (c.pick j) i S := by
  unfold Cfg.pick
  cases hj : c.threads[j]? with
  | none => exact h
  | some t =>
    simp only
    intro k u hk op hop
    by_cases hkj : k = j
    · subst hkj
      have hlt : k < c.threads.length := (List.getElem?_eq_some_iff.mp hj).1
      simp [List.getElem?_set, hlt] at hk
      subst hk
      exact h k t hj op (advance_todo_subset t c.store op hop)
    · simp [List.getElem?_set, Ne.symm hkj] at hk
      exact h k u hk op hop

/-- **private cells**: if no other thread ever touches the cells thread `i` works on, then under
    every schedule thread `i` — its remaining work, everything it has seen, and its cells — is
    exactly what running it alone for some number of steps gives (errors included) -/
theorem private_thread_sequential (sched : List Nat) : ∀ (c : Cfg) (i : Nat) (t : Thread) (S : Nat → Prop),
    c.threads[i]? = some t → Private c i S →
    ∃ n, (c.run sched).threads[i]? = some (solo c.store t n).1 ∧
      ∀ k, S k → (c.run sched).store k = (solo c.store t n).2 k := by
  induction sched with
  | nil => intro c i t S hi _; exact ⟨0, by simpa [Cfg.run, solo] using hi, fun k _ => rfl⟩
  | cons j rest ih =>
    intro c i t S hi hp
    have hrun : c.run (j :: rest) = (c.pick j).run rest := by simp [Cfg.run]
    rw [hrun]
    have hp' := pick_private c i j S hp
    have hlt : i < c.threads.length := (List.getElem?_eq_some_iff.mp hi).1
    by_cases hji : j = i
    · subst hji
      have hth : (c.pick j).threads[j]? = some (t.advance c.store).1 := by
        unfold Cfg.pick
        rw [hi]
        simp [List.getElem?_set, hlt]
      have hst : (c.pick j).store = (t.advance c.store).2 := by
        unfold Cfg.pick
        rw [hi]
      obtain ⟨n, h1, h2⟩ := ih (c.pick j) j _ S hth hp'
      refine ⟨n + 1, ?_, ?_⟩
      · rw [h1, hst]; rfl
      · intro k hk; rw [h2 k hk, hst]; rfl
    · have hth : (c.pick j).threads[i]? = some t := by
        unfold Cfg.pick
        cases hj : c.threads[j]? with
        | none => exact hi
        | some u => simp [List.getElem?_set, hji, hi]
      have hst : ∀ k, S k → (c.pick j).store k = c.store k := by
        intro k hk
        unfold Cfg.pick
        cases hj : c.threads[j]? with
        | none => rfl
        | some u =>
          simp only
          apply advance_store_other
          intro op hop hc
          exact (hp j u hj op hop).2 hji (hc ▸ hk)
      obtain ⟨n, h1, h2⟩ := ih (c.pick j) i t S hth hp'
      have hS : ∀ op ∈ t.todo, S op.cell := fun op hop => (hp i t hi op hop).1 rfl
      obtain ⟨g1, g2⟩ := solo_congr S n t (c.pick j).store c.store hS hst
      exact ⟨n, by rw [h1, g1], fun k hk => by rw [h2 k hk, g2 k hk]⟩

/-! ## no deadlock (acquire / release made explicit) -/

/-- who holds what is consistent with the threads' phases, and nobody holds two guards -/
def MInv (c : MCfg) : Prop :=
  (∀ k i, c.owner k = some i → ∃ t op rest, c.threads[i]? = some t ∧ t.phase = .holding ∧ t.todo = op :: rest ∧ op.cell = k)

theorem minv_step (c : MCfg) (i : Nat) (h : MInv c) : MInv (c.mstep i) := by
  unfold MCfg.mstep
  split
  · exact h
  · rename_i hen
    cases hi : c.threads[i]? with
    | none => exact h
    | some t =>
      have hlt : i < c.threads.length := (List.getElem?_eq_some_iff.mp hi).1
      simp only
      cases htodo : t.todo with
      | nil => cases hph : t.phase <;> simp [htodo, hph] <;> exact h
      | cons op rest =>
        cases hph : t.phase with
        | idle =>
          simp only [htodo, hph]
          have hfree : c.owner op.cell = none := by
            simp [MCfg.enabled, hi, htodo, hph] at hen
            exact hen
          intro k j hk
          simp only at hk
          by_cases hkc : k = op.cell
          · simp [hkc] at hk
            subst hk
            exact ⟨{ t with phase := .holding }, op, rest, by simp [List.getElem?_set, hlt, htodo], rfl, by simp [htodo], hkc.symm⟩
          · simp [hkc] at hk
            obtain ⟨u, o, r, hu, hph', hto, hc⟩ := h k j hk
            have hji : j ≠ i := by
              intro e; subst e
              rw [hi] at hu; cases hu
              rw [hph] at hph'; cases hph'
            exact ⟨u, o, r, by simp [List.getElem?_set, Ne.symm hji, hu], hph', hto, hc⟩
        | holding =>
          simp only [htodo, hph]
          intro k j hk
          simp only at hk
          by_cases hkc : k = op.cell
          · simp [hkc] at hk
          · simp [hkc] at hk
            obtain ⟨u, o, r, hu, hph', hto, hc⟩ := h k j hk
            have hji : j ≠ i := by
              intro e; subst e
              rw [hi] at hu; cases hu
              rw [htodo] at hto; cases hto
              exact hkc hc.symm
            exact ⟨u, o, r, by simp [List.getElem?_set, Ne.symm hji, hu], hph', hto, hc⟩

def MCfg.init (s : Store) (progs : List (List Op)) : MCfg :=
  { store := s, owner := fun _ => none, threads := progs.map fun p => { todo := p, phase := .idle } }

theorem minv_init (s : Store) (progs : List (List Op)) : MInv (MCfg.init s progs) := by
  intro k i h; simp [MCfg.init] at h

/-- **no deadlock**: in every configuration reachable by micro-steps from a start configuration,
    either every thread is through or some thread can take a step -/
theorem no_deadlock (s : Store) (progs : List (List Op)) (sched : List Nat) :
    let c := sched.foldl MCfg.mstep (MCfg.init s progs)
    c.done = true ∨ ∃ i, c.enabled i = true := by
  intro c
  have hinv : MInv c := by
    show MInv (sched.foldl MCfg.mstep (MCfg.init s progs))
    have : ∀ (c0 : MCfg), MInv c0 → MInv (sched.foldl MCfg.mstep c0) := by
      induction sched with
      | nil => intro c0 h; exact h
      | cons j rest ih => intro c0 h; exact ih _ (minv_step c0 j h)
    exact this _ (minv_init s progs)
  by_cases hd : c.done = true
  · exact Or.inl hd
  · right
    -- some thread has work left
    simp only [MCfg.done, List.all_eq_true, Bool.not_eq_true] at hd
    have : ∃ t ∈ c.threads, t.todo.isEmpty = false := by
      apply Classical.byContradiction
      intro hne
      apply hd
      intro t ht
      cases he : t.todo.isEmpty with
      | true => rfl
      | false => exact absurd ⟨t, ht, he⟩ hne
    obtain ⟨t, ht, hne⟩ := this
    obtain ⟨i, hlt, hget⟩ := List.getElem_of_mem ht
    have hi : c.threads[i]? = some t := by simp [List.getElem?_eq_getElem hlt, hget]
    cases htodo : t.todo with
    | nil => simp [htodo] at hne
    | cons op rest =>
      cases hph : t.phase with
      | holding => exact ⟨i, by simp [MCfg.enabled, hi, htodo, hph]⟩
      | idle =>
        cases ho : c.owner op.cell with
        | none => exact ⟨i, by simp [MCfg.enabled, hi, htodo, hph, ho]⟩
        | some j =>
          obtain ⟨u, o, r, hu, hph', hto, _⟩ := hinv op.cell j ho
          exact ⟨j, by simp [MCfg.enabled, hu, hto, hph']⟩

/-- non-vacuity: two threads contending for one cell, stopped while thread 0 holds the guard -/
example : (([0, 1, 0].foldl MCfg.mstep (MCfg.init (fun _ => 0#64)
    [[.assign 0 .add 1#64], [.assign 0 .add 1#64]])).threads.map (·.todo.length)) = [0, 1] := by decide

end Ssl.C16
