import SslModel.Model.Int64
/-! Helper lemmas for the scalar-operator theorems (C08). Core Lean only. -/
namespace Ssl
open BitVec

abbrev M64 : Nat := 2 ^ 64

/-- `r` is an integer result whose signed value is `v`. -/
def IsInt (r : Except ExecErr Scalar) (v : Int) : Prop :=
  ∃ x : I64, r = .ok (.int x) ∧ x.toInt = v

def IsBool (r : Except ExecErr Scalar) (v : Bool) : Prop := r = .ok (.bool v)

theorem holds_rhsZero (b : I64) : Guard.rhsZero.holds b = true ↔ b.toInt = 0 := by
  simp only [Guard.holds, beq_iff_eq]
  constructor
  · intro h; subst h; decide
  · intro h; apply BitVec.toInt_inj.mp; rw [h]; decide

theorem holds_rhsNegative (b : I64) : Guard.rhsNegative.holds b = true ↔ b.toInt < 0 := by
  simp only [Guard.holds, BitVec.slt_iff_toInt_lt]
  have : (0 : I64).toInt = 0 := by decide
  rw [this]

theorem holds_rhsOutside (b : I64) :
    Guard.rhsOutside0to63.holds b = true ↔ (b.toInt < 0 ∨ 63 < b.toInt) := by
  simp only [Guard.holds, Bool.or_eq_true, BitVec.slt_iff_toInt_lt]
  have h0 : (0 : I64).toInt = 0 := by decide
  have h63 : (63 : I64).toInt = 63 := by decide
  rw [h0, h63]

theorem interp_of_guards_false (op : IntOp) (a b : I64) (h : firstError op.guards b = none) :
    op.interp a b = .ok (op.body.eval a b) := by
  simp [IntOp.interp, h]

theorem interp_of_guard_true (op : IntOp) (a b : I64) (e : ExecErr)
    (h : firstError op.guards b = some e) : op.interp a b = .error e := by
  simp [IntOp.interp, h]

theorem toInt_pow (a : I64) (n : Nat) : (a ^ n).toInt = (a.toInt ^ n).bmod M64 := by
  induction n with
  | zero => simp; decide
  | succ n ih =>
    rw [BitVec.pow_succ, BitVec.toInt_mul, ih, Int.bmod_mul_bmod, Int.pow_succ]

theorem sq_pow (b : I64) (k : Nat) : (b * b) ^ k = b ^ (2 * k) := by
  induction k with
  | zero => simp
  | succ k ih =>
    rw [BitVec.pow_succ, ih, show 2 * (k + 1) = 2 * k + 1 + 1 from by omega,
      BitVec.pow_succ, BitVec.pow_succ, BitVec.mul_assoc]

/-- invariant of the square-and-multiply loop: with enough fuel it computes `acc * base ^ exp` -/
theorem sqMulLoop_spec (fuel : Nat) : ∀ (acc base : I64) (exp : Nat), exp < 2 ^ fuel →
    sqMulLoop fuel acc base exp = acc * base ^ exp := by
  induction fuel with
  | zero =>
    intro acc base exp h
    have : exp = 0 := by simpa using h
    subst this; simp [sqMulLoop]
  | succ fuel ih =>
    intro acc base exp h
    unfold sqMulLoop
    split
    · next h0 => subst h0; simp
    · next h0 =>
      have hlt : exp / 2 < 2 ^ fuel := by
        have : 2 ^ (fuel + 1) = 2 * 2 ^ fuel := by rw [Nat.pow_succ]; omega
        omega
      rw [ih _ _ _ hlt]
      have hsq : (base * base) ^ (exp / 2) = base ^ (2 * (exp / 2)) := sq_pow base (exp / 2)
      rw [hsq]
      split
      · next h1 =>
        have he : exp = 2 * (exp / 2) + 1 := by omega
        conv => rhs; rw [he, BitVec.pow_add]
        simp [BitVec.mul_assoc, BitVec.mul_comm]
      · next h1 =>
        have he : exp = 2 * (exp / 2) := by omega
        conv => rhs; rw [he]

theorem powSqMulU64Val_eq (a b : I64) : powSqMulU64Val a b = a ^ b.toNat := by
  unfold powSqMulU64Val
  rw [sqMulLoop_spec 64 1 a b.toNat b.isLt]; simp

theorem wrappingPowU32Val_eq (a b : I64) : wrappingPowU32Val a b = a ^ (b.toNat % 2 ^ 32) := by
  unfold wrappingPowU32Val
  rw [sqMulLoop_spec 32 1 a _ (Nat.mod_lt _ (by decide))]; simp

end Ssl
