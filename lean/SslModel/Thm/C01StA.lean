import SslModel.Model.CheckS
import SslModel.Thm.C01Fn
import SslModel.Thm.C02Eval
set_option linter.unusedSimpArgs false
set_option linter.unusedVariables false
namespace Ssl.CS
open Ssl Ssl.Ty Ssl.Val Ssl.Spec Ssl.Check Ssl.CheckF Ssl.CheckS Ssl.C01

/-- store typing: the declared content type of every allocated cell, by location -/
abbrev STy := List Ty

/-- `Σ'` extends `Σ`: the cells `Σ` knows keep their types -/
def Ext (S S' : STy) : Prop := ∃ ext, S' = S ++ ext

theorem ext_refl (S : STy) : Ext S S := ⟨[], by simp⟩
theorem ext_trans {A B C : STy} (h1 : Ext A B) (h2 : Ext B C) : Ext A C := by
  obtain ⟨e1, rfl⟩ := h1
  obtain ⟨e2, rfl⟩ := h2
  exact ⟨e1 ++ e2, by simp⟩
theorem ext_get {S S' : STy} (h : Ext S S') {loc : Nat} {t : Ty} (hl : S[loc]? = some t) : S'[loc]? = some t := by
  obtain ⟨e, rfl⟩ := h
  rw [List.getElem?_append_left]
  · exact hl
  · have := List.getElem?_eq_some_iff.mp hl; exact this.1

def bodyEnv (self : Option String) (ps : List (String × Ty)) (rt : Ty) (Γ : TEnv) : TEnv :=
  bindParams ps (match self with
    | some x => (x, .fn (ps.map (·.2)) rt) :: Γ
    | none => Γ)

def BodyOk (self : Option String) (ps : List (String × Ty)) (rt : Ty) (body : List Expr) (Γ : TEnv) : Prop :=
  ∃ ts g', tySSeq false (some rt) (bodyEnv self ps rt Γ) body = .ok (ts, g') ∧
    (sub .void rt = true ∨ ts.any (fun t => eqv t .never) = true)

inductive Good (S : STy) : Val → Prop
  | bool (b : Bool) : Good S (.bool b)
  | int (i : I64) : Good S (.int i)
  | float (x : F64) : Good S (.float x)
  | str (s : String) : Good S (.str s)
  | unit : Good S .unit
  | arr (t : Ty) (es : List Val) : wf t = true → (∀ e ∈ es, sub e.asType t = true) → (∀ e ∈ es, Good S e) → Good S (.arr t es)
  | tup (es : List Val) : (∀ e ∈ es, Good S e) → Good S (.tup es)
  | cell (loc : Nat) (ty : Ty) : S[loc]? = some ty → wf ty = true → Good S (.cell loc ty)
  | struct (fs : List (String × Val)) : nodupKeys (asTypeF fs) = true → (∀ p ∈ fs, Good S p.2) → Good S (.struct fs)
  | fn (id : Nat) (ps : List (String × Ty)) (rt : Ty) (body : List Expr) (cap : List (String × Val)) (self : Option String)
      (Γ : TEnv) : wfParams ps = true → wf rt = true → (∀ x t, Γ.lookup x = some t → wf t = true) →
      (∀ x t, Γ.lookup x = some t → ∃ v, frameLookup x cap = some v ∧ sub v.asType t = true) →
      (∀ x t v, Γ.lookup x = some t → frameLookup x cap = some v → Good S v) →
      BodyOk self ps rt body Γ → Good S (.fn id ps rt body cap self)

theorem good_mono {S S' : STy} (h : Ext S S') : ∀ {v : Val}, Good S v → Good S' v
  | _, .bool b => .bool b
  | _, .int i => .int i
  | _, .float x => .float x
  | _, .str s => .str s
  | _, .unit => .unit
  | _, .arr t es w hs hg => .arr t es w hs (fun e he => good_mono h (hg e he))
  | _, .tup es hg => .tup es (fun e he => good_mono h (hg e he))
  | _, .cell loc ty hl w => .cell loc ty (ext_get h hl) w
  | _, .struct fs hn hg => .struct fs hn (fun p hp => good_mono h (hg p hp))
  | _, .fn id ps rt body cap self Γ a b c d e f => .fn id ps rt body cap self Γ a b c d (fun x t v hx hv => good_mono h (e x t v hx hv)) f


variable {S : STy}

theorem wfL_of_wfParams (ps : List (String × Ty)) (h : wfParams ps = true) : wfL (ps.map (·.2)) = true := by
  induction ps with
  | nil => simp [wfL]
  | cons p ps ih =>
    simp only [wfParams, List.all_cons, Bool.and_eq_true] at h
    simp only [List.map_cons, wfL, Bool.and_eq_true]
    exact ⟨h.1, ih (by simpa [wfParams] using h.2)⟩

theorem valSizeF_mem {fs : List (String × Val)} {p : String × Val} (hp : p ∈ fs) : Val.size p.2 < Val.sizeF fs := by
  induction fs with
  | nil => cases hp
  | cons q fs ih =>
    obtain ⟨k, v⟩ := q
    simp only [Val.sizeF]
    rcases List.mem_cons.mp hp with rfl | hp
    · simp only []; omega
    · have := ih hp; omega

/-- with distinct keys, looking a key up finds the entry itself -/
theorem hasField_self : ∀ (fs : List (String × Val)) (k : String) (v : Val) (t : Ty),
    nodupKeys (asTypeF fs) = true → (k, v) ∈ fs → Val.hasField fs k t = hasTy v t
  | [], _, _, _, _, h => by cases h
  | (k', v') :: fs, k, v, t, hn, h => by
    simp only [asTypeF, nodupKeys, Bool.and_eq_true] at hn
    rw [Val.hasField]
    rcases List.mem_cons.mp h with he | ht
    · cases he
      simp
    · have hne : (k == k') = false := by
        cases hq : (k == k') with
        | false => rfl
        | true =>
          have : k = k' := by simpa using hq
          subst this
          have hmem : (asTypeF fs).any (fun p => p.1 == k) = true := by
            have : ∀ (l : List (String × Val)), (k, v) ∈ l → (asTypeF l).any (fun p => p.1 == k) = true := by
              intro l
              induction l with
              | nil => intro h; cases h
              | cons q l ih =>
                intro h
                obtain ⟨a, b⟩ := q
                simp only [asTypeF, List.any_cons, Bool.or_eq_true]
                rcases List.mem_cons.mp h with he | h2
                · cases he; left; simp
                · right; exact ih h2
            exact this fs ht
          simp [hmem] at hn
      simp only [hne, Bool.false_eq_true, if_false]
      exact hasField_self fs k v t hn.2 ht

theorem good_facts : ∀ n : Nat, ∀ v : Val, Val.size v ≤ n → Good S v →
    okv v = true ∧ wf v.asType = true ∧ hasTy v v.asType = true := by
  intro n
  induction n with
  | zero => intro v h; cases v <;> simp [Val.size] at h <;> omega
  | succ n ih =>
    intro v hs hg
    cases hg with
    | bool b => simp [okv, asType, wf, hasTy]
    | int i => simp [okv, asType, wf, hasTy]
    | float x => simp [okv, asType, wf, hasTy]
    | str s => simp [okv, asType, wf, hasTy]
    | unit => simp [okv, asType, wf, hasTy]
    | arr t es wt hsub hgood =>
      simp only [Val.size] at hs
      have hall : ∀ x ∈ es, okv x = true ∧ wf x.asType = true ∧ hasTy x x.asType = true :=
        fun x hx => ih x (by have := valSizeL_mem hx; omega) (hgood x hx)
      refine ⟨?_, by simpa [asType, wf] using wt, ?_⟩
      · simp only [okv]
        clear hs
        induction es with
        | nil => simp [okvL]
        | cons e es ihe => simp [okvL, (hall e (by simp)).1, ihe (fun x hx => hsub x (by simp [hx])) (fun x hx => hgood x (by simp [hx])) (fun x hx => hall x (by simp [hx]))]
      · rw [asType, hasTy_arr, allHasTy_iff]
        intro x hx
        exact matches_sound x x.asType t (hall x hx).1 (hall x hx).2.1 wt (hsub x hx) (hall x hx).2.2
    | tup es hgood =>
      simp only [Val.size] at hs
      have hall : ∀ x ∈ es, okv x = true ∧ wf x.asType = true ∧ hasTy x x.asType = true :=
        fun x hx => ih x (by have := valSizeL_mem hx; omega) (hgood x hx)
      clear hs
      refine ⟨?_, ?_, ?_⟩
      · simp only [okv]
        induction es with
        | nil => simp [okvL]
        | cons e es ihe => simp [okvL, (hall e (by simp)).1, ihe (fun x hx => hgood x (by simp [hx])) (fun x hx => hall x (by simp [hx]))]
      · simp only [asType, wf]
        induction es with
        | nil => simp [asTypeL, wfL]
        | cons e es ihe =>
          simp only [asTypeL, wfL, Bool.and_eq_true]
          exact ⟨(hall e (by simp)).2.1, ihe (fun x hx => hgood x (by simp [hx])) (fun x hx => hall x (by simp [hx]))⟩
      · rw [asType, hasTy_tup]
        induction es with
        | nil => simp [asTypeL, hasTyL]
        | cons e es ihe =>
          simp only [asTypeL, hasTyL, Bool.and_eq_true]
          exact ⟨(hall e (by simp)).2.2, ihe (fun x hx => hgood x (by simp [hx])) (fun x hx => hall x (by simp [hx]))⟩
    | cell loc ty hl w =>
      refine ⟨by simp [okv], by simpa [asType, wf] using w, ?_⟩
      simp only [asType, hasTy]
      exact eqv_refl ty w
    | struct fs hn hgood =>
      simp only [Val.size] at hs
      have hall : ∀ p ∈ fs, okv p.2 = true ∧ wf p.2.asType = true ∧ hasTy p.2 p.2.asType = true :=
        fun p hp => ih p.2 (by have := valSizeF_mem hp; omega) (hgood p hp)
      clear hs
      refine ⟨?_, ?_, ?_⟩
      · simp only [okv]
        clear hn
        induction fs with
        | nil => simp [okvF]
        | cons q fs ihe =>
          obtain ⟨k, v⟩ := q
          simp only [okvF, Bool.and_eq_true]
          exact ⟨(hall (k, v) (by simp)).1, ihe (fun x hx => hgood x (by simp [hx])) (fun x hx => hall x (by simp [hx]))⟩
      · simp only [asType, wf, Bool.and_eq_true]
        refine ⟨?_, hn⟩
        clear hn
        induction fs with
        | nil => simp [asTypeF, wfF]
        | cons q fs ihe =>
          obtain ⟨k, v⟩ := q
          simp only [asTypeF, wfF, Bool.and_eq_true]
          exact ⟨(hall (k, v) (by simp)).2.1, ihe (fun x hx => hgood x (by simp [hx])) (fun x hx => hall x (by simp [hx]))⟩
      · rw [asType, hasTy_struct]
        -- every field of the tag is found in the value itself
        have key : ∀ (l : List (String × Val)), (∀ p ∈ l, p ∈ fs) → hasFields fs (asTypeF l) = true := by
          intro l
          induction l with
          | nil => intro _; simp [asTypeF, hasFields]
          | cons q l ihl =>
            intro hsub
            obtain ⟨k, v⟩ := q
            rw [asTypeF, hasFields]
            simp only [Bool.and_eq_true]
            refine ⟨?_, ihl (fun p hp => hsub p (by simp [hp]))⟩
            rw [hasField_self fs k v _ hn (hsub (k, v) (by simp))]
            exact (hall (k, v) (hsub (k, v) (by simp))).2.2
        exact key fs (fun p hp => hp)
    | fn id ps rt body cap self Γ wp wr _ _ _ _ =>
      have wft : wf (Val.fn id ps rt body cap self).asType = true := by
        simp only [asType, wf, Bool.and_eq_true]
        exact ⟨wfL_of_wfParams ps wp, wr⟩
      refine ⟨by simpa [okv] using wft, wft, ?_⟩
      have hsr := sub_refl _ wft
      simp only [asType] at hsr ⊢
      rw [hasTy]
      simpa [asType] using hsr

theorem good_okv {v : Val} (h : Good S v) : okv v = true := (good_facts _ v (Nat.le_refl _) h).1
theorem good_wf_tag {v : Val} (h : Good S v) : wf v.asType = true := (good_facts _ v (Nat.le_refl _) h).2.1
theorem good_hasTy_tag {v : Val} (h : Good S v) : hasTy v v.asType = true := (good_facts _ v (Nat.le_refl _) h).2.2

/-- a good value whose tag lies below a well-formed `T` inhabits `T` -/
theorem hasTy_of_tagG {v : Val} {T : Ty} (gv : Good S v) (wT : wf T = true) (h : sub v.asType T = true) : hasTy v T = true :=
  matches_sound v v.asType T (good_okv gv) (good_wf_tag gv) wT h (good_hasTy_tag gv)


/-! ### operators -/

theorem pair_inG (x y : Val) (l r acc : Ty) (hx : hasTy x l = true) (hy : hasTy y r = true)
    (ox : okv x = true) (oy : okv y = true) (wl : wf l = true) (wr : wf r = true) (wa : wf acc = true)
    (h : sub (pairTy l r) acc = true) : hasTy (.tup [x, y]) acc = true :=
  matches_sound (.tup [x, y]) (pairTy l r) acc (by simp [okv, okvL, ox, oy]) (by simp [pairTy, wf, wfL, wl, wr]) wa h
    (hasTy_pair x y l r hx hy)

theorem wf_accs : wf accNum = true ∧ wf accInt = true ∧ wf accBit = true ∧ wf accAddScalar = true := by
  simp [accNum, accInt, accBit, accAddScalar, pairTy, wf, wfL, membersOk, nodupL, memL, eqv, eqvL]

def scalarV : Val → Bool
  | .bool _ | .int _ | .float _ | .str _ | .unit => true
  | _ => false

theorem plain_of_scalar {v : Val} (h : scalarV v = true) : plain v = true := by
  cases v <;> simp [scalarV] at h <;> simp [plain]

theorem good_of_scalarish {v : Val} (h : plain v = true) (hs : scalarV v = true) : Good S v := by
  cases v <;> simp [scalarV] at hs <;> constructor

/-- which operands a typed scalar operator can meet: scalars, or (for `+`) two arrays, or anything for `==` / `!=` -/
theorem operand_shapes (op : BinOp) (l r T : Ty) (x y : Val) (hx : hasTy x l = true) (hy : hasTy y r = true)
    (ox : okv x = true) (oy : okv y = true) (wl : wf l = true) (wr : wf r = true) (ht : binTy op l r = .ok T) :
    (scalarV x = true ∧ scalarV y = true) ∨
    (op = .add ∧ ∃ le re, l = .arr le ∧ r = .arr re) ∨ op = .eq ∨ op = .ne := by
  obtain ⟨w1, w2, w3, w4⟩ := wf_accs
  have num : sub (pairTy l r) accNum = true → scalarV x = true ∧ scalarV y = true := fun hs => by
    rcases in_accNum x y (pair_inG x y l r accNum hx hy ox oy wl wr w1 hs) with ⟨a, b, rfl, rfl⟩ | ⟨a, b, rfl, rfl⟩ <;> simp [scalarV]
  have int : sub (pairTy l r) accInt = true → scalarV x = true ∧ scalarV y = true := fun hs => by
    obtain ⟨a, b, rfl, rfl⟩ := in_accInt x y (pair_inG x y l r accInt hx hy ox oy wl wr w2 hs); simp [scalarV]
  have bit : sub (pairTy l r) accBit = true → scalarV x = true ∧ scalarV y = true := fun hs => by
    rcases in_accBit x y (pair_inG x y l r accBit hx hy ox oy wl wr w3 hs) with ⟨a, b, rfl, rfl⟩ | ⟨a, b, rfl, rfl⟩ <;> simp [scalarV]
  cases op with
  | add =>
    simp only [binTy] at ht
    split at ht
    · rename_i le re
      exact Or.inr (Or.inl ⟨rfl, le, re, rfl, rfl⟩)
    · split at ht
      · rename_i hs
        left
        rcases in_accAddScalar x y (pair_inG x y l r accAddScalar hx hy ox oy wl wr w4 hs) with
          ⟨a, b, rfl, rfl⟩ | ⟨a, b, rfl, rfl⟩ | ⟨a, b, rfl, rfl⟩ <;> simp [scalarV]
      · split at ht <;> cases ht
  | eq => exact Or.inr (Or.inr (Or.inl rfl))
  | ne => exact Or.inr (Or.inr (Or.inr rfl))
  | filter => simp only [binTy] at ht; cases ht
  | map => simp only [binTy] at ht; cases ht
  | partition => simp only [binTy] at ht; cases ht
  | sub | mul | div | pow | lt | le | gt | ge =>
    simp only [binTy] at ht
    split at ht
    · rename_i hs; exact Or.inl (num hs)
    · cases ht
  | mod | shl | shr =>
    simp only [binTy] at ht
    split at ht
    · rename_i hs; exact Or.inl (int hs)
    · cases ht
  | band | bor | bxor =>
    simp only [binTy] at ht
    split at ht
    · rename_i hs; exact Or.inl (bit hs)
    · cases ht


theorem good_of_plain : ∀ n : Nat, ∀ v : Val, Val.size v ≤ n → plain v = true → Good S v := by
  intro n
  induction n with
  | zero => intro v h; cases v <;> simp [Val.size] at h <;> omega
  | succ n ih =>
    intro v hs hp
    cases v with
    | arr t es =>
      simp only [plain, Bool.and_eq_true] at hp
      simp only [Val.size] at hs
      exact Good.arr t es hp.1.1 ((allTagSub_iff es t).mp hp.1.2)
        (fun e he => ih e (by have := valSizeL_mem he; omega) (plainL_mem hp.2 he))
    | tup es =>
      simp only [plain] at hp
      simp only [Val.size] at hs
      exact Good.tup es (fun e he => ih e (by have := valSizeL_mem he; omega) (plainL_mem hp he))
    | struct _ => simp [plain] at hp
    | cell _ _ => simp [plain] at hp
    | fn _ _ _ _ _ _ => simp [plain] at hp
    | _ => constructor

theorem ofScalar_sig (r : Except ExecErr Scalar) (s : Sig) (h : ofScalar r = .error s) : ∃ e, s = .err e := by
  cases r with
  | error e => simp [ofScalar] at h; exact ⟨e, h.symm⟩
  | ok sc => cases sc <;> simp [ofScalar] at h

/-- value typing: the run-time tag lies below `T`, and the value is well-formed -/
def VT (S : STy) (T : Ty) (v : Val) : Prop := sub v.asType T = true ∧ Good S v

theorem tagArr_sub (t e : Ty) (h : sub (Ty.arr t) (Ty.arr e) = true) : sub t e = true := by rwa [C01.sub_arr] at h

/-- a scalar operator fails only with a documented error or with `wrong` -/
theorem binScalar_sig (op : BinOp) (x y : Val) (s : Sig) (h : binScalar op x y = .error s) :
    (∃ e, s = .err e) ∨ (∃ w, s = .wrong w) := by
  unfold binScalar at h
  split at h <;> first
    | (obtain ⟨e, rfl⟩ := ofScalar_sig _ _ h; exact Or.inl ⟨e, rfl⟩)
    | (cases h; exact Or.inr ⟨_, rfl⟩)
    | cases h

/-- a typed binary operator on operands of its operand types: a value of the result type, or a documented error -/
theorem out_bin (ret : Option Ty) (op : BinOp) (l r T : Ty) (x y : Val) (hx : VT S l x) (hy : VT S r y)
    (wl : wf l = true) (wr : wf r = true) (ht : binTy op l r = .ok T) :
    (match binScalar op x y with
     | .ok v => VT S T v
     | .error s => ∃ e, s = .err e) := by
  obtain ⟨tx, gx⟩ := hx
  obtain ⟨ty, gy⟩ := hy
  have cx := hasTy_of_tagG gx wl tx
  have cy := hasTy_of_tagG gy wr ty
  rcases operand_shapes op l r T x y cx cy (good_okv gx) (good_okv gy) wl wr ht with ⟨sx, sy⟩ | ⟨rfl, le, re, rfl, rfl⟩ | rfl | rfl
  · have px := plain_of_scalar sx
    have py := plain_of_scalar sy
    cases hb : binScalar op x y with
    | ok v =>
      obtain ⟨h1, h2⟩ := sound_bin op l r T x y v tx ty px py wl wr ht hb
      exact ⟨h1, good_of_plain _ v (Nat.le_refl _) h2⟩
    | error s =>
      have nw := C02.bin_not_wrong op l r T x y cx cy (plain_fo px) (plain_fo py) ht
      rw [hb] at nw
      rcases binScalar_sig op x y s hb with ⟨e, rfl⟩ | ⟨w, rfl⟩
      · exact ⟨e, rfl⟩
      · simp [C02.isWrong] at nw
  · -- `+` on two arrays
    simp only [binTy] at ht
    have hT := (okW_ok ht).1
    subst hT
    simp only [wf] at wl wr
    obtain ⟨t1, xs, rfl⟩ := arr_of_hasTy cx
    obtain ⟨t2, ys, rfl⟩ := arr_of_hasTy cy
    simp only [asType, C01.sub_arr] at tx ty
    cases gx with
    | arr _ _ w1 hs1 hg1 =>
    cases gy with
    | arr _ _ w2 hs2 hg2 =>
    have wc := concat_wf t1 t2 w1 w2
    have wC := concat_wf le re wl wr
    obtain ⟨u1, u2⟩ := concat_upper le re wl wr
    obtain ⟨v1, v2⟩ := concat_upper t1 t2 w1 w2
    have s1 : sub t1 (concat le re) = true := sub_trans t1 le _ w1 wl wC tx u1
    have s2 : sub t2 (concat le re) = true := sub_trans t2 re _ w2 wr wC ty u2
    simp only [binScalar, concatArrays]
    split
    · exact ⟨by simp only [asType, C01.sub_arr]; exact s2, Good.arr t2 ys w2 hs2 hg2⟩
    · split
      · exact ⟨by simp only [asType, C01.sub_arr]; exact s1, Good.arr t1 xs w1 hs1 hg1⟩
      · refine ⟨by simp only [asType, C01.sub_arr]; exact concat_least t1 t2 _ w1 w2 s1 s2, Good.arr _ _ wc ?_ ?_⟩
        · intro e he
          rcases List.mem_append.mp he with h | h
          · exact sub_trans _ t1 _ (good_wf_tag (hg1 e h)) w1 wc (hs1 e h) v1
          · exact sub_trans _ t2 _ (good_wf_tag (hg2 e h)) w2 wc (hs2 e h) v2
        · intro e he
          rcases List.mem_append.mp he with h | h
          · exact hg1 e h
          · exact hg2 e h
  · simp only [binTy] at ht
    cases ht
    have : binScalar .eq x y = .ok (.bool (veq x y)) := by cases x <;> cases y <;> simp [binScalar]
    rw [this]
    exact ⟨by simp [asType, sub, eqv], Good.bool _⟩
  · simp only [binTy] at ht
    cases ht
    have : binScalar .ne x y = .ok (.bool (!veq x y)) := by cases x <;> cases y <;> simp [binScalar]
    rw [this]
    exact ⟨by simp [asType, sub, eqv], Good.bool _⟩




/-! ### stores and outcomes -/

theorem vt_mono {S S' : STy} (h : Ext S S') {T : Ty} {v : Val} (hv : VT S T v) : VT S' T v := ⟨hv.1, good_mono h hv.2⟩

/-- the store respects its typing: every allocated cell holds a value of its declared type -/
def StoreOk (S : STy) (σ : St) : Prop :=
  σ.cells.size = S.length ∧ (∀ (loc : Nat) (ty : Ty), S[loc]? = some ty → ∃ v, σ.cells[loc]? = some v ∧ VT S ty v) ∧
    ∀ ty ∈ S, wf ty = true

/-- what a signal may be: a `return` of a value of the enclosing function's result type, a documented run-time error,
    fuel exhaustion, `break` / `continue` only inside a loop body (`lp`) - never `wrong` -/
def okSig (lp : Bool) (ret : Option Ty) (S : STy) (σ' : St) : Sig → Prop
  | .ret v => ∃ rt S', ret = some rt ∧ Ext S S' ∧ StoreOk S' σ' ∧ VT S' rt v
  | .err _ => True
  | .fuel => True
  | .brk => lp = true ∧ ∃ S', Ext S S' ∧ StoreOk S' σ'
  | .cont => lp = true ∧ ∃ S', Ext S S' ∧ StoreOk S' σ'
  | .wrong _ => False

theorem okSig_weaken {lp : Bool} {ret : Option Ty} {S S1 : STy} {σ' : St} {s : Sig} (h : Ext S S1)
    (hs : okSig lp ret S1 σ' s) : okSig lp ret S σ' s := by
  cases s with
  | ret v => obtain ⟨rt, S', h1, h2, h3, h4⟩ := hs; exact ⟨rt, S', h1, ext_trans h h2, h3, h4⟩
  | err e => trivial
  | fuel => trivial
  | brk => obtain ⟨h1, S', h2, h3⟩ := hs; exact ⟨h1, S', ext_trans h h2, h3⟩
  | cont => obtain ⟨h1, S', h2, h3⟩ := hs; exact ⟨h1, S', ext_trans h h2, h3⟩
  | wrong w => exact hs

/-- the outcome of a computation started in a store typed by `S`: a value satisfying `P` in an extended store typing that
    the final store respects, or an admissible signal -/
def OutP {α} (lp : Bool) (ret : Option Ty) (S : STy) (P : STy → α → Prop) (r : Except Sig α × St) : Prop :=
  match r with
  | (.ok a, σ') => ∃ S', Ext S S' ∧ StoreOk S' σ' ∧ P S' a
  | (.error s, σ') => okSig lp ret S σ' s

theorem outP_bind {α β} (lp : Bool) (ret : Option Ty) (S : STy) (P : STy → α → Prop) (Q : STy → β → Prop) (m : M α) (k : α → M β) (σ : St)
    (h1 : OutP lp ret S P (m σ))
    (h2 : ∀ a σ1 S1, Ext S S1 → StoreOk S1 σ1 → m σ = (.ok a, σ1) → P S1 a → OutP lp ret S1 Q (k a σ1)) :
    OutP lp ret S Q ((m >>= k) σ) := by
  rw [C07.bind_def]
  cases hm : m σ with
  | mk r σ1 =>
    rw [hm] at h1
    cases r with
    | ok a =>
      obtain ⟨S1, he, hst, hp⟩ := h1
      have := h2 a σ1 S1 he hst hm hp
      simp only []
      cases hk : k a σ1 with
      | mk r2 σ2 =>
        rw [hk] at this
        cases r2 with
        | ok b => obtain ⟨S2, he2, hst2, hq⟩ := this; exact ⟨S2, ext_trans he he2, hst2, hq⟩
        | error e => exact okSig_weaken he this
    | error e => exact h1

theorem outP_pure {α} (lp : Bool) (ret : Option Ty) (S : STy) (P : STy → α → Prop) (a : α) (σ : St) (hst : StoreOk S σ) (h : P S a) :
    OutP lp ret S P ((pure a : M α) σ) := ⟨S, ext_refl S, hst, h⟩

theorem outP_liftE2 {α} (lp : Bool) (ret : Option Ty) (S : STy) (P : STy → α → Prop) (r : Except Sig α) (σ : St) (hst : StoreOk S σ)
    (hok : ∀ a, r = .ok a → P S a) (herr : ∀ s, r = .error s → ∃ e, s = .err e) : OutP lp ret S P (liftE r σ) := by
  cases r with
  | ok a => exact ⟨S, ext_refl S, hst, hok a rfl⟩
  | error s => obtain ⟨e, rfl⟩ := herr s rfl; simp [OutP, liftE, okSig]

theorem outP_err {α} (lp : Bool) (ret : Option Ty) (S : STy) (P : STy → α → Prop) (e : ExecErr) (σ : St) :
    OutP lp ret S P ((throwS (.err e) : M α) σ) := by simp [OutP, throwS, okSig]

theorem outP_mono {α} (lp : Bool) (ret : Option Ty) (S : STy) (P Q : STy → α → Prop) (r : Except Sig α × St) (h : OutP lp ret S P r)
    (hpq : ∀ S' a, Ext S S' → P S' a → Q S' a) : OutP lp ret S Q r := by
  obtain ⟨r1, σ'⟩ := r
  cases r1 with
  | ok a => obtain ⟨S', he, hst, hp⟩ := h; exact ⟨S', he, hst, hpq S' a he hp⟩
  | error s => exact h

theorem atVal_sig (x : Val) (k : I64) (s : Sig) (hx : (∃ t xs, x = .arr t xs) ∨ (∃ str, x = .str str))
    (h : atVal x (.int k) = .error s) : s = .err .IndexOutOfBounds := by
  rcases hx with ⟨t, xs, rfl⟩ | ⟨str, rfl⟩
  · simp only [atVal] at h
    split at h
    · split at h
      · cases h
      · cases h; rfl
    · cases h; rfl
  · simp only [atVal] at h
    split at h
    · split at h
      · cases h
      · cases h; rfl
    · cases h; rfl

/-! ### environments -/

def EnvOkG (S : STy) (env : Env) (g : TEnv) : Prop := ∀ x t, g.lookup x = some t → ∃ v, env.lookup x = some v ∧ VT S t v
def GWf (g : TEnv) : Prop := ∀ x t, g.lookup x = some t → wf t = true

theorem gwf_cons (g : TEnv) (x : String) (t : Ty) (h : GWf g) (wt : wf t = true) : GWf ((x, t) :: g) := by
  intro y ty hy
  simp only [TEnv.lookup] at hy
  split at hy
  · cases hy; exact wt
  · exact h y ty hy

theorem envOkG_insert (env : Env) (g : TEnv) (x : String) (v : Val) (t : Ty) (h : EnvOkG S env g) (hv : VT S t v) :
    EnvOkG S (env.insert x v) ((x, t) :: g) := by
  intro y ty hy
  simp only [TEnv.lookup] at hy
  by_cases hxy : (y == x) = true
  · simp only [hxy, if_true, Option.some.injEq] at hy
    subst hy
    have : y = x := by simpa using hxy
    subst this
    exact ⟨v, C06.lookup_insert_same env y v, hv⟩
  · have hxy' : (y == x) = false := by simpa using hxy
    simp only [hxy', Bool.false_eq_true, if_false] at hy
    obtain ⟨w, hw, h1⟩ := h y ty hy
    have hne : (x == y) = false := by
      cases hq : (x == y) with
      | false => rfl
      | true => have : x = y := by simpa using hq
                subst this; simp at hxy'
    exact ⟨w, by rw [C06.lookup_insert_other env x y v hne]; exact hw, h1⟩

theorem envOkG_bind (env : Env) (g : TEnv) (x : String) (v : Val) (t : Ty) (h : EnvOkG S env g) (hv : VT S t v) :
    EnvOkG S ([(x, v)] :: env) ((x, t) :: g) := by
  intro y ty hy
  simp only [TEnv.lookup] at hy
  by_cases hxy : (y == x) = true
  · simp only [hxy, if_true, Option.some.injEq] at hy
    subst hy
    have : y = x := by simpa using hxy
    subst this
    exact ⟨v, C06.lookup_inner_frame env y v, hv⟩
  · have hxy' : (y == x) = false := by simpa using hxy
    simp only [hxy', Bool.false_eq_true, if_false] at hy
    obtain ⟨w, hw, h1⟩ := h y ty hy
    have hne : (x == y) = false := by
      cases hq : (x == y) with
      | false => rfl
      | true => have : x = y := by simpa using hq
                subst this; simp at hxy'
    exact ⟨w, by rw [C06.lookup_inner_frame_other env x y v hne]; exact hw, h1⟩

theorem envOkG_push (env : Env) (g : TEnv) (h : EnvOkG S env g) : EnvOkG S ([] :: env) g := by
  intro y ty hy
  obtain ⟨w, hw, h1⟩ := h y ty hy
  exact ⟨w, by simpa [Env.lookup, frameLookup] using hw, h1⟩


/-! ### the callee's environment -/

/-- typed bindings and value bindings, name by name -/
def Rel (S : STy) : List (String × Ty) → List (String × Val) → Prop
  | [], [] => True
  | (n, t) :: a, (m, v) :: b => n = m ∧ VT S t v ∧ Rel S a b
  | _, _ => False

theorem rel_append : ∀ (a : List (String × Ty)) (b : List (String × Val)) (c : List (String × Ty)) (d : List (String × Val)),
    Rel S a b → Rel S c d → Rel S (a ++ c) (b ++ d)
  | [], [], c, d, _, h => by simpa using h
  | (n, t) :: a, (m, v) :: b, c, d, h1, h2 => by
    simp only [Rel] at h1
    simp only [List.cons_append, Rel]
    exact ⟨h1.1, h1.2.1, rel_append a b c d h1.2.2 h2⟩
  | [], _ :: _, _, _, h, _ => by simp [Rel] at h
  | _ :: _, [], _, _, h, _ => by simp [Rel] at h

theorem rel_reverse : ∀ (a : List (String × Ty)) (b : List (String × Val)), Rel S a b → Rel S a.reverse b.reverse
  | [], [], _ => by simp [Rel]
  | (n, t) :: a, (m, v) :: b, h => by
    simp only [Rel] at h
    simp only [List.reverse_cons]
    exact rel_append _ _ _ _ (rel_reverse a b h.2.2) (by simp [Rel, h.1, h.2.1])
  | [], _ :: _, h => by simp [Rel] at h
  | _ :: _, [], h => by simp [Rel] at h

/-- looking a name up in related binding lists, with related fall-through -/
theorem lookup_rel : ∀ (a : List (String × Ty)) (b : List (String × Val)) (g : TEnv) (fr : Frame) (y : String) (t : Ty),
    Rel S a b → (∀ t, g.lookup y = some t → ∃ v, frameLookup y fr = some v ∧ VT S t v) →
    TEnv.lookup y (a ++ g) = some t → ∃ v, frameLookup y (b ++ fr) = some v ∧ VT S t v
  | [], [], g, fr, y, t, _, hf, h => by simpa using hf t (by simpa using h)
  | (n, t0) :: a, (m, v0) :: b, g, fr, y, t, hr, hf, h => by
    simp only [Rel] at hr
    obtain ⟨rfl, hv, hr'⟩ := hr
    simp only [List.cons_append, TEnv.lookup] at h
    simp only [List.cons_append, frameLookup]
    by_cases hyn : (y == n) = true
    · have : (n == y) = true := by
        have : y = n := by simpa using hyn
        subst this; simp
      simp only [hyn, if_true, Option.some.injEq] at h
      subst h
      exact ⟨v0, by simp [this], hv⟩
    · have hyn' : (y == n) = false := by simpa using hyn
      have : (n == y) = false := by
        cases hq : (n == y) with
        | false => rfl
        | true => have : n = y := by simpa using hq
                  subst this; simp at hyn'
      simp only [hyn', Bool.false_eq_true, if_false] at h
      simp only [this, Bool.false_eq_true, if_false]
      exact lookup_rel a b g fr y t hr' hf h
  | [], _ :: _, _, _, _, _, h, _, _ => by simp [Rel] at h
  | _ :: _, [], _, _, _, _, h, _, _ => by simp [Rel] at h

/-- the arguments of a call against the parameters of the callee -/
def ArgsOk (S : STy) : List (String × Ty) → List Val → Prop
  | [], [] => True
  | (_, t) :: ps, v :: vs => VT S t v ∧ ArgsOk S ps vs
  | _, _ => False

theorem rel_zip : ∀ (ps : List (String × Ty)) (args : List Val), ArgsOk S ps args →
    Rel S ps (List.zip (ps.map (·.1)) args)
  | [], [], _ => by simp [Rel]
  | (n, t) :: ps, v :: vs, h => by
    simp only [ArgsOk] at h
    simp only [List.map_cons, List.zip_cons_cons, Rel]
    exact ⟨trivial, h.1, rel_zip ps vs h.2⟩
  | [], _ :: _, h => by simp [ArgsOk] at h
  | _ :: _, [], h => by simp [ArgsOk] at h

theorem lookup_two_frames (fr1 fr2 : Frame) (y : String) :
    Env.lookup [fr1, fr2] y = frameLookup y (fr1 ++ fr2) := by
  simp only [Env.lookup, C06.frameLookup_append]
  cases frameLookup y fr1 <;> cases frameLookup y fr2 <;> simp

theorem envOkG_callee (fv : Val) (ps : List (String × Ty)) (rt : Ty) (cap : Frame) (self : Option String)
    (args : List Val) (Γ : TEnv) (hargs : ArgsOk S ps args)
    (hself : ∀ x, self = some x → VT S (.fn (ps.map (·.2)) rt) fv)
    (hcap : ∀ x t, Γ.lookup x = some t → ∃ v, frameLookup x cap = some v ∧ VT S t v) :
    EnvOkG S (calleeEnv fv ps cap self args) (bodyEnv self ps rt Γ) := by
  intro y t hy
  unfold calleeEnv
  rw [lookup_two_frames]
  unfold bodyEnv bindParams at hy
  have hr := rel_reverse _ _ (rel_zip ps args hargs)
  cases self with
  | none =>
    simp only [List.append_nil] at hy ⊢
    obtain ⟨v, hv, hvt⟩ := lookup_rel _ _ Γ cap y t hr (hcap y) hy
    exact ⟨v, by simpa using hv, hvt⟩
  | some x =>
    have hr2 : Rel S (ps.reverse ++ [(x, Ty.fn (ps.map (·.2)) rt)]) ((List.zip (ps.map (·.1)) args).reverse ++ [(x, fv)]) :=
      rel_append _ _ _ _ hr (by simp [Rel, hself x rfl])
    have hy' : TEnv.lookup y ((ps.reverse ++ [(x, Ty.fn (ps.map (·.2)) rt)]) ++ Γ) = some t := by simpa using hy
    obtain ⟨v, hv, hvt⟩ := lookup_rel _ _ Γ cap y t hr2 (hcap y) hy'
    exact ⟨v, by simpa using hv, hvt⟩



theorem envOk_mono {S S' : STy} (h : Ext S S') {env : Env} {g : TEnv} (he : EnvOkG S env g) : EnvOkG S' env g := by
  intro x t hx
  obtain ⟨v, hv, hvt⟩ := he x t hx
  exact ⟨v, hv, vt_mono h hvt⟩


end Ssl.CS
