/-! PEG datatype for the pest grammar (`Gen/Grammar.lean` is generated from simplesl.pest). -/
namespace Ssl.Peg

inductive RuleKind where
  | normal | silent | atomic | compound | nonatomic
  deriving DecidableEq, Repr

inductive Peg where
  | str (s : String)
  | rule (name : String)
  | builtin (name : String)
  | seq (items : List Peg)
  | choice (alts : List Peg)
  | star (e : Peg)
  | plus (e : Peg)
  | opt (e : Peg)
  | notP (e : Peg)
  | andP (e : Peg)
  deriving Repr, Inhabited

end Ssl.Peg
