//! Canonical S-expression renderings of types, values and errors (DESIGN Appendix B).
use simplesl::variable::{Type, Typed, Variable};
use simplesl::{Error, ExecError};

pub fn ty(t: &Type) -> String {
    match t {
        Type::Bool => "bool".into(),
        Type::Int => "int".into(),
        Type::Float => "float".into(),
        Type::String => "str".into(),
        Type::Void => "void".into(),
        Type::Any => "any".into(),
        Type::Never => "never".into(),
        Type::Function(f) => format!(
            "(fn ({}) {})",
            f.params.iter().map(ty).collect::<Vec<_>>().join(" "),
            ty(&f.return_type)
        ),
        Type::Array(e) => format!("(arr {})", ty(e)),
        Type::Tuple(ts) => format!("(tup {})", ts.iter().map(ty).collect::<Vec<_>>().join(" ")),
        Type::Multi(m) => {
            let mut ms: Vec<String> = m.iter().map(ty).collect();
            ms.sort();
            format!("(multi {})", ms.join(" "))
        }
        Type::Mut(e) => format!("(cell {})", ty(e)),
        Type::Struct(s) => {
            let mut fs: Vec<(String, String)> =
                s.0.iter().map(|(k, v)| (k.to_string(), ty(v))).collect();
            fs.sort();
            if fs.is_empty() {
                "(struct)".into()
            } else {
                format!(
                    "(struct {})",
                    fs.iter().map(|(k, v)| format!("({k} {v})")).collect::<Vec<_>>().join(" ")
                )
            }
        }
    }
}

/// the type in the *actual* iteration order of its hash containers (for C05 / C15)
pub fn ty_ordered(t: &Type) -> String {
    match t {
        Type::Function(f) => format!(
            "(fn ({}) {})",
            f.params.iter().map(ty_ordered).collect::<Vec<_>>().join(" "),
            ty_ordered(&f.return_type)
        ),
        Type::Array(e) => format!("(arr {})", ty_ordered(e)),
        Type::Tuple(ts) => {
            format!("(tup {})", ts.iter().map(ty_ordered).collect::<Vec<_>>().join(" "))
        }
        Type::Multi(m) => {
            format!("(multi {})", m.iter().map(ty_ordered).collect::<Vec<_>>().join(" "))
        }
        Type::Mut(e) => format!("(cell {})", ty_ordered(e)),
        Type::Struct(s) => {
            if s.0.is_empty() {
                "(struct)".into()
            } else {
                format!(
                    "(struct {})",
                    s.0.iter()
                        .map(|(k, v)| format!("({k} {})", ty_ordered(v)))
                        .collect::<Vec<_>>()
                        .join(" ")
                )
            }
        }
        other => ty(other),
    }
}

pub fn string(s: &str) -> String {
    let mut out = String::from("\"");
    for c in s.chars() {
        match c {
            '"' => out.push_str("\\\""),
            '\\' => out.push_str("\\\\"),
            ' '..='~' => out.push(c),
            c => out.push_str(&format!("\\u{{{:x}}}", c as u32)),
        }
    }
    out.push('"');
    out
}

pub fn float_bits(f: f64) -> String {
    if f.is_nan() {
        "7ff8000000000000".into()
    } else {
        format!("{:016x}", f.to_bits())
    }
}

pub fn value(v: &Variable) -> String {
    value_d(v, 0)
}

fn value_d(v: &Variable, depth: usize) -> String {
    if depth > 40 {
        return "(deep)".into();
    }
    match v {
        Variable::Bool(b) => b.to_string(),
        Variable::Int(i) => format!("(i {i})"),
        Variable::Float(f) => format!("(f {})", float_bits(*f)),
        Variable::String(s) => format!("(s {})", string(s)),
        Variable::Void => "unit".into(),
        Variable::Function(f) => format!("(fn# {})", ty(&f.as_type())),
        Variable::Array(a) => {
            let mut s = format!("(arr {}", ty(a.element_type()));
            for e in a.iter() {
                s.push(' ');
                s.push_str(&value_d(e, depth + 1));
            }
            s.push(')');
            s
        }
        Variable::Tuple(es) => {
            let mut s = String::from("(tup");
            for e in es.iter() {
                s.push(' ');
                s.push_str(&value_d(e, depth + 1));
            }
            s.push(')');
            s
        }
        Variable::Struct(m) => {
            let mut fs: Vec<(String, String)> =
                m.iter().map(|(k, v)| (k.to_string(), value_d(v, depth + 1))).collect();
            fs.sort();
            let mut s = String::from("(struct");
            for (k, v) in fs {
                s.push_str(&format!(" ({k} {v})"));
            }
            s.push(')');
            s
        }
        Variable::Mut(m) => {
            let inner = match m.variable.try_read() {
                Ok(g) => value_d(&g, depth + 1),
                Err(_) => "(locked)".into(),
            };
            format!("(cell# {} {})", ty(&m.var_type), inner)
        }
    }
}

pub fn variant_name(dbg: &str) -> String {
    dbg.chars().take_while(|c| c.is_ascii_alphanumeric() || *c == '_').collect()
}

pub fn error(e: &Error) -> String {
    variant_name(&format!("{e:?}"))
}

pub fn exec_error(e: &ExecError) -> String {
    variant_name(&format!("{e:?}"))
}
