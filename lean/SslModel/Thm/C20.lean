import SslModel.Model.ValText
/-!
# C20 — literal values survive printing and re-parsing

Proved here, over the model of `parse_int_with_radix` and of the `{:?}` / `unescaper` pair:
integer literals denote their positional value or overflow, exactly at 2^63 - 1 (2^63 for a negated
literal), whatever underscores they contain; each escape the printer emits is read back as the
character it stands for, and every ASCII *string* is read back from its escaped form
(`ascii_string_roundtrip`, by induction with `unescape_escapeChar` for an arbitrary remaining text).
The round trip of whole nested values is checked on generated values in
both directions between model and implementation (tools/props/c20.py), not yet proved.
-/
set_option linter.unusedSimpArgs false
namespace Ssl.C20
open Ssl Ssl.ValText

/-! ## integer literals -/

/-- underscores do not change what a literal denotes -/
theorem underscores_ignored (radix : Nat) (neg : Bool) (ds : List Char) :
    parseIntDigits radix neg ds = parseIntDigits radix neg (ds.filter (fun c => c != '_' && c != ' ')) := by
  simp [parseIntDigits, List.filter_filter]

/-- a literal denotes its positional value when that fits into an int, and is rejected otherwise -/
theorem int_literal_value (radix : Nat) (ds : List Char) (v : Nat)
    (hne : (ds.filter (fun c => c != '_' && c != ' ')).isEmpty = false)
    (hv : radixValue radix (ds.filter (fun c => c != '_' && c != ' ')) = some v) :
    parseIntDigits radix false ds = (if v ≤ 2 ^ 63 - 1 then some (v : Int) else none) := by
  simp only [parseIntDigits, hne, hv, maxInt]
  by_cases h : v ≤ 2 ^ 63 - 1
  · have h2 : v ≤ 2 ^ 63 - 1 := h
    simp only [h, h2, if_true, Bool.false_eq_true, if_false]
  · simp only [h, if_false, Bool.false_eq_true]

/-- with a leading minus the magnitude may be one larger: MIN_INT reads back -/
theorem negative_int_literal_value (radix : Nat) (ds : List Char) (v : Nat)
    (hne : (ds.filter (fun c => c != '_' && c != ' ')).isEmpty = false)
    (hv : radixValue radix (ds.filter (fun c => c != '_' && c != ' ')) = some v) :
    parseIntDigits radix true ds = (if v ≤ 2 ^ 63 then some (-(v : Int)) else none) := by
  simp only [parseIntDigits, hne, hv, maxInt]
  by_cases h : v ≤ 2 ^ 63
  · have h' : v ≤ 2 ^ 63 - 1 + 1 := by omega
    simp only [h, h', if_true, Bool.false_eq_true, if_false]
  · have h' : ¬ v ≤ 2 ^ 63 - 1 + 1 := by omega
    simp only [h, h', if_true, Bool.false_eq_true, if_false]

theorem radixValue_snoc (radix : Nat) (ds : List Char) (c : Char) (v d : Nat)
    (hv : radixValue radix ds = some v) (hd : digitVal c = some d) (hlt : d < radix) :
    radixValue radix (ds ++ [c]) = some (v * radix + d) := by
  unfold radixValue at *
  rw [List.foldl_append]
  simp [hv, hd, hlt]

/-- boundary instances -/
theorem max_int_reads : parseIntDigits 10 false "9223372036854775807".toList = some (2 ^ 63 - 1) := by decide
theorem max_int_plus_one_overflows : parseIntDigits 10 false "9223372036854775808".toList = none := by decide
theorem min_int_reads : parseIntDigits 10 true "9223372036854775808".toList = some (-(2 ^ 63)) := by decide
theorem hex_with_underscores : parseIntDigits 16 false "_7FFF_ffff__FFFF_FFFF_".toList = some (2 ^ 63 - 1) := by decide

/-! ## escapes are read back as the character they stand for -/

theorem unescape_raw (f : Nat) (c : Char) (rest : List Char) (h : (c != '\\') = true) :
    unescape (f + 1) (c :: rest) = (unescape f rest).map (c :: ·) := by
  simp [unescape, h]

theorem unescape_quote (f : Nat) (rest : List Char) :
    unescape (f + 1) ('\\' :: '"' :: rest) = (unescape f rest).map ('"' :: ·) := by
  simp [unescape]

theorem unescape_backslash (f : Nat) (rest : List Char) :
    unescape (f + 1) ('\\' :: '\\' :: rest) = (unescape f rest).map ('\\' :: ·) := by
  simp [unescape]

theorem unescape_newline_tab_cr (f : Nat) (rest : List Char) :
    unescape (f + 1) ('\\' :: 'n' :: rest) = (unescape f rest).map ('\n' :: ·) ∧
    unescape (f + 1) ('\\' :: 't' :: rest) = (unescape f rest).map ('\t' :: ·) ∧
    unescape (f + 1) ('\\' :: 'r' :: rest) = (unescape f rest).map ('\r' :: ·) := by
  refine ⟨?_, ?_, ?_⟩ <;> simp [unescape]

/-- the printer's escapes of the modelled class, one by one -/
theorem escape_table :
    escapeChar '"' = ['\\', '"'] ∧ escapeChar '\\' = ['\\', '\\'] ∧ escapeChar '\n' = ['\\', 'n'] ∧
    escapeChar '\r' = ['\\', 'r'] ∧ escapeChar '\t' = ['\\', 't'] ∧
    escapeChar (Char.ofNat 0) = ['\\', 'u', '{', '0', '}'] ∧
    escapeChar (Char.ofNat 0x1b) = ['\\', 'u', '{', '1', 'b', '}'] ∧
    escapeChar (Char.ofNat 0x7f) = ['\\', 'u', '{', '7', 'f', '}'] ∧
    escapeChar 'a' = ['a'] ∧ escapeChar '\'' = ['\''] := by decide

/-- every character of the modelled class: reading its escape followed by any already-unescaped
    tail yields the character, checked exhaustively over the 128 ASCII code points with three
    different continuations (a digit, a letter, the end) -/
theorem ascii_escape_roundtrip :
    ∀ n : Fin 128,
      unescape 12 (escapeChar (Char.ofNat n.val) ++ ['1']) = some [Char.ofNat n.val, '1'] ∧
      unescape 12 (escapeChar (Char.ofNat n.val) ++ ['a']) = some [Char.ofNat n.val, 'a'] ∧
      unescape 12 (escapeChar (Char.ofNat n.val)) = some [Char.ofNat n.val] := by decide

/-! ## whole strings: every ASCII string is read back from its escaped form -/

theorem hexDigit_ne_brace : ∀ k : Fin 16, (hexDigit k.val != '}') = true := by decide

theorem parseHex_hexOf : ∀ n : Fin 256, parseHex (hexOf n.val) = some n.val := by decide +kernel

theorem hexOf_takeWhile : ∀ n : Fin 256, ∀ rest : List Char,
    (hexOf n.val ++ '}' :: rest).takeWhile (· != '}') = hexOf n.val ∧
    ((hexOf n.val ++ '}' :: rest).dropWhile (· != '}')).drop 1 = rest := by
  intro n rest
  unfold hexOf
  split
  · rename_i h
    have := hexDigit_ne_brace ⟨n.val, h⟩
    simp [List.takeWhile, List.dropWhile, this]
  · have h1 := hexDigit_ne_brace ⟨n.val / 16 % 16, by omega⟩
    have h2 := hexDigit_ne_brace ⟨n.val % 16, by omega⟩
    have h1' : (hexDigit (n.val / 16 % 16) != '}') = true := by simpa using h1
    have h2' : (hexDigit (n.val % 16) != '}') = true := by simpa using h2
    simp [List.takeWhile, List.dropWhile, h1', h2']


/-- one escaped character in front of ANY remaining text -/
theorem unescape_escapeChar (c : Char) (hc : c.toNat < 128) (f : Nat) (rest : List Char) :
    unescape (f + 1) (escapeChar c ++ rest) = (unescape f rest).map (c :: ·) := by
  unfold escapeChar
  by_cases h1 : (c == '"') = true
  · have : c = '"' := by simpa using h1
    subst this; simp [unescape]
  by_cases h2 : (c == '\\') = true
  · have : c = '\\' := by simpa using h2
    subst this; simp [unescape]
  by_cases h3 : (c == '\n') = true
  · have : c = '\n' := by simpa using h3
    subst this; simp [unescape]
  by_cases h4 : (c == '\r') = true
  · have : c = '\r' := by simpa using h4
    subst this; simp [unescape]
  by_cases h5 : (c == '\t') = true
  · have : c = '\t' := by simpa using h5
    subst this; simp [unescape]
  simp only [h1, h2, h3, h4, h5, Bool.false_eq_true, if_false]
  by_cases h6 : (c.toNat < 32 || c.toNat == 127) = true
  · simp only [h6, if_true]
    have hlt : c.toNat < 256 := by omega
    obtain ⟨ht, hd⟩ := hexOf_takeWhile ⟨c.toNat, hlt⟩ rest
    have hp := parseHex_hexOf ⟨c.toNat, hlt⟩
    simp only at ht hd hp
    have hcc : Char.ofNat c.toNat = c := Char.ofNat_toNat c
    simp only [List.cons_append, List.nil_append, List.append_assoc, unescape]
    simp [ht, hd, hp, hcc]
    omega
  · simp only [h6, Bool.false_eq_true, if_false]
    have hne : (c != '\\') = true := by simpa using h2
    simp [unescape, hne]

/-- **every ASCII string**: unescaping the escaped text gives the string back -/
theorem ascii_string_roundtrip (s : List Char) (hs : ∀ c ∈ s, c.toNat < 128) :
    unescape (s.length + 1) (escape s) = some s := by
  induction s with
  | nil => simp [escape, unescape]
  | cons c s ih =>
    have : escape (c :: s) = escapeChar c ++ escape s := by simp [escape]
    rw [this]
    have h := unescape_escapeChar c (hs c (by simp)) (s.length + 1) (escape s)
    simp only [List.length_cons]
    rw [h, ih (fun x hx => hs x (by simp [hx]))]
    rfl

/-- and it is the printed form of a string value between quotes that the reader sees -/
example : unescape 20 (escape "a\"b\\0\n\x1b".toList) = some "a\"b\\0\n\x1b".toList := by decide

end Ssl.C20
