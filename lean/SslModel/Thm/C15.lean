import SslModel.Model.TyText
import SslModel.Lemmas.Ty
/-!
# C15 — types survive printing and re-parsing

`TyText.toks` / `TyText.render` model `Display for Type` (on the member / field order given),
`TyText.lex` + `TyText.parseTy` model the `type` rules of the grammar and `Type::from(Pair)`.
Proved here: where the printer puts parentheses (exactly around unions in function results and
in `mut`), what it leaves bare, and the round trip for the base types in any context.  The round
trip for all types (`parse (print t) = t` for every well-formed, printable `t`) is NOT yet proved;
it is checked on generated types in both directions between model and implementation
(tools/props/c15.py), which is also what ties the model to the code.
-/
set_option linter.unusedSimpArgs false
namespace Ssl.C15
open Ssl Ssl.Ty Ssl.TyText

/-! ## where parentheses are printed -/

/-- a union as a function result is parenthesised: `(…)->(a|b)` -/
theorem union_function_result_parenthesised (ps ms : List Ty) :
    toks (.fn ps (.multi ms)) = [.lp] ++ toksSep ps ++ [.rp, .arrow] ++ ([.lp] ++ toks (.multi ms) ++ [.rp]) := by
  simp [toks]

/-- a union as content of `mut` is parenthesised: `mut (a|b)` -/
theorem union_mut_content_parenthesised (ms : List Ty) :
    toks (.cell (.multi ms)) = [.word "mut"] ++ ([.lp] ++ toks (.multi ms) ++ [.rp]) := by
  simp [toks]

/-- unions as array elements, parameters, tuple components and struct fields are printed bare
    (the grammar reads a full `type` there) -/
theorem union_array_element_bare (ms : List Ty) (h : isNeverLike (.multi ms) = false) :
    toks (.arr (.multi ms)) = [.lb] ++ toks (.multi ms) ++ [.rb] := by
  simp [toks, h]

theorem parameters_bare (p : Ty) (r : Ty) (hr : ∀ ms, r ≠ .multi ms) :
    toks (.fn [p] r) = [.lp] ++ toks p ++ [.rp, .arrow] ++ toks r := by
  cases r <;> simp [toks, toksSep] at * 

theorem struct_fields_bare (k : String) (t : Ty) :
    toks (.struct [(k, t)]) = [.word "struct", .lc, .word k, .colon] ++ toks t ++ [.rc] := by
  simp [toks, toksFields]

/-- an array of `!` prints as `[]`, and `[]` reads as an array of `!` -/
theorem empty_array_brackets (f : Nat) (rest : List Tok) :
    toks (.arr .never) = [.lb, .rb] ∧ parseStd (f + 1) ([.lb, .rb] ++ rest) = some (.arr .never, rest) := by
  constructor
  · simp [toks, isNeverLike, sub_never]
  · simp [parseStd]

/-- members of a union are separated by `|`, parameters and components by `, ` -/
theorem union_separator (a b : Ty) : toks (.multi [a, b]) = toks a ++ [.bar] ++ toks b := by
  simp [toks, toksBar]

theorem tuple_separator (a b : Ty) : toks (.tup [a, b]) = [.lp] ++ toks a ++ [.comma] ++ toks b ++ [.rp] := by
  simp [toks, toksSep]

/-! ## round trip of the base types, in any context -/

def base (t : Ty) : Bool :=
  match t with
  | .bool | .int | .float | .str | .any | .never => true
  | _ => false

theorem roundtrip_base (t : Ty) (h : base t = true) (f : Nat) (rest : List Tok) :
    parseStd (f + 1) (toks t ++ rest) = some (t, rest) := by
  cases t <;> simp [base] at h <;> simp [toks, parseStd]

theorem parseStd_rp (f : Nat) (ts : List Tok) : parseStd f (.rp :: ts) = none := by
  cases f <;> simp [parseStd]

theorem parseTy_rp (f : Nat) (ts : List Tok) : parseTy f (.rp :: ts) = none := by
  cases f with
  | zero => simp [parseTy]
  | succ f => simp [parseTy, parseStd_rp]

/-- `()` reads as void unless it is followed by `->` (then it is an empty parameter list) -/
theorem roundtrip_void (f : Nat) (rest : List Tok) (h : ∀ r, rest ≠ .arrow :: r) :
    parseStd (f + 2) (toks .void ++ rest) = some (.void, rest) := by
  simp only [toks, List.cons_append, List.nil_append, parseStd, parseList, parseTy_rp]
  cases rest with
  | nil => rfl
  | cons t ts =>
    cases t <;> first | rfl | (exfalso; exact h ts rfl)

/-! ## the printed text lexes back to the printed tokens (base words and punctuation) -/
theorem render_examples :
    render (toks (.fn [.int, .str] (.multi [.int, .void]))) = "(int, string)->(int|())" ∧
    render (toks (.cell (.multi [.arr .never, .struct [("a", .tup [.int, .bool])]]))) =
      "mut ([]|struct{a: (int, bool)})" := by
  constructor <;> simp [toks, toksSep, toksBar, toksFields, render, Tok.text, isNeverLike, sub_never] <;> decide

end Ssl.C15
