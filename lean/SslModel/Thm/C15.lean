import SslModel.Model.TyText
import SslModel.Lemmas.TyLex
import SslModel.Lemmas.TyTrans
/-!
# C15 — types survive printing and re-parsing

`TyText.toks` / `TyText.render` model `Display for Type` (on the member / field order given),
`TyText.lex` + `TyText.parseTy` model the `type` rules of the grammar and `Type::from(Pair)`.
Proved here: where the printer puts parentheses (exactly around unions in function results and
in `mut`), what it leaves bare, and **the round trip for all types on the token level**
(`roundtrip_tokens`): for every well-formed, printable type `t` (tuples have ≥ 2 components, struct
keys are not reserved words) the parser, run on the tokens the printer emits for `t` followed by
anything that does not start with `->` or `|`, returns exactly `t` and that remainder — by induction
on the size of `t` through all thirteen constructors, the ordered choices of the grammar
(function type before `()` before tuple; `(a|b)` is not a standard type) and `concat`'s rebuilding
of unions.  The character level (`lex (render ts) = ts`) is not proved; the text route is checked
on generated types in both directions between model and implementation (tools/props/c15.py),
which is also what ties the model to the code.
-/
set_option linter.unusedSimpArgs false
namespace Ssl.C15
open Ssl Ssl.Ty Ssl.TyText

/-! ## where parentheses are printed -/

/-- a union as a function result is parenthesised: `(…)->(a|b)` -/
theorem union_function_result_parenthesised (ps ms : List Ty) :
    toks (.fn ps (.multi ms)) = [.lp] ++ toksSep ps ++ [.rp, .arrow] ++ ([.lp] ++ toks (.multi ms) ++ [.rp]) := by
  simp [toks]

/-- a union as content of `mut` is parenthesised: `mut (a|b)` -/
theorem union_mut_content_parenthesised (ms : List Ty) :
    toks (.cell (.multi ms)) = [.word "mut"] ++ ([.lp] ++ toks (.multi ms) ++ [.rp]) := by
  simp [toks]

/-- unions as array elements, parameters, tuple components and struct fields are printed bare
    (the grammar reads a full `type` there) -/
theorem union_array_element_bare (ms : List Ty) (h : isNeverLike (.multi ms) = false) :
    toks (.arr (.multi ms)) = [.lb] ++ toks (.multi ms) ++ [.rb] := by
  simp [toks, h]

theorem parameters_bare (p : Ty) (r : Ty) (hr : ∀ ms, r ≠ .multi ms) :
    toks (.fn [p] r) = [.lp] ++ toks p ++ [.rp, .arrow] ++ toks r := by
  cases r <;> simp [toks, toksSep] at * 

theorem struct_fields_bare (k : String) (t : Ty) :
    toks (.struct [(k, t)]) = [.word "struct", .lc, .word k, .colon] ++ toks t ++ [.rc] := by
  simp [toks, toksFields]

/-- an array of `!` prints as `[]`, and `[]` reads as an array of `!` -/
theorem empty_array_brackets (f : Nat) (rest : List Tok) :
    toks (.arr .never) = [.lb, .rb] ∧ parseStd (f + 1) ([.lb, .rb] ++ rest) = some (.arr .never, rest) := by
  constructor
  · simp [toks, isNeverLike, sub_never]
  · simp [parseStd]

/-- members of a union are separated by `|`, parameters and components by `, ` -/
theorem union_separator (a b : Ty) : toks (.multi [a, b]) = toks a ++ [.bar] ++ toks b := by
  simp [toks, toksBar]

theorem tuple_separator (a b : Ty) : toks (.tup [a, b]) = [.lp] ++ toks a ++ [.comma] ++ toks b ++ [.rp] := by
  simp [toks, toksSep]

/-! ## round trip of the base types, in any context -/

def base (t : Ty) : Bool :=
  match t with
  | .bool | .int | .float | .str | .any | .never => true
  | _ => false

theorem roundtrip_base (t : Ty) (h : base t = true) (f : Nat) (rest : List Tok) :
    parseStd (f + 1) (toks t ++ rest) = some (t, rest) := by
  cases t <;> simp [base] at h <;> simp [toks, parseStd]

theorem parseStd_rp (f : Nat) (ts : List Tok) : parseStd f (.rp :: ts) = none := by
  cases f <;> simp [parseStd]

theorem parseTy_rp (f : Nat) (ts : List Tok) : parseTy f (.rp :: ts) = none := by
  cases f with
  | zero => simp [parseTy]
  | succ f => simp [parseTy, parseStd_rp]

/-- `()` reads as void unless it is followed by `->` (then it is an empty parameter list) -/
theorem roundtrip_void (f : Nat) (rest : List Tok) (h : ∀ r, rest ≠ .arrow :: r) :
    parseStd (f + 2) (toks .void ++ rest) = some (.void, rest) := by
  simp only [toks, List.cons_append, List.nil_append, parseStd, parseList, parseTy_rp]
  cases rest with
  | nil => rfl
  | cons t ts =>
    cases t <;> first | rfl | (exfalso; exact h ts rfl)

/-! ## the printed text lexes back to the printed tokens (base words and punctuation) -/
theorem render_examples :
    render (toks (.fn [.int, .str] (.multi [.int, .void]))) = "(int, string)->(int|())" ∧
    render (toks (.cell (.multi [.arr .never, .struct [("a", .tup [.int, .bool])]]))) =
      "mut ([]|struct{a: (int, bool)})" := by
  constructor <;> simp [toks, toksSep, toksBar, toksFields, render, Tok.text, isNeverLike, sub_never] <;> decide

/-! ## the round trip of every printable well-formed type, on tokens -/

mutual
def printable : Ty → Bool
  | .fn ps r => printableL ps && printable r
  | .arr e => printable e
  | .tup es => decide (2 ≤ es.length) && printableL es
  | .multi ms => printableL ms
  | .cell e => printable e
  | .struct fs => printableF fs
  | _ => true
def printableL : List Ty → Bool
  | [] => true
  | t :: ts => printable t && printableL ts
def printableF : List (String × Ty) → Bool
  | [] => true
  | (k, t) :: fs => !restricted.contains k && printable t && printableF fs
end

/-- what may follow a printed type for `parseStd` to stop where the printer stopped -/
def NoArrow (rest : List Tok) : Prop := ∀ r, rest ≠ .arrow :: r
def NoBar (rest : List Tok) : Prop := ∀ r, rest ≠ .bar :: r

/-- first token of a printed type -/
def starts : Tok → Bool
  | .word _ | .lp | .lb | .bang => true
  | _ => false

theorem multi_nonempty2 {ms : List Ty} (hw : wf (.multi ms) = true) : ms ≠ [] := by
  intro h; subst h; simp [wf] at hw

theorem toks_head_aux : ∀ n : Nat, ∀ t : Ty, size t ≤ n → wf t = true →
    ∃ x, (toks t).head? = some x ∧ starts x = true := by
  intro n
  induction n with
  | zero => intro t h; have := size_pos t; omega
  | succ n ih =>
    intro t hs hw
    cases t with
    | bool => exact ⟨.word "bool", by simp [toks], rfl⟩
    | int => exact ⟨.word "int", by simp [toks], rfl⟩
    | float => exact ⟨.word "float", by simp [toks], rfl⟩
    | str => exact ⟨.word "string", by simp [toks], rfl⟩
    | void => exact ⟨.lp, by simp [toks], rfl⟩
    | any => exact ⟨.word "any", by simp [toks], rfl⟩
    | never => exact ⟨.bang, by simp [toks], rfl⟩
    | fn ps r => exact ⟨.lp, by simp [toks], rfl⟩
    | arr e =>
      by_cases h : isNeverLike e = true
      · exact ⟨.lb, by simp [toks, h], rfl⟩
      · exact ⟨.lb, by simp [toks, h], rfl⟩
    | tup es => exact ⟨.lp, by simp [toks], rfl⟩
    | cell e => exact ⟨.word "mut", by simp [toks], rfl⟩
    | struct fs => exact ⟨.word "struct", by simp [toks], rfl⟩
    | multi ms =>
      have hne := hw
      simp only [wf, Bool.and_eq_true, decide_eq_true_eq] at hne
      cases ms with
      | nil => simp at hne
      | cons m ms =>
        cases ms with
        | nil => simp at hne
        | cons m2 ms =>
          simp only [size, sizeL] at hs
          obtain ⟨x, hx, hst⟩ := ih m (by omega) (wfL_mem hne.1.1.2 (by simp))
          refine ⟨x, ?_, hst⟩
          simp only [toks, toksBar]
          cases htm : toks m with
          | nil => simp [htm] at hx
          | cons y ys => simp [htm] at hx ⊢; exact hx

theorem toks_head (t : Ty) (hw : wf t = true) : ∃ x xs, toks t = x :: xs ∧ starts x = true := by
  obtain ⟨x, hx, hs⟩ := toks_head_aux _ t (Nat.le_refl _) hw
  cases h : toks t with
  | nil => simp [h] at hx
  | cons y ys => simp [h] at hx; subst hx; exact ⟨y, ys, rfl, hs⟩


/-! ### what `concat` builds from the members of a well-formed union, in print order -/

theorem neverLike_wf (e : Ty) (hw : wf e = true) (h : isNeverLike e = true) : e = .never := by
  unfold isNeverLike at h
  by_cases hm : isMulti e = true
  · cases e <;> simp [isMulti] at hm
    rename_i ms
    exfalso
    rw [sub_multi_left, allMatch_eq, List.all_eq_true] at h
    have hne := multi_nonempty2 hw
    cases ms with
    | nil => exact hne rfl
    | cons m ms =>
      have hm' := isMulti_false_of_member hw (List.mem_cons_self (a := m) (l := ms))
      have := h m (by simp)
      rw [sub_never_right m hm'.1 hm'.2.1] at this
      exact absurd this (by simp)
  · have hm' : isMulti e = false := by simpa using hm
    by_cases hn : isNever e = true
    · cases e <;> simp [isNever] at hn; rfl
    · have hn' : isNever e = false := by simpa using hn
      rw [sub_never_right e hm' hn'] at h
      exact absurd h (by simp)


theorem concat_plain (a b : Ty) (ha : isMulti a = false ∧ isNever a = false ∧ a ≠ .any)
    (hb : isMulti b = false ∧ isNever b = false ∧ b ≠ .any) (hne : eqv a b = false) :
    concat a b = .multi [a, b] := by
  obtain ⟨a1, a2, a3⟩ := ha
  obtain ⟨b1, b2, b3⟩ := hb
  cases a <;> simp [isMulti, isNever] at a1 a2 a3 <;> cases b <;> simp [isMulti, isNever] at b1 b2 b3 <;>
    simp [concat, hne]

theorem concat_multi_plain (as : List Ty) (t : Ty) (ht : isMulti t = false ∧ isNever t = false ∧ t ≠ .any) :
    concat (.multi as) t = .multi (insertM t as) := by
  obtain ⟨t1, t2, t3⟩ := ht
  have hne : eqv (.multi as) t = false := by
    cases t <;> simp [isMulti] at t1 <;> (rw [eqv] <;> simp_all)
  cases t <;> simp [isMulti, isNever] at t1 t2 t3 <;> simp [concat, hne]


def Plain (t : Ty) : Prop := isMulti t = false ∧ isNever t = false ∧ t ≠ .any

def laterNe : List Ty → Prop
  | [] => True
  | x :: xs => (∀ z ∈ xs, eqv z x = false) ∧ laterNe xs

theorem laterNe_of_wf : ∀ (ms : List Ty), wfL ms = true → nodupL ms = true → laterNe ms := by
  intro ms
  induction ms with
  | nil => intro _ _; trivial
  | cons x xs ih =>
    intro hw hn
    simp only [wfL, Bool.and_eq_true] at hw
    rw [nodupL_cons, Bool.and_eq_true, Bool.not_eq_true'] at hn
    refine ⟨?_, ih hw.2 hn.2⟩
    intro z hz
    cases h : eqv z x with
    | false => rfl
    | true =>
      exfalso
      have := eqv_symm z x (wfL_mem hw.2 hz) hw.1 h
      have hm : memL x xs = true := (memL_iff x xs).mpr ⟨z, hz, this⟩
      rw [hm] at hn; exact absurd hn.1 (by simp)

theorem fold_concat_members : ∀ (rest acc : List Ty), (∀ y ∈ rest, Plain y) →
    (∀ x ∈ acc, ∀ y ∈ rest, eqv y x = false) → laterNe rest →
    rest.foldl concat (.multi acc) = .multi (acc ++ rest) := by
  intro rest
  induction rest with
  | nil => intro acc _ _ _; simp
  | cons y rest ih =>
    intro acc hp hacc hl
    simp only [List.foldl_cons]
    rw [concat_multi_plain acc y (hp y (by simp))]
    have hmem : memL y acc = false := by
      cases h : memL y acc with
      | false => rfl
      | true =>
        obtain ⟨x, hx, hyx⟩ := (memL_iff y acc).mp h
        rw [hacc x hx y (by simp)] at hyx; exact absurd hyx (by simp)
    simp only [insertM, hmem, Bool.false_eq_true, if_false]
    rw [ih (acc ++ [y]) (fun z hz => hp z (by simp [hz])) ?_ hl.2]
    · simp
    · intro x hx z hz
      rcases List.mem_append.mp hx with hx | hx
      · exact hacc x hx z (by simp [hz])
      · simp at hx; subst hx; exact hl.1 z hz

theorem concatL_wf (ms : List Ty) (hw : wf (.multi ms) = true) : concatL ms = .multi ms := by
  have hw' := hw
  simp only [wf, Bool.and_eq_true, decide_eq_true_eq] at hw'
  obtain ⟨⟨⟨hlen, hwl⟩, hmo⟩, hnd⟩ := hw'
  have hpl : ∀ y ∈ ms, Plain y := fun y hy => by
    have := membersOk_mem hmo hy; exact ⟨this.1, this.2.1, this.2.2⟩
  have hl := laterNe_of_wf ms hwl hnd
  cases ms with
  | nil => simp at hlen
  | cons m1 ms =>
    cases ms with
    | nil => simp at hlen
    | cons m2 rest =>
      simp only [concatL, List.foldl_cons]
      have hne : eqv m1 m2 = false := by
        have := hl.1 m2 (by simp)
        rw [eqv_comm m1 m2 (wfL_mem hwl (by simp)) (wfL_mem hwl (by simp))]; exact this
      rw [concat_plain m1 m2 (hpl m1 (by simp)) (hpl m2 (by simp)) hne]
      rw [fold_concat_members rest [m1, m2] (fun y hy => hpl y (by simp [hy])) ?_ hl.2.2]
      · simp
      · intro x hx y hy
        simp at hx
        rcases hx with rfl | rfl
        · exact hl.1 y (by simp [hy])
        · exact hl.2.1 y hy


theorem dedup_fold : ∀ (rest acc : List (String × Ty)), (∀ p ∈ acc, ∀ q ∈ rest, p.1 ≠ q.1) → nodupKeys rest = true →
    rest.foldl (fun acc (kt : String × Ty) => (acc.filter (fun p => p.1 != kt.1)) ++ [(kt.1, kt.2)]) acc = acc ++ rest := by
  intro rest
  induction rest with
  | nil => intro acc _ _; simp
  | cons q rest ih =>
    intro acc hacc hn
    obtain ⟨k, t⟩ := q
    simp only [nodupKeys, Bool.and_eq_true, Bool.not_eq_true'] at hn
    simp only [List.foldl_cons]
    have hf : acc.filter (fun p => p.1 != k) = acc := by
      rw [List.filter_eq_self]
      intro p hp
      have := hacc p hp (k, t) (by simp)
      simpa using this
    rw [hf, ih (acc ++ [(k, t)]) ?_ hn.2]
    · simp
    · intro p hp q hq
      rcases List.mem_append.mp hp with hp | hp
      · exact hacc p hp q (by simp [hq])
      · simp at hp; subst hp
        intro heq
        have : rest.any (fun p => p.1 == k) = true := by
          rw [List.any_eq_true]; exact ⟨q, hq, by simp at heq; simp [heq]⟩
        rw [this] at hn; exact absurd hn.1 (by simp)

theorem dedupFields_nodup (fs : List (String × Ty)) (hn : nodupKeys fs = true) : dedupFields fs = fs := by
  unfold dedupFields
  have := dedup_fold fs [] (by intro p hp; cases hp) hn
  simpa using this


/-! ### the parser on printed token lists -/

def TyOK (e : Ty) : Prop := ∀ f rest, 6 * size e + 1 ≤ f → NoArrow rest → NoBar rest →
  parseTy f (toks e ++ rest) = some (e, rest)
def StdOK (m : Ty) : Prop := ∀ f rest, 6 * size m ≤ f → NoArrow rest →
  parseStd f (toks m ++ rest) = some (m, rest)
/-- how a type is printed in result / `mut` position -/
def retToks (r : Ty) : List Tok :=
  match r with
  | .multi _ => [.lp] ++ toks r ++ [.rp]
  | _ => toks r
def RetOK (r : Ty) : Prop := ∀ f rest, 6 * size r + 4 ≤ f → NoArrow rest →
  parseRet f (retToks r ++ rest) = some (r, rest)

theorem noArrow_rp (rest : List Tok) : NoArrow (.rp :: rest) := by intro r h; cases h
theorem noBar_rp (rest : List Tok) : NoBar (.rp :: rest) := by intro r h; cases h
theorem noArrow_comma (rest : List Tok) : NoArrow (.comma :: rest) := by intro r h; cases h
theorem noBar_comma (rest : List Tok) : NoBar (.comma :: rest) := by intro r h; cases h

theorem toksSep_cons2 (e e2 : Ty) (es : List Ty) :
    toksSep (e :: e2 :: es) = toks e ++ [.comma] ++ toksSep (e2 :: es) := by simp [toksSep]

/-- a printed, comma-separated list followed by `)` is read back -/
theorem parseList_toks : ∀ (es : List Ty), (∀ e ∈ es, TyOK e) → ∀ f rest, 6 * sizeL es + 1 ≤ f →
    parseList f (toksSep es ++ .rp :: rest) = some (es, .rp :: rest) := by
  intro es
  induction es with
  | nil =>
    intro _ f rest hf
    obtain ⟨g, rfl⟩ : ∃ g, f = g + 1 := ⟨f - 1, by omega⟩
    simp [toksSep, parseList, parseTy_rp]
  | cons e es ih =>
    intro h f rest hf
    obtain ⟨g, rfl⟩ : ∃ g, f = g + 1 := ⟨f - 1, by omega⟩
    simp only [sizeL] at hf
    cases es with
    | nil =>
      have := h e (by simp) g (.rp :: rest) (by omega) (noArrow_rp _) (noBar_rp _)
      simp only [toksSep, parseList, this]
    | cons e2 es =>
      rw [toksSep_cons2]
      have h1 := h e (by simp) g (.comma :: (toksSep (e2 :: es) ++ .rp :: rest)) (by omega) (noArrow_comma _) (noBar_comma _)
      have h2 := ih (fun x hx => h x (by simp [hx])) g rest (by simp only [sizeL] at hf ⊢; omega)
      simp only [List.append_assoc, List.singleton_append, List.cons_append, List.nil_append] at h1 ⊢
      simp only [parseList, h1, h2]
      simp


def barTail : List Ty → List Tok
  | [] => []
  | m :: ms => [.bar] ++ toks m ++ barTail ms

theorem toksBar_cons (m : Ty) (ms : List Ty) : toksBar (m :: ms) = toks m ++ barTail ms := by
  induction ms generalizing m with
  | nil => simp [toksBar, barTail]
  | cons m2 ms ih => simp [toksBar, barTail, ih m2]

theorem noArrow_barTail (ms : List Ty) (rest : List Tok) (h : NoArrow rest) : NoArrow (barTail ms ++ rest) := by
  cases ms with
  | nil => simpa [barTail] using h
  | cons m ms => intro r hr; simp [barTail] at hr

/-- the tail `("|" member)*` of a printed union is read back, member after member -/
theorem parseMore_toks : ∀ (ms : List Ty), (∀ m ∈ ms, StdOK m) → ∀ f rest acc, 6 * sizeL ms + 1 ≤ f →
    NoArrow rest → NoBar rest → 2 ≤ acc.length + ms.length → 1 ≤ acc.length →
    parseMore f (barTail ms ++ rest) acc = some (concatL (acc ++ ms), rest) := by
  intro ms
  induction ms with
  | nil =>
    intro _ f rest acc hf ha hb hlen _
    obtain ⟨g, rfl⟩ : ∃ g, f = g + 1 := ⟨f - 1, by omega⟩
    have h2 : acc.length ≥ 2 := by simpa using hlen
    simp only [barTail, List.nil_append, List.append_nil]
    cases rest with
    | nil => simp [parseMore, h2]
    | cons t ts =>
      cases t <;> first
        | (exfalso; exact hb ts rfl)
        | simp [parseMore, h2]
  | cons m ms ih =>
    intro h f rest acc hf ha hb hlen hacc
    obtain ⟨g, rfl⟩ : ∃ g, f = g + 1 := ⟨f - 1, by omega⟩
    simp only [sizeL] at hf
    have h1 := h m (by simp) g (barTail ms ++ rest) (by omega) (noArrow_barTail ms rest ha)
    have h2 := ih (fun x hx => h x (by simp [hx])) g rest (acc ++ [m]) (by omega) ha hb
      (by simp only [List.length_append, List.length_cons, List.length_nil] at hlen ⊢; omega)
      (by simp)
    simp only [barTail, List.append_assoc, List.singleton_append, List.cons_append, List.nil_append] at h1 ⊢
    simp only [parseMore, h1, h2]
    simp


theorem noArrow_rc (rest : List Tok) : NoArrow (.rc :: rest) := by intro r h; cases h
theorem noBar_rc (rest : List Tok) : NoBar (.rc :: rest) := by intro r h; cases h

theorem toksFields_cons2 (k : String) (t : Ty) (p : String × Ty) (fs : List (String × Ty)) :
    toksFields ((k, t) :: p :: fs) = [.word k, .colon] ++ toks t ++ [.comma] ++ toksFields (p :: fs) := by
  simp [toksFields]

/-- printed struct fields followed by `}` are read back -/
theorem parseFields_toks : ∀ (fs : List (String × Ty)), fs ≠ [] → (∀ p ∈ fs, TyOK p.2) →
    (∀ p ∈ fs, restricted.contains p.1 = false) → ∀ f rest, 6 * sizeF fs + 1 ≤ f →
    parseFields f (toksFields fs ++ .rc :: rest) = some (fs, .rc :: rest) := by
  intro fs
  induction fs with
  | nil => intro h; exact absurd rfl h
  | cons p fs ih =>
    intro _ h hk f rest hf
    obtain ⟨k, t⟩ := p
    obtain ⟨g, rfl⟩ : ∃ g, f = g + 1 := ⟨f - 1, by omega⟩
    simp only [sizeF] at hf
    have hkr : restricted.contains k = false := hk (k, t) (by simp)
    cases fs with
    | nil =>
      have h1 := h (k, t) (by simp) g (.rc :: rest) (by simp only; omega) (noArrow_rc _) (noBar_rc _)
      simp only [toksFields, List.append_assoc, List.cons_append, List.nil_append] at h1 ⊢
      simp only [parseFields, hkr, h1]
      simp
    | cons q fs =>
      rw [toksFields_cons2]
      have h1 := h (k, t) (by simp) g (.comma :: (toksFields (q :: fs) ++ .rc :: rest)) (by simp only; omega)
        (noArrow_comma _) (noBar_comma _)
      have h2 := ih (by simp) (fun x hx => h x (by simp [hx])) (fun x hx => hk x (by simp [hx])) g rest
        (by simp only [sizeF] at hf ⊢; omega)
      simp only [List.append_assoc, List.singleton_append, List.cons_append, List.nil_append] at h1 ⊢
      simp only [parseFields, hkr, h1, h2]
      simp


/-- `(a|b)` is not a standard type unless `->` follows: no function type (the parameter list would
    need `->` after it), not `()`, not a tuple (one component) -/
theorem parseStd_paren_union (ms : List Ty) (hw : wf (.multi ms) = true) (hok : TyOK (.multi ms))
    (f : Nat) (rest : List Tok) (hf : 6 * size (.multi ms) + 3 ≤ f) (ha : NoArrow rest) :
    parseStd f (.lp :: (toks (.multi ms) ++ .rp :: rest)) = none := by
  obtain ⟨g, rfl⟩ : ∃ g, f = g + 1 := ⟨f - 1, by omega⟩
  obtain ⟨h, rfl⟩ : ∃ h, g = h + 1 := ⟨g - 1, by omega⟩
  have hty := hok h (.rp :: rest) (by omega) (noArrow_rp _) (noBar_rp _)
  have hl : parseList (h + 1) (toks (.multi ms) ++ .rp :: rest) = some ([.multi ms], .rp :: rest) := by
    simp only [parseList, hty]
  obtain ⟨x, xs, hx, hst⟩ := toks_head (.multi ms) hw
  rw [hx] at hl ⊢
  simp only [List.cons_append] at hl ⊢
  cases rest with
  | nil => cases x <;> simp [starts] at hst <;> simp [parseStd, hl]
  | cons t ts =>
    cases t <;> first
      | (exfalso; exact ha ts rfl)
      | (cases x <;> simp [starts] at hst <;> simp [parseStd, hl])


theorem toks_fn (ps : List Ty) (r : Ty) : toks (.fn ps r) = [.lp] ++ toksSep ps ++ [.rp, .arrow] ++ retToks r := by
  cases r <;> simp [toks, retToks]

theorem toks_cell (e : Ty) : toks (.cell e) = [.word "mut"] ++ retToks e := by
  cases e <;> simp [toks, retToks]

theorem stdOK_fn (ps : List Ty) (r : Ty) (hps : ∀ p ∈ ps, TyOK p) (hr : RetOK r) : StdOK (.fn ps r) := by
  intro f rest hf ha
  obtain ⟨g, rfl⟩ : ∃ g, f = g + 1 := ⟨f - 1, by simp only [size] at hf; omega⟩
  simp only [size] at hf
  have hl := parseList_toks ps hps g (.arrow :: (retToks r ++ rest)) (by omega)
  have hrr := hr g rest (by omega) ha
  rw [toks_fn]
  simp only [List.append_assoc, List.singleton_append, List.cons_append, List.nil_append] at hl ⊢
  simp only [parseStd, hl, hrr]

theorem tyOK_of_std (t : Ty) (hm : isMulti t = false) (h : StdOK t) : TyOK t := by
  intro f rest hf ha hb
  obtain ⟨g, rfl⟩ : ∃ g, f = g + 1 := ⟨f - 1, by omega⟩
  have := h g rest (by omega) ha
  simp only [parseTy, this]
  cases rest with
  | nil => rfl
  | cons x xs => cases x <;> first | (exfalso; exact hb xs rfl) | rfl

theorem retOK_of_std (r : Ty) (hm : isMulti r = false) (h : StdOK r) : RetOK r := by
  intro f rest hf ha
  obtain ⟨g, rfl⟩ : ∃ g, f = g + 1 := ⟨f - 1, by omega⟩
  have := h g rest (by omega) ha
  have e : retToks r = toks r := by cases r <;> simp [retToks, isMulti] at hm ⊢
  rw [e]
  simp only [parseRet, this]

theorem stdOK_cell (e : Ty) (he : RetOK e) : StdOK (.cell e) := by
  intro f rest hf ha
  obtain ⟨g, rfl⟩ : ∃ g, f = g + 1 := ⟨f - 1, by simp only [size] at hf; omega⟩
  simp only [size] at hf
  have := he g rest (by omega) ha
  rw [toks_cell]
  simp only [List.singleton_append, List.cons_append, List.nil_append, List.append_assoc]
  simp [parseStd, this]


theorem stdOK_arr (e : Ty) (hw : wf e = true) (he : TyOK e) : StdOK (.arr e) := by
  intro f rest hf ha
  obtain ⟨g, rfl⟩ : ∃ g, f = g + 1 := ⟨f - 1, by simp only [size] at hf; omega⟩
  simp only [size] at hf
  by_cases hn : isNeverLike e = true
  · have := neverLike_wf e hw hn
    subst this
    simp [toks, hn, parseStd]
  · have hn' : isNeverLike e = false := by simpa using hn
    have hty := he g (.rb :: rest) (by omega) (by intro r h; cases h) (by intro r h; cases h)
    obtain ⟨x, xs, hx, hst⟩ := toks_head e hw
    simp only [toks, hn', Bool.false_eq_true, if_false]
    rw [hx] at hty ⊢
    simp only [List.append_assoc, List.singleton_append, List.cons_append, List.nil_append] at hty ⊢
    cases x <;> simp [starts] at hst <;> simp [parseStd, hty]

theorem stdOK_tup (es : List Ty) (hlen : 2 ≤ es.length) (hw : wfL es = true) (hes : ∀ e ∈ es, TyOK e) :
    StdOK (.tup es) := by
  intro f rest hf ha
  obtain ⟨g, rfl⟩ : ∃ g, f = g + 1 := ⟨f - 1, by simp only [size] at hf; omega⟩
  simp only [size] at hf
  have hl := parseList_toks es hes g rest (by omega)
  cases es with
  | nil => simp at hlen
  | cons e1 es1 =>
    obtain ⟨x, xs, hx, hst⟩ := toks_head e1 (wfL_mem hw (by simp))
    have hsep : ∃ ys, toksSep (e1 :: es1) = x :: ys := by
      cases es1 with
      | nil => exact ⟨xs, by simp [toksSep, hx]⟩
      | cons e2 es2 => exact ⟨xs ++ [.comma] ++ toksSep (e2 :: es2), by rw [toksSep_cons2, hx]; simp⟩
    obtain ⟨ys, hys⟩ := hsep
    simp only [toks]
    rw [hys] at hl ⊢
    simp only [List.append_assoc, List.singleton_append, List.cons_append, List.nil_append] at hl ⊢
    have hl2 : ¬ es1 = [] := by intro h; subst h; simp at hlen
    cases rest with
    | nil => cases x <;> simp [starts] at hst <;> simp [parseStd, hl, hl2]
    | cons t ts =>
      cases t <;> first
        | (exfalso; exact ha ts rfl)
        | (cases x <;> simp [starts] at hst <;> simp [parseStd, hl, hl2])


theorem stdOK_struct (fs : List (String × Ty)) (hn : nodupKeys fs = true)
    (hk : ∀ p ∈ fs, restricted.contains p.1 = false) (hfs : ∀ p ∈ fs, TyOK p.2) : StdOK (.struct fs) := by
  intro f rest hf ha
  obtain ⟨g, rfl⟩ : ∃ g, f = g + 1 := ⟨f - 1, by simp only [size] at hf; omega⟩
  simp only [size] at hf
  cases fs with
  | nil => simp [toks, toksFields, parseStd]
  | cons p fs =>
    have hl := parseFields_toks (p :: fs) (by simp) hfs hk g rest (by omega)
    have hd := dedupFields_nodup (p :: fs) hn
    obtain ⟨k, t⟩ := p
    have hstart : ∃ ys, toksFields ((k, t) :: fs) = .word k :: .colon :: ys := by
      cases fs with
      | nil => exact ⟨toks t, by simp [toksFields]⟩
      | cons q fs => exact ⟨toks t ++ [.comma] ++ toksFields (q :: fs), by rw [toksFields_cons2]; simp⟩
    obtain ⟨ys, hys⟩ := hstart
    simp only [toks]
    rw [hys] at hl ⊢
    simp only [List.append_assoc, List.singleton_append, List.cons_append, List.nil_append] at hl ⊢
    simp [parseStd, hl, hd]

theorem tyOK_multi (ms : List Ty) (hw : wf (.multi ms) = true) (hms : ∀ m ∈ ms, StdOK m) : TyOK (.multi ms) := by
  intro f rest hf ha hb
  obtain ⟨g, rfl⟩ : ∃ g, f = g + 1 := ⟨f - 1, by omega⟩
  have hw' := hw
  simp only [wf, Bool.and_eq_true, decide_eq_true_eq] at hw'
  cases ms with
  | nil => simp at hw'
  | cons m1 ms =>
    cases ms with
    | nil => simp at hw'
    | cons m2 ms =>
      simp only [size, sizeL] at hf
      have h1 := hms m1 (by simp) g (barTail (m2 :: ms) ++ rest) (by omega) (noArrow_barTail _ rest ha)
      have h2 := parseMore_toks (m2 :: ms) (fun x hx => hms x (by simp [hx])) g rest [m1]
        (by simp only [sizeL]; omega) ha hb (by simp; omega) (by simp)
      have hc := concatL_wf (m1 :: m2 :: ms) hw
      simp only [toks]
      rw [toksBar_cons]
      simp only [List.append_assoc] at h1 ⊢
      simp only [parseTy, h1]
      simp only [barTail, List.append_assoc, List.singleton_append, List.cons_append, List.nil_append] at h2 ⊢
      rw [h2]
      simp only [List.singleton_append, hc]

theorem retOK_multi (ms : List Ty) (hw : wf (.multi ms) = true) (hty : TyOK (.multi ms)) : RetOK (.multi ms) := by
  intro f rest hf ha
  obtain ⟨g, rfl⟩ : ∃ g, f = g + 1 := ⟨f - 1, by omega⟩
  have hnone := parseStd_paren_union ms hw hty g rest (by omega) ha
  have hin := hty g (.rp :: rest) (by omega) (noArrow_rp _) (noBar_rp _)
  simp only [retToks, List.append_assoc, List.singleton_append, List.cons_append, List.nil_append]
  simp only [parseRet, hnone, hin]


theorem printableL_mem {ts : List Ty} (h : printableL ts = true) {x : Ty} (hx : x ∈ ts) : printable x = true := by
  induction ts with
  | nil => cases hx
  | cons t ts ih =>
    simp only [printableL, Bool.and_eq_true] at h
    rcases List.mem_cons.mp hx with rfl | hx
    · exact h.1
    · exact ih h.2 hx

theorem printableF_mem {fs : List (String × Ty)} (h : printableF fs = true) {p : String × Ty} (hp : p ∈ fs) :
    restricted.contains p.1 = false ∧ printable p.2 = true := by
  induction fs with
  | nil => cases hp
  | cons q fs ih =>
    obtain ⟨k, t⟩ := q
    simp only [printableF, Bool.and_eq_true, Bool.not_eq_true'] at h
    rcases List.mem_cons.mp hp with rfl | hp
    · exact ⟨h.1.1, h.1.2⟩
    · exact ih h.2 hp

theorem roundtrip_aux : ∀ n : Nat, ∀ t : Ty, size t ≤ n → wf t = true → printable t = true →
    (isMulti t = false → StdOK t) ∧ TyOK t ∧ RetOK t := by
  intro n
  induction n with
  | zero => intro t h; have := size_pos t; omega
  | succ n ih =>
    intro t hs hw hp
    -- the three statements follow from `StdOK` for non-unions
    have fromStd : isMulti t = false → StdOK t → (isMulti t = false → StdOK t) ∧ TyOK t ∧ RetOK t :=
      fun hm h => ⟨fun _ => h, tyOK_of_std t hm h, retOK_of_std t hm h⟩
    cases t with
    | bool => exact fromStd rfl (fun f rest hf _ => by
        obtain ⟨g, rfl⟩ : ∃ g, f = g + 1 := ⟨f - 1, by simp only [size] at hf; omega⟩
        exact roundtrip_base .bool rfl g rest)
    | int => exact fromStd rfl (fun f rest hf _ => by
        obtain ⟨g, rfl⟩ : ∃ g, f = g + 1 := ⟨f - 1, by simp only [size] at hf; omega⟩
        exact roundtrip_base .int rfl g rest)
    | float => exact fromStd rfl (fun f rest hf _ => by
        obtain ⟨g, rfl⟩ : ∃ g, f = g + 1 := ⟨f - 1, by simp only [size] at hf; omega⟩
        exact roundtrip_base .float rfl g rest)
    | str => exact fromStd rfl (fun f rest hf _ => by
        obtain ⟨g, rfl⟩ : ∃ g, f = g + 1 := ⟨f - 1, by simp only [size] at hf; omega⟩
        exact roundtrip_base .str rfl g rest)
    | any => exact fromStd rfl (fun f rest hf _ => by
        obtain ⟨g, rfl⟩ : ∃ g, f = g + 1 := ⟨f - 1, by simp only [size] at hf; omega⟩
        exact roundtrip_base .any rfl g rest)
    | never => exact fromStd rfl (fun f rest hf _ => by
        obtain ⟨g, rfl⟩ : ∃ g, f = g + 1 := ⟨f - 1, by simp only [size] at hf; omega⟩
        exact roundtrip_base .never rfl g rest)
    | void => exact fromStd rfl (fun f rest hf ha => by
        obtain ⟨g, rfl⟩ : ∃ g, f = g + 2 := ⟨f - 2, by simp only [size] at hf; omega⟩
        exact roundtrip_void g rest ha)
    | fn ps r =>
      simp only [size] at hs
      simp only [wf, Bool.and_eq_true] at hw
      simp only [printable, Bool.and_eq_true] at hp
      refine fromStd rfl (stdOK_fn ps r ?_ ?_)
      · intro p hpm
        exact (ih p (by have := size_lt_sizeL hpm; omega) (wfL_mem hw.1 hpm) (printableL_mem hp.1 hpm)).2.1
      · exact (ih r (by omega) hw.2 hp.2).2.2
    | arr e =>
      simp only [size] at hs
      simp only [wf] at hw
      simp only [printable] at hp
      exact fromStd rfl (stdOK_arr e hw (ih e (by omega) hw hp).2.1)
    | tup es =>
      simp only [size] at hs
      simp only [wf] at hw
      simp only [printable, Bool.and_eq_true, decide_eq_true_eq] at hp
      refine fromStd rfl (stdOK_tup es hp.1 hw ?_)
      intro e he
      exact (ih e (by have := size_lt_sizeL he; omega) (wfL_mem hw he) (printableL_mem hp.2 he)).2.1
    | cell e =>
      simp only [size] at hs
      simp only [wf] at hw
      simp only [printable] at hp
      exact fromStd rfl (stdOK_cell e (ih e (by omega) hw hp).2.2)
    | struct fs =>
      simp only [size] at hs
      simp only [wf, Bool.and_eq_true] at hw
      simp only [printable] at hp
      refine fromStd rfl (stdOK_struct fs hw.2 (fun p hpm => (printableF_mem hp hpm).1) ?_)
      intro p hpm
      exact (ih p.2 (by have := size_lt_sizeF (k := p.1) (x := p.2) (fs := fs) hpm; omega) (wfF_mem hw.1 hpm)
        (printableF_mem hp hpm).2).2.1
    | multi ms =>
      simp only [size] at hs
      simp only [printable] at hp
      have hty : TyOK (.multi ms) := by
        apply tyOK_multi ms hw
        intro m hm
        have hm' := isMulti_false_of_member hw hm
        exact (ih m (by have := size_lt_sizeL hm; omega) hm'.2.2.2 (printableL_mem hp hm)).1 hm'.1
      exact ⟨fun h => by simp [isMulti] at h, hty, retOK_multi ms hw hty⟩

/-- **printing then parsing gives the type back** (on tokens): for every well-formed printable type,
    with enough fuel, and whatever follows it unless that is `->` or `|` -/
theorem roundtrip_tokens (t : Ty) (hw : wf t = true) (hp : printable t = true) (rest : List Tok)
    (ha : NoArrow rest) (hb : NoBar rest) (f : Nat) (hf : 6 * size t + 1 ≤ f) :
    parseTy f (toks t ++ rest) = some (t, rest) :=
  (roundtrip_aux _ t (Nat.le_refl _) hw hp).2.1 f rest hf ha hb

/-- non-vacuity: a nested type meeting the hypotheses, and its round trip at the top level -/
def sampleTy : Ty :=
  .fn [.multi [.int, .str], .tup [.int, .cell (.multi [.int, .void])]]
      (.multi [.arr .never, .struct [("a", .fn [] (.tup [.bool, .any]))]])

example : wf sampleTy = true ∧ printable sampleTy = true := by
  constructor
  · simp [sampleTy, wf, wfL, wfF, membersOk, nodupL, nodupKeys, memL, eqv]
  · simp [sampleTy, printable, printableL, printableF, restricted]

example : ∃ f, parseTy f (toks sampleTy) = some (sampleTy, []) := by
  refine ⟨6 * size sampleTy + 1, ?_⟩
  have := roundtrip_tokens sampleTy (by simp [sampleTy, wf, wfL, wfF, membersOk, nodupL, nodupKeys, memL, eqv])
    (by simp [sampleTy, printable, printableL, printableF, restricted]) []
    (by intro r h; cases h) (by intro r h; cases h) (6 * size sampleTy + 1) (Nat.le_refl _)
  simpa using this


/-! ## the character level: the printed TEXT is read back as the type -/
open Ssl.TyLex


theorem adjOk_punct_cons (p : Tok) (hp : isWordTok p = false) (ts : List Tok) : adjOk (p :: ts) = adjOk ts := by
  cases ts with
  | nil => simp [adjOk]
  | cons t ts => cases p <;> simp [isWordTok] at hp <;> simp [adjOk]

theorem adjOk_mut_cons (ts : List Tok) : adjOk (.word "mut" :: ts) = adjOk ts := by
  cases ts with
  | nil => simp [adjOk]
  | cons t ts => cases t <;> simp [adjOk]

theorem adjOk_word_punct (k : String) (p : Tok) (hp : isWordTok p = false) (ts : List Tok) :
    adjOk (.word k :: p :: ts) = adjOk ts := by
  have : adjOk (.word k :: p :: ts) = adjOk (p :: ts) := by
    cases p <;> simp [isWordTok] at hp <;> simp [adjOk]
  rw [this, adjOk_punct_cons p hp]

theorem adjOk_append_punct (a b : List Tok) (p : Tok) (hp : isWordTok p = false) :
    adjOk (a ++ p :: b) = (adjOk a && adjOk b) := by
  induction a with
  | nil => simp [adjOk, adjOk_punct_cons p hp]
  | cons x a ih =>
    cases a with
    | nil =>
      cases x with
      | word w => simp [adjOk_word_punct w p hp, adjOk]
      | _ => simp [adjOk_punct_cons _ _ (p :: b), adjOk_punct_cons p hp, isWordTok, adjOk]
    | cons y a' =>
      cases x with
      | word w =>
        cases y with
        | word v =>
          simp only [List.cons_append, adjOk] at ih ⊢
          rw [ih]; simp [Bool.and_assoc]
        | _ =>
          simp only [List.cons_append] at ih ⊢
          rw [adjOk_word_punct w _ (by simp [isWordTok]), adjOk_word_punct w _ (by simp [isWordTok])]
          rw [adjOk_punct_cons _ (by simp [isWordTok])] at ih
          rw [adjOk_punct_cons _ (by simp [isWordTok])] at ih
          exact ih
      | lp | rp | lb | rb | lc | rc | comma | bar | colon | bang | arrow =>
        simp only [List.cons_append] at ih ⊢
        rw [adjOk_punct_cons _ (by simp [isWordTok]) (y :: (a' ++ p :: b)),
            adjOk_punct_cons _ (by simp [isWordTok]) (y :: a')]
        exact ih

theorem adjOk_append_punct_end (a : List Tok) (p : Tok) (hp : isWordTok p = false) :
    adjOk (a ++ [p]) = adjOk a := by
  rw [adjOk_append_punct a [] p hp]; simp [adjOk]

theorem adjOk_sep : ∀ es : List Ty, (∀ e ∈ es, adjOk (toks e) = true) → adjOk (toksSep es) = true
  | [], _ => by simp [toksSep, adjOk]
  | [e], h => by simpa [toksSep] using h e (by simp)
  | e :: e2 :: es, h => by
    have : toksSep (e :: e2 :: es) = toks e ++ .comma :: toksSep (e2 :: es) := by simp [toksSep]
    rw [this, adjOk_append_punct _ _ _ (by simp [isWordTok]), h e (by simp),
      adjOk_sep (e2 :: es) (fun x hx => h x (by simp [hx]))]
    rfl

theorem adjOk_bar : ∀ es : List Ty, (∀ e ∈ es, adjOk (toks e) = true) → adjOk (toksBar es) = true
  | [], _ => by simp [toksBar, adjOk]
  | [e], h => by simpa [toksBar] using h e (by simp)
  | e :: e2 :: es, h => by
    have : toksBar (e :: e2 :: es) = toks e ++ .bar :: toksBar (e2 :: es) := by simp [toksBar]
    rw [this, adjOk_append_punct _ _ _ (by simp [isWordTok]), h e (by simp),
      adjOk_bar (e2 :: es) (fun x hx => h x (by simp [hx]))]
    rfl

theorem adjOk_fields : ∀ fs : List (String × Ty), (∀ p ∈ fs, adjOk (toks p.2) = true) → adjOk (toksFields fs) = true
  | [], _ => by simp [toksFields, adjOk]
  | [(k, t)], h => by
    have : toksFields [(k, t)] = .word k :: .colon :: toks t := by simp [toksFields]
    rw [this, adjOk_word_punct k _ (by simp [isWordTok])]
    exact h (k, t) (by simp)
  | (k, t) :: p2 :: fs, h => by
    have : toksFields ((k, t) :: p2 :: fs) = .word k :: .colon :: (toks t ++ .comma :: toksFields (p2 :: fs)) := by
      simp [toksFields]
    rw [this, adjOk_word_punct k _ (by simp [isWordTok]), adjOk_append_punct _ _ _ (by simp [isWordTok]),
      h (k, t) (by simp), adjOk_fields (p2 :: fs) (fun x hx => h x (by simp [hx]))]
    rfl

theorem adjOk_ret (r : Ty) (h : adjOk (toks r) = true) : adjOk (retToks r) = true := by
  unfold retToks
  split
  · simp only [List.singleton_append, List.cons_append, List.nil_append]
    rw [adjOk_punct_cons _ (by simp [isWordTok]), adjOk_append_punct_end _ _ (by simp [isWordTok])]
    exact h
  · exact h

/-- in the printed token list two words never meet, except after `mut` (which is printed with a space) -/
theorem adjOk_toks_aux : ∀ n : Nat, ∀ t : Ty, size t ≤ n → adjOk (toks t) = true := by
  intro n
  induction n with
  | zero => intro t h; have := size_pos t; omega
  | succ n ih =>
    intro t hs
    cases t with
    | fn ps r =>
      simp only [size] at hs
      rw [toks_fn]
      simp only [List.singleton_append, List.cons_append, List.nil_append, List.append_assoc]
      rw [adjOk_punct_cons _ (by simp [isWordTok]), adjOk_append_punct _ _ _ (by simp [isWordTok]),
        adjOk_punct_cons _ (by simp [isWordTok]),
        adjOk_sep ps (fun x hx => ih x (by have := size_lt_sizeL hx; omega)),
        adjOk_ret r (ih r (by omega))]
      rfl
    | arr e =>
      simp only [size] at hs
      simp only [toks]
      split
      · simp [adjOk]
      · simp only [List.singleton_append, List.cons_append, List.nil_append]
        rw [adjOk_punct_cons _ (by simp [isWordTok]), adjOk_append_punct_end _ _ (by simp [isWordTok])]
        exact ih e (by omega)
    | tup es =>
      simp only [size] at hs
      simp only [toks, List.singleton_append, List.cons_append, List.nil_append]
      rw [adjOk_punct_cons _ (by simp [isWordTok]), adjOk_append_punct_end _ _ (by simp [isWordTok])]
      exact adjOk_sep es (fun x hx => ih x (by have := size_lt_sizeL hx; omega))
    | multi ms =>
      simp only [size] at hs
      simp only [toks]
      exact adjOk_bar ms (fun x hx => ih x (by have := size_lt_sizeL hx; omega))
    | cell e =>
      simp only [size] at hs
      rw [toks_cell]
      simp only [List.singleton_append]
      rw [adjOk_mut_cons]
      exact adjOk_ret e (ih e (by omega))
    | struct fs =>
      simp only [size] at hs
      simp only [toks, List.singleton_append, List.cons_append, List.nil_append]
      rw [adjOk_word_punct _ _ (by simp [isWordTok]), adjOk_append_punct_end _ _ (by simp [isWordTok])]
      exact adjOk_fields fs (fun p hp => ih p.2 (by have := size_lt_sizeF (k := p.1) (x := p.2) (fs := fs) hp; omega))
    | _ => simp [toks, adjOk]

theorem adjOk_toks (t : Ty) : adjOk (toks t) = true := adjOk_toks_aux _ t (Nat.le_refl _)



mutual
/-- struct keys are words (non-empty, letters / digits / `_`) - what the grammar's `ident` admits -/
def identKeys : Ty → Bool
  | .fn ps r => identKeysL ps && identKeys r
  | .arr e => identKeys e
  | .tup es => identKeysL es
  | .multi ms => identKeysL ms
  | .cell e => identKeys e
  | .struct fs => identKeysF fs
  | _ => true
def identKeysL : List Ty → Bool
  | [] => true
  | t :: ts => identKeys t && identKeysL ts
def identKeysF : List (String × Ty) → Bool
  | [] => true
  | (k, t) :: fs => wordOk k && identKeys t && identKeysF fs
end

theorem wordsOk_append (a b : List Tok) : wordsOk (a ++ b) = (wordsOk a && wordsOk b) := by
  simp [wordsOk, List.all_append]

theorem wordsOk_cons (t : Tok) (b : List Tok) : wordsOk (t :: b) = (wordsOk [t] && wordsOk b) := by
  simp [wordsOk]

theorem identKeysL_mem {ts : List Ty} (h : identKeysL ts = true) {x : Ty} (hx : x ∈ ts) : identKeys x = true := by
  induction ts with
  | nil => cases hx
  | cons t ts ih =>
    simp only [identKeysL, Bool.and_eq_true] at h
    cases hx with
    | head => exact h.1
    | tail _ h' => exact ih h.2 h'

theorem wordsOk_sep : ∀ es : List Ty, (∀ e ∈ es, wordsOk (toks e) = true) → wordsOk (toksSep es) = true
  | [], _ => by simp [toksSep, wordsOk]
  | [e], h => by simpa [toksSep] using h e (by simp)
  | e :: e2 :: es, h => by
    have : toksSep (e :: e2 :: es) = toks e ++ .comma :: toksSep (e2 :: es) := by simp [toksSep]
    rw [this, wordsOk_append, wordsOk_cons, h e (by simp), wordsOk_sep (e2 :: es) (fun x hx => h x (by simp [hx]))]
    simp [wordsOk]

theorem wordsOk_bar : ∀ es : List Ty, (∀ e ∈ es, wordsOk (toks e) = true) → wordsOk (toksBar es) = true
  | [], _ => by simp [toksBar, wordsOk]
  | [e], h => by simpa [toksBar] using h e (by simp)
  | e :: e2 :: es, h => by
    have : toksBar (e :: e2 :: es) = toks e ++ .bar :: toksBar (e2 :: es) := by simp [toksBar]
    rw [this, wordsOk_append, wordsOk_cons, h e (by simp), wordsOk_bar (e2 :: es) (fun x hx => h x (by simp [hx]))]
    simp [wordsOk]

theorem wordsOk_fields : ∀ fs : List (String × Ty), (∀ p ∈ fs, wordOk p.1 = true ∧ wordsOk (toks p.2) = true) →
    wordsOk (toksFields fs) = true
  | [], _ => by simp [toksFields, wordsOk]
  | [(k, t)], h => by
    have : toksFields [(k, t)] = .word k :: .colon :: toks t := by simp [toksFields]
    have hk := h (k, t) (by simp)
    rw [this, wordsOk_cons, wordsOk_cons .colon, hk.2]
    simp [wordsOk, hk.1]
  | (k, t) :: p2 :: fs, h => by
    have : toksFields ((k, t) :: p2 :: fs) = .word k :: .colon :: (toks t ++ .comma :: toksFields (p2 :: fs)) := by
      simp [toksFields]
    have hk := h (k, t) (by simp)
    rw [this, wordsOk_cons, wordsOk_cons .colon, wordsOk_append, wordsOk_cons .comma, hk.2,
      wordsOk_fields (p2 :: fs) (fun x hx => h x (by simp [hx]))]
    simp [wordsOk, hk.1]

theorem wordsOk_ret (r : Ty) (h : wordsOk (toks r) = true) : wordsOk (retToks r) = true := by
  unfold retToks
  split
  · simp only [List.singleton_append, List.cons_append, List.nil_append]
    rw [wordsOk_cons, wordsOk_append, h]; simp [wordsOk]
  · exact h

theorem identKeysF_mem {fs : List (String × Ty)} (h : identKeysF fs = true) {p : String × Ty} (hp : p ∈ fs) :
    wordOk p.1 = true ∧ identKeys p.2 = true := by
  induction fs with
  | nil => cases hp
  | cons q fs ih =>
    obtain ⟨k, t⟩ := q
    simp only [identKeysF, Bool.and_eq_true] at h
    cases hp with
    | head => exact ⟨h.1.1, h.1.2⟩
    | tail _ h' => exact ih h.2 h'

theorem wordOk_kw : wordOk "bool" = true ∧ wordOk "int" = true ∧ wordOk "float" = true ∧ wordOk "string" = true ∧
    wordOk "any" = true ∧ wordOk "mut" = true ∧ wordOk "struct" = true := by decide

/-- every word among the printed tokens is a non-empty run of word characters -/
theorem wordsOk_toks_aux : ∀ n : Nat, ∀ t : Ty, size t ≤ n → identKeys t = true → wordsOk (toks t) = true := by
  intro n
  induction n with
  | zero => intro t h; have := size_pos t; omega
  | succ n ih =>
    intro t hs hk
    obtain ⟨k1, k2, k3, k4, k5, k6, k7⟩ := wordOk_kw
    cases t with
    | fn ps r =>
      simp only [size] at hs
      simp only [identKeys, Bool.and_eq_true] at hk
      rw [toks_fn]
      simp only [List.singleton_append, List.cons_append, List.nil_append, List.append_assoc]
      rw [wordsOk_cons, wordsOk_append, wordsOk_cons .rp, wordsOk_cons .arrow,
        wordsOk_sep ps (fun x hx => ih x (by have := size_lt_sizeL hx; omega) (identKeysL_mem hk.1 hx)),
        wordsOk_ret r (ih r (by omega) hk.2)]
      simp [wordsOk]
    | arr e =>
      simp only [size] at hs
      simp only [identKeys] at hk
      simp only [toks]
      split
      · simp [wordsOk]
      · simp only [List.singleton_append, List.cons_append, List.nil_append]
        rw [wordsOk_cons, wordsOk_append, ih e (by omega) hk]; simp [wordsOk]
    | tup es =>
      simp only [size] at hs
      simp only [identKeys] at hk
      simp only [toks, List.singleton_append, List.cons_append, List.nil_append]
      rw [wordsOk_cons, wordsOk_append,
        wordsOk_sep es (fun x hx => ih x (by have := size_lt_sizeL hx; omega) (identKeysL_mem hk hx))]
      simp [wordsOk]
    | multi ms =>
      simp only [size] at hs
      simp only [identKeys] at hk
      simp only [toks]
      exact wordsOk_bar ms (fun x hx => ih x (by have := size_lt_sizeL hx; omega) (identKeysL_mem hk hx))
    | cell e =>
      simp only [size] at hs
      simp only [identKeys] at hk
      rw [toks_cell]
      simp only [List.singleton_append]
      rw [wordsOk_cons, wordsOk_ret e (ih e (by omega) hk)]
      simp [wordsOk, k6]
    | struct fs =>
      simp only [size] at hs
      simp only [identKeys] at hk
      simp only [toks, List.singleton_append, List.cons_append, List.nil_append]
      rw [wordsOk_cons, wordsOk_cons .lc, wordsOk_append,
        wordsOk_fields fs (fun p hp => ⟨(identKeysF_mem hk hp).1,
          ih p.2 (by have := size_lt_sizeF (k := p.1) (x := p.2) (fs := fs) hp; omega) (identKeysF_mem hk hp).2⟩)]
      simp [wordsOk, k7]
    | bool => simp [toks, wordsOk, k1]
    | int => simp [toks, wordsOk, k2]
    | float => simp [toks, wordsOk, k3]
    | str => simp [toks, wordsOk, k4]
    | any => simp [toks, wordsOk, k5]
    | void => simp [toks, wordsOk]
    | never => simp [toks, wordsOk]

theorem wordsOk_toks (t : Ty) (hk : identKeys t = true) : wordsOk (toks t) = true :=
  wordsOk_toks_aux _ t (Nat.le_refl _) hk



theorem len_sep : ∀ es : List Ty, (∀ e ∈ es, size e + 1 ≤ 2 * (toks e).length) →
    sizeL es + 2 * es.length ≤ 2 * (toksSep es).length + 2
  | [], _ => by simp [toksSep, sizeL]
  | [e], h => by have := h e (by simp); simp [toksSep, sizeL]; omega
  | e :: e2 :: es, h => by
    have h1 := h e (by simp)
    have h2 := len_sep (e2 :: es) (fun x hx => h x (by simp [hx]))
    have : toksSep (e :: e2 :: es) = toks e ++ .comma :: toksSep (e2 :: es) := by simp [toksSep]
    rw [this]
    simp only [sizeL, List.length_cons, List.length_append] at h2 ⊢
    omega

theorem len_bar : ∀ es : List Ty, (∀ e ∈ es, size e + 1 ≤ 2 * (toks e).length) →
    sizeL es + 2 * es.length ≤ 2 * (toksBar es).length + 2
  | [], _ => by simp [toksBar, sizeL]
  | [e], h => by have := h e (by simp); simp [toksBar, sizeL]; omega
  | e :: e2 :: es, h => by
    have h1 := h e (by simp)
    have h2 := len_bar (e2 :: es) (fun x hx => h x (by simp [hx]))
    have : toksBar (e :: e2 :: es) = toks e ++ .bar :: toksBar (e2 :: es) := by simp [toksBar]
    rw [this]
    simp only [sizeL, List.length_cons, List.length_append] at h2 ⊢
    omega

theorem len_fields : ∀ fs : List (String × Ty), (∀ p ∈ fs, size p.2 + 1 ≤ 2 * (toks p.2).length) →
    sizeF fs ≤ 2 * (toksFields fs).length
  | [], _ => by simp [toksFields, sizeF]
  | [(k, t)], h => by have := h (k, t) (by simp); simp [toksFields, sizeF] at this ⊢; omega
  | (k, t) :: p2 :: fs, h => by
    have h1 := h (k, t) (by simp)
    have h2 := len_fields (p2 :: fs) (fun x hx => h x (by simp [hx]))
    have : toksFields ((k, t) :: p2 :: fs) = .word k :: .colon :: (toks t ++ .comma :: toksFields (p2 :: fs)) := by
      simp [toksFields]
    rw [this]
    simp only [sizeF, List.length_cons, List.length_append] at h1 h2 ⊢
    omega

theorem len_ret (r : Ty) : (toks r).length ≤ (retToks r).length := by
  unfold retToks
  split <;> simp <;> omega

/-- the printed token list is at least half as long as the type is big: the parser's fuel, taken from the number of
    tokens, is enough -/
theorem size_le_toks_aux : ∀ n : Nat, ∀ t : Ty, size t ≤ n → wf t = true → size t + 1 ≤ 2 * (toks t).length := by
  intro n
  induction n with
  | zero => intro t h; have := size_pos t; omega
  | succ n ih =>
    intro t hs hw
    cases t with
    | fn ps r =>
      simp only [size] at hs ⊢
      simp only [wf, Bool.and_eq_true] at hw
      have h1 := len_sep ps (fun x hx => ih x (by have := size_lt_sizeL hx; omega) (wfL_mem hw.1 hx))
      have h2 := ih r (by omega) hw.2
      have h3 := len_ret r
      rw [toks_fn]
      simp only [List.length_append, List.length_cons, List.length_nil]
      omega
    | arr e =>
      simp only [size] at hs ⊢
      simp only [wf] at hw
      simp only [toks]
      split
      · rename_i hn
        have := neverLike_wf e hw hn
        subst this
        simp [size]
      · have := ih e (by omega) hw
        simp only [List.length_append, List.length_cons, List.length_nil]
        omega
    | tup es =>
      simp only [size] at hs ⊢
      simp only [wf] at hw
      have h1 := len_sep es (fun x hx => ih x (by have := size_lt_sizeL hx; omega) (wfL_mem hw hx))
      simp only [toks, List.length_append, List.length_cons, List.length_nil]
      omega
    | multi ms =>
      simp only [size] at hs ⊢
      simp only [wf, Bool.and_eq_true, decide_eq_true_eq] at hw
      have h1 := len_bar ms (fun x hx => ih x (by have := size_lt_sizeL hx; omega) (wfL_mem hw.1.1.2 hx))
      simp only [toks]
      omega
    | cell e =>
      simp only [size] at hs ⊢
      simp only [wf] at hw
      have h2 := ih e (by omega) hw
      have h3 := len_ret e
      rw [toks_cell]
      simp only [List.length_append, List.length_cons, List.length_nil]
      omega
    | struct fs =>
      simp only [size] at hs ⊢
      simp only [wf, Bool.and_eq_true] at hw
      have h1 := len_fields fs (fun p hp => ih p.2 (by have := size_lt_sizeF (k := p.1) (x := p.2) (fs := fs) hp; omega)
        (wfF_mem hw.1 hp))
      simp only [toks, List.length_append, List.length_cons, List.length_nil]
      omega
    | _ => simp [toks, size]

theorem size_le_toks (t : Ty) (hw : wf t = true) : size t + 1 ≤ 2 * (toks t).length :=
  size_le_toks_aux _ t (Nat.le_refl _) hw


/-- **printing then parsing gives the type back, on text**: for every well-formed printable type whose struct keys are
    identifiers, the parser (lexer included, with the fuel the model's `parse` takes from the token count) run on the
    printed string returns exactly the type -/
theorem roundtrip_text (t : Ty) (hw : wf t = true) (hp : printable t = true) (hk : identKeys t = true) :
    parse (print t) = some t := by
  unfold parse print
  rw [lex_render (toks t) (adjOk_toks t) (wordsOk_toks t hk)]
  have hsz := size_le_toks t hw
  have := roundtrip_tokens t hw hp [] (by intro r h; cases h) (by intro r h; cases h)
    (12 * (toks t).length + 2) (by omega)
  simp only [List.append_nil] at this
  simp [this]

example : identKeys sampleTy = true := by
  simp [sampleTy, identKeys, identKeysL, identKeysF]; decide

example : parse (print sampleTy) = some sampleTy :=
  roundtrip_text sampleTy (by simp [sampleTy, wf, wfL, wfF, membersOk, nodupL, nodupKeys, memL, eqv])
    (by simp [sampleTy, printable, printableL, printableF, restricted])
    (by simp [sampleTy, identKeys, identKeysL, identKeysF]; decide)

end Ssl.C15
