/-
  Model of SimpleSL's scalar integer operators (src/instruction/bin_op/**, prefix_op.rs).
  Import-free.  The *shape* of every operator (which guard raises which error, which
  Rust intrinsic computes the result) is data (`IntOp`), regenerated from the Rust
  sources by tools/translate.py into `SslModel/Gen/ScalarOps.lean`; the *meaning* of
  each intrinsic is defined here once, over `BitVec 64`.
-/
namespace Ssl

abbrev I64 := BitVec 64

/-- The six run-time errors (src/errors/exec_error.rs). -/
inductive ExecErr where
  | IndexOutOfBounds | NegativeLength | NegativeExponent
  | ZeroDivision | ZeroModulo | OverflowShift
  deriving DecidableEq, Repr, Inhabited

def ExecErr.name : ExecErr → String
  | .IndexOutOfBounds => "IndexOutOfBounds" | .NegativeLength => "NegativeLength"
  | .NegativeExponent => "NegativeExponent" | .ZeroDivision => "ZeroDivision"
  | .ZeroModulo => "ZeroModulo" | .OverflowShift => "OverflowShift"

/-- Guards an integer arm can carry (`if exp < 0`, `(_, Variable::Int(0))`,
    `!(0..=63).contains(rhs)`). -/
inductive Guard where
  | rhsZero | rhsNegative | rhsOutside0to63
  deriving DecidableEq, Repr

/-- Right-hand sides of the `(Variable::Int(a), Variable::Int(b))` arms the translator
    recognises.  One constructor per Rust spelling. -/
inductive IntExpr where
  | wrappingAdd | wrappingSub | wrappingMul | wrappingDiv | wrappingRem
  | wrappingPowU32      -- `a.wrapping_pow(b as u32)`
  | powSqMulU64         -- `wrapping_pow_u64(a, b as u64)` square-and-multiply helper
  | shl | shr           -- `a << b`, `a >> b` on i64
  | band | bor | bxor
  | lt | le | gt | ge
  deriving DecidableEq, Repr

inductive UnExpr where
  | wrappingNeg | bitNot
  deriving DecidableEq, Repr

structure IntOp where
  guards : List (Guard × ExecErr)
  body : IntExpr
  deriving DecidableEq, Repr

inductive Scalar where
  | int (v : I64) | bool (b : Bool)
  deriving DecidableEq, Repr

def Guard.holds (g : Guard) (b : I64) : Bool :=
  match g with
  | .rhsZero => b == 0
  | .rhsNegative => b.slt 0
  | .rhsOutside0to63 => b.slt 0 || (63 : I64).slt b

/-- The loop of the `wrapping_pow_u64` helper in pow.rs (after the fix), as written:
    ```
    let mut acc = 1; while exp > 0 { if exp & 1 == 1 { acc = acc.wrapping_mul(base) }
                                     base = base.wrapping_mul(base); exp >>= 1 } acc
    ```
    64 iterations of fuel suffice because `exp < 2^64`. -/
def sqMulLoop : Nat → I64 → I64 → Nat → I64
  | 0, acc, _, _ => acc
  | fuel + 1, acc, base, exp =>
    if exp = 0 then acc
    else sqMulLoop fuel (if exp % 2 = 1 then acc * base else acc) (base * base) (exp / 2)

def powSqMulU64Val (a b : I64) : I64 := sqMulLoop 64 1 a b.toNat

/-- Rust `i64::wrapping_pow(self, exp: u32)` is the same exponentiation by squaring with wrapping
    multiplication, on the exponent truncated to 32 bits by the `as u32` cast. -/
def wrappingPowU32Val (a b : I64) : I64 := sqMulLoop 32 1 a (b.toNat % 2 ^ 32)

def IntExpr.eval (e : IntExpr) (a b : I64) : Scalar :=
  match e with
  | .wrappingAdd => .int (a + b)
  | .wrappingSub => .int (a - b)
  | .wrappingMul => .int (a * b)
  | .wrappingDiv => .int (a.sdiv b)
  | .wrappingRem => .int (a.srem b)
  | .wrappingPowU32 => .int (wrappingPowU32Val a b)
  | .powSqMulU64 => .int (powSqMulU64Val a b)
  | .shl => .int (a <<< b.toNat)
  | .shr => .int (a.sshiftRight b.toNat)
  | .band => .int (a &&& b)
  | .bor => .int (a ||| b)
  | .bxor => .int (a ^^^ b)
  | .lt => .bool (a.slt b)
  | .le => .bool (a.sle b)
  | .gt => .bool (b.slt a)
  | .ge => .bool (b.sle a)

def UnExpr.eval (e : UnExpr) (a : I64) : I64 :=
  match e with
  | .wrappingNeg => -a
  | .bitNot => ~~~a

def firstError : List (Guard × ExecErr) → I64 → Option ExecErr
  | [], _ => none
  | (g, e) :: rest, b => if g.holds b then some e else firstError rest b

/-- Meaning of an operator description: guards in source order, then the arm. -/
def IntOp.interp (op : IntOp) (a b : I64) : Except ExecErr Scalar :=
  match firstError op.guards b with
  | some e => .error e
  | none => .ok (op.body.eval a b)

/-- Bool arms of `& | ^ !` (bitwise.rs, prefix_op.rs). -/
inductive BoolExpr where | band | bor | bxor deriving DecidableEq, Repr
def BoolExpr.eval : BoolExpr → Bool → Bool → Bool
  | .band, a, b => a && b
  | .bor, a, b => a || b
  | .bxor, a, b => a ^^ b

end Ssl
