import SslModel.Model.Seq
/-!
# C09 — indexing, slicing and len agree for all sequences and indices

`Ssl.Seq` models `at::exec` and slyce 0.3.1's `Slice::indices` (with the index conversion done
in `Slicing::exec`) over positions; `pyIndices` is CPython's `PySlice_AdjustIndices` + `range`.
Statements hold for every length `n`, every index and every optional start/stop/step in `Int`.
-/
namespace Ssl.C09
open Ssl.Seq

theorem at_ok_iff (n : Nat) (i : Int) (k : Nat) :
    atIdx n i = some k ↔ (-(n : Int) ≤ i ∧ i < n ∧ (k : Int) = if 0 ≤ i then i else i + n) := by
  unfold atIdx
  by_cases h0 : 0 ≤ i
  · simp only [h0, if_true]
    by_cases h1 : i.toNat < n
    · simp only [h1, if_true, Option.some.injEq]; omega
    · simp only [h1, if_false]; constructor
      · intro h; cases h
      · intro h; omega
  · simp only [h0, if_false]
    by_cases h2 : (n : Int) + i < 0
    · simp only [h2, if_true]; constructor
      · intro h; cases h
      · intro h; omega
    · simp only [h2, if_false]
      by_cases h3 : ((n : Int) + i).toNat < n
      · simp only [h3, if_true, Option.some.injEq]; omega
      · omega

theorem at_err_iff (n : Nat) (i : Int) :
    atIdx n i = none ↔ ¬ (-(n : Int) ≤ i ∧ i < n) := by
  unfold atIdx
  by_cases h0 : 0 ≤ i
  · simp only [h0, if_true]
    by_cases h1 : i.toNat < n
    · simp only [h1, if_true]; constructor
      · intro h; cases h
      · intro h; omega
    · simp only [h1, if_false, true_iff]; omega
  · simp only [h0, if_false]
    by_cases h2 : (n : Int) + i < 0
    · simp only [h2, if_true, true_iff]; omega
    · simp only [h2, if_false]
      by_cases h3 : ((n : Int) + i).toNat < n
      · simp only [h3, if_true]; constructor
        · intro h; cases h
        · intro h; omega
      · omega

theorem slice_step_zero (n : Nat) (a b : Option Int) : sliceIdx n a b (some 0) = [] := by
  simp [sliceIdx, iter]

theorem iter_bounds (fuel : Nat) : ∀ (i stop step lo hi : Int),
    (0 < step → lo ≤ i ∧ stop ≤ hi) → (step < 0 → i < hi ∧ lo - 1 ≤ stop) →
    ∀ j ∈ iter fuel i stop step, lo ≤ j ∧ j < hi := by
  induction fuel with
  | zero => intro i stop step lo hi _ _ j hj; simp [iter] at hj
  | succ f ih =>
    intro i stop step lo hi hp hn j hj
    unfold iter at hj
    by_cases hs : step = 0
    · simp [hs] at hj
    · simp only [hs, if_false] at hj
      by_cases hge : step ≥ 0
      · simp only [hge, if_true] at hj
        by_cases hlt : i < stop
        · simp only [hlt, if_true, List.mem_cons] at hj
          have hpos : 0 < step := by omega
          rcases hj with rfl | hj
          · have := hp hpos; omega
          · exact ih (i + step) stop step lo hi (fun _ => by have := hp hpos; omega) (fun h => by omega) j hj
        · simp [hlt] at hj
      · simp only [hge, if_false] at hj
        by_cases hgt : i > stop
        · simp only [hgt, if_true, List.mem_cons] at hj
          have hneg : step < 0 := by omega
          rcases hj with rfl | hj
          · have := hn hneg; omega
          · exact ih (i + step) stop step lo hi (fun h => by omega) (fun _ => by have := hn hneg; omega) j hj
        · simp [hgt] at hj

theorem bound_pos (n : Nat) (v : Option Int) (st : Int) (h : 0 ≤ st) (isStart : Bool) :
    (toBound (toIndex v) n 0 n).getD (if isStart then 0 else n) = pyAdjust n v st isStart := by
  have hst : ¬ st < 0 := by omega
  cases v with
  | none => cases isStart <;> simp [toIndex, toBound, pyAdjust, hst]
  | some x =>
    simp only [toIndex, pyAdjust, hst, if_false]
    by_cases hx : x < 0
    · simp only [hx, if_true, toBound, Option.getD, clamp]
      split <;> omega
    · simp only [hx, if_false, toBound, Option.getD, clamp]
      split <;> omega

theorem bound_neg (n : Nat) (v : Option Int) (st : Int) (h : st < 0) (isStart : Bool) :
    (toBound (toIndex v) n (-1) ((n : Int) - 1)).getD (if isStart then (n : Int) - 1 else -1)
      = pyAdjust n v st isStart := by
  cases v with
  | none => cases isStart <;> simp [toIndex, toBound, pyAdjust, h]
  | some x =>
    simp only [toIndex, pyAdjust, h, if_true]
    by_cases hx : x < 0
    · simp only [hx, if_true, toBound, Option.getD, clamp]
      split <;> omega
    · simp only [hx, if_false, toBound, Option.getD, clamp]
      split <;> omega

/-- positions selected by a slice are valid positions: slicing never fails, whatever the bounds -/
theorem slice_in_range (n : Nat) (a b c : Option Int) :
    ∀ j ∈ sliceIdx n a b c, 0 ≤ j ∧ j < n := by
  intro j hj
  unfold sliceIdx at hj
  by_cases hst : c.getD 1 ≥ 0
  · simp only [hst, if_true] at hj
    have hs := bound_pos n a (c.getD 1) hst true
    have he := bound_pos n b (c.getD 1) hst false
    simp only [if_true, Bool.false_eq_true, if_false] at hs he
    rw [hs, he] at hj
    refine iter_bounds _ _ _ _ 0 n ?_ ?_ j hj
    · intro _
      constructor
      · unfold pyAdjust; split <;> (try split) <;> (try split) <;> (try split) <;> omega
      · unfold pyAdjust; split <;> (try split) <;> (try split) <;> (try split) <;> omega
    · intro h; omega
  · simp only [hst, if_false] at hj
    have hlt : c.getD 1 < 0 := by omega
    have hs := bound_neg n a (c.getD 1) hlt true
    have he := bound_neg n b (c.getD 1) hlt false
    simp only [if_true, Bool.false_eq_true, if_false] at hs he
    rw [hs, he] at hj
    refine iter_bounds _ _ _ _ 0 n ?_ ?_ j hj
    · intro h; omega
    · intro _
      constructor
      · unfold pyAdjust; split <;> (try split) <;> (try split) <;> (try split) <;> omega
      · unfold pyAdjust; split <;> (try split) <;> (try split) <;> (try split) <;> omega

/-! ## the positions selected are exactly Python's -/

theorem pyLen_pos_step (i stop step : Int) (hs : 0 < step) (hlt : i < stop) :
    pyLen i stop step = pyLen (i + step) stop step + 1 := by
  unfold pyLen
  have h1 : step > 0 := hs
  have h2 : ¬ (step < 0) := by omega
  simp only [h1, if_true, hlt]
  by_cases h3 : i + step < stop
  · simp only [h3, if_true]
    have : (stop - i - 1) = (stop - (i + step) - 1) + 1 * step := by omega
    rw [this, Int.add_mul_ediv_right _ _ (by omega)]
    have h0 : 0 ≤ (stop - (i + step) - 1) / step := Int.ediv_nonneg (by omega) (by omega)
    omega
  · simp only [h3, if_false]
    have : (stop - i - 1) / step = 0 := Int.ediv_eq_zero_of_lt (by omega) (by omega)
    rw [this]; rfl

theorem iter_pos (step stop : Int) (hs : 0 < step) : ∀ (fuel : Nat) (i : Int), pyLen i stop step ≤ fuel →
    iter fuel i stop step = (List.range (pyLen i stop step)).map fun (k : Nat) => i + (k : Int) * step := by
  intro fuel
  induction fuel with
  | zero =>
    intro i h
    have : pyLen i stop step = 0 := by omega
    simp [iter, this]
  | succ f ih =>
    intro i h
    unfold iter
    have h0 : ¬ step = 0 := by omega
    have h1 : step ≥ 0 := by omega
    simp only [h0, if_false, h1, if_true]
    by_cases hlt : i < stop
    · simp only [hlt, if_true]
      have hl := pyLen_pos_step i stop step hs hlt
      rw [ih (i + step) (by omega), hl, List.range_succ_eq_map]
      simp only [List.map_cons, List.map_map]
      congr 1
      · simp
      · apply List.map_congr_left
        intro k _
        simp only [Function.comp]
        have : ((k.succ : Nat) : Int) * step = (k : Int) * step + step := by
          have e : ((k.succ : Nat) : Int) = (k : Int) + 1 := by simp
          rw [e, Int.add_mul]; simp
        omega
    · simp only [hlt, if_false]
      have : pyLen i stop step = 0 := by
        unfold pyLen
        have h1' : step > 0 := hs
        simp [h1', hlt]
      simp [this]

theorem pyLen_neg_step (i stop step : Int) (hs : step < 0) (hgt : stop < i) :
    pyLen i stop step = pyLen (i + step) stop step + 1 := by
  unfold pyLen
  have h1 : ¬ (step > 0) := by omega
  simp only [h1, if_false, hs, if_true, hgt]
  by_cases h3 : stop < i + step
  · simp only [h3, if_true]
    have : (i - stop - 1) = (i + step - stop - 1) + 1 * (-step) := by omega
    rw [this, Int.add_mul_ediv_right _ _ (by omega)]
    have h0 : 0 ≤ (i + step - stop - 1) / (-step) := Int.ediv_nonneg (by omega) (by omega)
    omega
  · simp only [h3, if_false]
    have : (i - stop - 1) / (-step) = 0 := Int.ediv_eq_zero_of_lt (by omega) (by omega)
    rw [this]; rfl

theorem iter_neg (step stop : Int) (hs : step < 0) : ∀ (fuel : Nat) (i : Int), pyLen i stop step ≤ fuel →
    iter fuel i stop step = (List.range (pyLen i stop step)).map fun (k : Nat) => i + (k : Int) * step := by
  intro fuel
  induction fuel with
  | zero =>
    intro i h
    have : pyLen i stop step = 0 := by omega
    simp [iter, this]
  | succ f ih =>
    intro i h
    unfold iter
    have h0 : ¬ step = 0 := by omega
    have h1 : ¬ step ≥ 0 := by omega
    simp only [h0, if_false, h1]
    by_cases hgt : i > stop
    · simp only [hgt, if_true]
      have hl := pyLen_neg_step i stop step hs hgt
      rw [ih (i + step) (by omega), hl, List.range_succ_eq_map]
      simp only [List.map_cons, List.map_map]
      congr 1
      · simp
      · apply List.map_congr_left
        intro k _
        simp only [Function.comp]
        have : ((k.succ : Nat) : Int) * step = (k : Int) * step + step := by
          have e : ((k.succ : Nat) : Int) = (k : Int) + 1 := by simp
          rw [e, Int.add_mul]; simp
        omega
    · simp only [hgt, if_false]
      have : pyLen i stop step = 0 := by
        unfold pyLen
        have h1' : ¬ step > 0 := by omega
        have h2 : ¬ stop < i := by omega
        simp [h1', hs, h2]
      simp [this]

theorem pyAdjust_range_pos (n : Nat) (v : Option Int) (st : Int) (h : 0 ≤ st) (b : Bool) :
    0 ≤ pyAdjust n v st b ∧ pyAdjust n v st b ≤ n := by
  unfold pyAdjust; split <;> (try split) <;> (try split) <;> (try split) <;> omega

theorem pyAdjust_range_neg (n : Nat) (v : Option Int) (st : Int) (h : st < 0) (b : Bool) :
    -1 ≤ pyAdjust n v st b ∧ pyAdjust n v st b ≤ (n : Int) - 1 := by
  unfold pyAdjust; split <;> (try split) <;> (try split) <;> (try split) <;> omega

theorem pyLen_le (s e st : Int) (lo hi : Int) (hs : lo ≤ s ∧ s ≤ hi) (he : lo ≤ e ∧ e ≤ hi) :
    (pyLen s e st : Int) ≤ hi - lo := by
  unfold pyLen
  by_cases h1 : st > 0
  · simp only [h1, if_true]
    split
    · have := Int.ediv_le_self (a := e - s - 1) st (by omega)
      have h0 : 0 ≤ (e - s - 1) / st := Int.ediv_nonneg (by omega) (by omega)
      omega
    · simp; omega
  · simp only [h1, if_false]
    by_cases h2 : st < 0
    · simp only [h2, if_true]
      split
      · have := Int.ediv_le_self (a := s - e - 1) (-st) (by omega)
        have h0 : 0 ≤ (s - e - 1) / (-st) := Int.ediv_nonneg (by omega) (by omega)
        omega
      · simp; omega
    · simp [h2]; omega

/-- **slicing selects exactly the positions Python's slice selects** (step 0 selects nothing) -/
theorem slice_eq_python (n : Nat) (a b c : Option Int) : sliceIdx n a b c = pyIndices n a b c := by
  unfold sliceIdx pyIndices
  by_cases hz : c.getD 1 = 0
  · simp [hz, iter]
  · simp only [hz, if_false]
    by_cases hst : c.getD 1 ≥ 0
    · have hpos : 0 < c.getD 1 := by omega
      simp only [hst, if_true]
      have hs := bound_pos n a (c.getD 1) hst true
      have he := bound_pos n b (c.getD 1) hst false
      simp only [if_true, Bool.false_eq_true, if_false] at hs he
      rw [hs, he]
      apply iter_pos _ _ hpos
      have := pyLen_le (pyAdjust n a (c.getD 1) true) (pyAdjust n b (c.getD 1) false) (c.getD 1) 0 n
        (pyAdjust_range_pos n a _ hst true) (pyAdjust_range_pos n b _ hst false)
      omega
    · have hneg : c.getD 1 < 0 := by omega
      simp only [hst, if_false]
      have hs := bound_neg n a (c.getD 1) hneg true
      have he := bound_neg n b (c.getD 1) hneg false
      simp only [if_true, Bool.false_eq_true, if_false] at hs he
      rw [hs, he]
      apply iter_neg _ _ hneg
      have := pyLen_le (pyAdjust n a (c.getD 1) true) (pyAdjust n b (c.getD 1) false) (c.getD 1) (-1) ((n : Int) - 1)
        (pyAdjust_range_neg n a _ hneg true) (pyAdjust_range_neg n b _ hneg false)
      omega

end Ssl.C09
