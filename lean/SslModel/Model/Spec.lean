import SslModel.Model.Val
import SslModel.Model.Seq
import SslModel.Gen.ScalarOps
/-!
  `Spec`: the reference semantics of SimpleSL — an environment-passing big-step evaluator with
  fuel, a store for mutable cells, signals for break / continue / return, closures that snapshot
  their environment (capture by value) and iterator operators defined by the same helper programs
  the implementation parses from source text (map.rs, filter.rs, iter.rs, type_filter.rs,
  stdlib/operators.rs).

  Expressions cannot change the environment: `eval` returns no environment, only the statement
  sequencer `evalSeq` extends the innermost frame.  Integer arithmetic goes through the operator
  descriptions regenerated from the Rust sources (`Gen.*`).
-/
namespace Ssl.Spec
open Ssl

structure St where
  cells : Array Val := #[]
  nextId : Nat := 1000
  deriving Inhabited

inductive Sig where
  | brk | cont
  | ret (v : Val)
  | err (e : ExecErr)
  | wrong (why : String)      -- what the implementation can only answer with a panic
  | fuel
  deriving Inhabited

abbrev M (α : Type) := St → (Except Sig α × St)

instance : Monad M where
  pure a := fun s => (.ok a, s)
  bind m f := fun s => match m s with
    | (.ok a, s') => f a s'
    | (.error e, s') => (.error e, s')

def throwS {α} (e : Sig) : M α := fun s => (.error e, s)
def wrong {α} (why : String) : M α := throwS (.wrong why)
def tryCatchS {α} (m : M α) (h : Sig → M α) : M α := fun s => match m s with
  | (.ok a, s') => (.ok a, s')
  | (.error e, s') => h e s'
def getSt : M St := fun s => (.ok s, s)
def setSt (s : St) : M Unit := fun _ => (.ok (), s)
def liftE {α} (r : Except Sig α) : M α := fun s => (r, s)

abbrev Frame := List (String × Val)
abbrev Env := List Frame

def frameLookup (x : String) : Frame → Option Val
  | [] => none
  | (k, v) :: rest => if k == x then some v else frameLookup x rest

def Env.lookup (env : Env) (x : String) : Option Val :=
  match env with
  | [] => none
  | f :: rest => match frameLookup x f with
    | some v => some v
    | none => Env.lookup rest x

/-- declare in the innermost frame (a later declaration shadows an earlier one) -/
def Env.insert (env : Env) (x : String) (v : Val) : Env :=
  match env with
  | [] => [[(x, v)]]
  | f :: rest => ((x, v) :: f) :: rest

/-- what a closure created now captures: everything visible, innermost first -/
def Env.snapshot (env : Env) : Frame := env.flatten

def newCell (ty : Ty) (v : Val) : M Val := fun s =>
  (.ok (.cell s.cells.size ty), { s with cells := s.cells.push v })

def readCell (loc : Nat) : M Val := fun s =>
  match s.cells[loc]? with
  | some v => (.ok v, s)
  | none => (.error (.wrong "dangling cell"), s)

def writeCell (loc : Nat) (v : Val) : M Unit := fun s =>
  if loc < s.cells.size then (.ok (), { s with cells := s.cells.set! loc v })
  else (.error (.wrong "dangling cell"), s)

def freshId : M Nat := fun s => (.ok s.nextId, { s with nextId := s.nextId + 1 })

/-! ### equality (`PartialEq for Variable`): by content; functions and cells by identity.
    Arrays compare their elements only (the stored element type is a tag), structs as maps. -/
set_option linter.unusedSimpArgs false in
mutual
def veq : Val → Val → Bool
  | .bool a, .bool b => a == b
  | .int a, .int b => a == b
  | .float a, .float b => F64.feq a b
  | .str a, .str b => a == b
  | .unit, .unit => true
  | .arr _ as, .arr _ bs => veqL as bs
  | .tup as, .tup bs => veqL as bs
  | .struct fa, .struct fb => fa.length == fb.length && veqF fa fb
  | .cell a _, .cell b _ => a == b
  | .fn a .., .fn b .. => a == b
  | _, _ => false
termination_by a b => Val.size a + Val.size b
decreasing_by all_goals (simp only [Val.size, Val.sizeL, Val.sizeF]; omega)
def veqL : List Val → List Val → Bool
  | [], [] => true
  | a :: as, b :: bs => veq a b && veqL as bs
  | _, _ => false
termination_by as bs => Val.sizeL as + Val.sizeL bs
decreasing_by all_goals (simp only [Val.size, Val.sizeL, Val.sizeF]; omega)
/-- every field of the first map is in the second with an equal value (`HashMap` equality, given
    equal sizes) -/
def veqF : List (String × Val) → List (String × Val) → Bool
  | [], _ => true
  | (k, v) :: fa, fb => veqField k v fb && veqF fa fb
termination_by fa fb => Val.sizeF fa + Val.sizeF fb
decreasing_by all_goals (simp only [Val.size, Val.sizeL, Val.sizeF]; omega)
def veqField (k : String) (v : Val) : List (String × Val) → Bool
  | [] => false
  | (k', w) :: fb => if k == k' then veq v w else veqField k v fb
termination_by fb => Val.size v + Val.sizeF fb
decreasing_by all_goals (simp only [Val.size, Val.sizeL, Val.sizeF]; omega)
end

/-! ### `Variable::of_type`: the default value used by `~` and `? T` after exhaustion.
    For a union the implementation takes the first member in hash order; here: list order. -/
partial def ofType : Ty → Option Val
  | .bool => some (.bool false) | .int => some (.int 0) | .float => some (.float F64.zero)
  | .str => some (.str "") | .void => some .unit | .any => some .unit | .never => none
  | .fn ps r => (ofType r).map fun v =>
      .fn 0 ((ps.zipIdx).map fun (p : Ty × Nat) => (s!"p{p.2}", p.1)) r [.ret (some (.var "$returned"))]
        [("$returned", v)] none
  | .arr e => some (.arr e [])
  | .tup es => (es.mapM ofType).map .tup
  | .multi ms => ms.head?.bind ofType
  | .cell e => none          -- a fresh cell needs the store; handled by the caller
  | .struct fs => (fs.mapM fun (p : String × Ty) => (ofType p.2).map fun v => (p.1, v)).map .struct

/-! ### scalar and sequence operators (the `exec` functions of bin_op/**) -/
def ofScalar : Except ExecErr Scalar → Except Sig Val
  | .ok (.int v) => .ok (.int v)
  | .ok (.bool b) => .ok (.bool b)
  | .error e => .error (.err e)

def concatArrays (t1 : Ty) (a : List Val) (t2 : Ty) (b : List Val) : Val :=
  if a.isEmpty then .arr t2 b else if b.isEmpty then .arr t1 a else .arr (Ty.concat t1 t2) (a ++ b)

def binScalar (op : BinOp) (a b : Val) : Except Sig Val :=
  match op, a, b with
  | .add, .int x, .int y => ofScalar (Gen.add.interp x y)
  | .add, .float x, .float y => .ok (.float (F64.fadd x y))
  | .add, .str x, .str y => .ok (.str (x ++ y))
  | .add, .arr t1 x, .arr t2 y => .ok (concatArrays t1 x t2 y)
  | .sub, .int x, .int y => ofScalar (Gen.subtract.interp x y)
  | .sub, .float x, .float y => .ok (.float (F64.fsub x y))
  | .mul, .int x, .int y => ofScalar (Gen.multiply.interp x y)
  | .mul, .float x, .float y => .ok (.float (F64.fmul x y))
  | .div, .int x, .int y => ofScalar (Gen.divide.interp x y)
  | .div, .float x, .float y => .ok (.float (F64.fdiv x y))
  | .mod, .int x, .int y => ofScalar (Gen.modulo.interp x y)
  | .pow, .int x, .int y => ofScalar (Gen.pow.interp x y)
  | .pow, .float x, .float y => .ok (.float (F64.fpow x y))
  | .gt, .int x, .int y => ofScalar (Gen.greater.interp x y)
  | .ge, .int x, .int y => ofScalar (Gen.greater_equal.interp x y)
  | .lt, .int x, .int y => ofScalar (Gen.lower.interp x y)
  | .le, .int x, .int y => ofScalar (Gen.lower_equal.interp x y)
  | .gt, .float x, .float y => .ok (.bool (F64.flt y x))
  | .ge, .float x, .float y => .ok (.bool (F64.fle y x))
  | .lt, .float x, .float y => .ok (.bool (F64.flt x y))
  | .le, .float x, .float y => .ok (.bool (F64.fle x y))
  | .eq, x, y => .ok (.bool (veq x y))
  | .ne, x, y => .ok (.bool (!veq x y))
  | .band, .int x, .int y => ofScalar (Gen.bitwise_and.interp x y)
  | .bor, .int x, .int y => ofScalar (Gen.bitwise_or.interp x y)
  | .bxor, .int x, .int y => ofScalar (Gen.xor.interp x y)
  | .band, .bool x, .bool y => .ok (.bool (x && y))
  | .bor, .bool x, .bool y => .ok (.bool (x || y))
  | .bxor, .bool x, .bool y => .ok (.bool (x ^^ y))
  | .shl, .int x, .int y => ofScalar (Gen.lshift.interp x y)
  | .shr, .int x, .int y => ofScalar (Gen.rshift.interp x y)
  | _, _, _ => .error (.wrong "binary operator applied to operands of the wrong kind")

def assignBase : AssignOp → Option BinOp
  | .set => none | .add => some .add | .sub => some .sub | .mul => some .mul | .div => some .div
  | .mod => some .mod | .pow => some .pow | .shl => some .shl | .shr => some .shr
  | .band => some .band | .bor => some .bor | .bxor => some .bxor

def atVal (s : Val) (i : Val) : Except Sig Val :=
  match s, i with
  | .arr _ es, .int i =>
    match Seq.atIdx es.length i.toInt with
    | some k => match es[k]? with
      | some v => .ok v
      | none => .error (.err .IndexOutOfBounds)
    | none => .error (.err .IndexOutOfBounds)
  | .str s, .int i =>
    let cs := s.toList
    match Seq.atIdx cs.length i.toInt with
    | some k => match cs[k]? with
      | some c => .ok (.str (String.singleton c))
      | none => .error (.err .IndexOutOfBounds)
    | none => .error (.err .IndexOutOfBounds)
  | _, _ => .error (.wrong "indexing applied to operands of the wrong kind")

def optIdx : Option Val → Except Sig (Option Int)
  | none => .ok none
  | some (.int i) => .ok (some i.toInt)
  | some _ => .error (.wrong "slice bound is not an int")

def sliceVal (s : Val) (a b c : Option Val) : Except Sig Val := do
  let a ← optIdx a
  let b ← optIdx b
  let c ← optIdx c
  match s with
  | .arr _ es => .ok (Val.mkArray (Seq.slice es a b c))
  | .str s => .ok (.str (String.ofList (Seq.slice s.toList a b c)))
  | _ => .error (.wrong "slicing applied to an operand of the wrong kind")

def preScalar (op : PreOp) (v : Val) : Except Sig Val :=
  match op, v with
  | .not, .bool b => .ok (.bool (!b))
  | .not, .int i => .ok (.int (Gen.not.eval i))
  | .neg, .int i => .ok (.int (Gen.unary_minus.eval i))
  | .neg, .float f => .ok (.float (F64.fneg f))
  | _, _ => .error (.wrong "prefix operator applied to an operand of the wrong kind")

/-! ### helper closures, transcribed from the source texts the implementation parses
    (`tools/translate.py helpers` checks that those texts are still the pinned ones) -/
def E_true : Expr := .litBool true
def E_false : Expr := .litBool false

/-- body of the closure returned by ITER (unary_operation/iter.rs); captured: `i`, `len`,
    `array`, `default` -/
def iterBody : List Expr :=
  [ .assign .add (.var "i") (.litInt 1),
    .ifElse (.bin .lt (.pre .deref (.var "i")) (.var "len"))
      (.block [.ret (some (.tuple [E_true, .at (.var "array") (.pre .deref (.var "i"))]))]) none,
    .ret (some (.tuple [E_false, .var "default"])) ]

/-- body of the closure returned by MAP (bin_op/map.rs); captured: `func`, `mapper`, `default` -/
def mapBody : List Expr :=
  [ .set "res" (.call (.var "func") []),
    .destruct ["con", "value"] (.var "res"),
    .ifElse (.pre .not (.var "con")) (.ret (some (.tuple [E_false, .var "default"]))) none,
    .ret (some (.tuple [E_true, .call (.var "mapper") [.var "value"]])) ]

/-- body of the closure returned by FILTER (bin_op/filter.rs); captured: `func`, `predicate` -/
def filterBody : List Expr :=
  [ .loop (.block
      [ .set "res" (.call (.var "func") []),
        .destruct ["con", "value"] (.var "res"),
        .ifElse (.or (.pre .not (.var "con")) (.call (.var "predicate") [.var "value"]))
          (.ret (some (.var "res"))) none ]),
    .ret (some (.tuple [E_false, .litInt 0])) ]

/-- body of the closure built by type_filter.rs; captured: `iterator`, `default` -/
def typeFilterBody (t : Ty) : List Expr :=
  [ .loop (.block
      [ .set "res" (.call (.var "iterator") []),
        .destruct ["con", "value"] (.var "res"),
        .ifElse (.pre .not (.var "con")) (.ret (some (.tuple [E_false, .var "default"]))) none,
        .ifSet "value" t (.var "value") (.ret (some (.tuple [E_true, .var "value"]))) none ]),
    .ret (some (.tuple [E_false, .var "default"])) ]

def tyIterOf (e : Ty) : Ty := .fn [] (.tup [.bool, e])

/-! ### the evaluator -/

def asBool : Val → Except Sig Bool
  | .bool b => .ok b
  | _ => .error (.wrong "bool expected")

/-- the environment a function body runs in: parameters (later ones shadow earlier ones), the
    function's own name if it was declared with one, and the captured snapshot — nothing else -/
def calleeEnv (fv : Val) (ps : List (String × Ty)) (cap : Frame) (self : Option String)
    (args : List Val) : Env :=
  [((List.zip (ps.map (·.1)) args)).reverse ++ (match self with
      | some x => [(x, fv)]
      | none => []), cap]

/-- names declared directly in a frame, latest declaration of each name only -/
def frameFields (f : Frame) : List (String × Val) :=
  f.foldl (fun acc (k, v) => if acc.any (fun p => p.1 == k) then acc else acc ++ [(k, v)]) []

mutual
/-- expressions; `set`, `destruct`, `fndecl` are handled by `evalStmt` -/
def eval : Nat → Env → Expr → M Val
  | 0, _, _ => throwS .fuel
  | f + 1, env, e =>
    match e with
    | .litBool b => pure (.bool b)
    | .litInt i => pure (.int (BitVec.ofInt 64 i))
    | .litFloat bits => pure (.float bits)
    | .litStr s => pure (.str s)
    | .litUnit => pure .unit
    | .var x => match env.lookup x with
      | some v => pure v
      | none => wrong s!"unbound variable {x}"
    | .array es => do
      let vs ← evalList f env es
      pure (Val.mkArray vs)
    | .arrayRepeat v n => do
      let v ← eval f env v
      let n ← eval f env n
      match n with
      | .int n =>
        if n.toInt < 0 then throwS (.err .NegativeLength)
        else pure (.arr v.asType (List.replicate n.toInt.toNat v))
      | _ => wrong "array length is not an int"
    | .tuple es => do
      let vs ← evalList f env es
      pure (.tup vs)
    | .struct fs => do
      let vs ← evalFields f env fs
      pure (.struct (frameFields vs.reverse))
    | .mutE ty e => do
      let v ← eval f env e
      newCell (ty.getD v.asType) v
    | .fn ps r body => do
      let id ← freshId
      pure (.fn id ps r body env.snapshot none)
    | .modE body => do
      let (_, env') ← evalSeq f ([] :: env) body
      match env' with
      | fr :: _ => pure (.struct (frameFields fr))
      | [] => wrong "module without frame"
    | .pre .deref e => do
      let v ← eval f env e
      match v with
      | .cell loc _ => readCell loc
      | _ => wrong "indirection of a non-cell"
    | .pre op e => do
      let v ← eval f env e
      liftE (preScalar op v)
    | .and a b => do
      let x ← eval f env a
      let x ← liftE (asBool x)
      if !x then pure (.bool false) else eval f env b
    | .or a b => do
      let x ← eval f env a
      let x ← liftE (asBool x)
      if x then pure (.bool true) else eval f env b
    | .bin .map a b => do
      let it ← eval f env a
      let g ← eval f env b
      match g.asType.returnType with
      | some r => do
        let d := (ofType r).getD .unit
        let id ← freshId
        pure (.fn id [] (.tup [.bool, r]) mapBody [("func", it), ("mapper", g), ("default", d)] none)
      | none => wrong "map with a non-function"
    | .bin .filter a b => do
      let it ← eval f env a
      let g ← eval f env b
      match it.asType.returnType with
      | some r => do
        let id ← freshId
        pure (.fn id [] r filterBody [("func", it), ("predicate", g)] none)
      | none => wrong "filter on a non-function"
    | .bin .partition a b => do
      let it ← eval f env a
      let g ← eval f env b
      let (l, r) ← partitionGo f it g [] []
      match it.asType.iterElement with
      | some t => pure (.tup [.arr t l, .arr t r])
      | none => wrong "partition on a non-iterator"
    | .bin op a b => do
      let x ← eval f env a
      let y ← eval f env b
      liftE (binScalar op x y)
    | .assign op target value => do
      let c ← eval f env target
      let v ← eval f env value
      match c with
      | .cell loc _ =>
        match assignBase op with
        | none => do writeCell loc v; pure v
        | some bop => do
          let cur ← readCell loc
          let r ← liftE (binScalar bop cur v)
          writeCell loc r
          pure r
      | _ => wrong "assignment to a non-cell"
    | .at a i => do
      let x ← eval f env a
      let y ← eval f env i
      liftE (atVal x y)
    | .slice a s e st => do
      let x ← eval f env a
      let s ← evalOpt f env s
      let e ← evalOpt f env e
      let st ← evalOpt f env st
      liftE (sliceVal x s e st)
    | .call g args => do
      let fv ← eval f env g
      let vs ← evalList f env args
      callFn f fv vs
    | .tacc e n => do
      let v ← eval f env e
      match v with
      | .tup es => match es[n]? with
        | some x => pure x
        | none => wrong "tuple index out of range"
      | _ => wrong "tuple access on a non-tuple"
    | .facc e k => do
      let v ← eval f env e
      match v with
      | .struct fs => match frameLookup k fs with
        | some x => pure x
        | none => wrong "missing field"
      | _ => wrong "field access on a non-struct"
    | .tfilter e t => do
      let it ← eval f env e
      let d := (ofType t).getD .unit
      let id ← freshId
      pure (.fn id [] (.tup [.bool, t]) (typeFilterBody t) [("iterator", it), ("default", d)] none)
    | .post .iter e => do
      let a ← eval f env e
      match a with
      | .arr t es => do
        let d := (ofType t).getD .unit
        let i ← newCell .int (.int (BitVec.ofInt 64 (-1)))
        let id ← freshId
        pure (.fn id [] (.tup [.bool, t]) iterBody
          [("i", i), ("len", .int (BitVec.ofNat 64 es.length)), ("array", a), ("default", d)] none)
      | _ => wrong "~ applied to a non-array"
    | .post .collect e => do
      let it ← eval f env e
      let vs ← collectGo f it []
      pure (Val.mkArray vs)
    | .post .sum e => do
      let it ← eval f env e
      let t := it.asType
      let init : Val :=
        if Ty.sub t (tyIterOf .int) then .int 0
        else if Ty.sub t (tyIterOf .float) then .float F64.zero else .str ""
      reduceGo f it init (.inl .add)
    | .post .product e => do
      let it ← eval f env e
      let t := it.asType
      let init : Val := if Ty.sub t (tyIterOf .int) then .int 1 else .float F64.one
      reduceGo f it init (.inl .mul)
    | .post .bitand e => do
      let it ← eval f env e
      reduceGo f it (.int (BitVec.ofInt 64 (-1))) (.inl .band)
    | .post .bitor e => do
      let it ← eval f env e
      reduceGo f it (.int 0) (.inl .bor)
    | .post .all e => do
      let it ← eval f env e
      boolGo f it true
    | .post .any e => do
      let it ← eval f env e
      boolGo f it false
    | .reduce it init g => do
      let it ← eval f env it
      let init ← eval f env init
      let g ← eval f env g
      reduceGo f it init (.inr g)
    | .block body => do
      let (v, _) ← evalSeq f ([] :: env) body
      pure v
    | .ifElse c t e => do
      let c ← eval f env c
      let c ← liftE (asBool c)
      if c then eval f env t
      else match e with
        | some e => eval f env e
        | none => pure .unit
    | .ifSet x ty e body els => do
      let v ← eval f env e
      if Ty.sub v.asType ty then eval f ([(x, v)] :: env) body
      else match els with
        | some e => eval f env e
        | none => pure .unit
    | .matchE e arms => do
      let v ← eval f env e
      evalArms f env v arms
    | .ret e => do
      let v ← (match e with
        | some e => eval f env e
        | none => pure .unit)
      throwS (.ret v)
    | .loop body => loopGo f env body
    | .while c body => whileGo f env c body
    | .whileSet x ty e body => whileSetGo f env x ty e body
    | .forE x it body => do
      let itv ← eval f env it
      forGo f ([("$iter", itv)] :: env) x itv body
    | .brk => throwS .brk
    | .cont => throwS .cont
    | .set .. => wrong "declaration in expression position"
    | .destruct .. => wrong "declaration in expression position"
    | .fndecl .. => wrong "declaration in expression position"
    | .native _ => wrong "native body evaluated directly"

def evalOpt : Nat → Env → Option Expr → M (Option Val)
  | 0, _, _ => throwS .fuel
  | _ + 1, _, none => pure none
  | f + 1, env, some e => do
    let v ← eval f env e
    pure (some v)

def evalList : Nat → Env → List Expr → M (List Val)
  | 0, _, _ => throwS .fuel
  | _ + 1, _, [] => pure []
  | f + 1, env, e :: es => do
    let v ← eval f env e
    let vs ← evalList f env es
    pure (v :: vs)

def evalFields : Nat → Env → List (String × Expr) → M (List (String × Val))
  | 0, _, _ => throwS .fuel
  | _ + 1, _, [] => pure []
  | f + 1, env, (k, e) :: es => do
    let v ← eval f env e
    let vs ← evalFields f env es
    pure ((k, v) :: vs)

/-- one statement of a statement list: the only place where the environment grows -/
def evalStmt : Nat → Env → Expr → M (Val × Env)
  | 0, _, _ => throwS .fuel
  | f + 1, env, s =>
    match s with
    | .set x e => do
      let v ← evalStmtValue f env e
      pure (v, env.insert x v)
    | .destruct xs e => do
      let v ← evalStmtValue f env e
      match v with
      | .tup vs => pure (v, (List.zip xs vs).foldl (fun en (x, w) => en.insert x w) env)
      | _ => wrong "destructuring a non-tuple"
    | .fndecl x ps r body => do
      let id ← freshId
      let fv := Val.fn id ps r body env.snapshot (some x)
      pure (fv, env.insert x fv)
    | e => do
      let v ← eval f env e
      pure (v, env)

/-- the right-hand side of `x := …` is a statement (`stm`), never itself a declaration -/
def evalStmtValue : Nat → Env → Expr → M Val
  | 0, _, _ => throwS .fuel
  | f + 1, env, e => eval f env e

/-- statement list: value of the last statement (`()` if empty), and the extended environment -/
def evalSeq : Nat → Env → List Expr → M (Val × Env)
  | 0, _, _ => throwS .fuel
  | _ + 1, env, [] => pure (.unit, env)
  | f + 1, env, [s] => evalStmt f env s
  | f + 1, env, s :: rest => do
    let (_, env') ← evalStmt f env s
    evalSeq f env' rest

/-- `Function::exec_with_args`: a fresh scope holding only the captured values, the function's
    own name (if declared) and the parameters; the body's value is discarded unless it `return`s -/
def callFn : Nat → Val → List Val → M Val
  | 0, _, _ => throwS .fuel
  | f + 1, fv, args =>
    match fv with
    | .fn _ ps _ body cap self =>
      match body with
      | [.native name] => nativeCall name args
      | _ =>
        let env : Env := calleeEnv fv ps cap self args
        tryCatchS (do let _ ← evalSeq f env body; pure Val.unit) fun s =>
          match s with
          | .ret v => pure v
          | .brk => wrong "break outside of loop"
          | .cont => wrong "continue outside of loop"
          | s => throwS s
    | _ => wrong "call of a non-function"

def nativeCall (name : String) (args : List Val) : M Val :=
  match name, args with
  | "len", [.arr _ es] => pure (.int (BitVec.ofNat 64 es.length))
  | "len", [.str s] => pure (.int (BitVec.ofNat 64 s.length))
  | _, _ => wrong s!"native function {name} is not modelled"

/-- one pull of an iterator: `(true, x)` ↦ `some x`, `(false, _)` ↦ `none` -/
def pull : Nat → Val → M (Option Val)
  | 0, _ => throwS .fuel
  | f + 1, it => do
    let r ← callFn f it []
    match r with
    | .tup [.bool true, x] => pure (some x)
    | .tup (.bool false :: _) => pure none
    | _ => wrong "iterator returned something that is not (bool, value)"

def collectGo : Nat → Val → List Val → M (List Val)
  | 0, _, _ => throwS .fuel
  | f + 1, it, acc => do
    let r ← pull f it
    match r with
    | some x => collectGo f it (x :: acc)
    | none => pure acc.reverse

def partitionGo : Nat → Val → Val → List Val → List Val → M (List Val × List Val)
  | 0, _, _, _, _ => throwS .fuel
  | f + 1, it, p, l, r => do
    let x ← pull f it
    match x with
    | some x => do
      let c ← callFn f p [x]
      match c with
      | .bool true => partitionGo f it p (x :: l) r
      | _ => partitionGo f it p l (x :: r)
    | none => pure (l.reverse, r.reverse)

/-- left fold; the combining step is a built-in operator (`$+ $* $& $|`) or a function value -/
def reduceGo : Nat → Val → Val → (BinOp ⊕ Val) → M Val
  | 0, _, _, _ => throwS .fuel
  | f + 1, it, acc, g => do
    let x ← pull f it
    match x with
    | some x => do
      let acc' ← (match g with
        | .inl op => liftE (binScalar op acc x)
        | .inr fv => callFn f fv [acc, x])
      reduceGo f it acc' g
    | none => pure acc

/-- `$&&` (`unit = true`) and `$||` (`unit = false`): stop at the first deciding element -/
def boolGo : Nat → Val → Bool → M Val
  | 0, _, _ => throwS .fuel
  | f + 1, it, unit => do
    let x ← pull f it
    match x with
    | some (.bool b) => if b == unit then boolGo f it unit else pure (.bool b)
    | some _ => wrong "bool reducer on a non-bool element"
    | none => pure (.bool unit)

def evalArms : Nat → Env → Val → List Arm → M Val
  | 0, _, _, _ => throwS .fuel
  | _ + 1, _, _, [] => wrong "no match arm covers the value"
  | f + 1, env, v, arm :: rest =>
    match arm with
    | .other body => eval f env body
    | .ty x t body =>
      if Ty.sub v.asType t then eval f ([(x, v)] :: env) body else evalArms f env v rest
    | .val cands body => do
      let hit ← candGo f env v cands
      if hit then eval f env body else evalArms f env v rest

/-- value candidates are evaluated top to bottom, left to right, until the first equal one -/
def candGo : Nat → Env → Val → List Expr → M Bool
  | 0, _, _, _ => throwS .fuel
  | _ + 1, _, _, [] => pure false
  | f + 1, env, v, c :: cs => do
    let w ← eval f env c
    if veq w v then pure true else candGo f env v cs

/-- run a loop body once: `true` = go on (normal end or `continue`), `false` = `break` -/
def bodyOnce : Nat → Env → Expr → M Bool
  | 0, _, _ => throwS .fuel
  | f + 1, env, body =>
    tryCatchS (do let _ ← eval f env body; pure true) fun s =>
      match s with
      | .brk => pure false
      | .cont => pure true
      | s => throwS s

def loopGo : Nat → Env → Expr → M Val
  | 0, _, _ => throwS .fuel
  | f + 1, env, body => do
    let go ← bodyOnce f env body
    if go then loopGo f env body else pure .unit

def whileGo : Nat → Env → Expr → Expr → M Val
  | 0, _, _, _ => throwS .fuel
  | f + 1, env, c, body => do
    let cv ← eval f env c
    let cv ← liftE (asBool cv)
    if cv then do
      let go ← bodyOnce f env body
      if go then whileGo f env c body else pure .unit
    else pure .unit

def whileSetGo : Nat → Env → String → Ty → Expr → Expr → M Val
  | 0, _, _, _, _, _ => throwS .fuel
  | f + 1, env, x, ty, e, body => do
    let v ← eval f env e
    if Ty.sub v.asType ty then do
      let go ← bodyOnce f ([(x, v)] :: env) body
      if go then whileSetGo f env x ty e body else pure .unit
    else pure .unit

def forGo : Nat → Env → String → Val → Expr → M Val
  | 0, _, _, _, _ => throwS .fuel
  | f + 1, env, x, it, body => do
    let r ← callFn f it []
    match r with
    | .tup [.bool c, v] =>
      if c then do
        let go ← bodyOnce f ([(x, v), ("$con", .bool c)] :: env) body
        if go then forGo f env x it body else pure .unit
      else pure .unit
    | _ => wrong "for over something that is not an iterator"
end

end Ssl.Spec
